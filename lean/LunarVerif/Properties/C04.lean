import LunarVerif.Proofs.C04
import LunarVerif.Proofs.C04Order
import LunarVerif.Proofs.C04Ref
/-!
# C04 — Flow execution follows the configured processor graph

Property theorems only (helpers live in `Proofs/C04*.lean`).

Model: `Model/FlowGraph.lean` (builder: `buildConnection` case analysis, `addEdge` de-duplication,
`getOrCreateNode`, root), `Model/FlowExec.lean` (walker: `Stream.ExecuteFlow` recursion with fuel,
`executeFlow`, `executeReq`, `executeRes`), `Model/C04.lean` (loader glue, system flows of quotas).
Spec: `Spec/C04.lean` — a reference interpreter over the YAML connection lists.

All theorems quantify over every processor vocabulary, every flow representation that the builder
accepts, every output oracle (assignment of outputs, early responses and errors to processors) and
every recursion bound `fuel` (both interpreters take the same bound, so the statements do not depend
on termination — that is C05's subject).

The findings F04a, F04b, F04d, F04e were repaired in /repo (`fixes/F04{a,b,d,e}.patch`); the model
mirrors the repaired code and the corresponding statements hold at full strength (their old
witnesses are regression cases `corpus/C04/regress-F04*.ops`).  One defect is still open — F04c: an
answering processor without a node in the response direction aborts the transaction with
"failed to get response node" — so the statements that involve an answering processor keep that
class as an explicit decidable hypothesis (`…_partial`, classifier `finding`) next to the witness
`shortcircuit_noresponsenode_witness` (`corpus/C04/F04c.ops`).
-/
namespace LunarVerif.C04
open LunarVerif.FlowGraph LunarVerif.FlowExec

/-! ## 1. The built graph is the graph of the connection list -/

/-- For every connection list the builder accepts: the root is the target of the last
    `stream start → processor` connection; a node exists exactly for the processors the list
    mentions; from node `k` on output `o` the walker follows exactly the reference successors
    (connection order, duplicates removed); the first edge of `k` is the first connection leaving `k`;
    every processor edge leads to an existing node. -/
theorem build_refines_connections (pts : List PType) (procs : List (String × String)) (d : Dir)
    (cs : List Conn) (g : DirGraph) (hb : buildConnections pts procs d {} cs = .ok g) :
    g.root = entry cs ∧
    (∀ k, (g.find k).isSome = mentioned cs k) ∧
    (∀ k n o, g.find k = some n → matchT o n.edges = succs cs k o) ∧
    (∀ k n, g.find k = some n → n.edges.head?.map (·.target) = (firstConn cs k).map toTarget) ∧
    (∀ k n e t, g.find k = some n → e ∈ n.edges → e.target = .node t → (g.find t).isSome = true) := by
  have h := build_inv hb
  exact ⟨h.root, find_isSome_eq h, fun k n o hn => node_succs h hn o, fun k n hn => first_edge h hn,
    fun k n e t hn he ht => edge_target_exists h hn he ht⟩

/-- non-vacuity: a fan-out with a duplicate connection and two stream entries builds; the duplicate
    is dropped and the last stream entry wins. -/
example :
    okVal (buildConnections [⟨"PA", [⟨"a", "any"⟩, ⟨"b", "any"⟩]⟩] [("A", "PA"), ("B", "PA"), ("C", "PA")] .req {}
      [⟨.stream "globalStream" "start", .proc "B" ""⟩, ⟨.stream "globalStream" "start", .proc "A" ""⟩,
       ⟨.proc "A" "a", .proc "B" ""⟩, ⟨.proc "A" "a", .proc "C" ""⟩, ⟨.proc "A" "a", .proc "B" ""⟩,
       ⟨.proc "B" "b", .stream "globalStream" "end"⟩])
    = some { root := some "A",
             nodes := [⟨"B", [⟨"b", .stream "globalStream" "end"⟩]⟩,
                       ⟨"A", [⟨"a", .node "B"⟩, ⟨"a", .node "C"⟩]⟩, ⟨"C", []⟩] } := by decide

/-! ## 2. The walk follows the graph (request direction without answering processors; response direction) -/

/-- **walk_refines_spec.**  For every flow the builder accepts, every oracle and every node `k` of the
    direction: if no processor answers the request itself (always the case in the response
    direction), the engine's walk from `k` produces exactly the reference interpreter's event
    sequence and outcome. -/
theorem walk_refines_spec (pts : List PType) (rep : FlowRep) (f : Flow) (o : Oracle) (d : Dir)
    (fuel : Nat) (k : String) (hb : buildFlow pts rep = .ok f) (hk : ((f.dir d).find k).isSome = true)
    (hna : d = .res ∨ ∀ k, (o rep.name k .req).early = false) :
    (walk f o d fuel k).trace = (swalk (sflowOf rep) o d fuel k).trace ∧
    (walk f o d fuel k).err = (swalk (sflowOf rep) o d fuel k).err ∧
    (walk f o d fuel k).sc = none := by
  have hrel := walk_rel (built_of_buildFlow hb) o d fuel k hk
  have hno : NoAnswer (sflowOf rep) o d := by
    rcases hna with rfl | h
    · exact noAnswer_res _ o
    · intro k
      have := h k
      cases d <;> simp [sflowOf, this]
  have := rel_nostop hrel (swalk_nostop hno fuel k)
  exact ⟨this.1, this.2.2, this.2.1⟩

/-- **walk_refines_spec_partial.**  With answering processors: the walks agree (events, outcome, and
    the short-circuit node equals the answering processor; in particular nothing of the request
    path runs after a processor answered, also inside a fan-out) whenever the run is outside
    the class F04c (the answering processor has a node in the response direction). -/
theorem walk_refines_spec_partial (pts : List PType) (rep : FlowRep) (f : Flow) (o : Oracle) (d : Dir)
    (fuel : Nat) (k : String) (hb : buildFlow pts rep = .ok f) (hk : ((f.dir d).find k).isSome = true)
    (hc04 : ∀ a, (swalk (sflowOf rep) o d fuel k).stop = some a → mentioned rep.res a = true) :
    (walk f o d fuel k).trace = (swalk (sflowOf rep) o d fuel k).trace ∧
    (walk f o d fuel k).err = (swalk (sflowOf rep) o d fuel k).err ∧
    (walk f o d fuel k).sc = (swalk (sflowOf rep) o d fuel k).stop := by
  obtain ⟨htr, hrest⟩ := walk_rel (built_of_buildFlow hb) o d fuel k hk
  have hok := sok_swalk (sflowOf rep) o d fuel k
  cases hs : (swalk (sflowOf rep) o d fuel k).stop with
  | none =>
    rw [hs] at hrest
    exact ⟨htr, hrest.2, hrest.1⟩
  | some a =>
    rw [hs] at hrest
    simp only [hc04 a hs, if_true] at hrest
    have : (swalk (sflowOf rep) o d fuel k).err = none := hok (by simp [hs])
    exact ⟨htr, by rw [hrest.2, this], hrest.1⟩

/-! concrete inputs for the witnesses (the same configurations are in `corpus/C04/*.ops`) -/

def wPU : PType := ⟨"PU", [⟨"", "any"⟩]⟩
def wPG : PType := ⟨"PG", [⟨"", "res"⟩]⟩
def wS : End := .stream "globalStream" "start"
def wE : End := .stream "globalStream" "end"
/-- processor `G` answers the request; everything else emits its unnamed output -/
def wOracle : Oracle := fun _ k d => if k == "G" && d == .req then { early := true } else {}

/-- former F04b: `A → G`, `A → B` (fan-out), `G` answers -/
def wRepB : FlowRep :=
  ⟨"f1", [("A", "PU"), ("G", "PG"), ("B", "PU")],
   [⟨wS, .proc "A" ""⟩, ⟨.proc "A" "", .proc "G" ""⟩, ⟨.proc "A" "", .proc "B" ""⟩, ⟨.proc "B" "", wE⟩],
   [⟨.proc "G" "", wE⟩]⟩

/-- non-vacuity (and regression of F04b): in the fan-out `A → {G, B}` the walk stops when `G`
    answers — `B` does not run — and `G` is returned as the short-circuit node. -/
example :
    (okVal (buildFlow [wPU, wPG] wRepB)).map (fun f => ((walk f wOracle .req 5 "A").trace, (walk f wOracle .req 5 "A").sc))
      = some ([.exec "f1" "A" .req {}, .exec "f1" "G" .req { early := true }], some "G") := by decide

/-! ## 3. The response continuation after a short-circuit -/

/-- **shortcircuit_continues.**  After processor `k` answered the request, the engine's response
    walk of that flow (`executeFlow` started from the short-circuit node `k`, a node of the response
    direction) equals the reference continuation: the walk from the first response connection
    leaving `k` — whether or not the response direction has a stream entry; no such connection, or a
    connection to the stream, ends the walk. -/
theorem shortcircuit_continues (pts : List PType) (rep : FlowRep) (f : Flow) (o : Oracle)
    (fuel : Nat) (k : String) (hb : buildFlow pts rep = .ok f)
    (hk : (f.res.find k).isSome = true) :
    (executeFlow f o .res fuel (some k)).trace = (scontinue (sflowOf rep) o fuel k).trace ∧
    (executeFlow f o .res fuel (some k)).err = (scontinue (sflowOf rep) o fuel k).err := by
  have hb' := built_of_buildFlow hb
  exact continue_eq hb' o fuel k (by rw [← find_isSome_eq hb'.res]; exact hk)

/-- former F04a: request `A → G`; response `G → P → end` WITHOUT stream entry -/
def wCfgA : Cfg :=
  { ptypes := [wPU, wPG]
    flows := [⟨.user, ⟨"f1", [("A", "PU"), ("G", "PG"), ("P", "PU")],
      [⟨wS, .proc "A" ""⟩, ⟨.proc "A" "", .proc "G" ""⟩],
      [⟨.proc "G" "", .proc "P" ""⟩, ⟨.proc "P" "", wE⟩]⟩⟩] }

/-- former F04d: response `start → R → G`, `G` without outgoing connection -/
def wCfgD : Cfg :=
  { ptypes := [wPU, wPG]
    flows := [⟨.user, ⟨"f1", [("A", "PU"), ("G", "PG"), ("R", "PU")],
      [⟨wS, .proc "A" ""⟩, ⟨.proc "A" "", .proc "G" ""⟩],
      [⟨wS, .proc "R" ""⟩, ⟨.proc "R" "", .proc "G" ""⟩]⟩⟩] }

/-- the model's answer for a whole configuration (`none` = rejected by the loader) -/
def modelTxn (c : Cfg) (order : List String) (o : Oracle) (d : Dir) (fuel : Nat) :
    Option (List Event × Option ExecErr) :=
  match load c order with
  | .ok l => some ((transaction l.selected o fuel d).trace, (transaction l.selected o fuel d).err)
  | .error _ => none

def specTxn (c : Cfg) (order : List String) (o : Oracle) (d : Dir) (fuel : Nat) :
    List Event × Option ExecErr :=
  ((stxn (specCfg c order) o fuel d).trace, (stxn (specCfg c order) o fuel d).err)

/-- non-vacuity (regression of F04a): without stream entry in the response direction the continuation
    `G → P` runs. -/
example :
    modelTxn wCfgA ["f1"] wOracle .req 8 =
      some ([.enter "f1" .req, .exec "f1" "A" .req {}, .exec "f1" "G" .req { early := true },
             .enter "f1" .res, .exec "f1" "P" .res {}], none) ∧
    modelTxn wCfgA ["f1"] wOracle .req 8 = some (specTxn wCfgA ["f1"] wOracle .req 8) := by decide

/-- non-vacuity (regression of F04d): no connection leaves the answering node — the response walk of
    the flow is empty although the direction has a stream entry. -/
example :
    modelTxn wCfgD ["f1"] wOracle .req 8 =
      some ([.enter "f1" .req, .exec "f1" "A" .req {}, .exec "f1" "G" .req { early := true },
             .enter "f1" .res], none) ∧
    modelTxn wCfgD ["f1"] wOracle .req 8 = some (specTxn wCfgD ["f1"] wOracle .req 8) := by decide

/-- F04c: request `A → G`; the response direction has no node `G` at all -/
def wCfgC : Cfg :=
  { ptypes := [wPU, wPG]
    flows := [⟨.user, ⟨"f1", [("A", "PU"), ("G", "PG")],
      [⟨wS, .proc "A" ""⟩, ⟨.proc "A" "", .proc "G" ""⟩], [⟨wS, wE⟩]⟩⟩] }

/-- **shortcircuit_noresponsenode_witness (F04c).**  Accepted by the loader; the transaction aborts
    with "failed to get response node". -/
theorem shortcircuit_noresponsenode_witness :
    ∃ (c : Cfg) (order : List String) (o : Oracle) (fuel : Nat),
      modelTxn c order o .req fuel =
        some ([.enter "f1" .req, .exec "f1" "A" .req {}, .exec "f1" "G" .req { early := true }],
              some .respNode) ∧
      (specTxn c order o .req fuel).2 = none ∧
      finding (stxn (specCfg c order) o fuel .req) = some "F04c" :=
  ⟨wCfgC, ["f1"], wOracle, 8, by decide, by decide, by decide⟩

/-! ## 4. Whole transactions -/

/-- **txn_refines_spec_partial** (the connection theorem).  For every configuration the model's
    loader accepts, every build order, every oracle, both directions and every fuel: outside the
    decidable class of the open finding (`finding … = none` excludes F04c) and provided system-flow
    processors never answer a request, the engine model's event sequence and outcome are exactly
    the reference interpreter's. -/
theorem txn_refines_spec_partial (c : Cfg) (order : List String) (l : Loaded) (o : Oracle) (d : Dir)
    (fuel : Nat) (hl : load c order = .ok l)
    (hq : SysQuiet (specCfg c order) o)
    (hc04 : finding (stxn (specCfg c order) o fuel d) = none) :
    (transaction l.selected o fuel d).trace = (stxn (specCfg c order) o fuel d).trace ∧
    (transaction l.selected o fuel d).err = (stxn (specCfg c order) o fuel d).err :=
  txn_eq c order l o d fuel hl hq hc04

/-- The predicate the judge evaluates on the implementation's answers (`holds`) is true of every
    run of the model outside the class of F04c: a judge failure on the implementation is a
    divergence from the proved model or the listed finding. -/
theorem judge_holds_of_model_partial (c : Cfg) (order : List String) (l : Loaded) (o : Oracle) (d : Dir)
    (fuel : Nat) (hl : load c order = .ok l)
    (hq : SysQuiet (specCfg c order) o)
    (hc04 : finding (stxn (specCfg c order) o fuel d) = none) :
    holds (specCfg c order) o d fuel (transaction l.selected o fuel d).trace
      (transaction l.selected o fuel d).err = true := by
  have h := txn_eq c order l o d fuel hl hq hc04
  simp [holds, h.1, h.2]

/-- two user flows and a quota; `f1.B` branches on `a`/`b`, `f2.G` answers the request -/
def wCfgOK : Cfg :=
  { ptypes := [wPU, wPG, ⟨"PA", [⟨"a", "any"⟩, ⟨"b", "any"⟩]⟩]
    quotas := [⟨"q1", "q1", true, false, []⟩]
    flows := [
      ⟨.user, ⟨"f1", [("A", "PU"), ("B", "PA"), ("C", "PU"), ("D", "PU")],
        [⟨wS, .proc "A" ""⟩, ⟨.proc "A" "", .proc "B" ""⟩, ⟨.proc "B" "a", .proc "C" ""⟩,
         ⟨.proc "B" "b", .proc "D" ""⟩, ⟨.proc "B" "a", .proc "C" ""⟩, ⟨.proc "C" "", wE⟩, ⟨.proc "D" "", wE⟩],
        [⟨wS, .proc "D" ""⟩, ⟨.proc "D" "", wE⟩]⟩⟩,
      ⟨.user, ⟨"f2", [("X", "PU"), ("G", "PG"), ("P", "PU"), ("R", "PU")],
        [⟨wS, .proc "X" ""⟩, ⟨.proc "X" "", .proc "G" ""⟩],
        [⟨wS, .proc "R" ""⟩, ⟨.proc "R" "", wE⟩, ⟨.proc "G" "", .proc "P" ""⟩, ⟨.proc "P" "", wE⟩]⟩⟩] }

def wOracleOK : Oracle := fun f k d =>
  if f == "f2" && k == "G" && d == .req then { early := true }
  else if f == "f1" && k == "B" then { name := "b" } else {}

/-- non-vacuity of the connection theorem: an accepted configuration outside every finding class
    with a branching walk, a short-circuit, system flows and a response phase. -/
example :
    (okVal (load wCfgOK ["f1", "f2"])).isSome = true ∧
    finding (stxn (specCfg wCfgOK ["f1", "f2"]) wOracleOK 9 .req) = none ∧
    (specTxn wCfgOK ["f1", "f2"] wOracleOK .req 9).1.length = 17 := by
  refine ⟨by decide, by decide, by decide⟩

/-! ## 5. Order of flows -/

/-- **system_flow_order (requests).**  A request transaction that ends without error enters the
    flows in this order: all system start flows, the user flows in order up to and including the one
    in which a processor answered (all of them if none did), all system end flows — the user flows
    after a short-circuit are skipped, the system end flows still run; and after a short-circuit the
    whole response phase follows: system start flows, user flows, system end flows, each group in
    reverse. -/
theorem system_flow_order (s : Selected) (o : Oracle) (fuel : Nat)
    (h : (transaction s o fuel .req).err = none) :
    ∃ pre post, s.user = pre ++ post ∧
      ((transaction s o fuel .req).sc = none → post = []) ∧
      (∀ fl k, (transaction s o fuel .req).sc = some (fl, k) → ∃ pre' f, pre = pre' ++ [f] ∧ f.name = fl) ∧
      enters (transaction s o fuel .req).trace =
        (s.start ++ pre ++ s.finish).map (fun f => (f.name, Dir.req)) ++
        (if (transaction s o fuel .req).sc.isSome then
          (s.start.reverse ++ s.user.reverse ++ s.finish.reverse).map (fun f => (f.name, Dir.res))
         else []) :=
  enters_executeReq s o fuel h

/-- **system_flow_order (responses).**  A response transaction that ends without error enters the
    system start flows, the user flows and the system end flows, each group in reverse order. -/
theorem system_flow_order_response (s : Selected) (o : Oracle) (fuel : Nat)
    (h : (transaction s o fuel .res).err = none) :
    enters (transaction s o fuel .res).trace =
      (s.start.reverse ++ s.user.reverse ++ s.finish.reverse).map (fun f => (f.name, Dir.res)) :=
  enters_executeRes s o fuel none h

/-- non-vacuity: the order on the configuration above (quota `q1` contributes a start and an end flow) -/
example :
    (modelTxn wCfgOK ["f1", "f2"] wOracleOK .req 9).map (fun r => enters r.1) =
      some [("SystemFlow_q1_SYSTEM_FLOW_START", .req), ("f1", .req), ("f2", .req),
            ("SystemFlow_q1_SYSTEM_FLOW_END", .req),
            ("SystemFlow_q1_SYSTEM_FLOW_START", .res), ("f2", .res), ("f1", .res),
            ("SystemFlow_q1_SYSTEM_FLOW_END", .res)] := by decide

/-! ## 6. System flows of quotas -/

/-- **system_flow_chain.**  The system flows the engine generates for any list of quotas are the
    reference ones: within each filter group every quota processor is wired in sequence between
    stream start and stream end (`start → p₁ → … → pₙ → end`), also when several quotas share a
    filter. -/
theorem system_flow_chain (qs : List Quota) : sysDecls sysConns qs = sysDecls chainConns qs :=
  sysDecls_eq qs

/-- non-vacuity (regression of F04e): two quotas with the same filter — both Inc processors are nodes
    of the merged system start flow, in order. -/
example :
    (okVal (load { quotas := [⟨"q1", "q1", true, false, []⟩, ⟨"q2", "q2", false, false, []⟩] } [])).map
      (fun l => l.selected.start.map (fun f => (f.req.root, f.req.nodes.map (·.key)))) =
    some [(some "q1_QuotaProcessorInc", ["q1_QuotaProcessorInc", "q2_QuotaProcessorInc"])] := by decide

/-! ## 7. References to other flows

Model: `Model/FlowGraphRef.lean` (`stepF` = `buildConnection` with the cases `flow(end) → processor` and
`processor → flow(start)`, `incorporateF` = `incorporateFlow`, `foreignRoot`, node owners; the built direction
is the graph of the flattened connection list `accOf`), `Model/C04Ref.lean` (`loadR`).  Spec:
`Spec/C04Ref.lean` — a reference means: the referenced flow's connection list of that direction is spliced in.
Statements hold for every recursion bound `fuel` of `incorporateFlow` (mutually referencing flows, for which
the bound is exhausted, are C05's subject).  Open finding F04f: the engine connects the end of a spliced flow
to what follows only in the request direction and, for `processor → flow(start)`, to the current root — the
class `refDiverges` (flattened list ≠ spliced list) is the explicit hypothesis. -/

/-- **build_refines_connections_ref.**  A direction built with flow references is exactly the graph of its
    flattened connection list: root = target of its last `stream start → processor` connection, nodes = the
    processors it mentions, followed edges = reference successors, first edge = first connection, every edge
    leads to an existing node. -/
theorem build_refines_connections_ref (pts : List PType) (reps : List RFlowRep) (fuel : Nat) (rep : RFlowRep)
    (d : Dir) (g : DirGraph) (ow : List (String × String))
    (hb : buildDirRef pts reps fuel rep d = .ok (g, ow)) :
    let cs := accOf pts reps fuel rep d
    g.root = entry cs ∧
    (∀ k, (g.find k).isSome = mentioned cs k) ∧
    (∀ k n o, g.find k = some n → matchT o n.edges = succs cs k o) ∧
    (∀ k n, g.find k = some n → n.edges.head?.map (·.target) = (firstConn cs k).map toTarget) ∧
    (∀ k n e t, g.find k = some n → e ∈ n.edges → e.target = .node t → (g.find t).isSome = true) := by
  have h := buildDirRef_inv hb
  exact ⟨h.root, find_isSome_eq h, fun k n o hn => node_succs h hn o, fun k n hn => first_edge h hn,
    fun k n e t hn he ht => edge_target_exists h hn he ht⟩

/-- **walk_refines_spec_ref_partial.**  For a flow built with references (any acyclic reference depth the
    fuel covers) whose two directions flatten to their spliced lists (¬F04f) the engine's walk from any node
    equals the reference interpreter's walk over the SPLICED connection lists (events, outcome,
    short-circuit node), outside F04c. -/
theorem walk_refines_spec_ref_partial (pts : List PType) (reps : List RFlowRep) (fuel : Nat) (rep : RFlowRep)
    (fr : FlowR) (o : Oracle) (d : Dir) (wfuel : Nat) (k : String)
    (hb : buildFlowRef pts reps fuel rep = .ok fr) (hk : ((fr.flow.dir d).find k).isSome = true)
    (hf04 : ∀ dir, spliceDir reps fuel rep dir = some (accOf pts reps fuel rep dir))
    (hc04 : ∀ a, (swalk (convR reps fuel ⟨.user, rep⟩) o d wfuel k).stop = some a →
              mentioned (accOf pts reps fuel rep .res) a = true) :
    (walk fr.flow o d wfuel k).trace = (swalk (convR reps fuel ⟨.user, rep⟩) o d wfuel k).trace ∧
    (walk fr.flow o d wfuel k).err = (swalk (convR reps fuel ⟨.user, rep⟩) o d wfuel k).err ∧
    (walk fr.flow o d wfuel k).sc = (swalk (convR reps fuel ⟨.user, rep⟩) o d wfuel k).stop := by
  have hconv : convR reps fuel ⟨.user, rep⟩ = sflowOf (synthRep pts reps fuel rep) := by
    unfold convR sflowOf synthRep
    simp [hf04 .req, hf04 .res]
  rw [hconv] at hc04 ⊢
  obtain ⟨htr, hrest⟩ := walk_rel (built_of_buildFlowRef hb) o d wfuel k hk
  have hok := sok_swalk (sflowOf (synthRep pts reps fuel rep)) o d wfuel k
  cases hs : (swalk (sflowOf (synthRep pts reps fuel rep)) o d wfuel k).stop with
  | none =>
    rw [hs] at hrest
    exact ⟨htr, hrest.2, hrest.1⟩
  | some a =>
    rw [hs] at hrest
    have hm : mentioned (synthRep pts reps fuel rep).res a = true := hc04 a hs
    simp only [hm, if_true] at hrest
    have : (swalk (sflowOf (synthRep pts reps fuel rep)) o d wfuel k).err = none := hok (by simp [hs])
    exact ⟨htr, by rw [hrest.2, this], hrest.1⟩

/-- **txn_refines_spec_ref_partial** (connection theorem with references).  For every configuration with
    flow references that the model loader accepts, every build order, oracle, direction and fuel: outside
    F04f (`refDiverges`) and F04c (`finding`), and with quiet system flows, the engine model's transaction is
    the reference interpreter's transaction on the spliced configuration. -/
theorem txn_refines_spec_ref_partial (c : CfgR) (order : List String) (l : LoadedR) (o : Oracle) (d : Dir)
    (fuel : Nat) (hl : loadR c order = .ok l)
    (hf04 : refDiverges c = false)
    (hq : SysQuiet (specCfgR c order) o)
    (hc04 : finding (stxn (specCfgR c order) o fuel d) = none) :
    (transaction l.toLoaded.selected o fuel d).trace = (stxn (specCfgR c order) o fuel d).trace ∧
    (transaction l.toLoaded.selected o fuel d).err = (stxn (specCfgR c order) o fuel d).err :=
  txn_eq_ref c order l o d fuel hl hf04 hq hc04

/-- **build_order_independent.**  The order in which the engine happens to build the flows (Go map iteration
    over `flowReps`) does not influence the built flows — graphs, roots, node owners — also when flows
    reference each other: two orders under which the configuration loads give the same set of built flows. -/
theorem build_order_independent (c : CfgR) (o1 o2 : List String) (l1 l2 : LoadedR)
    (h1 : loadR c o1 = .ok l1) (h2 : loadR c o2 = .ok l2) (k : Kind) (f : FlowR) :
    (k, f) ∈ l1.flows ↔ (k, f) ∈ l2.flows :=
  loadR_order_independent h1 h2 k f

def rS : REnd := .stream "globalStream" "start"
def rE : REnd := .stream "globalStream" "end"

/-- `f1`: request `start → A1 → end`, response `start → B1 → end` -/
def wRefBase : FlowDeclR :=
  ⟨.user, ⟨"f1", [("A1", "PU"), ("B1", "PU")],
    [⟨rS, .proc "A1" ""⟩, ⟨.proc "A1" "", rE⟩], [⟨rS, .proc "B1" ""⟩, ⟨.proc "B1" "", rE⟩]⟩⟩

/-- canonical references: request `flow f1 (end) → P2 → end`, response `start → Q2 → flow f1 (start)` -/
def wCfgRefOK : CfgR :=
  { ptypes := [wPU]
    flows := [wRefBase,
      ⟨.user, ⟨"f2", [("P2", "PU"), ("Q2", "PU")],
        [⟨.flow "f1" "end", .proc "P2" ""⟩, ⟨.proc "P2" "", rE⟩],
        [⟨rS, .proc "Q2" ""⟩, ⟨.proc "Q2" "", .flow "f1" "start"⟩]⟩⟩] }

/-- mirrored reference in the response direction: `flow f1 (end) → Q2 → end` -/
def wCfgRefF : CfgR :=
  { ptypes := [wPU]
    flows := [wRefBase,
      ⟨.user, ⟨"f2", [("P2", "PU"), ("Q2", "PU")],
        [⟨rS, .proc "P2" ""⟩, ⟨.proc "P2" "", rE⟩],
        [⟨.flow "f1" "end", .proc "Q2" ""⟩, ⟨.proc "Q2" "", rE⟩]⟩⟩] }

def modelTxnR (c : CfgR) (order : List String) (o : Oracle) (d : Dir) (fuel : Nat) :
    Option (List Event × Option ExecErr) :=
  (okVal (loadR c order)).map fun l =>
    ((transaction l.toLoaded.selected o fuel d).trace, (transaction l.toLoaded.selected o fuel d).err)

def specTxnR (c : CfgR) (order : List String) (o : Oracle) (d : Dir) (fuel : Nat) :
    List Event × Option ExecErr :=
  ((stxn (specCfgR c order) o fuel d).trace, (stxn (specCfgR c order) o fuel d).err)

/-- non-vacuity: the canonical reference patterns load, are outside F04f, and run the referenced flow's
    processors inside the referencing flow (request: `A1` then `P2`; response: `Q2` then `B1`). -/
example :
    refDiverges wCfgRefOK = false ∧
    modelTxnR wCfgRefOK ["f1", "f2"] (fun _ _ _ => {}) .req 9 =
      some ([.enter "f1" .req, .exec "f1" "A1" .req {}, .enter "f2" .req, .exec "f2" "A1" .req {},
             .exec "f2" "P2" .req {}], none) ∧
    modelTxnR wCfgRefOK ["f1", "f2"] (fun _ _ _ => {}) .res 9 =
      some ([.enter "f2" .res, .exec "f2" "Q2" .res {}, .exec "f2" "B1" .res {}, .enter "f1" .res,
             .exec "f1" "B1" .res {}], none) ∧
    modelTxnR wCfgRefOK ["f1", "f2"] (fun _ _ _ => {}) .res 9 =
      some (specTxnR wCfgRefOK ["f1", "f2"] (fun _ _ _ => {}) .res 9) := by decide

/-- **ref_response_end_witness (F04f).**  `flow f1 (end) → Q2` in the RESPONSE direction: the engine makes
    `f1`'s entry the root but leaves `B1 → stream end` as it is (`connectProcessorToStream` redirects only in
    the request direction), so `Q2` never runs; the spliced list continues from `B1` to `Q2`. -/
theorem ref_response_end_witness :
    ∃ (c : CfgR) (order : List String) (o : Oracle) (fuel : Nat),
      refDiverges c = true ∧
      modelTxnR c order o .res fuel =
        some ([.enter "f2" .res, .exec "f2" "B1" .res {}, .enter "f1" .res, .exec "f1" "B1" .res {}], none) ∧
      specTxnR c order o .res fuel =
        ([.enter "f2" .res, .exec "f2" "B1" .res {}, .exec "f2" "Q2" .res {}, .enter "f1" .res,
          .exec "f1" "B1" .res {}], none) :=
  ⟨wCfgRefF, ["f1", "f2"], fun _ _ _ => {}, 9, by decide, by decide, by decide⟩

end LunarVerif.C04
