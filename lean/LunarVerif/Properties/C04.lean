import LunarVerif.Proofs.C04
namespace LunarVerif.C04
end LunarVerif.C04
