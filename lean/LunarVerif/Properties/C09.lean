import LunarVerif.Proofs.C09
import LunarVerif.Proofs.C09Conc
import LunarVerif.Proofs.C09Dispatch
/-!
# C09 — Policy-mode throttling never exceeds the allowed count per aligned window

Property theorems only (helpers live in `Proofs/C09.lean`).  The model is `Model/C09.lean`
(`tryInc` = `singleRateLimitState.TryToIncrement`, `stepL`/`runL` = `RateLimitState`, `pluginStep`/`pluginRun` =
`StrategyBasedThrottlingPlugin.OnRequest`); the property is `Spec/C09.lean` (`holds`, over the observable
history only).  All statements quantify over EVERY cap function `cap : (allowed + spill-over) → ratio → Int`
(so also over the float64 one the code uses), every key type, every window data (incl. spill-over, negative or
zero allowances, ratios above 1) and every finite request sequence, handled one at a time.

The model describes the code AFTER the repairs `fix: F09a` (a request exactly on a grid boundary opens the
new window) and `fix: F09c` (a window-size change drops the stored window end): the former excluded classes
(`boundaryFree`, `constW`) and their `_violation_witness` theorems are gone, bound and exactness hold for EVERY
history in the domain `clean` = monotone clock ∧ positive window sizes (not a finding class: a zero window
panics, and the plugin layer never produces such a limiter request).

`fix: F09b` made the cap an integer computation (`capUnits`, ratio in units of 1e-8): `cap_is_exact_share` and
`spec_holds_exact_cap` tie it to the exact rational share; `fix: F09d` made metrics scrapes read-only.

`fix: F09f` drops collected spill-over when a request's configuration has the feature off; the second F09b
patch makes `scaledCeil` overflow-free (`scaledCeil_is_ceil`, `scaledCeil_no_overflow`).
`fix: F09e` removed `strings.TrimSpace` from `buildGroupID`: the counter key is the allocation table's group
(`counters_follow_allocation_groups`, `plugin_spec_holds_groups`).  No finding of C09 is open.
-/
namespace LunarVerif.C09

section
variable {κ : Type} [DecidableEq κ]

/-- (ii) Isolation, frame form: a request on key `r.key` leaves the state of every other key untouched. -/
theorem isolation (cap : CapFn) (st : State κ) (r : Req κ) (k : κ) (hne : k ≠ r.key) :
    find k (stepL cap st r).1 = find k st :=
  stepL_other cap st r k hne

/-- (ii) Isolation, observable form: the verdicts a key gets in ANY run are those of a private limiter that
    sees only the key's own requests — requests of other remedies/groups never influence them. -/
theorem projection (cap : CapFn) (k : κ) (rs : List (Req κ)) :
    (runL cap [] rs).filter (fun e => e.key == k)
      = runK cap initKey (rs.filter (fun r => r.key == k)) := by
  have := filter_runL cap k rs ([] : State κ)
  simpa [find] using this

/-- Connection theorem: the judge predicate is true of EVERY model run in the domain (monotone clock, positive
    window sizes) — boundary instants and window-size changes included: each request passes iff its key's grid
    window holds fewer passes (since the key's last window-size change) than the cap in force. -/
theorem spec_holds (cap : CapFn) (rs : List (Req κ))
    (hclean : clean (runL cap [] rs) = true) :
    holds cap (runL cap [] rs) = true := by
  rw [clean, runL_inputs] at hclean
  exact runL_holds_of_admissible cap rs hclean

/-- (i) Bound: whenever a request passes, the passes of its key inside its grid window (handled under the same
    window size) — itself included — do not exceed the cap in force (allowed + spill-over, scaled). -/
theorem bound (cap : CapFn) (rs : List (Req κ)) (hclean : clean (runL cap [] rs) = true)
    (pre post : List (Event κ)) (e : Event κ) (hsplit : runL cap [] rs = pre ++ e :: post)
    (hpass : e.pass = true) :
    (passesInWin e.wd.W (e.t / e.wd.W) (regime e (keyHist e.key pre)) : Int) + 1
      ≤ cap (e.wd.allowed + refSpill (e :: keyHist e.key pre)) e.wd.ratio := by
  have h := spec_holds cap rs hclean
  rw [hsplit] at h
  have hok := holds_split cap pre post e h
  simp only [eventOk, hpass] at hok
  simp at hok
  omega

/-- (iii) Sequential exactness: a request is rejected only if its key's share of the current grid window is
    used up. -/
theorem exact (cap : CapFn) (rs : List (Req κ)) (hclean : clean (runL cap [] rs) = true)
    (pre post : List (Event κ)) (e : Event κ) (hsplit : runL cap [] rs = pre ++ e :: post)
    (hblock : e.pass = false) :
    cap (e.wd.allowed + refSpill (e :: keyHist e.key pre)) e.wd.ratio
      ≤ (passesInWin e.wd.W (e.t / e.wd.W) (regime e (keyHist e.key pre)) : Int) := by
  have h := spec_holds cap rs hclean
  rw [hsplit] at h
  have hok := holds_split cap pre post e h
  simp only [eventOk, hblock] at hok
  simp at hok
  omega

/-- (i) in its plain form: if every request of key `k` carries the same window data (spill-over off), then
    in EVERY grid window at most `cap allowed ratio` requests of `k` pass. -/
theorem window_bound (cap : CapFn) (rs : List (Req κ)) (hclean : clean (runL cap [] rs) = true)
    (k : κ) (wd : WindowData) (hoff : wd.spillOn = false)
    (hconst : ∀ r ∈ rs, r.key = k → r.wd = wd) (idx : Nat) :
    (passesInWin wd.W idx (keyHist k (runL cap [] rs)) : Int) ≤ max 0 (cap wd.allowed wd.ratio) := by
  have h := spec_holds cap rs hclean
  by_cases hmem : ∃ e ∈ runL cap [] rs, e.key = k
  · obtain ⟨e, he, hek⟩ := hmem
    simp only [holds, List.all_eq_true] at h
    have hk := h e he
    rw [hek] at hk
    apply holdsKeyRev_bound cap wd idx _ _ hoff hk
    intro x hx
    simp only [keyHist, List.mem_reverse, List.mem_filter, beq_iff_eq] at hx
    have hxin : x.req ∈ rs := by
      have := runL_inputs cap rs ([] : State κ)
      rw [← this]
      exact List.mem_map.mpr ⟨x, hx.1, rfl⟩
    exact hconst x.req hxin hx.2
  · have : keyHist k (runL cap [] rs) = [] := by
      simp only [keyHist, List.reverse_eq_nil_iff, List.filter_eq_nil_iff, beq_iff_eq]
      intro e he hek
      exact hmem ⟨e, he, hek⟩
    rw [this]
    simp [passesInWin]
    omega

end

/-! ### Metrics scrapes (`RateLimitState.Counters()`, repaired by fix F09d) -/

section
variable {κ : Type} [DecidableEq κ]

/-- A metrics scrape only reads: the limiter state after it is the state before it. -/
theorem scrape_reads_only (cap : CapFn) (st : State κ) (t : Nat) :
    (stepOp cap st (.scrape t)).1 = st := rfl

/-- Scrapes are invisible: the verdicts of a run of requests interleaved with metrics scrapes (at any
    instants) are those of the run of the requests alone — reading metrics never changes who passes. -/
theorem scrape_invisible (cap : CapFn) (ops : List (Op κ)) (st : State κ) :
    runOps cap st ops = runL cap st (reqsOf ops) := by
  induction ops generalizing st with
  | nil => rfl
  | cons o os ih =>
    cases o with
    | req r => simp [runOps, stepOp, reqsOf, runL, ih]
    | scrape t => simp [runOps, stepOp, reqsOf, ih]

/-- Connection theorem for runs WITH scrapes: the judge predicate (which ignores scrapes: `refSpill` credits
    only the key's previously active window) is true of every model run of requests and scrapes. -/
theorem spec_holds_with_scrapes (cap : CapFn) (ops : List (Op κ))
    (hclean : clean (runOps cap [] ops) = true) :
    holds cap (runOps cap [] ops) = true := by
  rw [scrape_invisible] at hclean ⊢
  exact spec_holds cap _ hclean

/-! ### All interleavings of concurrent requests (critical-section granularity, `Model/C09Conc.lean`;
    atomicity of the sections = obligation `LunarVerif.C18.atomicity_facts`, not imported) -/

/-- Every schedule is equivalent to a sequential order: the history of ANY interleaving of the threads'
    critical sections (verdicts in the order of the `TryToIncrement` sections, each stamped with the instant of
    that section) is exactly the sequential run of those same requests in that order; every thread appears at
    most once, with its own key and window data. -/
theorem schedule_equivalent_to_sequential (cap : CapFn) (calls : List (Call κ)) (sched : List (Nat × Nat)) :
    history (runC cap calls (initC calls) sched)
      = runL cap [] (inputs (history (runC cap calls (initC calls) sched))) ∧
    ((runC cap calls (initC calls) sched).done.map (·.1)).Nodup ∧
    ∀ d ∈ (runC cap calls (initC calls) sched).done,
      ∃ call, calls[d.1]? = some call ∧ d.2.key = call.key ∧ d.2.wd = call.wd := by
  have h := runC_inv cap calls sched _ (invC_init cap calls)
  exact ⟨h.seq, h.nodup, h.fromCall⟩

/-- (i)+(iii) for EVERY schedule and every monotone clock assignment to the steps: each concurrent request
    passes iff its key's grid window held fewer passes than the cap when its `TryToIncrement` section ran. -/
theorem bound_all_schedules (cap : CapFn) (calls : List (Call κ)) (sched : List (Nat × Nat))
    (hpos : ∀ call ∈ calls, 0 < call.wd.W) (hmono : sched.Pairwise (fun a b => a.2 ≤ b.2)) :
    holds cap (history (runC cap calls (initC calls) sched)) = true := by
  have h := runC_inv cap calls sched _ (invC_init cap calls)
  rw [h.seq]
  apply spec_holds
  rw [clean, runL_inputs]
  simp only [admissible, Bool.and_eq_true]
  constructor
  · apply history_monotone
    exact runC_mono cap calls sched _ hmono (by simp [initC]) (by simp [initC])
  · simp only [posW, List.all_eq_true, decide_eq_true_eq, inputs, history, List.mem_map,
      List.mem_reverse]
    rintro r ⟨e, ⟨d, hd, rfl⟩, rfl⟩
    obtain ⟨call, hcall, _, hwd⟩ := h.fromCall d hd
    simp only [Event.req, hwd]
    exact hpos call (List.mem_of_getElem? hcall)

/-- The plain per-window form for every schedule: if all concurrent calls on key `k` carry the same window
    data (spill-over off), at most `cap allowed ratio` of them pass in ANY grid window. -/
theorem window_bound_all_schedules (cap : CapFn) (calls : List (Call κ)) (sched : List (Nat × Nat))
    (hpos : ∀ call ∈ calls, 0 < call.wd.W) (hmono : sched.Pairwise (fun a b => a.2 ≤ b.2))
    (k : κ) (wd : WindowData) (hoff : wd.spillOn = false)
    (hconst : ∀ call ∈ calls, call.key = k → call.wd = wd) (idx : Nat) :
    (passesInWin wd.W idx (keyHist k (history (runC cap calls (initC calls) sched))) : Int)
      ≤ max 0 (cap wd.allowed wd.ratio) := by
  have h := runC_inv cap calls sched _ (invC_init cap calls)
  have hb := bound_all_schedules cap calls sched hpos hmono
  rw [h.seq] at hb ⊢
  have hclean : clean (runL cap [] (inputs (history (runC cap calls (initC calls) sched)))) = true := by
    rw [clean, runL_inputs]
    simp only [admissible, Bool.and_eq_true]
    constructor
    · apply history_monotone
      exact runC_mono cap calls sched _ hmono (by simp [initC]) (by simp [initC])
    · simp only [posW, List.all_eq_true, decide_eq_true_eq, inputs, history, List.mem_map,
        List.mem_reverse]
      rintro r ⟨e, ⟨d, hd, rfl⟩, rfl⟩
      obtain ⟨call, hcall, _, hwd⟩ := h.fromCall d hd
      simp only [Event.req, hwd]
      exact hpos call (List.mem_of_getElem? hcall)
  apply window_bound cap _ hclean k wd hoff _ idx
  simp only [inputs, history, List.mem_map, List.mem_reverse]
  rintro r ⟨e, ⟨d, hd, rfl⟩, rfl⟩ hk
  obtain ⟨call, hcall, hkey, hwd⟩ := h.fromCall d hd
  simp only [Event.req] at hk ⊢
  rw [hwd]
  exact hconst call (List.mem_of_getElem? hcall) (by rw [← hkey]; exact hk)

end

/-! ### A clock that moves between readings -/

/-- The code's `TryToIncrement` is the ONE-reading instance: using the same reading for the grid window and for
    the roll-over decision is exactly the model's step. -/
theorem single_reading (cap : CapFn) (t : Nat) (wd : WindowData) (s : KeyState) :
    tryInc2 cap t t wd s = tryInc cap t wd s :=
  tryInc2_single_reading cap t wd s

/-- Bound and exactness for a MOVING clock: let `readings` be the successive values of `Now()` — monotone, with
    arbitrary increments between them — and let every call take ONE reading for everything (as the code does):
    each call passes iff its key's grid window (of THAT reading) holds fewer passes than the cap. -/
theorem bound_moving_clock {κ : Type} [DecidableEq κ] (cap : CapFn) (readings : List Nat)
    (calls : List (κ × WindowData)) (hmono : readings.Pairwise (· ≤ ·))
    (hpos : ∀ c ∈ calls, 0 < c.2.W) :
    holds cap (runL cap [] (stamp readings calls)) = true := by
  apply spec_holds
  rw [clean, runL_inputs]
  simp only [admissible, monotone, posW, Bool.and_eq_true, decide_eq_true_eq, List.all_eq_true]
  exact ⟨stamp_monotone readings calls hmono, fun r hr => hpos _ (stamp_mem_wd readings calls r hr)⟩

/-- Deciding the roll-over from a SECOND, later reading breaks the bound (seeded change C09-s10): allowed 1 per
    1 s, window 1000 is used up; a call whose first reading is 1 ns before the boundary computes the window end
    1001 s from it, decides "window over" from the second reading (exactly 1001 s), resets the counter and passes:
    two passes attributed to grid window 1000. -/
theorem second_reading_violation_witness :
    ∃ rs : List (Req Unit × Nat), (rs.map (·.1.t)).Pairwise (· ≤ ·) ∧
      (runK2 capExact initKey rs).map (·.pass) = [true, true] ∧
      passesInWin 1000000000 1000 (runK2 capExact initKey rs) = 2 ∧
      holdsKeyRev capExact (runK2 capExact initKey rs).reverse = false := by
  refine ⟨[(⟨(), 1000500000000, wd1 1 1⟩, 0), (⟨(), 1000999999999, wd1 1 1⟩, 1)], ?_, ?_, ?_, ?_⟩ <;> decide

/-! ### The cap the code computes is the exact share (fix F09b) -/

/-- `scaledCeil` (integers, ratio in units of 1e-8) is exactly "(allowed + spill-over) × percentage, rounded up"
    for every percentage with at most six decimals (and for the ungrouped ratio 1) — for every count, in
    particular every int64 one (`scaledCeil_no_overflow`: the int64 computation is the integer one). -/
theorem cap_is_exact_share (total : Int) (r : Ratio) (h6 : sixDecimals r = true) :
    capUnits total r = capExact total r :=
  capUnits_eq_capExact total r h6

/-- The Go formula of `scaledCeil` (count split into whole multiples of 1e8 and a rest, truncating division,
    plus one for a positive product with a remainder) is ⌈count · units / 1e8⌉ — for every integer count. -/
theorem scaledCeil_is_ceil (count units : Int) :
    capGo count units = -((-(count * units)) / 100000000) :=
  capGo_eq_ceil count units

/-- `scaledCeil` cannot overflow: for EVERY int64 count and every ratio in [0, 1] (units ≤ 1e8) each
    intermediate value of the Go formula — quotient, remainder, both products, the truncated quotient and
    remainder of the product, the sum and (when it is taken) the increment — lies in the int64 range.  So the
    unbounded-integer model `capGo` IS the int64 computation. -/
theorem scaledCeil_no_overflow (count units : Int) (hc : fits64 count) (hu0 : 0 ≤ units)
    (hu1 : units ≤ 100000000) :
    fits64 (tdivR count) ∧ fits64 (tmodR count) ∧ fits64 (tmodR count * units) ∧
    fits64 (tdivR count * units) ∧ fits64 (tdivR (tmodR count * units)) ∧
    fits64 (tmodR (tmodR count * units)) ∧
    fits64 (tdivR count * units + tdivR (tmodR count * units)) ∧
    (0 < tmodR count * units ∧ tmodR (tmodR count * units) ≠ 0 →
      fits64 (tdivR count * units + tdivR (tmodR count * units) + 1)) :=
  capGo_fits count units hc hu0 hu1

/-- Connection theorem WITHOUT an opaque cap: every run of the model with the code's cap (`capUnits`) satisfies
    the Spec evaluated with the EXACT rational cap, for percentages with at most six decimals. -/
theorem spec_holds_exact_cap {κ : Type} [DecidableEq κ] (rs : List (Req κ))
    (hclean : clean (runL capUnits [] rs) = true) (h6 : ∀ r ∈ rs, sixDecimals r.wd.ratio = true) :
    holds capExact (runL capUnits [] rs) = true := by
  rw [← holds_congr_cap capUnits capExact]
  · exact spec_holds capUnits rs hclean
  · intro e he total
    have hin : e.req ∈ rs := by
      have := runL_inputs capUnits rs ([] : State κ)
      rw [← this]
      exact List.mem_map.mpr ⟨e, he, rfl⟩
    exact capUnits_eq_capExact total _ (h6 e.req hin)

-- (`wd1 Wsec allowed` = window data of an ungrouped remedy: `Wsec` seconds, `allowed` per window, spill-over off)

/-! ### Plugin layer: group header → key, allocation table, default behaviours, rejection status -/

/-- Different remedies, and different group-header values of one remedy, never share a counter key;
    the key carries the remedy name. -/
theorem key_of_remedy (r : Remedy) (hs : List (String × String)) (key : Key) (wd : WindowData)
    (h : resolve r hs = .limited key wd) : key.remedy = r.name := by
  unfold resolve at h
  dsimp only at h
  repeat' split at h
  all_goals first
    | (injection h with h1 h2; rw [← h1])
    | (exact absurd h (by simp))
    | skip

/-- … and, for a remedy with an allocation table, the lower-cased header NAME and the request's value of that
    header, as it is (fix F09e; the MD5 hash of the unit-test wiring is modelled as injective). -/
theorem key_of_group (r : Remedy) (hs : List (String × String)) (key : Key) (wd : WindowData)
    (a : Alloc) (hn : String) (h : resolve r hs = .limited key wd)
    (ha : r.alloc = some a) (hg : a.groupBy = some hn) :
    key.group = some (hn.toLower, lookupHdr hs hn) := by
  unfold resolve at h
  rw [ha] at h
  dsimp only at h
  rw [hg] at h
  dsimp only at h
  repeat' split at h
  all_goals first
    | (injection h with h1 h2; rw [← h1]; rfl)
    | (exact absurd h (by simp))
    | skip

/-- Every answer of `OnRequest` is the one the configuration dictates: default behaviour `allow`/undefined ⇒
    NoOp, `block` ⇒ early response, and every rejection (default or by the limiter) carries the configured
    status (429 when none is configured). -/
theorem answers_as_configured (cap : CapFn) (st : State Key) (p : PReq) :
    answerOk p (pluginStep cap st p.remedy p.hdrs p.t).2 = true :=
  answerOk_pluginStep cap st p

/-- The limiter events an observer reconstructs from the answers of a plugin run are exactly a limiter run
    over the resolved (remedy, group) keys: requests answered by a default behaviour touch no counter. -/
theorem plugin_is_limiter_run (cap : CapFn) (ps : List PReq) (hW : ∀ p ∈ ps, p.remedy.winSec ≠ 0) :
    observe ps (pluginRun cap [] ps) = runL cap [] (limitedReqs ps) :=
  observe_pluginRun cap ps hW []

/-- Connection theorem at the plugin level: what the judge evaluates on the answers of `OnRequest` is true of
    every model run in the domain. -/
theorem plugin_spec_holds (cap : CapFn) (ps : List PReq) (hW : ∀ p ∈ ps, p.remedy.winSec ≠ 0)
    (hclean : clean (observe ps (pluginRun cap [] ps)) = true) :
    holds cap (observe ps (pluginRun cap [] ps)) = true := by
  rw [plugin_is_limiter_run cap ps hW] at hclean ⊢
  exact spec_holds cap _ hclean

/-! ### Groups as the allocation table distinguishes them (what the judge evaluates) -/

/-- Same counter ⇔ same group value: two requests under one remedy configuration use the same counter key iff
    their group-header values are EQUAL (byte for byte: no case folding, no trimming) — distinct values ⇒ distinct
    counters, same value ⇒ same counter: exactly the allocation table's notion of a group. -/
theorem group_counter_exact (r : Remedy) (hs₁ hs₂ : List (String × String)) (k₁ k₂ : Key) (w₁ w₂ : WindowData)
    (a : Alloc) (hn : String) (h₁ : resolve r hs₁ = .limited k₁ w₁) (h₂ : resolve r hs₂ = .limited k₂ w₂)
    (ha : r.alloc = some a) (hg : a.groupBy = some hn) :
    k₁ = k₂ ↔ lookupHdr hs₁ hn = lookupHdr hs₂ hn := by
  have r₁ := key_of_remedy r hs₁ k₁ w₁ h₁
  have r₂ := key_of_remedy r hs₂ k₂ w₂ h₂
  have g₁ := key_of_group r hs₁ k₁ w₁ a hn h₁ ha hg
  have g₂ := key_of_group r hs₂ k₂ w₂ a hn h₂ ha hg
  obtain ⟨n₁, q₁⟩ := k₁
  obtain ⟨n₂, q₂⟩ := k₂
  simp only at r₁ r₂ g₁ g₂
  subst r₁ r₂ g₁ g₂
  simp

/-- The counter key of every limiter event IS the group as the allocation table distinguishes it — for every
    request sequence and every answer list (fix F09e). -/
theorem counters_follow_allocation_groups (ps : List PReq) (as : List Answer) :
    groupFaithful (observeP ps as) = true := by
  simp only [groupFaithful, List.all_eq_true, beq_iff_eq]
  intro a ha b hb
  rw [observeP_keys ps as a ha, observeP_keys ps as b hb]

/-- Connection theorem for the judge's grouping, at full strength: with the limiter events keyed by (remedy, group
    value exactly as the allocation table matches it), EVERY model run satisfies the Spec — per group and aligned
    window, the group's own share; no group's traffic touches another group's counter. -/
theorem plugin_spec_holds_groups (cap : CapFn) (ps : List PReq) (hW : ∀ p ∈ ps, p.remedy.winSec ≠ 0)
    (hclean : clean (observe ps (pluginRun cap [] ps)) = true) :
    holds cap (observeS ps (pluginRun cap [] ps)) = true := by
  have h := plugin_spec_holds cap ps hW hclean
  rw [← observeP_code, holds_map_rekey] at h
  rw [observeS, holds_map_rekey, ← h]
  apply holdsOn_congr
  intro a ha b hb
  have hf := counters_follow_allocation_groups ps (pluginRun cap [] ps)
  simp only [groupFaithful, List.all_eq_true, beq_iff_eq] at hf
  exact (hf a ha b hb).symm

/-! ### Dispatcher level: loader validation, remedy chains (`Model/C09Dispatch.lean`) -/

/-- The loader accepts a policies document iff the names of all its policies are pairwise distinct. -/
theorem accepted_iff_names_distinct (ps : List DPol) :
    accepted ps = true ↔ (ps.map (·.name)).Nodup :=
  accepted_iff_nodup ps

/-- Accepted configuration ⇒ limiter states are per remedy: two DIFFERENT policies of an accepted document never
    resolve to the same rate-limit key, whatever endpoints they are attached to and whatever the requests carry
    (the key is made of the remedy NAME; the validation is what keeps names apart). -/
theorem limiter_states_per_remedy (ps : List DPol) (hacc : accepted ps = true) :
    ps.Pairwise (fun p q => ∀ r₁ r₂ hs₁ hs₂ k₁ k₂ w₁ w₂,
      remedyOf p = some r₁ → remedyOf q = some r₂ →
      resolve r₁ hs₁ = .limited k₁ w₁ → resolve r₂ hs₂ = .limited k₂ w₂ → k₁ ≠ k₂) := by
  have hnd := (accepted_iff_nodup ps).mp hacc
  rw [List.Nodup, List.pairwise_map] at hnd
  refine hnd.imp ?_
  intro p q hne r₁ r₂ hs₁ hs₂ k₁ k₂ w₁ w₂ hp hq h₁ h₂ hk
  have e₁ := key_of_remedy r₁ hs₁ k₁ w₁ h₁
  have e₂ := key_of_remedy r₂ hs₂ k₂ w₂ h₂
  have n₁ : r₁.name = p.name := by
    unfold remedyOf at hp; split at hp <;> simp at hp; rw [← hp]
  have n₂ : r₂.name = q.name := by
    unfold remedyOf at hq; split at hq <;> simp at hq; rw [← hq]
  apply hne
  rw [← n₁, ← n₂, ← e₁, ← e₂, hk]

/-- A request whose chain holds ONE throttling remedy (next to any number of retry remedies, anywhere in the
    chain) is answered exactly as that remedy's `OnRequest` answers: same verdict, same rejection status — the
    response-phase remedies do not touch it — and the same counter step. -/
theorem dispatch_single_throttle (cap : CapFn) (st : State Key) (ps : List DPol) (url method : String)
    (hs : List (String × String)) (t : Nat) (r : Remedy)
    (h : (chain ps url method).filterMap remedyOf = [r]) :
    dispatchStep cap st ps url method hs t = pluginStep cap st r hs t :=
  runChain_single_throttle cap hs t _ st r h

/-- A request whose chain holds no throttling remedy passes and touches no counter. -/
theorem dispatch_no_throttle (cap : CapFn) (st : State Key) (ps : List DPol) (url method : String)
    (hs : List (String × String)) (t : Nat) (h : (chain ps url method).filterMap remedyOf = []) :
    dispatchStep cap st ps url method hs t = (st, .noop) :=
  runChain_no_throttle cap hs t _ st .noop h

/-! ### Non-vacuity -/

/-- dispatcher level: the document of seed C09-s11 (one name on two endpoints) is refused; with distinct names
    `/orders` (2 per hour) and `/invoices` (5 per two hours) keep their own counts, a retry remedy covering 429
    sits in both chains and the third `/orders` request leaves with 429. -/
example :
    let th (a w : Nat) : DKind := .throttle ⟨"", a, w, 429, false, 0, none, true⟩
    let dup : List DPol := [⟨some ("api.example.com/orders", "GET"), "throttle", true, th 2 3600⟩,
      ⟨some ("api.example.com/invoices", "GET"), "throttle", true, th 5 7200⟩]
    let ok : List DPol := [⟨some ("api.example.com/orders", "GET"), "t-orders", true, th 2 3600⟩,
      ⟨some ("api.example.com/invoices", "GET"), "t-invoices", true, th 5 7200⟩, ⟨none, "retry", true, .retry⟩]
    let s1 := dispatchStep capExact [] ok "api.example.com/orders" "GET" [] 1000500000000
    let s2 := dispatchStep capExact s1.1 ok "api.example.com/orders" "GET" [] 1000500000001
    let s3 := dispatchStep capExact s2.1 ok "api.example.com/invoices" "GET" [] 1000500000002
    let s4 := dispatchStep capExact s3.1 ok "api.example.com/orders" "GET" [] 1000500000003
    accepted dup = false ∧ accepted ok = true ∧
    [s1.2, s2.2, s3.2, s4.2] = [.noop, .noop, .noop, .early 429] := by
  decide +kernel


/-- the former F09e witness: " a" and "a" (50 % of 4 each) are different groups with their own counters — after
    " a" used its share, "a" still gets its own. -/
example :
    let r : Remedy := ⟨"r", 4, 1, 0, false, 0,
      some ⟨some "X-Group", [(" a", 50, 1), ("a", 50, 1)], "block", 0, 1⟩, true⟩
    let ps : List PReq := [⟨r, [("X-Group", " a")], 1000500000000⟩, ⟨r, [("X-Group", " a")], 1000500000001⟩,
      ⟨r, [("X-Group", " a")], 1000500000002⟩, ⟨r, [("X-Group", "a")], 1000500000003⟩]
    pluginRun capExact [] ps = [.noop, .noop, .early 429, .noop] ∧
    holds capExact (observeS ps (pluginRun capExact [] ps)) = true := by
  decide +kernel

/-- `group_counter_exact` / `plugin_spec_holds_groups`: production wiring, "Gold" (50 %) and "gold" (20 %) of
    10 are different groups with different counters: "Gold" uses up its 5, "gold" still gets its own 2; an
    unknown "TeamA"/"teama" pair under `use_default_allocation` (30 % → 3 each) likewise. -/
example :
    let r : Remedy := ⟨"r", 10, 1, 0, false, 0,
      some ⟨some "X-Group", [("Gold", 50, 1), ("gold", 20, 1)], "use_default_allocation", 30, 1⟩, true⟩
    let q (v : String) (i : Nat) : PReq := ⟨r, [("X-Group", v)], 1000500000000 + i⟩
    let ps : List PReq := [q "Gold" 0, q "Gold" 1, q "Gold" 2, q "Gold" 3, q "Gold" 4, q "Gold" 5,
      q "gold" 6, q "gold" 7, q "gold" 8, q "TeamA" 9, q "TeamA" 10, q "TeamA" 11, q "TeamA" 12, q "teama" 13]
    pluginRun capExact [] ps = [.noop, .noop, .noop, .noop, .noop, .early 429, .noop, .noop, .early 429,
      .noop, .noop, .noop, .early 429, .noop] ∧
    groupFaithful (observeP ps (pluginRun capExact [] ps)) = true ∧
    holds capExact (observeS ps (pluginRun capExact [] ps)) = true := by
  decide +kernel


/-- `spec_holds`/`bound`/`exact`: a history in the domain with passes AND a rejection in one window, a window
    roll-over exactly ON the grid boundary (1001.0 s) and two keys. -/
example :
    let rs : List (Req Nat) := [⟨1, 1000500000000, wd1 1 2⟩, ⟨2, 1000500000001, wd1 1 1⟩,
      ⟨1, 1000600000000, wd1 1 2⟩, ⟨1, 1000700000000, wd1 1 2⟩, ⟨2, 1000700000001, wd1 1 1⟩,
      ⟨1, 1001000000000, wd1 1 2⟩]
    clean (runL capExact [] rs) = true ∧
    (runL capExact [] rs).map (·.pass) = [true, true, true, false, false, true] := by
  decide

/-- the former F09a witness (requests at 1000.5 s, 1001.0 s, 3 × 1001.1 s; allowed 2) is in the domain and now
    behaves: the boundary request opens window 1001, which admits exactly 2. -/
example :
    let rs : List (Req Unit) := [⟨(), 1000500000000, wd1 1 2⟩, ⟨(), 1001000000000, wd1 1 2⟩,
      ⟨(), 1001100000000, wd1 1 2⟩, ⟨(), 1001100000000, wd1 1 2⟩, ⟨(), 1001100000000, wd1 1 2⟩]
    clean (runL capExact [] rs) = true ∧
    (runL capExact [] rs).map (·.pass) = [true, true, true, false, false] ∧
    holds capExact (runL capExact [] rs) = true := by
  decide

/-- the former F09c witness (window size 3 s → 10 s between requests; allowed 2) is in the domain and now
    behaves: two passes under the 10 s configuration, then rejections until the 10 s window ends. -/
example :
    let rs : List (Req Unit) := [⟨(), 1000100000000, wd1 3 2⟩, ⟨(), 1001500000000, wd1 10 2⟩,
      ⟨(), 1001500000001, wd1 10 2⟩, ⟨(), 1002500000000, wd1 10 2⟩, ⟨(), 1010000000000, wd1 10 2⟩]
    clean (runL capExact [] rs) = true ∧
    (runL capExact [] rs).map (·.pass) = [true, true, true, false, true] ∧
    holds capExact (runL capExact [] rs) = true := by
  decide

/-- spill-over: allowed 2 per 1 s window, one pass in window 1000 ⇒ window 1001 admits 3 (clean history). -/
example :
    let wd : WindowData := ⟨1000000000, 2, .one, true, 31⟩
    let rs : List (Req Nat) := [⟨1, 1000500000000, wd⟩, ⟨1, 1001500000000, wd⟩, ⟨1, 1001500000001, wd⟩,
      ⟨1, 1001500000002, wd⟩, ⟨1, 1001500000003, wd⟩]
    clean (runL capExact [] rs) = true ∧
    (runL capExact [] rs).map (·.pass) = [true, true, true, true, false] := by
  decide

/-- the former F09b witness: 100 × 7 % — the code's cap is 7, the 8th request of the window is rejected. -/
example :
    let wd : WindowData := ⟨1000000000, 100, .pct 7 1, false, 0⟩
    let rs : List (Req Unit) := (List.range 9).map (fun i => ⟨(), 1000500000000 + i, wd⟩)
    capUnits 100 (.pct 7 1) = 7 ∧ clean (runL capUnits [] rs) = true ∧
    (runL capUnits [] rs).map (·.pass) = [true, true, true, true, true, true, true, false, false] ∧
    holds capExact (runL capUnits [] rs) = true := by
  decide

/-- `bound_moving_clock`: the same two calls as in `second_reading_violation_witness`, but with ONE reading each
    (whatever the clock does afterwards): the call just before the boundary is rejected. -/
example :
    (runL capExact [] (stamp [1000500000000, 1000999999999, 1001000000001]
        [((), wd1 1 1), ((), wd1 1 1), ((), wd1 1 1)])).map (·.pass) = [true, false, true] := by
  decide

/-- the former F09f witness (allowed 2 per 1 s; spill-over collected while enabled, then the remedy is
    reconfigured with spill-over OFF): the later windows admit exactly 2 again. -/
example :
    let on : WindowData := ⟨1000000000, 2, .one, true, 31⟩
    let off : WindowData := ⟨1000000000, 2, .one, false, 31⟩
    let rs : List (Req Unit) := [⟨(), 1000500000000, on⟩, ⟨(), 1001500000000, on⟩,
      ⟨(), 1002500000000, off⟩, ⟨(), 1002500000001, off⟩, ⟨(), 1002500000002, off⟩,
      ⟨(), 1005500000000, off⟩, ⟨(), 1005500000001, off⟩, ⟨(), 1005500000002, off⟩]
    clean (runL capExact [] rs) = true ∧
    (runL capExact [] rs).map (·.pass) = [true, true, true, true, false, true, true, false] := by
  decide

/-- huge allowances (the former overflow of `scaledCeil`): 1e11 per window at ratio 1, and 50 % of 2^63 − 1. -/
example : capUnits 100000000000 .one = 100000000000 ∧
    capUnits 9223372036854775807 (.pct 50 1) = 4611686018427387904 ∧
    capExact 9223372036854775807 (.pct 50 1) = 4611686018427387904 := by
  decide

/-- the former F09d witness (allowed 2 per 1 s, spill-over on; window 1000 used up; scrapes in the idle windows
    1001–1003; requests in window 1004): the scrapes read 0 and change nothing — 2 pass, as without scrapes. -/
example :
    let wd : WindowData := ⟨1000000000, 2, .one, true, 31⟩
    let ops : List (Op Unit) := [.req ⟨(), 1000500000000, wd⟩, .req ⟨(), 1000500000001, wd⟩,
      .scrape 1001500000000, .scrape 1002500000000, .scrape 1003500000000,
      .req ⟨(), 1004500000000, wd⟩, .req ⟨(), 1004500000001, wd⟩, .req ⟨(), 1004500000002, wd⟩]
    clean (runOps capExact [] ops) = true ∧
    (runOps capExact [] ops).map (·.pass) = [true, true, true, true, false] := by
  decide

/-- `bound_all_schedules` / `schedule_equivalent_to_sequential`: three concurrent calls on one key (cap 2) and one
    on another key, sections interleaved (thread 2 runs its `TryToIncrement` first, thread 0 last): the third
    `TryToIncrement` on the shared key is the rejected one. -/
example :
    let calls : List (Call Nat) := [⟨7, wd1 1 2, "r", 2⟩, ⟨7, wd1 1 2, "r", 2⟩, ⟨7, wd1 1 2, "r", 2⟩, ⟨8, wd1 1 1, "q", 1⟩]
    let sched : List (Nat × Nat) := [(0, 1000500000000), (1, 1000500000000), (2, 1000500000001), (0, 1000500000001),
      (2, 1000500000002), (3, 1000500000002), (2, 1000500000003), (1, 1000500000003), (3, 1000500000004),
      (1, 1000500000005), (3, 1000500000006), (0, 1000500000007)]
    ((runC capExact calls (initC calls) sched).done.reverse.map (fun d => (d.1, d.2.pass)))
      = [(2, true), (1, true), (3, true), (0, false)] := by
  decide

/-- plugin level: two groups with 25 % / 75 % of 4, an unknown group under `block`, configured status 503. -/
example :
    let r : Remedy := ⟨"r", 4, 1, 503, false, 0,
      some ⟨some "X-Group", [("a", 25, 1), ("b", 75, 1)], "block", 0, 1⟩, true⟩
    let ps : List PReq := [⟨r, [("X-Group", "a")], 1000500000000⟩, ⟨r, [("X-Group", "a")], 1000500000001⟩,
      ⟨r, [("X-Group", "b")], 1000500000002⟩, ⟨r, [("X-Group", "zzz")], 1000500000003⟩]
    pluginRun capExact [] ps = [.noop, .early 503, .noop, .early 503] ∧
    clean (observe ps (pluginRun capExact [] ps)) = true ∧
    (observe ps (pluginRun capExact [] ps)).length = 3 := by
  decide +kernel   -- (`String.toLower` is defined by well-founded recursion: only the kernel evaluates it)

end LunarVerif.C09
