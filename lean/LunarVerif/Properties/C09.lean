import LunarVerif.Proofs.C09
import LunarVerif.Proofs.C09Conc
import LunarVerif.Proofs.C09Dispatch
/-!
# C09 — Policy-mode throttling never exceeds the allowed count per aligned window

Property theorems only (helpers live in `Proofs/C09.lean`).  The model is `Model/C09.lean`
(`tryInc` = `singleRateLimitState.TryToIncrement`, `stepL`/`runL` = `RateLimitState`, `pluginStep`/`pluginRun` =
`StrategyBasedThrottlingPlugin.OnRequest`); the property is `Spec/C09.lean` (`holds`, over the observable
history only).  All statements quantify over EVERY cap function `cap : (allowed + spill-over) → ratio → Int`
(so also over the float64 one the code uses), every key type, every window data (incl. spill-over, negative or
zero allowances, ratios above 1) and every finite request sequence, handled one at a time.

The model describes the code AFTER the repairs `fix: F09a` (a request exactly on a grid boundary opens the
new window) and `fix: F09c` (a window-size change drops the stored window end): the former excluded classes
(`boundaryFree`, `constW`) and their `_violation_witness` theorems are gone, bound and exactness hold for EVERY
history in the domain `clean` = monotone clock ∧ positive window sizes (not a finding class: a zero window
panics, and the plugin layer never produces such a limiter request).

`fix: F09b` made the cap an integer computation (`capUnits`, ratio in units of 1e-8): `cap_is_exact_share` and
`spec_holds_exact_cap` tie it to the exact rational share; `fix: F09d` made metrics scrapes read-only.

`fix: F09f` drops collected spill-over when a request's configuration has the feature off; the second F09b
patch makes `scaledCeil` overflow-free (`scaledCeil_is_ceil`, `scaledCeil_no_overflow`).
`fix: F09e` removed `strings.TrimSpace` from `buildGroupID`: the counter key is the allocation table's group
(`counters_follow_allocation_groups`, `plugin_spec_holds_groups`).  No finding of C09 is open.
-/
namespace LunarVerif.C09

section
variable {κ : Type} [DecidableEq κ]

/-- (ii) Isolation, frame form: a request on key `r.key` leaves the state of every other key untouched. -/
theorem isolation (cap : CapFn) (st : State κ) (r : Req κ) (k : κ) (hne : k ≠ r.key) :
    find k (stepL cap st r).1 = find k st :=
  stepL_other cap st r k hne

/-- (ii) Isolation, observable form: the verdicts a key gets in ANY run are those of a private limiter that
    sees only the key's own requests — requests of other remedies/groups never influence them. -/
theorem projection (cap : CapFn) (k : κ) (rs : List (Req κ)) :
    (runL cap [] rs).filter (fun e => e.key == k)
      = runK cap initKey (rs.filter (fun r => r.key == k)) := by
  have := filter_runL cap k rs ([] : State κ)
  simpa [find] using this

/-- Connection theorem: the judge predicate is true of EVERY model run in the domain (monotone clock, positive
    window sizes) — boundary instants and window-size changes included: each request passes iff its key's grid
    window holds fewer passes (since the key's last window-size change) than the cap in force. -/
theorem spec_holds (cap : CapFn) (rs : List (Req κ))
    (hclean : clean (runL cap [] rs) = true) :
    holds cap (runL cap [] rs) = true := by
  rw [clean, runL_inputs] at hclean
  exact runL_holds_of_admissible cap rs hclean

/-- (i) Bound: whenever a request passes, the passes of its key inside its grid window (handled under the same
    window size) — itself included — do not exceed the cap in force (allowed + spill-over, scaled). -/
theorem bound (cap : CapFn) (rs : List (Req κ)) (hclean : clean (runL cap [] rs) = true)
    (pre post : List (Event κ)) (e : Event κ) (hsplit : runL cap [] rs = pre ++ e :: post)
    (hpass : e.pass = true) :
    (passesInWin e.wd.W (e.t / e.wd.W) (regime e (keyHist e.key pre)) : Int) + 1
      ≤ cap (e.wd.allowed + refSpill (e :: keyHist e.key pre)) e.wd.ratio := by
  have h := spec_holds cap rs hclean
  rw [hsplit] at h
  have hok := holds_split cap pre post e h
  simp only [eventOk, hpass] at hok
  simp at hok
  omega

/-- (iii) Sequential exactness: a request is rejected only if its key's share of the current grid window is
    used up. -/
theorem exact (cap : CapFn) (rs : List (Req κ)) (hclean : clean (runL cap [] rs) = true)
    (pre post : List (Event κ)) (e : Event κ) (hsplit : runL cap [] rs = pre ++ e :: post)
    (hblock : e.pass = false) :
    cap (e.wd.allowed + refSpill (e :: keyHist e.key pre)) e.wd.ratio
      ≤ (passesInWin e.wd.W (e.t / e.wd.W) (regime e (keyHist e.key pre)) : Int) := by
  have h := spec_holds cap rs hclean
  rw [hsplit] at h
  have hok := holds_split cap pre post e h
  simp only [eventOk, hblock] at hok
  simp at hok
  omega

/-- (i) in its plain form: if every request of key `k` carries the same window data (spill-over off), then
    in EVERY grid window at most `cap allowed ratio` requests of `k` pass. -/
theorem window_bound (cap : CapFn) (rs : List (Req κ)) (hclean : clean (runL cap [] rs) = true)
    (k : κ) (wd : WindowData) (hoff : wd.spillOn = false)
    (hconst : ∀ r ∈ rs, r.key = k → r.wd = wd) (idx : Nat) :
    (passesInWin wd.W idx (keyHist k (runL cap [] rs)) : Int) ≤ max 0 (cap wd.allowed wd.ratio) := by
  have h := spec_holds cap rs hclean
  by_cases hmem : ∃ e ∈ runL cap [] rs, e.key = k
  · obtain ⟨e, he, hek⟩ := hmem
    simp only [holds, List.all_eq_true] at h
    have hk := h e he
    rw [hek] at hk
    apply holdsKeyRev_bound cap wd idx _ _ hoff hk
    intro x hx
    simp only [keyHist, List.mem_reverse, List.mem_filter, beq_iff_eq] at hx
    have hxin : x.req ∈ rs := by
      have := runL_inputs cap rs ([] : State κ)
      rw [← this]
      exact List.mem_map.mpr ⟨x, hx.1, rfl⟩
    exact hconst x.req hxin hx.2
  · have : keyHist k (runL cap [] rs) = [] := by
      simp only [keyHist, List.reverse_eq_nil_iff, List.filter_eq_nil_iff, beq_iff_eq]
      intro e he hek
      exact hmem ⟨e, he, hek⟩
    rw [this]
    simp [passesInWin]
    omega

end

/-! ### Metrics scrapes (`RateLimitState.Counters()`, repaired by fix F09d) -/

section
variable {κ : Type} [DecidableEq κ]

/-- A metrics scrape only reads: the limiter state after it is the state before it. -/
theorem scrape_reads_only (cap : CapFn) (st : State κ) (t : Nat) :
    (stepOp cap st (.scrape t)).1 = st := rfl

/-- Scrapes are invisible: the verdicts of a run of requests interleaved with metrics scrapes (at any
    instants) are those of the run of the requests alone — reading metrics never changes who passes. -/
theorem scrape_invisible (cap : CapFn) (ops : List (Op κ)) (st : State κ) :
    runOps cap st ops = runL cap st (reqsOf ops) := by
  induction ops generalizing st with
  | nil => rfl
  | cons o os ih =>
    cases o with
    | req r => simp [runOps, stepOp, reqsOf, runL, ih]
    | scrape t => simp [runOps, stepOp, reqsOf, ih]

/-- Connection theorem for runs WITH scrapes: the judge predicate (which ignores scrapes: `refSpill` credits
    only the key's previously active window) is true of every model run of requests and scrapes. -/
theorem spec_holds_with_scrapes (cap : CapFn) (ops : List (Op κ))
    (hclean : clean (runOps cap [] ops) = true) :
    holds cap (runOps cap [] ops) = true := by
  rw [scrape_invisible] at hclean ⊢
  exact spec_holds cap _ hclean

/-! ### All interleavings of concurrent requests (critical-section granularity, `Model/C09Conc.lean`;
    atomicity of the sections = obligation `LunarVerif.C18.atomicity_facts`, not imported) -/

/-- Every schedule is equivalent to a sequential order: the history of ANY interleaving of the threads'
    critical sections (verdicts in the order of the `TryToIncrement` sections, each stamped with the instant of
    that section) is exactly the sequential run of those same requests in that order; every thread appears at
    most once, with its own key and window data. -/
theorem schedule_equivalent_to_sequential (cap : CapFn) (calls : List (Call κ)) (sched : List (Nat × Nat)) :
    history (runC cap calls (initC calls) sched)
      = runL cap [] (inputs (history (runC cap calls (initC calls) sched))) ∧
    ((runC cap calls (initC calls) sched).done.map (·.1)).Nodup ∧
    ∀ d ∈ (runC cap calls (initC calls) sched).done,
      ∃ call, calls[d.1]? = some call ∧ d.2.key = call.key ∧ d.2.wd = call.wd := by
  have h := runC_inv cap calls sched _ (invC_init cap calls)
  exact ⟨h.seq, h.nodup, h.fromCall⟩

/-- (i)+(iii) for EVERY schedule and every monotone clock assignment to the steps: each concurrent request
    passes iff its key's grid window held fewer passes than the cap when its `TryToIncrement` section ran. -/
theorem bound_all_schedules (cap : CapFn) (calls : List (Call κ)) (sched : List (Nat × Nat))
    (hpos : ∀ call ∈ calls, 0 < call.wd.W) (hmono : sched.Pairwise (fun a b => a.2 ≤ b.2)) :
    holds cap (history (runC cap calls (initC calls) sched)) = true := by
  have h := runC_inv cap calls sched _ (invC_init cap calls)
  rw [h.seq]
  apply spec_holds
  rw [clean, runL_inputs]
  simp only [admissible, Bool.and_eq_true]
  constructor
  · apply history_monotone
    exact runC_mono cap calls sched _ hmono (by simp [initC]) (by simp [initC])
  · simp only [posW, List.all_eq_true, decide_eq_true_eq, inputs, history, List.mem_map,
      List.mem_reverse]
    rintro r ⟨e, ⟨d, hd, rfl⟩, rfl⟩
    obtain ⟨call, hcall, _, hwd⟩ := h.fromCall d hd
    simp only [Event.req, hwd]
    exact hpos call (List.mem_of_getElem? hcall)

/-- The plain per-window form for every schedule: if all concurrent calls on key `k` carry the same window
    data (spill-over off), at most `cap allowed ratio` of them pass in ANY grid window. -/
theorem window_bound_all_schedules (cap : CapFn) (calls : List (Call κ)) (sched : List (Nat × Nat))
    (hpos : ∀ call ∈ calls, 0 < call.wd.W) (hmono : sched.Pairwise (fun a b => a.2 ≤ b.2))
    (k : κ) (wd : WindowData) (hoff : wd.spillOn = false)
    (hconst : ∀ call ∈ calls, call.key = k → call.wd = wd) (idx : Nat) :
    (passesInWin wd.W idx (keyHist k (history (runC cap calls (initC calls) sched))) : Int)
      ≤ max 0 (cap wd.allowed wd.ratio) := by
  have h := runC_inv cap calls sched _ (invC_init cap calls)
  have hb := bound_all_schedules cap calls sched hpos hmono
  rw [h.seq] at hb ⊢
  have hclean : clean (runL cap [] (inputs (history (runC cap calls (initC calls) sched)))) = true := by
    rw [clean, runL_inputs]
    simp only [admissible, Bool.and_eq_true]
    constructor
    · apply history_monotone
      exact runC_mono cap calls sched _ hmono (by simp [initC]) (by simp [initC])
    · simp only [posW, List.all_eq_true, decide_eq_true_eq, inputs, history, List.mem_map,
        List.mem_reverse]
      rintro r ⟨e, ⟨d, hd, rfl⟩, rfl⟩
      obtain ⟨call, hcall, _, hwd⟩ := h.fromCall d hd
      simp only [Event.req, hwd]
      exact hpos call (List.mem_of_getElem? hcall)
  apply window_bound cap _ hclean k wd hoff _ idx
  simp only [inputs, history, List.mem_map, List.mem_reverse]
  rintro r ⟨e, ⟨d, hd, rfl⟩, rfl⟩ hk
  obtain ⟨call, hcall, hkey, hwd⟩ := h.fromCall d hd
  simp only [Event.req] at hk ⊢
  rw [hwd]
  exact hconst call (List.mem_of_getElem? hcall) (by rw [← hkey]; exact hk)

end

/-! ### A clock that moves between readings -/

/-- The code's `TryToIncrement` is the ONE-reading instance: using the same reading for the grid window and for
    the roll-over decision is exactly the model's step. -/
theorem single_reading (cap : CapFn) (t : Nat) (wd : WindowData) (s : KeyState) :
    tryInc2 cap t t wd s = tryInc cap t wd s :=
  tryInc2_single_reading cap t wd s

/-- Bound and exactness for a MOVING clock: let `readings` be the successive values of `Now()` — monotone, with
    arbitrary increments between them — and let every call take ONE reading for everything (as the code does):
    each call passes iff its key's grid window (of THAT reading) holds fewer passes than the cap. -/
theorem bound_moving_clock {κ : Type} [DecidableEq κ] (cap : CapFn) (readings : List Nat)
    (calls : List (κ × WindowData)) (hmono : readings.Pairwise (· ≤ ·))
    (hpos : ∀ c ∈ calls, 0 < c.2.W) :
    holds cap (runL cap [] (stamp readings calls)) = true := by
  apply spec_holds
  rw [clean, runL_inputs]
  simp only [admissible, monotone, posW, Bool.and_eq_true, decide_eq_true_eq, List.all_eq_true]
  exact ⟨stamp_monotone readings calls hmono, fun r hr => hpos _ (stamp_mem_wd readings calls r hr)⟩

/-- Deciding the roll-over from a SECOND, later reading breaks the bound (seeded change C09-s10): allowed 1 per
    1 s, window 1000 is used up; a call whose first reading is 1 ns before the boundary computes the window end
    1001 s from it, decides "window over" from the second reading (exactly 1001 s), resets the counter and passes:
    two passes attributed to grid window 1000. -/
theorem second_reading_violation_witness :
    ∃ rs : List (Req Unit × Nat), (rs.map (·.1.t)).Pairwise (· ≤ ·) ∧
      (runK2 capExact initKey rs).map (·.pass) = [true, true] ∧
      passesInWin 1000000000 1000 (runK2 capExact initKey rs) = 2 ∧
      holdsKeyRev capExact (runK2 capExact initKey rs).reverse = false := by
  refine ⟨[(⟨(), 1000500000000, wd1 1 1⟩, 0), (⟨(), 1000999999999, wd1 1 1⟩, 1)], ?_, ?_, ?_, ?_⟩ <;> decide

/-! ### The cap the code computes is the exact share (fix F09b) -/

/-- `scaledCeil` (integers, ratio in units of 1e-8) is exactly "(allowed + spill-over) × percentage, rounded up"
    for every percentage with at most six decimals (and for the ungrouped ratio 1) — for every count, in
    particular every int64 one (`scaledCeil_no_overflow`: the int64 computation is the integer one). -/
theorem cap_is_exact_share (total : Int) (r : Ratio) (h6 : sixDecimals r = true) :
    capUnits total r = capExact total r :=
  capUnits_eq_capExact total r h6

/-- The Go formula of `scaledCeil` (count split into whole multiples of 1e8 and a rest, truncating division,
    plus one for a positive product with a remainder) is ⌈count · units / 1e8⌉ — for every integer count. -/
theorem scaledCeil_is_ceil (count units : Int) :
    capGo count units = -((-(count * units)) / 100000000) :=
  capGo_eq_ceil count units

/-- `scaledCeil` cannot overflow: for EVERY int64 count and every ratio in [0, 1] (units ≤ 1e8) each
    intermediate value of the Go formula — quotient, remainder, both products, the truncated quotient and
    remainder of the product, the sum and (when it is taken) the increment — lies in the int64 range.  So the
    unbounded-integer model `capGo` IS the int64 computation. -/
theorem scaledCeil_no_overflow (count units : Int) (hc : fits64 count) (hu0 : 0 ≤ units)
    (hu1 : units ≤ 100000000) :
    fits64 (tdivR count) ∧ fits64 (tmodR count) ∧ fits64 (tmodR count * units) ∧
    fits64 (tdivR count * units) ∧ fits64 (tdivR (tmodR count * units)) ∧
    fits64 (tmodR (tmodR count * units)) ∧
    fits64 (tdivR count * units + tdivR (tmodR count * units)) ∧
    (0 < tmodR count * units ∧ tmodR (tmodR count * units) ≠ 0 →
      fits64 (tdivR count * units + tdivR (tmodR count * units) + 1)) :=
  capGo_fits count units hc hu0 hu1

/-- Connection theorem WITHOUT an opaque cap: every run of the model with the code's cap (`capUnits`) satisfies
    the Spec evaluated with the EXACT rational cap, for percentages with at most six decimals. -/
theorem spec_holds_exact_cap {κ : Type} [DecidableEq κ] (rs : List (Req κ))
    (hclean : clean (runL capUnits [] rs) = true) (h6 : ∀ r ∈ rs, sixDecimals r.wd.ratio = true) :
    holds capExact (runL capUnits [] rs) = true := by
  rw [← holds_congr_cap capUnits capExact]
  · exact spec_holds capUnits rs hclean
  · intro e he total
    have hin : e.req ∈ rs := by
      have := runL_inputs capUnits rs ([] : State κ)
      rw [← this]
      exact List.mem_map.mpr ⟨e, he, rfl⟩
    exact capUnits_eq_capExact total _ (h6 e.req hin)

-- (`wd1 Wsec allowed` = window data of an ungrouped remedy: `Wsec` seconds, `allowed` per window, spill-over off)

/-! ### Plugin layer: group header → key, allocation table, default behaviours, rejection status -/

/-- Different remedies, and different group-header values of one remedy, never share a counter key;
    the key carries the remedy name. -/
theorem key_of_remedy (r : Remedy) (hs : List (String × String)) (key : Key) (wd : WindowData)
    (h : resolve r hs = .limited key wd) : key.remedy = r.name := by
  unfold resolve at h
  dsimp only at h
  repeat' split at h
  all_goals first
    | (injection h with h1 h2; rw [← h1])
    | (exact absurd h (by simp))
    | skip

/-- … and, for a remedy with an allocation table, the lower-cased header NAME and the request's value of that
    header, as it is (fix F09e; the MD5 hash of the unit-test wiring is modelled as injective). -/
theorem key_of_group (r : Remedy) (hs : List (String × String)) (key : Key) (wd : WindowData)
    (a : Alloc) (hn : String) (h : resolve r hs = .limited key wd)
    (ha : r.alloc = some a) (hg : a.groupBy = some hn) :
    key.group = some (hn.toLower, lookupHdr hs hn) := by
  unfold resolve at h
  rw [ha] at h
  dsimp only at h
  rw [hg] at h
  dsimp only at h
  repeat' split at h
  all_goals first
    | (injection h with h1 h2; rw [← h1]; rfl)
    | (exact absurd h (by simp))
    | skip

/-- Every answer of `OnRequest` is the one the configuration dictates: default behaviour `allow`/undefined ⇒
    NoOp, `block` ⇒ early response, and every rejection (default or by the limiter) carries the configured
    status (429 when none is configured). -/
theorem answers_as_configured (cap : CapFn) (st : State Key) (p : PReq) :
    answerOk p (pluginStep cap st p.remedy p.hdrs p.t).2 = true :=
  answerOk_pluginStep cap st p

/-- The limiter events an observer reconstructs from the answers of a plugin run are exactly a limiter run
    over the resolved (remedy, group) keys: requests answered by a default behaviour touch no counter. -/
theorem plugin_is_limiter_run (cap : CapFn) (ps : List PReq) (hW : ∀ p ∈ ps, p.remedy.winSec ≠ 0) :
    observe ps (pluginRun cap [] ps) = runL cap [] (limitedReqs ps) :=
  observe_pluginRun cap ps hW []

/-- Connection theorem at the plugin level: what the judge evaluates on the answers of `OnRequest` is true of
    every model run in the domain. -/
theorem plugin_spec_holds (cap : CapFn) (ps : List PReq) (hW : ∀ p ∈ ps, p.remedy.winSec ≠ 0)
    (hclean : clean (observe ps (pluginRun cap [] ps)) = true) :
    holds cap (observe ps (pluginRun cap [] ps)) = true := by
  rw [plugin_is_limiter_run cap ps hW] at hclean ⊢
  exact spec_holds cap _ hclean

/-! ### Groups as the allocation table distinguishes them (what the judge evaluates) -/

/-- Same counter ⇔ same group value: two requests under one remedy configuration use the same counter key iff
    their group-header values are EQUAL (byte for byte: no case folding, no trimming) — distinct values ⇒ distinct
    counters, same value ⇒ same counter: exactly the allocation table's notion of a group. -/
theorem group_counter_exact (r : Remedy) (hs₁ hs₂ : List (String × String)) (k₁ k₂ : Key) (w₁ w₂ : WindowData)
    (a : Alloc) (hn : String) (h₁ : resolve r hs₁ = .limited k₁ w₁) (h₂ : resolve r hs₂ = .limited k₂ w₂)
    (ha : r.alloc = some a) (hg : a.groupBy = some hn) :
    k₁ = k₂ ↔ lookupHdr hs₁ hn = lookupHdr hs₂ hn := by
  have r₁ := key_of_remedy r hs₁ k₁ w₁ h₁
  have r₂ := key_of_remedy r hs₂ k₂ w₂ h₂
  have g₁ := key_of_group r hs₁ k₁ w₁ a hn h₁ ha hg
  have g₂ := key_of_group r hs₂ k₂ w₂ a hn h₂ ha hg
  obtain ⟨n₁, q₁⟩ := k₁
  obtain ⟨n₂, q₂⟩ := k₂
  simp only at r₁ r₂ g₁ g₂
  subst r₁ r₂ g₁ g₂
  simp

/-- The counter key of every limiter event IS the group as the allocation table distinguishes it — for every
    request sequence and every answer list (fix F09e). -/
theorem counters_follow_allocation_groups (ps : List PReq) (as : List Answer) :
    groupFaithful (observeP ps as) = true := by
  simp only [groupFaithful, List.all_eq_true, beq_iff_eq]
  intro a ha b hb
  rw [observeP_keys ps as a ha, observeP_keys ps as b hb]

/-- Connection theorem for the judge's grouping, at full strength: with the limiter events keyed by (remedy, group
    value exactly as the allocation table matches it), EVERY model run satisfies the Spec — per group and aligned
    window, the group's own share; no group's traffic touches another group's counter. -/
theorem plugin_spec_holds_groups (cap : CapFn) (ps : List PReq) (hW : ∀ p ∈ ps, p.remedy.winSec ≠ 0)
    (hclean : clean (observe ps (pluginRun cap [] ps)) = true) :
    holds cap (observeS ps (pluginRun cap [] ps)) = true := by
  have h := plugin_spec_holds cap ps hW hclean
  rw [← observeP_code, holds_map_rekey] at h
  rw [observeS, holds_map_rekey, ← h]
  apply holdsOn_congr
  intro a ha b hb
  have hf := counters_follow_allocation_groups ps (pluginRun cap [] ps)
  simp only [groupFaithful, List.all_eq_true, beq_iff_eq] at hf
  exact (hf a ha b hb).symm

/-! ### Dispatcher level: loader validation, remedy chains (`Model/C09Dispatch.lean`) -/

/-- The loader accepts a policies document iff the names of all its policies are pairwise distinct. -/
theorem accepted_iff_names_distinct (ps : List DPol) :
    accepted ps = true ↔ (ps.map (·.name)).Nodup :=
  accepted_iff_nodup ps

/-- Accepted configuration ⇒ limiter states are per remedy: two DIFFERENT policies of an accepted document never
    resolve to the same rate-limit key, whatever endpoints they are attached to and whatever the requests carry
    (the key is made of the remedy NAME; the validation is what keeps names apart). -/
theorem limiter_states_per_remedy (ps : List DPol) (hacc : accepted ps = true) :
    ps.Pairwise (fun p q => ∀ r₁ r₂ hs₁ hs₂ k₁ k₂ w₁ w₂,
      remedyOf p = some r₁ → remedyOf q = some r₂ →
      resolve r₁ hs₁ = .limited k₁ w₁ → resolve r₂ hs₂ = .limited k₂ w₂ → k₁ ≠ k₂) := by
  have hnd := (accepted_iff_nodup ps).mp hacc
  rw [List.Nodup, List.pairwise_map] at hnd
  refine hnd.imp ?_
  intro p q hne r₁ r₂ hs₁ hs₂ k₁ k₂ w₁ w₂ hp hq h₁ h₂ hk
  have e₁ := key_of_remedy r₁ hs₁ k₁ w₁ h₁
  have e₂ := key_of_remedy r₂ hs₂ k₂ w₂ h₂
  have n₁ : r₁.name = p.name := by
    unfold remedyOf at hp; split at hp <;> simp at hp; rw [← hp]
  have n₂ : r₂.name = q.name := by
    unfold remedyOf at hq; split at hq <;> simp at hq; rw [← hq]
  apply hne
  rw [← n₁, ← n₂, ← e₁, ← e₂, hk]

/-- A request whose chain holds ONE throttling remedy next to any number of remedies that neither answer a request
    nor touch its headers as the throttling remedy sees them — retry, o_auth / basic authentication, caching (it
    stores provider responses only: fix F09g) — in ANY order is answered exactly as that remedy's `OnRequest`
    answers on the client's request: same verdict, same rejection status and body, the same state step.  (A
    fixed-response remedy answers in its place when the request asks for it, and an account-orchestration / api-key
    remedy listed before it decides the group header it sees — hence the hypothesis.) -/
theorem dispatch_single_throttle (cap : CapFn) (s : DState) (ps : List DPol) (url method : String)
    (hs : List (String × String)) (t : Nat) (r : Remedy)
    (hplain : (chain ps url method).all plain = true)
    (h : (chain ps url method).filterMap remedyOf = [r]) :
    (dispatchStep cap s ps url method hs t).1 = { s with lim := (pluginStep cap s.lim r hs t).1 } ∧
    (dispatchStep cap s ps url method hs t).2.1 = toDAns (pluginStep cap s.lim r hs t).2 := by
  simp only [dispatchStep, runChain_single_throttle cap url method hs t _ s r hplain h, and_self]

/-- A request whose chain holds no throttling remedy (and no fixed-response / header-setting remedy) passes and
    touches no counter. -/
theorem dispatch_no_throttle (cap : CapFn) (s : DState) (ps : List DPol) (url method : String)
    (hs : List (String × String)) (t : Nat) (hplain : (chain ps url method).all plain = true)
    (h : (chain ps url method).filterMap remedyOf = []) :
    (dispatchStep cap s ps url method hs t).1 = s ∧ (dispatchStep cap s ps url method hs t).2.1 = .pass := by
  simp only [dispatchStep, runChain_no_throttle cap url method hs t _ s .pass hplain h, and_self]

/-- A header an earlier remedy of the chain puts on the request is the one the throttling remedy groups by — not
    the value the client sent: an api-key remedy setting the group header, then the throttling remedy. -/
theorem dispatch_setter_then_throttle (cap : CapFn) (s : DState) (hn hv : String) (p q : DPol) (r : Remedy)
    (url method : String) (hs : List (String × String)) (t : Nat)
    (hp : p.kind = .apikey hn hv) (hq : remedyOf q = some r) :
    runChain cap url method t [p, q] s hs .pass
      = ({ s with lim := (pluginStep cap s.lim r (hs ++ [(hn, hv)]) t).1 },
         toDAns (pluginStep cap s.lim r (hs ++ [(hn, hv)]) t).2) := by
  have h1 : stepPol cap url method hs t p s = (s, .pass, some (hn, hv), [(hn, hv)]) := by
    unfold stepPol; rw [hp]
  simp only [runChain, h1, stepPol_throttle cap url method _ t q s r hq]
  simp

/-! ### Non-vacuity -/

/-- the former F09g witness (allowed 1 per 2 s and a caching remedy on the endpoint): the rejection is not cached —
    the requests 10 s and 20 s later, in empty windows, pass. -/
example :
    let ps : List DPol := [⟨some ("api.example.com/orders", "GET"), "t1", true, .throttle ⟨"", 1, 2, 0, false, 0, none, true⟩⟩,
      ⟨some ("api.example.com/orders", "GET"), "r1", true, .retry 2 429 429⟩,
      ⟨some ("api.example.com/orders", "GET"), "c1", true, .cache 100000⟩]
    let u := "api.example.com/orders"
    let s1 := dispatchStep capExact {} ps u "GET" [] 1000500000000
    let s2 := dispatchStep capExact s1.1 ps u "GET" [] 1000500000001
    let s3 := dispatchStep capExact s2.1 ps u "GET" [] 1010500000000
    let s4 := dispatchStep capExact s3.1 ps u "GET" [] 1020500000000
    [s1.2.1, s2.2.1, s3.2.1, s4.2.1] = [.pass, .early 429 tooMany, .pass, .pass] := by
  decide +kernel

/-- dispatcher level: the document of seed C09-s11 (one name on two endpoints) is refused; with distinct names
    `/orders` (2 per hour, behind an o_auth remedy listed FIRST — seed C09-s13) and `/invoices` (5 per two hours) keep
    their own counts, a retry remedy covering 429 sits in both chains and the third `/orders` request leaves with
    429 and the throttling body. -/
example :
    let th (a w : Nat) : DKind := .throttle ⟨"", a, w, 429, false, 0, none, true⟩
    let dup : List DPol := [⟨some ("api.example.com/orders", "GET"), "throttle", true, th 2 3600⟩,
      ⟨some ("api.example.com/invoices", "GET"), "throttle", true, th 5 7200⟩]
    let ok : List DPol := [⟨some ("api.example.com/orders", "GET"), "oauth", true, .oauth⟩,
      ⟨some ("api.example.com/orders", "GET"), "t-orders", true, th 2 3600⟩,
      ⟨some ("api.example.com/invoices", "GET"), "t-invoices", true, th 5 7200⟩, ⟨none, "retry", true, .retry 2 429 429⟩]
    let s1 := dispatchStep capExact {} ok "api.example.com/orders" "GET" [] 1000500000000
    let s2 := dispatchStep capExact s1.1 ok "api.example.com/orders" "GET" [] 1000500000001
    let s3 := dispatchStep capExact s2.1 ok "api.example.com/invoices" "GET" [] 1000500000002
    let s4 := dispatchStep capExact s3.1 ok "api.example.com/orders" "GET" [] 1000500000003
    accepted dup = false ∧ accepted ok = true ∧
    [s1.2.1, s2.2.1, s3.2.1, s4.2.1] = [.pass, .pass, .pass, .early 429 tooMany] := by
  decide +kernel

end LunarVerif.C09
