import LunarVerif.Proofs.C06Seq
import LunarVerif.Proofs.C06Ttl
/-!
# C06 — Queued requests: one verdict within TTL, priority order, bounded queue

Property theorems only (helpers live in `Proofs/C06*.lean`).  The model (`Model/C06.lean`) is an
interleaving transition system at critical-section granularity: request threads, the processing
loop, the TTL watcher and shutdown.  `run cfg s acts` applies an arbitrary list of thread actions
(`Act`), an action that is not enabled being a no-op; the theorems quantify over ALL such schedules,
all configurations (`queue_size`, TTL, quota maximum and window) and all start instants.
`noCancel acts` = the schedule contains no shutdown.

Parts of the property the unchanged code violates are stated as `_violation_witness` theorems
(machine-checked runs of the model, the same runs as `corpus/C06/F06?.ops`, which replay on the real
processor) next to what does hold (`priority_strict`, `size_bound_sequential`, `one_verdict`).
Not proved here: (T) the upper bound "no later than TTL + slack" and liveness — they depend on
real time and scheduler fairness and are measured by the harness, see `notes/C06.md`.
-/
namespace LunarVerif.C06

/-! ### (V) exactly one verdict -/

/-- Without shutdown, under every schedule: no panic; every request's waiter is signalled (Done) at
most once — exactly once iff the request reached state `processed` —; the WaitGroup counter is 1
before and 0 after; and an `Execute` call that returned did so after that single Done, with the
verdict that Done carried. -/
theorem one_verdict (cfg : Cfg) (t0 : Nat) (acts : List Act) (hn : noCancel acts) :
    let s := run cfg (St.init t0) acts
    s.panicked = false ∧
    ∀ i, (s.reqs i).dones ≤ 1 ∧
         ((s.reqs i).dones = 1 ↔ (s.reqs i).st = .processed) ∧
         (s.reqs i).wg = 1 - (s.reqs i).dones ∧
         ∀ a, (s.reqs i).pc = .returned a → (s.reqs i).dones = 1 ∧ a = ((s.reqs i).res == .success) := by
  intro s
  have h : InvA s := invA_run cfg acts (St.init t0) hn (invA_init t0)
  refine ⟨h.np, fun i => ?_⟩
  have hd := h.dn i
  have hw := h.wg i
  refine ⟨?_, ?_, ?_, ?_⟩
  · rw [hd]; split <;> omega
  · rw [hd]; split <;> simp_all
  · rw [hd, hw]; split <;> simp
  · intro a ha
    have := h.rt i a ha
    refine ⟨?_, this.2⟩
    rw [hd, this.1]; simp

/-- The same on the observable history: the Spec predicate (V) holds of the trace of every
schedule without shutdown. -/
theorem one_verdict_observable (cfg : Cfg) (t0 : Nat) (acts : List Act) (hn : noCancel acts) :
    scan verdictOk [] (run cfg (St.init t0) acts).trace.reverse = true := by
  have h := (invAT_run cfg acts (St.init t0) hn (invA_init t0) (invT_init t0)).2
  rw [scan_reverse]; exact h.tv

/-- non-vacuity: in the F06a scenario request 0 is allowed, request 2 is allowed, each after exactly
one Done (13 macro-operations, no shutdown). -/
example :
    let s := (runOps ⟨5, 2000, 1, 1000⟩ { s := St.init 1700000000000 }
      [.arrive 1, .tick, .tick, .arrive 1, .arrive 1, .tick, .tick, .tick, .tick, .tick, .tick, .tick, .tick]).s
    (s.reqs 0).pc = .removed ∧ (s.reqs 0).dones = 1 ∧ (s.reqs 2).res = .success ∧ (s.reqs 2).dones = 1 ∧
    (s.reqs 1).pc = .parked ∧ (s.reqs 1).dones = 0 := by
  decide +kernel

/-! ### (Q) allowed only when the quota admits -/

/-- Without shutdown, under every schedule: a request whose result is `success` is one for which the
quota's last `Inc;Allowed` answered yes; and on the observable history every `allowed` verdict is
preceded by a successful quota attempt for that request with no refused attempt in between. -/
theorem allowed_implies_quota (cfg : Cfg) (t0 : Nat) (acts : List Act) (hn : noCancel acts) :
    let s := run cfg (St.init t0) acts
    (∀ i, (s.reqs i).res = .success → (s.reqs i).qok = true) ∧
    scan quotaOk [] s.trace.reverse = true := by
  intro s
  have h := invAT_run cfg acts (St.init t0) hn (invA_init t0) (invT_init t0)
  refine ⟨h.1.qk, ?_⟩
  rw [scan_reverse]; exact h.2.tq

/-- non-vacuity: with quota 1 per second two requests are queued; after one tick one of them has
been allowed (quota said yes) and the other refused (quota said no). -/
example :
    let s := (runOps ⟨5, 2000, 1, 1000⟩ { s := St.init 1700000000000 } [.arrive 0, .arrive 0, .tick]).s
    (s.reqs 0).res = .success ∧ (s.reqs 0).qok = true ∧ (s.reqs 1).res = .pending ∧ (s.reqs 1).qok = false := by
  decide +kernel

/-! ### (P) priority order -/

/-- Without shutdown, under every schedule: whenever the processing loop is about to take the next
request (`loop = running`), the heap minimum `m` it will pop has the least priority number among
ALL requests that wait and could be served (parked, state `enqueued`): no waiter with a strictly
lower priority number is passed over.  (A request is allowed only after having been popped this
way: `granted i` is reached from `popped i` only.) -/
theorem priority_strict (cfg : Cfg) (t0 : Nat) (acts : List Act) (hn : noCancel acts) :
    let s := run cfg (St.init t0) acts
    ∀ m, s.loop = .running → minItem s.heap = some m →
      m.prio = (s.reqs m.id).prio ∧
      ∀ i, (s.reqs i).pc = .parked → (s.reqs i).st = .enqueued → m.prio ≤ (s.reqs i).prio := by
  intro s m hl hm
  have h := (invAH_run cfg acts (St.init t0) hn (invA_init t0) (invH_init t0)).2
  have hmem := minItem_mem _ _ hm
  refine ⟨(h.hi m hmem).2, fun i hp hs => ?_⟩
  obtain ⟨x, hx, hid⟩ := h.el i hp hs (by rw [hl]; simp)
  have := hle_prio _ _ (minItem_le _ _ hm x hx)
  rw [(h.hi x hx).2, hid] at this
  exact this

/-- non-vacuity: priorities 5 then 1 arrive, the loop wakes up: the minimum is the request with
priority 1 (id 1), not the older one. -/
example :
    let s := run ⟨5, 2000, 1, 1000⟩ (St.init 0)
      [.arrive 5, .register 0, .push 0, .arrive 1, .register 1, .push 1, .loopFire]
    s.loop = .running ∧ (minItem s.heap).map (·.id) = some 1 ∧ (s.reqs 0).pc = .parked ∧ (s.reqs 0).st = .enqueued := by
  decide +kernel

/-- What does hold within one priority (without shutdown, under every schedule): the loop serves in
the order of the LAST push — arrival or re-push after a refused attempt — not in the order of
arrival: the popped minimum `m` has the smallest heap timestamp among all entries of its priority,
and every waiter that could be served has an entry.  That the last push is not the arrival is
exactly F06a. -/
theorem fifo_by_last_push (cfg : Cfg) (t0 : Nat) (acts : List Act) (hn : noCancel acts) :
    let s := run cfg (St.init t0) acts
    ∀ m, s.loop = .running → minItem s.heap = some m →
      (∀ x ∈ s.heap, x.prio = m.prio → m.ts ≤ x.ts) ∧
      ∀ i, (s.reqs i).pc = .parked → (s.reqs i).st = .enqueued → ∃ x ∈ s.heap, x.id = i := by
  intro s m hl hm
  have h := (invAH_run cfg acts (St.init t0) hn (invA_init t0) (invH_init t0)).2
  refine ⟨fun x hx hp => ?_, fun i hp hs => h.el i hp hs (by rw [hl]; simp)⟩
  have := minItem_le _ _ hm x hx
  unfold hle at this
  simp [hp] at this
  exact this

/-- F06a.  FIFO within one priority does NOT hold: in this run (no shutdown, no overlapping
arrivals; quota 1 per second, already used by request 0) requests 1 and 2 have equal priority, 1
is queued before 2, 1's attempt is refused by the quota and 1 is pushed again with a later
timestamp; 2 is allowed while 1 still waits.  The observable FIFO predicate fails on the history
and the failure is in the class `f06aAt`. -/
theorem fifo_violation_witness :
    ∃ (cfg : Cfg) (t0 : Nat) (ops : List Op), Op.drain ∉ ops ∧
      let h := (runOps cfg { s := St.init t0 } ops).s.trace.reverse
      scan (fifoOk cfg) [] h = false ∧ coreOk cfg h = true ∧ finding cfg h = some "F06a" :=
  ⟨⟨5, 2000, 1, 1000⟩, 1700000000000,
   [.arrive 1, .tick, .tick, .arrive 1, .arrive 1, .tick, .tick, .tick, .tick, .tick, .tick, .tick, .tick],
   by decide, by decide +kernel⟩

/-! ### (B) bounded queue -/

/-- Under every schedule (shutdown included) whose arrivals do not overlap — no `arrive` while
another request is between its slot test and its registration — the number of waiting requests
(registered, verdict not yet returned) never exceeds `queue_size`. -/
theorem size_bound_sequential (cfg : Cfg) (t0 : Nat) (acts : List Act)
    (hs : SeqArr cfg (St.init t0) acts) :
    (nWaiting (run cfg (St.init t0) acts) : Int) ≤ max cfg.size 0 :=
  invB_bound cfg _ (invB_run cfg acts (St.init t0) hs (invB_init cfg t0))

/-- non-vacuity: a non-overlapping schedule in which the bound is reached (size 1, one waiter). -/
example :
    SeqArr ⟨1, 2000, 1, 1000⟩ (St.init 0) [.arrive 0, .register 0, .push 0] ∧
    nWaiting (run ⟨1, 2000, 1, 1000⟩ (St.init 0) [.arrive 0, .register 0, .push 0]) = 1 := by
  refine ⟨⟨fun _ i => by simp [St.init], ?_⟩, by decide +kernel⟩
  refine ⟨fun ⟨_, h⟩ => (by cases h), ?_⟩
  exact ⟨fun ⟨_, h⟩ => (by cases h), trivial⟩

/-- The bound for driver runs: every run of macro-operations that uses neither the gate after the
slot test (`arriveBegin`) nor shutdown has non-overlapping arrivals, hence at most `queue_size`
requests wait after it — in particular every sequential scenario the harness replays on the real
processor (the state after EVERY prefix is covered: a prefix of such a run is such a run). -/
theorem size_bound_sequential_ops (cfg : Cfg) (t0 : Nat) (ops : List Op)
    (hb : ∀ op ∈ ops, isArriveBegin op = false) (hd : Op.drain ∉ ops) :
    (nWaiting (runOps cfg { s := St.init t0 } ops).s : Int) ≤ max cfg.size 0 := by
  rw [runOps_eq_run]
  exact size_bound_sequential cfg t0 _
    (seqArr_schedule cfg ops { s := St.init t0 } hb hd (invA_init t0) (fun i => by simp [St.init]))

/-- F06b.  With overlapping arrivals the bound does NOT hold: `queue_size = 1`, two arrivals pass
the slot test before either registers; both wait. -/
theorem size_bound_violation_witness :
    ∃ (cfg : Cfg) (t0 : Nat) (acts : List Act),
      ¬ ((nWaiting (run cfg (St.init t0) acts) : Int) ≤ max cfg.size 0) :=
  ⟨⟨1, 2000, 2, 1000⟩, 0, [.arrive 0, .arrive 0, .register 0, .push 0, .register 1, .push 1], by decide +kernel⟩

/-- The same through the macro-operations of `corpus/C06/F06b.ops`: the observable bound predicate
fails on the history and the failure is in the class `f06bAt`. -/
theorem size_bound_violation_observable :
    ∃ (cfg : Cfg) (t0 : Nat) (ops : List Op),
      let h := (runOps cfg { s := St.init t0 } ops).s.trace.reverse
      scan (boundOk cfg) [] h = false ∧ coreOk cfg h = true ∧ finding cfg h = some "F06b" :=
  ⟨⟨1, 2000, 2, 1000⟩, 1700000000000, [.arriveBegin 0, .arriveBegin 0, .arriveEnd 0, .arriveEnd 1, .tick],
   by decide +kernel⟩

/-! ### (T) time-outs are never early -/

/-- Without shutdown, under every schedule: a request whose result is `timeout` is past its TTL on
the clock, strictly (`now > arrival + ttl`, as `time.After` in `notifyExpiredRequests`).  The upper
bound ("no later than TTL + slack") is real-time behaviour of the watcher and is only measured. -/
theorem timeout_only_after_ttl (cfg : Cfg) (t0 : Nat) (acts : List Act) (hn : noCancel acts) :
    let s := run cfg (St.init t0) acts
    ∀ i, (s.reqs i).res = .timeout → (s.reqs i).arrival + cfg.ttl < s.now := by
  intro s i hi
  have h : InvW cfg s := (invAW_run cfg acts (St.init t0) hn (invA_init t0) (invW_init cfg t0)).2
  exact (h.w2 i hi).2

/-- non-vacuity: TTL 1 s, a quota that admits nothing: after 10 ticks (now = arrival + TTL) the
request still waits, after the 11th it is rejected by time-out. -/
example :
    let x10 := runOps ⟨2, 1000, 0, 1000⟩ { s := St.init 1700000000000 }
      [.arrive 0, .tick, .tick, .tick, .tick, .tick, .tick, .tick, .tick, .tick, .tick, .idle]
    let x11 := applyOp ⟨2, 1000, 0, 1000⟩ x10 .tick
    (x10.s.reqs 0).res = .pending ∧ (x10.s.reqs 0).pc = .parked ∧ (x11.s.reqs 0).res = .timeout ∧
    (x11.s.reqs 0).pc = .removed := by
  decide +kernel

/-! ### (D) shutdown -/

/-- F06c.  Shutdown is NOT crash-free: request 0 is allowed (Done once) but its removal goroutine
has not run when the context is cancelled; `StopAll` signals every entry of the watch list,
request 0 a second time: the WaitGroup counter goes to -1 — the modelled panic.
(`corpus/C06/F06c.ops`; on the real processor: "sync: negative WaitGroup counter".) -/
theorem drain_double_done_witness :
    ∃ (cfg : Cfg) (t0 : Nat) (ops : List Op),
      let s := (runOps cfg { s := St.init t0 } ops).s
      s.panicked = true ∧ (s.reqs 0).dones = 2 ∧ (s.reqs 0).wg = -1 ∧
      finding cfg s.trace.reverse = some "F06c" :=
  ⟨⟨2, 2000, 2, 1000⟩, 1700000000000, [.holdRemove, .arrive 0, .arrive 0, .tick, .arrive 0, .drain],
   by decide +kernel⟩

/-- What does hold at shutdown, on a run: with every removal completed, `StopAll` releases all
waiters and nothing crashes (two waiters, quota that admits nothing). -/
example :
    let s := (runOps ⟨3, 2000, 0, 1000⟩ { s := St.init 1700000000000 } [.arrive 0, .arrive 1, .tick, .drain]).s
    s.panicked = false ∧ s.loop = .exited ∧ (s.reqs 0).pc = .removed ∧ (s.reqs 1).pc = .removed ∧
    holds ⟨3, 2000, 0, 1000⟩ s.trace.reverse = true := by
  decide +kernel

/-! ### Connection with the driver / judge -/

/-- A run of macro-operations — exactly what `lvdriver_c06 run` executes and what the harness
replays on the real processor — is a run of the interleaving model under the flat schedule
`schedule`; so every theorem above speaks about every driver run. -/
theorem driver_run_is_model_run (cfg : Cfg) (t0 : Nat) (ops : List Op) :
    (runOps cfg { s := St.init t0 } ops).s =
      run cfg (St.init t0) (schedule cfg { s := St.init t0 } ops) :=
  runOps_eq_run cfg ops _

/-- Partial connection theorem: on every driver run without a `drain` operation, the conjuncts (V)
and (Q) of the judge's predicate are true of the model's history, and no panic occurs.  (The other
conjuncts are related to the model by the state-level theorems above and by the three witnesses;
FIFO, the bound under overlapping arrivals and crash-free shutdown are false — F06a, F06b, F06c.) -/
theorem driver_runs_verdicts_partial (cfg : Cfg) (t0 : Nat) (ops : List Op) (hd : Op.drain ∉ ops) :
    let h := (runOps cfg { s := St.init t0 } ops).s.trace.reverse
    scan verdictOk [] h = true ∧ scan quotaOk [] h = true ∧ scan noPanic [] h = true := by
  intro h
  have hn := schedule_noCancel cfg ops { s := St.init t0 } hd
  have e := driver_run_is_model_run cfg t0 ops
  refine ⟨?_, ?_, ?_⟩
  · show scan verdictOk [] (runOps cfg { s := St.init t0 } ops).s.trace.reverse = true
    rw [e]; exact one_verdict_observable cfg t0 _ hn
  · show scan quotaOk [] (runOps cfg { s := St.init t0 } ops).s.trace.reverse = true
    rw [e]; exact (allowed_implies_quota cfg t0 _ hn).2
  · show scan noPanic [] (runOps cfg { s := St.init t0 } ops).s.trace.reverse = true
    rw [e, scan_reverse]
    exact (invAT_run cfg _ (St.init t0) hn (invA_init t0) (invT_init t0)).2.tp

end LunarVerif.C06
