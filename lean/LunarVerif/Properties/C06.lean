import LunarVerif.Proofs.C06Ops
import LunarVerif.Proofs.C06Obs3
import LunarVerif.Proofs.C06Live
/-!
# C06 — Queued requests: one verdict within TTL, priority order, bounded queue

Property theorems only (helpers live in `Proofs/C06*.lean`).  The model (`Model/C06.lean`) is an
interleaving transition system at critical-section granularity: request threads, the processing
loop, the TTL watcher and shutdown.  `run cfg s acts` applies an arbitrary list of thread actions
(`Act`), an action that is not enabled being a no-op; the theorems quantify over ALL such schedules
— shutdown (`cancel`) at any point included unless stated —, all configurations (`queue_size`, TTL,
quota maximum and window) and all start instants.

The model describes the code after the repairs F06a (a re-enqueued request keeps the timestamp of
its first enqueue), F06b (slot test and reservation are one atomic step) and F06c (`StopAll`
arbitrates with `StartProcessing`); the former violation witnesses are regression cases
(`corpus/C06/regress-F06?.ops`) that now satisfy the whole Spec predicate (examples below).
Not proved here: (T) the upper bound "no later than TTL + slack" and liveness — they depend on
real time and scheduler fairness and are measured by the harness, see `notes/C06.md`.
-/
namespace LunarVerif.C06

/-! ### (V) exactly one verdict — with or without shutdown -/

/-- Under every schedule: no panic; every request's waiter is signalled (Done) at most once —
exactly once iff the request reached state `processed` —; the WaitGroup counter is 1 before and 0
after; and an `Execute` call that returned did so after that single Done, with the verdict that
Done carried. -/
theorem one_verdict (cfg : Cfg) (t0 : Nat) (acts : List Act) :
    let s := run cfg (St.init t0) acts
    s.panicked = false ∧
    ∀ i, (s.reqs i).dones ≤ 1 ∧
         ((s.reqs i).dones = 1 ↔ (s.reqs i).st = .processed) ∧
         (s.reqs i).wg = 1 - (s.reqs i).dones ∧
         ∀ a, (s.reqs i).pc = .returned a → (s.reqs i).dones = 1 ∧ a = ((s.reqs i).res == .success) := by
  intro s
  have h : InvA s := invA_run cfg acts (St.init t0) (invA_init t0)
  refine ⟨h.np, fun i => ?_⟩
  have hd := h.dn i
  have hw := h.wg i
  refine ⟨?_, ?_, ?_, ?_⟩
  · rw [hd]; split <;> omega
  · rw [hd]; split <;> simp_all
  · rw [hd, hw]; split <;> simp
  · intro a ha
    have := h.rt i a ha
    refine ⟨?_, this.2⟩
    rw [hd, this.1]; simp

/-- The same on the observable history: the Spec predicates (V) and "no crash" hold of the trace of
every schedule. -/
theorem one_verdict_observable (cfg : Cfg) (t0 : Nat) (acts : List Act) :
    let h := (run cfg (St.init t0) acts).trace.reverse
    scan verdictOk [] h = true ∧ scan noPanic [] h = true := by
  have h := (invAT_run cfg acts (St.init t0) (invA_init t0) (invT_init t0)).2
  exact ⟨by rw [scan_reverse]; exact h.tv, by rw [scan_reverse]; exact h.tp⟩

/-- non-vacuity: quota 1 per second, three requests of one priority: 0 is allowed at once, 1 (the
earlier of the two waiters) at the roll-over of the window, 2 still waits; each Done happened once. -/
example :
    let s := (runOps ⟨5, 2000, 1, 1000, [], false⟩ { s := St.init 1700000000000 }
      [.arrive 1, .tick, .tick, .arrive 1, .arrive 1, .tick, .tick, .tick, .tick, .tick, .tick, .tick, .tick]).s
    (s.reqs 0).pc = .removed ∧ (s.reqs 0).dones = 1 ∧ (s.reqs 1).res = .success ∧ (s.reqs 1).dones = 1 ∧
    (s.reqs 2).pc = .parked ∧ (s.reqs 2).dones = 0 := by
  decide +kernel

/-! ### (Q) allowed only when the quota admits -/

/-- Under every schedule: a request whose result is `success` is one for which the quota's last
`Inc;Allowed` answered yes; and on the observable history every `allowed` verdict is preceded by a
successful quota attempt for that request with no refused attempt in between. -/
theorem allowed_implies_quota (cfg : Cfg) (t0 : Nat) (acts : List Act) :
    let s := run cfg (St.init t0) acts
    (∀ i, (s.reqs i).res = .success → (s.reqs i).qok = true) ∧
    scan quotaOk [] s.trace.reverse = true := by
  intro s
  have h := invAT_run cfg acts (St.init t0) (invA_init t0) (invT_init t0)
  refine ⟨h.1.qk, ?_⟩
  rw [scan_reverse]; exact h.2.tq

/-- non-vacuity: with quota 1 per second two requests are queued; after one tick one of them has
been allowed (quota said yes) and the other refused (quota said no). -/
example :
    let s := (runOps ⟨5, 2000, 1, 1000, [], false⟩ { s := St.init 1700000000000 } [.arrive 0, .arrive 0, .tick]).s
    (s.reqs 0).res = .success ∧ (s.reqs 0).qok = true ∧ (s.reqs 1).res = .pending ∧ (s.reqs 1).qok = false := by
  decide +kernel

/-! ### (P) priority order and FIFO within a priority -/

/-- Under every schedule: whenever the processing loop is about to take the next request
(`loop = running`), the heap minimum `m` it will pop has the least priority number among ALL
requests that wait and could be served (parked, state `enqueued`): no waiter with a strictly
lower priority number is passed over.  (A request is allowed only after having been popped this
way: `granted i` is reached from `popped i` only.) -/
theorem priority_strict (cfg : Cfg) (t0 : Nat) (acts : List Act) :
    let s := run cfg (St.init t0) acts
    ∀ m, s.loop = .running → minItem s.heap = some m →
      m.prio = (s.reqs m.id).prio ∧
      ∀ i, (s.reqs i).pc = .parked → (s.reqs i).st = .enqueued → m.prio ≤ (s.reqs i).prio := by
  intro s m hl hm
  have h := (invAH_run cfg acts (St.init t0) (invA_init t0) (invH_init t0)).2
  have hmem := minItem_mem _ _ hm
  refine ⟨(h.hi m hmem).2.1, fun i hp hs => ?_⟩
  obtain ⟨x, hx, hid⟩ := h.el i hp hs (by rw [hl]; simp)
  have := hle_prio _ _ (minItem_le _ _ hm x hx)
  rw [(h.hi x hx).2.1, hid] at this
  exact this

/-- non-vacuity: priorities 5 then 1 arrive, the loop wakes up: the minimum is the request with
priority 1 (id 1), not the older one. -/
example :
    let s := run ⟨5, 2000, 1, 1000, [], false⟩ (St.init 0)
      [.arrive 5, .register 0, .push 0, .arrive 1, .register 1, .push 1, .loopFire]
    s.loop = .running ∧ (minItem s.heap).map (·.id) = some 1 ∧ (s.reqs 0).pc = .parked ∧ (s.reqs 0).st = .enqueued := by
  decide +kernel

/-- FIFO within one priority, under every schedule.  `pushTs` is the stamp a request got at its
FIRST enqueue (stamps grow with every enqueue: a request first enqueued later has a larger one);
every heap entry of a request carries that stamp, also after refused attempts; so the minimum `m`
the loop pops was first enqueued no later than any waiter of the same priority that could be
served. -/
theorem fifo_strict (cfg : Cfg) (t0 : Nat) (acts : List Act) :
    let s := run cfg (St.init t0) acts
    (∀ i, (s.reqs i).pushed = true → (s.reqs i).pushTs < s.seq) ∧
    (∀ x ∈ s.heap, x.ts = (s.reqs x.id).pushTs) ∧
    ∀ m, s.loop = .running → minItem s.heap = some m →
      ∀ i, (s.reqs i).pc = .parked → (s.reqs i).st = .enqueued → (s.reqs i).prio = m.prio →
        (s.reqs m.id).pushTs ≤ (s.reqs i).pushTs := by
  intro s
  have h := (invAH_run cfg acts (St.init t0) (invA_init t0) (invH_init t0)).2
  refine ⟨h.g3, fun x hx => (h.hi x hx).2.2.2, fun m hl hm i hp hs hpr => ?_⟩
  have hmem := minItem_mem _ _ hm
  obtain ⟨x, hx, hid⟩ := h.el i hp hs (by rw [hl]; simp)
  have hxm : x.prio = m.prio := by rw [(h.hi x hx).2.1, hid]; exact hpr
  have := minItem_le _ _ hm x hx
  unfold hle at this
  simp [hxm] at this
  rw [(h.hi m hmem).2.2.2, (h.hi x hx).2.2.2, hid] at this
  exact this

/-- non-vacuity (the former F06a witness, `corpus/C06/regress-F06a.ops`): request 1's attempts are
refused seven times and it is pushed back each time; it keeps its stamp, stays ahead of request 2
and is allowed first; the whole Spec predicate — FIFO included — holds of the history. -/
example :
    let x := runOps ⟨5, 2000, 1, 1000, [], false⟩ { s := St.init 1700000000000 }
      [.arrive 1, .tick, .tick, .arrive 1, .arrive 1, .tick, .tick, .tick, .tick, .tick, .tick, .tick, .tick]
    (x.s.reqs 1).pushTs = 1 ∧ (x.s.reqs 2).pushTs = 2 ∧ (x.s.reqs 1).res = .success ∧ (x.s.reqs 2).res = .pending ∧
    x.s.heap.map (·.ts) = [2] ∧ holds ⟨5, 2000, 1, 1000, [], false⟩ x.s.trace.reverse = true := by
  decide +kernel

/-- FIFO by ARRIVAL, under every schedule: the arrival order is the order of the `queued` events
of the observable history; whenever the loop is about to take the next request, no waiter of the
popped minimum's priority that could be served was queued BEFORE it.  (Holds since a re-enqueued
request keeps its first stamp — repair F06a; before, a refused attempt moved a request behind later
arrivals.)  The same on the history alone is the conjunct `fifoOk` of `safety_all_schedules`. -/
theorem fifo_by_arrival (cfg : Cfg) (t0 : Nat) (acts : List Act) :
    let s := run cfg (St.init t0) acts
    ∀ m, s.loop = .running → minItem s.heap = some m →
      ∀ j, (s.reqs j).pc = .parked → (s.reqs j).st = .enqueued → (s.reqs j).prio = m.prio →
        queuedBefore s.trace j m.id = false := by
  intro s m hl hm j hp hs hpr
  have hall := invAll_run cfg acts (St.init t0) (invAll_init cfg t0)
  have hf := (fifo_strict cfg t0 acts).2.2 m hl hm j hp hs hpr
  cases hq : queuedBefore s.trace j m.id with
  | false => rfl
  | true =>
    have := hall.o2.ob j m.id hq
    exact absurd hf (by omega)

/-- The shared queue alone (level L1 of the harness drives the real `memoryQueue` against this):
a dequeue hands out an entry that is minimal for (priority, timestamp) among ALL entries — whatever
was enqueued, re-enqueued or removed (from any position) before — and removes exactly that entry. -/
theorem shared_queue_pop_min (q : QSt) (id : Nat) (h : q.deq.2 = some id) :
    ∃ m ∈ q.heap, m.id = id ∧ q.deq.1.heap = q.heap.erase m ∧ ∀ x ∈ q.heap, hle m x = true := by
  unfold QSt.deq at h ⊢
  cases hm : minItem q.heap with
  | none => simp [hm] at h
  | some m =>
    simp only [hm] at h ⊢
    simp at h
    exact ⟨m, minItem_mem _ _ hm, h, rfl, minItem_le _ _ hm⟩

/-- non-vacuity: priorities 20,10,30,40,20,50 are enqueued, the first 20 is removed from the middle,
everything is dequeued: ids come out as 10,20,30,40,50 (ids 1,4,2,3,5), and the Spec predicate of
the shared queue holds of that history. -/
example :
    let q0 := (((((({} : QSt).enq 0 20).enq 1 10).enq 2 30).enq 3 40).enq 4 20).enq 5 50
    let q1 := q0.rm 0
    let (q2, a) := q1.deq; let (q3, b) := q2.deq; let (q4, c) := q3.deq; let (q5, d) := q4.deq; let (_, e) := q5.deq
    [a, b, c, d, e] = [some 1, some 4, some 2, some 3, some 5] ∧
    qHolds [.enq 0 20, .enq 1 10, .enq 2 30, .enq 3 40, .enq 4 20, .enq 5 50, .rm 0,
            .deq (some 1), .deq (some 4), .deq (some 2), .deq (some 3), .deq (some 5), .deq none, .size 0] = true ∧
    qHolds [.enq 0 20, .enq 1 10, .enq 2 30, .enq 3 40, .enq 4 20, .enq 5 50, .rm 0,
            .deq (some 1), .deq (some 2)] = false := by
  decide +kernel

/-! ### (B) bounded queue -/

/-- Under every schedule (overlapping arrivals and shutdown included) the number of waiting
requests (registered, verdict not yet returned) never exceeds `queue_size`. -/
theorem size_bound (cfg : Cfg) (t0 : Nat) (acts : List Act) :
    (nWaiting (run cfg (St.init t0) acts) : Int) ≤ max cfg.size 0 :=
  invB_bound cfg _ (invB_run cfg acts (St.init t0) (invB_init cfg t0))

/-- non-vacuity (the former F06b witness): `queue_size = 1`, two arrivals before either registers:
the second finds the slot taken; one request waits. -/
example :
    let s := run ⟨1, 2000, 2, 1000, [], false⟩ (St.init 0) [.arrive 0, .arrive 0, .register 0, .push 0, .register 1, .push 1]
    nWaiting s = 1 ∧ (s.reqs 0).pc = .parked ∧ (s.reqs 1).pc = .rejected := by
  decide +kernel

/-- ... and through the macro-operations of `corpus/C06/regress-F06b.ops`: the whole Spec predicate
holds of the history. -/
example :
    holds ⟨1, 2000, 2, 1000, [], false⟩ (runOps ⟨1, 2000, 2, 1000, [], false⟩ { s := St.init 1700000000000 }
      [.arriveBegin 0, .arriveBegin 0, .arriveEnd 0, .tick]).s.trace.reverse = true := by
  decide +kernel

/-! ### (T) time-outs are never early -/

/-- Without shutdown, under every schedule: a request whose result is `timeout` is past its TTL on
the clock, strictly (`now > arrival + ttl`, as `time.After` in `notifyExpiredRequests`).  The upper
bound ("no later than TTL + slack") is real-time behaviour of the watcher and is only measured. -/
theorem timeout_only_after_ttl (cfg : Cfg) (t0 : Nat) (acts : List Act) (hn : noCancel acts) :
    let s := run cfg (St.init t0) acts
    ∀ i, (s.reqs i).res = .timeout → (s.reqs i).arrival + cfg.ttl < s.now := by
  intro s i hi
  have h : InvW cfg s := invAW_run cfg acts (St.init t0) hn (invA_init t0) (invN_init t0) (invW_init cfg t0)
  exact (h.w2 i hi).2

/-- non-vacuity: TTL 1 s, a quota that admits nothing: after 10 ticks (now = arrival + TTL) the
request still waits, after the 11th it is rejected by time-out. -/
example :
    let x10 := runOps ⟨2, 1000, 0, 1000, [], false⟩ { s := St.init 1700000000000 }
      [.arrive 0, .tick, .tick, .tick, .tick, .tick, .tick, .tick, .tick, .tick, .tick, .idle]
    let x11 := applyOp ⟨2, 1000, 0, 1000, [], false⟩ x10 .tick
    (x10.s.reqs 0).res = .pending ∧ (x10.s.reqs 0).pc = .parked ∧ (x11.s.reqs 0).res = .timeout ∧
    (x11.s.reqs 0).pc = .removed := by
  decide +kernel

/-- A TTL scan that finds a request in the loop's hands (`StartProcessing` fails) loses nothing:
under every schedule, whenever the watcher is idle and a request is in the watch list, back in
state `enqueued` and past its TTL, the watcher's NEXT scan rejects it (three watcher steps: scan,
take it — at the position `k` the map order gives it —, signal): result `timeout`, one Done. -/
theorem expired_waiter_rejected_by_next_scan (cfg : Cfg) (t0 : Nat) (acts : List Act) (i : Nat) :
    let s := run cfg (St.init t0) acts
    s.watcher = .idle → i < s.n → (s.reqs i).inMap = true → (s.reqs i).st = .enqueued →
    (s.reqs i).arrival + cfg.ttl < s.now →
    ∃ k, let s' := run cfg s [.wScan, .wStep k, .wStep 0]
         (s'.reqs i).res = .timeout ∧ (s'.reqs i).st = .processed ∧ (s'.reqs i).dones = 1 ∧ s'.panicked = false := by
  intro s hw hi hm hs he
  have hA : InvA s := invA_run cfg acts (St.init t0) (invA_init t0)
  have hwg : (s.reqs i).wg = 1 := by rw [hA.wg i, hs]; simp
  have hdn : (s.reqs i).dones = 0 := by rw [hA.dn i, hs]; simp
  have hmem : i ∈ idsWhere s (fun r => r.inMap && decide (r.arrival + cfg.ttl < s.now)) := by
    unfold idsWhere
    simp [hi, hm, he]
  obtain ⟨k, hk⟩ := List.getElem?_of_mem hmem
  refine ⟨k, ?_⟩
  have hlt : ¬ ((s.reqs i).wg - 1 < 0) := by omega
  simp only [run, List.foldl, step, hA.np, Bool.false_eq_true, if_false, stepCore, stepScan, hw, if_true,
    stepWatcher, hk, hm, hs, and_self, St.upd, St.signal, hlt, St.emit, hdn]

/-- non-vacuity (scenario family `a…` of the harness): request 1's attempt is refused and the loop
stands before the re-push while the clock passes 1's TTL; the watcher's scan finds it `processing`
and leaves it; after the release it is `enqueued` again and the next scan rejects it. -/
example :
    let cfg : Cfg := ⟨3, 1000, 1, 3000, [], false⟩
    let x := runOps cfg { s := St.init 1700000000000 }
      [.arrive 0, .tick, .arrive 1, .tick, .tickHold, .advance 1300, .idle]
    let y := applyOp cfg x .tickRelease
    x.s.loop = .refused 1 ∧ (x.s.reqs 1).st = .processing ∧ (x.s.reqs 1).res = .pending ∧
    (x.s.reqs 1).arrival + cfg.ttl < x.s.now ∧
    (y.s.reqs 1).res = .timeout ∧ (y.s.reqs 1).dones = 1 ∧ holds cfg y.s.trace.reverse = true := by
  decide +kernel

/-- Liveness of the verdict under an explicit fairness hypothesis ("no later than its TTL", model
level).  Let `pre` be ANY schedule; in the state it leads to let the loop be parked and the watcher
idle — (F1) the watcher starts its scan at such a moment —, let request `i` be registered, without
verdict and past its expiry instant; let `mid` be ANY continuation — arrivals, returns, removals,
clock advances, loop steps, other watcher steps, even `cancel` — in which (F2) the loop's timer does
not fire and (F3) the watcher takes at least `2 n + 1` steps `wStep 0` (n = number of requests so
far: enough to walk through a whole scan).  Then after the scan and `mid`, request `i` has its
verdict: exactly one Done.  Without the fairness hypotheses the conclusion is false (the watcher
may never run; or the loop may hold the request at every single scan). -/
theorem eventually_verdict (cfg : Cfg) (t0 : Nat) (pre mid : List Act) (i : Nat) :
    let s := run cfg (St.init t0) pre
    s.loop = .idle → s.watcher = .idle →
    i < s.n → (s.reqs i).inMap = true → (s.reqs i).dones = 0 → (s.reqs i).arrival + cfg.ttl < s.now →
    (∀ a ∈ mid, a ≠ .loopFire) → 2 * s.n + 1 ≤ mid.count (.wStep 0) →
    let s' := run cfg s (.wScan :: mid)
    (s'.reqs i).dones = 1 ∧ (s'.reqs i).st = .processed ∧ s'.panicked = false := by
  intro s hl hw hi hm hd he hmid hc
  exact scan_delivers cfg s mid i (invA_run cfg pre (St.init t0) (invA_init t0)) hl hw hi hm hd he hmid hc

/-- non-vacuity: two waiters, quota exhausted by a third request, the clock passes the TTL; a
continuation with an arrival and a clock advance in between the watcher's steps: both get their
verdict (result `timeout`). -/
example :
    let cfg : Cfg := ⟨5, 1000, 0, 1000, [], false⟩
    let pre : List Act := [.arrive 1, .register 0, .push 0, .arrive 2, .register 1, .push 1, .advance 1100]
    let mid : List Act := [.wStep 0, .arrive 3, .wStep 0, .advance 5, .wStep 0, .wStep 0, .wStep 0]
    let s := run cfg (St.init 0) pre
    let s' := run cfg s (.wScan :: mid)
    s.loop = .idle ∧ s.watcher = .idle ∧ s.n = 2 ∧ (s.reqs 0).dones = 0 ∧ (s.reqs 0).arrival + cfg.ttl < s.now ∧
    2 * s.n + 1 ≤ mid.count (.wStep 0) ∧
    (s'.reqs 0).res = .timeout ∧ (s'.reqs 0).dones = 1 ∧ (s'.reqs 1).dones = 1 := by
  decide +kernel

/-- non-vacuity, "expiry while in processing": request 1's TTL instant falls while the loop owns it
(refused attempt, gate before the re-push); the scan in between leaves it alone; the attempt ends
(`pre` ends with the loop parked again, the watcher idle, request 1 `enqueued`, expired, no verdict):
`eventually_verdict` applies — the next scan re-examines the already expired entry and rejects it. -/
example :
    let cfg : Cfg := ⟨3, 1000, 1, 3000, [], false⟩
    let pre : List Act := schedule cfg { s := St.init 1700000000000 }
      [.arrive 0, .tick, .arrive 1, .tick, .tickHold, .advance 1300, .idle] ++ [.loopStep 0, .loopStep 0]
    let mid : List Act := [.wStep 0, .wStep 0, .wStep 0, .wStep 0, .wStep 0]
    let s := run cfg (St.init 1700000000000) pre
    let s' := run cfg s (.wScan :: mid)
    s.loop = .idle ∧ s.watcher = .idle ∧ s.n = 2 ∧ (s.reqs 1).inMap = true ∧ (s.reqs 1).dones = 0 ∧
    (s.reqs 1).st = .enqueued ∧ (s.reqs 1).arrival + cfg.ttl < s.now ∧ 2 * s.n + 1 ≤ mid.count (.wStep 0) ∧
    (s'.reqs 1).res = .timeout ∧ (s'.reqs 1).dones = 1 := by
  decide +kernel

/-! ### (D) shutdown releases every waiter and never crashes -/

/-- Under every schedule: once `StopAll` is over (`loop = exited`), every request that was in the
watch list when it started (`drainSet`: by definition of the model, the ids with `inMap` at that
moment) has been signalled (`processed`: exactly one Done, by `one_verdict`) or is owned by the TTL
watcher (`processing`), whose next step signals it.  No crash: `one_verdict` has no side condition. -/
theorem drain_releases_all (cfg : Cfg) (t0 : Nat) (acts : List Act) :
    let s := run cfg (St.init t0) acts
    s.panicked = false ∧
    (s.loop = .exited → ∀ i ∈ s.drainSet,
      ((s.reqs i).st = .processed ∧ (s.reqs i).dones = 1) ∨
      ((s.reqs i).st = .processing ∧ holdsW s.watcher i)) := by
  intro s
  have hA : InvA s := invA_run cfg acts (St.init t0) (invA_init t0)
  have hD : InvD s := invD_run cfg acts (St.init t0) (invD_init t0)
  refine ⟨hA.np, fun he i hi => ?_⟩
  have hne := (hD.d2 he i hi).2
  cases hst : (s.reqs i).st with
  | enqueued => exact absurd hst hne
  | processed => left; exact ⟨rfl, by rw [hA.dn i, hst]; simp⟩
  | processing =>
    right
    refine ⟨rfl, ?_⟩
    rcases (hA.own i).1 hst with h | h
    · rw [he] at h; cases h
    · exact h

/-- The same on the observable history: once `StopAll` is over and the watcher has finished its
scan, nobody of the snapshot is still waiting in the history (queued without verdict) — the conjunct
`drainReleases` of the judge, for the requests that were there at shutdown; requests that arrive
after shutdown are outside the property. -/
theorem shutdown_leaves_nobody_waiting (cfg : Cfg) (t0 : Nat) (acts : List Act) :
    let s := run cfg (St.init t0) acts
    s.loop = .exited → s.watcher = .idle → ∀ x ∈ waiting s.trace, x.1 ∉ s.drainSet := by
  intro s he hw x hx hmem
  have hall := invAll_run cfg acts (St.init t0) (invAll_init cfg t0)
  have hst := (hall.o1.w2 x hx).2.2.1
  rcases (drain_releases_all cfg t0 acts).2 he x.1 hmem with h | h
  · exact hst h.1
  · rw [hw] at h; exact h.2

/-- non-vacuity (the former F06c witness, `corpus/C06/regress-F06c.ops`): requests 0 and 1 are
allowed but their removal has not run when the context is cancelled; `StopAll` finds both in the
watch list, `StartProcessing` fails for both, nobody is signalled twice; the whole Spec predicate
holds of the history. -/
example :
    let s := (runOps ⟨2, 2000, 2, 1000, [], false⟩ { s := St.init 1700000000000 }
      [.holdRemove, .arrive 0, .arrive 0, .tick, .arrive 0, .drain]).s
    s.panicked = false ∧ s.loop = .exited ∧ s.drainSet = [0, 1] ∧ (s.reqs 0).dones = 1 ∧ (s.reqs 1).dones = 1 ∧
    (s.reqs 0).res = .success ∧ holds ⟨2, 2000, 2, 1000, [], false⟩ s.trace.reverse = true := by
  decide +kernel

/-- non-vacuity: two waiters, a quota that admits nothing, shutdown: both are released as `blocked`. -/
example :
    let s := (runOps ⟨3, 2000, 0, 1000, [], false⟩ { s := St.init 1700000000000 } [.arrive 0, .arrive 1, .tick, .drain]).s
    s.panicked = false ∧ s.loop = .exited ∧ s.drainSet = [0, 1] ∧ (s.reqs 0).res = .timeout ∧ (s.reqs 1).res = .timeout ∧
    (s.reqs 0).pc = .removed ∧ holds ⟨3, 2000, 0, 1000, [], false⟩ s.trace.reverse = true := by
  decide +kernel

/-! ### Connection with the driver / judge -/

/-- A run of macro-operations — exactly what `lvdriver_c06 run` executes and what the harness
replays on the real processor — is a run of the interleaving model under the flat schedule
`schedule`; so every theorem above speaks about every driver run. -/
theorem driver_run_is_model_run (cfg : Cfg) (t0 : Nat) (ops : List Op) :
    (runOps cfg { s := St.init t0 } ops).s =
      run cfg (St.init t0) (schedule cfg { s := St.init t0 } ops) :=
  runOps_eq_run cfg ops _

/-- The safety part of the Spec predicate — (V) one verdict, (Q) quota, (P) priority, (F) FIFO by
arrival, (B) bound, (T-lower) no early time-out, no crash: every conjunct the judge evaluates except
timeliness (`holdsTimely`: verdict no later than TTL + slack, nobody left waiting after shutdown) —
is TRUE of the observable history of EVERY schedule of the model, shutdown at any point included. -/
theorem safety_all_schedules (cfg : Cfg) (t0 : Nat) (acts : List Act) :
    holdsSafety cfg (run cfg (St.init t0) acts).trace.reverse = true := by
  have h := invAll_run cfg acts (St.init t0) (invAll_init cfg t0)
  unfold holdsSafety
  simp only [scan_reverse, Bool.and_eq_true]
  exact ⟨⟨⟨⟨⟨⟨h.t.tv, h.t.tq⟩, h.o4.tpr⟩, h.o4.tff⟩, h.o4.tbd⟩, h.o4.ttl⟩, h.t.tp⟩

/-- Connection theorem: on every driver run (any list of macro-operations: what `lvdriver_c06 run`
executes and the harness replays on the real processor) the model's history satisfies the safety
part of the judge's predicate.  So a judge failure in one of these conjuncts on the
implementation's history is, by construction, a divergence from the proved model.  (The timeliness
part stays a labelled test on the implementation; in the model see `eventually_verdict`.) -/
theorem driver_runs_holds (cfg : Cfg) (t0 : Nat) (ops : List Op) :
    holdsSafety cfg (runOps cfg { s := St.init t0 } ops).s.trace.reverse = true := by
  rw [driver_run_is_model_run]
  exact safety_all_schedules cfg t0 _

/-- non-vacuity: the histories of the regression scenarios contain every kind of event the
conjuncts speak about (allowed and rejected verdicts, refused attempts, a request overtaken by a
more urgent later arrival) and the full predicate `holds` — safety and timeliness — is true of them. -/
example :
    let cfg : Cfg := ⟨3, 1000, 1, 1000, [], false⟩
    let h := (runOps cfg { s := St.init 1700000000000 }
      [.arrive 5, .arrive 5, .tick, .arrive 1, .tick, .tick, .tick, .tick, .tick, .tick, .tick, .tick, .tick, .tick,
       .tick]).s.trace.reverse
    holdsSafety cfg h = true ∧ holdsTimely cfg h = true ∧
    (h.filter fun e => match e with | .done _ _ _ => true | _ => false) =
      [.done 0 true 1700000000100, .done 2 true 1700000001000, .done 1 false 1700000001100] := by
  decide +kernel

/-- ... and the size bound after every driver run (hence after every prefix of one). -/
theorem driver_runs_bound (cfg : Cfg) (t0 : Nat) (ops : List Op) :
    (nWaiting (runOps cfg { s := St.init t0 } ops).s : Int) ≤ max cfg.size 0 := by
  rw [driver_run_is_model_run]
  exact size_bound cfg t0 _

end LunarVerif.C06
