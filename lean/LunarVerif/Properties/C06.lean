import LunarVerif.Spec.C06
namespace LunarVerif.C06
end LunarVerif.C06
