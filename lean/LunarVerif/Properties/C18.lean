import LunarVerif.Generated.C18Facts
import LunarVerif.Spec.C18Sharing
import LunarVerif.Proofs.C18Publish
import LunarVerif.Proofs.C18Expire
import LunarVerif.Spec.C18Expire
import LunarVerif.Proofs.C18VacuumQ
import LunarVerif.Proofs.C18Observe
import LunarVerif.Spec.C18Observe
/-!
# C18 — Concurrent transactions do not corrupt or share engine state

Part (b), data-race freedom, as far as this technique reaches: a kernel-checked lockset
discipline over the fact base REGENERATED from /repo's source on every run
(`Generated/C18Facts.lean`).  Sound only relative to the extractor's syntactic rules
(harness/go/internal/lockfacts, trusted and documented); not a proof about the Go memory model.

The obligations `lockset_discipline_partial`, `atomicity_facts`, `targets_present` are re-checked
by the kernel against what the code says NOW: removing or narrowing a lock in /repo changes the
generated facts and these `decide`s fail.
-/
namespace LunarVerif.C18

/-- Meaning of the discipline, for every access list: if `fieldOk` accepts the accesses of a field
    then any two post-initialisation accesses of which one writes are both atomic or hold a common
    mutex (the writer exclusively). -/
theorem fieldOk_conflict_free (as : List Access) (h : fieldOk as = true)
    (a b : Access) (ha : a ∈ as) (hb : b ∈ as) (hai : a.init = false) (hbi : b.init = false)
    (hw : a.write = true ∨ b.write = true) :
    (a.atomic = true ∧ b.atomic = true) ∨ ∃ m, protectedBy m a = true ∧ protectedBy m b = true := by
  have hal : a ∈ as.filter (!·.init) := by simp [List.mem_filter, ha, hai]
  have hbl : b ∈ as.filter (!·.init) := by simp [List.mem_filter, hb, hbi]
  unfold fieldOk at h
  simp only [Bool.or_eq_true, Bool.not_eq_true', List.any_eq_false, List.all_eq_true] at h
  rcases h with (h | h) | h
  · rcases hw with hw | hw
    · exact absurd hw (by simpa using h a hal)
    · exact absurd hw (by simpa using h b hbl)
  · exact Or.inl ⟨h a hal, h b hbl⟩
  · right
    cases hl : as.filter (!·.init) with
    | nil => rw [hl] at hal; simp at hal
    | cons x xs =>
      rw [hl] at h hal hbl
      simp only [List.any_eq_true, List.all_eq_true] at h
      obtain ⟨l, _, hall⟩ := h
      exact ⟨l.name, hall a hal, hall b hbl⟩

/-- A mutex that protects an access is held by it, exclusively if the access writes. -/
theorem protectedBy_spec (m : String) (a : Access) (h : protectedBy m a = true) :
    ∃ l ∈ a.locks, l.name = m ∧ (a.write = true → l.excl = true) := by
  unfold protectedBy at h
  simp only [List.any_eq_true, Bool.and_eq_true, beq_iff_eq, Bool.or_eq_true, Bool.not_eq_true'] at h
  obtain ⟨l, hl, hn, hx⟩ := h
  refine ⟨l, hl, hn, ?_⟩
  intro hw
  rcases hx with hx | hx
  · rw [hw] at hx; cases hx
  · exact hx

/-- Every struct the fact base is declared over still exists in /repo. -/
theorem targets_present : Generated.missing = [] := by decide

/-- Lockset discipline on the CURRENT tree: every field of the target structs that is written after
    initialisation is accessed under one common mutex (or atomically), EXCEPT the fields listed in
    `allowed` = reviewed exemptions + the recorded findings F18a–F18g (the excluded class). -/
theorem lockset_discipline_partial : disciplineHolds Generated.facts allowed = true := by
  decide +kernel

/-- The excluded class is not empty talk: on the current tree these fields really fail the
    discipline (each is a recorded finding or a reviewed exemption). -/
theorem lockset_discipline_violation_witness :
    ("lunarcontext.lunarContext", "transactionalContext") ∈ violating Generated.facts := by
  decide +kernel

/-- Atomicity facts the interleaving models (C01, C02, C06, C09, C10, C11, C12) take as their step
    granularity: the listed read-modify-write cores run entirely under the named mutex, and — for
    the function-scoped entries — inside ONE critical section (no check-then-act split). -/
theorem atomicity_facts : requiredCoverage.all (covered Generated.facts) = true := by
  decide +kernel

/-! ### Non-vacuity -/

/-- the fact base is not empty and contains fully protected written fields -/
example : 100 ≤ Generated.facts.length := by decide +kernel

example : fieldOk (Generated.facts.filter (sameField "quotaresource.quota" "allowedByReqID")) = true
    ∧ (Generated.facts.filter (sameField "quotaresource.quota" "allowedByReqID")).any (·.write) = true := by
  decide +kernel

/-- a two-access race is rejected by the discipline -/
example : fieldOk [⟨"s", "f", "A", true, [], false, false, 0⟩, ⟨"s", "f", "B", false, [⟨"mu", true⟩], false, false, 1⟩] = false := by
  decide

end LunarVerif.C18

/-! ## Part (a): the per-flow transactional context (model `Model/C18.lean`) -/
namespace LunarVerif.C18

/-- Transactions that do not use the transactional context never observe each other through it:
    isolation holds for every script set, every nesting (interleaving) and every run order. -/
theorem noninterference_partial (fuel : Nat) (ss : Scripts) (st : TCtx) (ts : List String)
    (h : ∀ e ∈ (runAll fuel ss st ts).map (toEv ss), e.kind ≠ "set" ∧ e.kind ≠ "get") :
    isolated ((runAll fuel ss st ts).map (toEv ss)) = true := by
  unfold isolated
  rw [List.all_eq_true]
  intro t _
  have : ∀ (es : List Ev) (own : Option String),
      (∀ e ∈ es, e.kind ≠ "set" ∧ e.kind ≠ "get") → evOk own es = true := by
    intro es
    induction es with
    | nil => intro _ _; rfl
    | cons e es ih =>
      intro own hh
      have he := hh e (List.mem_cons_self)
      unfold evOk
      simp only [beq_iff_eq, he.1, he.2, if_false]
      exact ih own (fun e' he' => hh e' (List.mem_cons_of_mem _ he'))
  apply this
  intro e he
  exact h e (List.mem_filter.1 he).1

/-- On a fresh engine a single transaction that sets then reads the key sees its own value. -/
theorem fresh_first_txn_private (v : String) :
    evOk none (((runAll 1 [("t", ⟨.set v, .get, .none⟩)] fresh ["t"]).map
      (toEv [("t", ⟨.set v, .get, .none⟩)])).filter (·.txn == "t")) = true := by
  simp [runAll, runTxn, runTxnWith, runActWith, scriptOf, fresh, toEv, evOk]

/-- F18a, interleaved: T2 runs between two processors of T1 (its CleanExecution sets the shared
    transactional context to nil) and T1 no longer finds what it stored. -/
theorem clean_execution_witness :
    ∃ (ss : Scripts) (ts : List String),
      isolated ((runAll (ss.length + 1) ss fresh ts).map (toEv ss)) = false :=
  ⟨[("t1", ⟨.set "x", .nest "t2", .get⟩), ("t2", ⟨.none, .none, .none⟩)], ["t1"], by decide⟩

/-- F18a, even one at a time: after the first execution of a flow its transactional context is nil
    for every later transaction. -/
theorem sequential_second_txn_witness :
    ∃ (ss : Scripts) (ts : List String),
      (∀ s ∈ ss, s.2.a ≠ .nest "t1" ∧ s.2.a ≠ .nest "t2") ∧
      isolated ((runAll (ss.length + 1) ss fresh ts).map (toEv ss)) = false :=
  ⟨[("t1", ⟨.set "x", .get, .none⟩), ("t2", ⟨.set "y", .get, .none⟩)], ["t1", "t2"], by decide⟩

/-- Whatever the state before, once any transaction has run the transactional context is nil. -/
theorem context_nil_after_any_run (fuel : Nat) (ss : Scripts) (st : TCtx) (t : String) :
    (runTxn fuel ss st t).1 = none := by
  cases fuel <;> simp [runTxn, runTxnWith]

end LunarVerif.C18

/-! ## Part (c): hand-off to the background loop (model `Model/C18Publish.lean`) -/
namespace LunarVerif.C18
open Publish

/-- Register-before-publish, for every number of producers and EVERY interleaving of their steps
    with the loop's pops: if each producer registers its Request before it publishes the id, the
    loop never forgets a live request, and every published id is still queued or was handled. -/
theorem no_request_lost (progs : List (Nat × List PStep)) (evs : List PEv)
    (h : ∀ e ∈ progs, regBeforePub e.2 = true) :
    (run evs (init progs)).lost = [] ∧
    ∀ i ∈ (run evs (init progs)).published,
      i ∈ (run evs (init progs)).queue ∨ i ∈ (run evs (init progs)).handled := by
  have := inv_run evs (init progs) (inv_init progs h)
  exact ⟨this.2.2.1, this.2.2.2⟩

/-- the hypothesis is needed: publishing first loses the request on the schedule
    publish · tick · register -/
theorem publish_first_loses_witness :
    (run [.prod 1, .tick, .prod 1] (init [(1, [.publish, .register])])).lost = [1] := by decide

/-- the producer program of the CURRENT source (call sites of `enqueueIfSlotAvailable`) -/
def extractedProducer : List PStep :=
  progOfCalls ((Generated.orderFacts.lookup "processorqueue.queueProcessor.enqueueIfSlotAvailable").getD [])

/-- Obligation re-checked on every run against the regenerated call-order facts: the functions exist,
    the producer does register and publish, and registers first. -/
theorem publish_order_facts :
    Generated.orderMissing = [] ∧ doesBoth extractedProducer = true ∧ regBeforePub extractedProducer = true := by
  decide

/-- ... so with the code as it is NOW no schedule of any set of queued transactions and loop passes
    makes the loop forget a waiting request. -/
theorem no_request_lost_extracted (ids : List Nat) (evs : List PEv) :
    (run evs (init (ids.map fun i => (i, extractedProducer)))).lost = [] := by
  refine (no_request_lost _ evs ?_).1
  intro e he
  obtain ⟨i, _, rfl⟩ := List.mem_map.1 he
  exact publish_order_facts.2.2

/-- non-vacuity: two producers fully interleaved with loop passes are both handled -/
example : (run [.prod 1, .prod 2, .prod 1, .tick, .prod 2, .prod 2, .prod 1, .prod 1, .prod 2, .prod 2, .tick, .tick]
    (init [(1, extractedProducer), (2, extractedProducer)])).handled.length = 2 := by decide

end LunarVerif.C18

/-! ## Part (d): the stored-request clean-up goroutine (model `Model/C18Expire.lean`) -/
namespace LunarVerif.C18
open Expire

/-- For every history of stores, discards, clock movement and clean-up passes: a request that was
    stored and not discarded since still holds its value at every instant before the deadline of its
    LATEST store — the clean-up goroutine never takes away what a running transaction relies on. -/
theorem live_request_survives (ops : List Op) (e : String × Nat)
    (he : e ∈ (run ops {}).want) (hlt : (run ops {}).now < e.2) : e.1 ∈ (run ops {}).store :=
  ((inv_run ops {} inv_init) e he).2 hlt

/-- the judge's predicate is true of every model run (what `xsweep` reports is the store) -/
theorem live_kept_holds (ops : List Op) :
    liveKept (run ops {}) (run ops {}).store = true := by
  unfold liveKept
  rw [List.all_eq_true]
  intro e he
  by_cases hlt : (run ops {}).now < e.2
  · have := live_request_survives ops e he hlt
    simp [hlt, this]
  · simp [hlt]

/-- non-vacuity, the retry shape: stored, discarded by the first attempt's response, stored again by
    the retry; a pass between the two deadlines leaves the retry's request in place -/
example : "K" ∈ (run [.add "K" 150, .sleep 100, .discard "K", .add "K" 150, .sleep 100, .sweep] {}).store := by
  decide

/-- ... and a pass after the latest deadline removes it -/
example : (run [.add "K" 150, .sleep 100, .add "K" 150, .sleep 200, .sweep] {}).store = [] := by decide

end LunarVerif.C18

/-! ## Part (e): `MapVacuum` — registrations racing with a vacuum pass (model `Model/C18Vacuum.lean`) -/
namespace LunarVerif.C18
open Vacuum

/-- For EVERY interleaving of registrations (`VacuumKey`) with the three critical sections of the
    background pass: a key that is in the map always still has a pending entry that survives the pass in
    progress — no registration is forgotten, so every key is examined again by a later pass. -/
theorem no_registered_key_forgotten (steps : List Step) :
    ∀ k ∈ (run steps {}).map,
      ∃ e ∈ (run steps {}).entries.drop (pendingDrop (run steps {})), e.1 = k :=
  (inv_run steps {} inv_init).tracked

theorem inv_pass (s : St) (during : Option String) (h : Inv s) : Inv (pass s during) := by
  unfold pass
  cases during with
  | none => exact inv_step _ _ (inv_step _ _ (inv_step _ _ h))
  | some k => exact inv_step _ _ (inv_step _ _ (inv_step _ _ (inv_step _ _ h)))

theorem inv_clock (s : St) (n : Nat) (w : Option Nat) (h : Inv s) : Inv { s with now := n, wakeAt := w } :=
  ⟨h.excl, h.pre, h.fits, h.tracked⟩

theorem inv_advance : ∀ (fuel : Nat) (s : St) (target : Nat) (d : Option String), Inv s →
    Inv (advance fuel s target d) := by
  intro fuel
  induction fuel with
  | zero => intro s t d h; exact inv_clock s t s.wakeAt h
  | succ f ih =>
    intro s t d h
    unfold advance
    split
    · exact ⟨h.excl, h.pre, h.fits, h.tracked⟩
    · split
      · apply ih
        have h1 : Inv { s with now := max s.now ‹Nat› } := ⟨h.excl, h.pre, h.fits, h.tracked⟩
        have h2 := inv_pass _ d h1
        exact ⟨h2.excl, h2.pre, h2.fits, h2.tracked⟩
      · exact ⟨h.excl, h.pre, h.fits, h.tracked⟩

theorem inv_vadd (s : St) (k : String) (h : Inv s) : Inv (vadd s k) := by
  unfold vadd
  have h1 := inv_step s (.add k) h
  cases hw : (step s (.add k)).wakeAt with
  | some w => simp only [hw]; exact h1
  | none =>
    simp only [hw]
    have h2 := inv_pass _ none h1
    exact ⟨h2.excl, h2.pre, h2.fits, h2.tracked⟩

/-- the same at the granularity the harness drives: registrations and clock advances, with a
    registration forced into the window in which the pass reads the clock -/
theorem no_key_forgotten_driven (ops : List (String ⊕ (Nat × Option String))) :
    let s := ops.foldl (fun s o => match o with
      | .inl k => vadd s k
      | .inr (adv, d) => advance (adv + 1) s (s.now + adv) d) ({ ttl := 30, tick := 10 } : St)
    ∀ k ∈ s.map, ∃ e ∈ s.entries.drop (pendingDrop s), e.1 = k := by
  intro s
  have : ∀ (ops : List (String ⊕ (Nat × Option String))) (s0 : St), Inv s0 →
      Inv (ops.foldl (fun s o => match o with
        | .inl k => vadd s k
        | .inr (adv, d) => advance (adv + 1) s (s.now + adv) d) s0) := by
    intro ops
    induction ops with
    | nil => intro s0 h; exact h
    | cons o os ih =>
      intro s0 h
      apply ih
      cases o with
      | inl k => exact inv_vadd s0 k h
      | inr p => obtain ⟨adv, d⟩ := p; exact inv_advance _ _ _ _ h
  exact (this ops _ ⟨Or.inl rfl, (by intro sn h; cases h), (by intro n h; cases h), (by intro k hk; simp at hk)⟩).tracked

/-- The judge's predicate is true of every model run at the granularity the harness drives: whatever
    registrations and clock advances (with a registration forced into a pass), a key whose LATEST
    registration's deadline lies before the last completed pass is no longer in the map. -/
theorem vacuum_judge_holds (ttl tick : Nat) (ops : List (String ⊕ (Nat × Option String))) :
    let s := ops.foldl (fun s o => match o with
      | .inl k => vadd s k
      | .inr (adv, d) => advance (adv + 1) s (s.now + adv) d) ({ ttl := ttl, tick := tick } : St)
    holds s s.map = true := by
  intro s
  apply holds_of_Q
  have : ∀ (ops : List (String ⊕ (Nat × Option String))) (s0 : St), Q s0 →
      Q (ops.foldl (fun s o => match o with
        | .inl k => vadd s k
        | .inr (adv, d) => advance (adv + 1) s (s.now + adv) d) s0) := by
    intro ops
    induction ops with
    | nil => intro s0 h; exact h
    | cons o os ih =>
      intro s0 h
      apply ih
      cases o with
      | inl k => exact vaddQ s0 k h
      | inr p => obtain ⟨adv, d⟩ := p; exact advanceQ _ _ _ _ h (Nat.le_add_right _ _)
  apply this
  exact ⟨⟨rfl, rfl⟩, List.Pairwise.nil, (by intro e he; simp at he), (by intro e he; simp at he),
    (by intro k hk; simp at hk), (by intro p hp; cases hp)⟩

/-- non-vacuity: B is registered while the pass that expires A reads the clock; the next pass after B's
    deadline removes B -/
example : (advance 41 (advance 32 (vadd ({ ttl := 30, tick := 10 } : St) "A") 31 (some "B")) 71 none).map = [] := by
  decide

/-! ## (h) Metrics observation of a quota is invisible to running transactions -/

/-- Reading the quota for metrics changes no transaction's answer: the answers of the transactions' calls in
    a script with metrics reads anywhere (any number, any instants) are the answers of the script with the
    reads taken out — for every quota, every state and every script. -/
theorem metrics_reads_transparent (c : Observe.Cfg) (l : C01.Lvl) (ops : List Observe.Op) :
    (Observe.run c l ops).filter (fun p => Observe.keep p.1) = Observe.run c l (ops.filter Observe.keep) :=
  Observe.run_filter c ops l

/-- … and the quota is left in the state the transactions alone leave it in. -/
theorem metrics_reads_leave_state (c : Observe.Cfg) (l : C01.Lvl) (ops : List Observe.Op) :
    Observe.final c l ops = Observe.final c l (ops.filter Observe.keep) :=
  Observe.final_filter c ops l

/-- A transaction that the quota counted within the limit gets its admission, however many metrics reads
    fall between its `Inc` and its `Allowed`. -/
theorem pending_verdict_survives_reads (c : Observe.Cfg) (l : C01.Lvl) (r t : Nat) (reads : List Observe.Op)
    (hr : ∀ o ∈ reads, o.isRead = true)
    (h : (C01.incLevel c.max c.win l r t 1).2 = .increased) :
    (Observe.step c (Observe.final c (Observe.step c l (.inc r t)).1 reads) (.allowed r)).2 = .verdict true := by
  rw [Observe.final_reads c reads hr]
  show Observe.Ans.verdict (C01.allowedLevel (C01.incLevel c.max c.win l r t 1).1 r).2 = _
  rw [Observe.inc_increased_pending _ _ _ _ _ _ h]

/-- PARTIAL (finding F18i): a transaction the quota counted within the limit is admitted when it asks, whatever
    other transactions and metrics reads do in between — as long as none of them restarts the quota's window.
    The full statement (no side condition) is false of the model and of the code:
    `pending_verdict_lost_on_restart_witness`. -/
theorem pending_verdict_survives_partial (c : Observe.Cfg) (l : C01.Lvl) (r t : Nat) (ops : List Observe.Op)
    (h : Observe.counted c l r t = true)
    (hq : Observe.quietFor c r (Observe.step c l (.inc r t)).1 ops = true) :
    (Observe.step c (Observe.final c (Observe.step c l (.inc r t)).1 ops) (.allowed r)).2 = .verdict true := by
  have hi : (C01.incLevel c.max c.win l r t 1).2 = .increased := by
    simpa [Observe.counted] using h
  have hm := Observe.inc_increased_memo _ _ _ _ _ _ hi
  have hk : (Observe.final c (Observe.step c l (.inc r t)).1 ops).memo.lookup r = some (some 1) :=
    Observe.quiet_keeps c r (some 1) ops _ hm hq
  show Observe.Ans.verdict (C01.allowedLevel _ r).2 = _
  unfold C01.allowedLevel
  rw [hk]; rfl

/-- F18i: request 2 is counted at second 59 of a 60 s window (2 of 5); request 3 arrives at second 61 and its
    `Inc` restarts the window, which replaces the table of pending verdicts; request 2 is then refused although it
    was counted within the limit and the new window holds 1 of 5.  One at a time, in either order, both are
    admitted: no serial order explains the refusal. -/
theorem pending_verdict_lost_on_restart_witness :
    let c : Observe.Cfg := ⟨5, 60 * C01.nsPerSec⟩
    let s := C01.nsPerSec
    (Observe.run c C01.Lvl.init [.inc 1 0, .allowed 1, .inc 2 (59 * s), .inc 3 (61 * s), .allowed 3, .allowed 2]).map (·.2)
        = [.ok, .verdict true, .ok, .ok, .verdict true, .verdict false]
    ∧ (Observe.run c C01.Lvl.init [.inc 1 0, .allowed 1, .inc 2 (59 * s), .allowed 2, .inc 3 (61 * s), .allowed 3]).map (·.2)
        = [.ok, .verdict true, .ok, .verdict true, .ok, .verdict true]
    ∧ (Observe.run c C01.Lvl.init [.inc 1 0, .allowed 1, .inc 3 (61 * s), .allowed 3, .inc 2 (61 * s), .allowed 2]).map (·.2)
        = [.ok, .verdict true, .ok, .verdict true, .ok, .verdict true] := by
  decide

/-- OBLIGATION on regenerated facts: the lifetime the engine gives a stored request (`NewAPIStream` →
    `environment.GetServerTimeout`, handed to the `ExpireWatcher`) is the configured number of SECONDS — part (d)'s
    `live_request_survives` takes the deadline of a store as given; a unit slip here makes the clean-up goroutine
    remove the request of a transaction that is still running. -/
theorem stored_request_lifetime_in_seconds :
    Generated.timingBodies =
      [("GetServerTimeout", "func() (time.Duration, error) => raw := os.Getenv(lunarServerTimeoutEnvVar); if raw == \"\" { return spoeServerTimeoutSecDefault, nil }; seconds, err := strconv.Atoi(raw); if err != nil { return 0, err }; return time.Second * time.Duration(seconds), nil")] := rfl

/-- non-vacuity: request 2 is counted at second 58 of a 60 s window (2 of 5), metrics are read after the window
    has ended, and request 2 is admitted -/
example : (Observe.run ⟨5, 60 * C01.nsPerSec⟩ C01.Lvl.init
    [.inc 1 0, .allowed 1, .inc 2 (58 * C01.nsPerSec), .read, .allowed 2]).map (·.2) =
    [.ok, .verdict true, .ok, .shown 2, .verdict true] := by decide

end LunarVerif.C18
