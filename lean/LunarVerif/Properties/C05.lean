import LunarVerif.Proofs.C05Quota
/-!
# C05 — every configuration the loader accepts runs safely on all traffic

Objects: `FlowGraph.validateDirection` / `buildFlow` (the loader's graph validation, shared with C04),
`FlowExec.walk` / `executeFlow` / `transaction` (the walker, shared), `C05.load` (the whole loader:
quota files, YAML-level validation, processor creation, builder incl. flow references), `C05.holds` (the
judge predicate over observable histories).

All statements are at full strength: the three defects the first round found are repaired in /repo
(`fixes/F05a.patch` cycle DFS from every node, `fixes/F05b.patch` in-progress set in `incorporateFlow`,
`fixes/F05c.patch` null entries of quota files refused), the model mirrors the repaired code, and the former
witnesses are regression examples below and in `corpus/C05/regress-F05{a,b,c}.ops`.
-/
namespace LunarVerif.C05
open LunarVerif.FlowGraph LunarVerif.FlowExec

/-! ## 1. The validator's DFS -/

/-- **dfs_sound.**  If `detectCircularConnections` accepts a direction (`noCycleAnywhere`), then below every
    processor edge of EVERY node all paths are shorter than `dfsFuel g`: no cycle is reachable from any
    node of the direction. -/
theorem dfs_sound (g : DirGraph) (h : noCycleAnywhere g = true) (k : String) (n : Node)
    (hn : g.find k = some n) (e : Edge) (he : e ∈ n.edges) (t : String)
    (ht : e.target = .node t) : ∀ p, IsPath g (t :: p) → p.length < dfsFuel g := by
  unfold noCycleAnywhere at h
  rw [List.all_eq_true] at h
  have hd := h n (find_mem hn)
  unfold dfsFrom at hd
  rw [List.all_eq_true] at hd
  have := hd e he
  simp only [ht] at this
  exact dfs_paths_bounded g _ [] t e.cond this

/-- **no_reachable_cycle.**  Hence no node reachable from any edge target lies on a cycle. -/
theorem no_reachable_cycle (g : DirGraph) (h : noCycleAnywhere g = true) (k : String) (n : Node)
    (hn : g.find k = some n) (e : Edge) (he : e ∈ n.edges) (t : String)
    (ht : e.target = .node t) (p q : List String) (x : String)
    (hreach : IsPath g (t :: p ++ [x])) (hcyc : IsPath g (x :: q ++ [x])) : False :=
  cycle_unbounded g (dfsFuel g) t p q x hreach hcyc (dfs_sound g h k n hn e he t ht)

/-- **dfs_sound_nodup.**  Equivalently: every such path is duplicate-free and, by the pigeonhole principle,
    has at most `N` (= number of nodes of the direction) steps. -/
theorem dfs_sound_nodup (g : DirGraph) (h : noCycleAnywhere g = true) (k : String) (n : Node)
    (hn : g.find k = some n) (e : Edge) (he : e ∈ n.edges) (t : String)
    (ht : e.target = .node t) (p : List String) (hp : IsPath g (t :: p)) :
    (t :: p).Nodup ∧ p.length ≤ g.nodes.length :=
  ⟨path_nodup g _ p t hp (dfs_sound g h k n hn e he t ht),
   path_length_le g _ p t hp (dfs_sound g h k n hn e he t ht)⟩

/-- **accepted_acyclic.**  A direction the loader validated contains no processor cycle at all — `IsPath` only
    asks for edge MEMBERSHIP, so this holds regardless of the order in which connections were written. -/
theorem accepted_acyclic (d : Dir) (g : DirGraph) (hv : validateDirection d g = .ok ()) (x : String)
    (q : List String) : ¬ IsPath g (x :: q ++ [x]) :=
  validated_acyclic hv x q

/-- **verdict_order_invariant.**  Reordering the connections of every processor (`σ n` a permutation of the
    edge list of node `n`) does not change the verdict of `validateDirection` (root, unconnected processors,
    cycle check). -/
theorem verdict_order_invariant (σ : Node → List Edge) (hσ : ∀ n, (σ n).Perm n.edges) (d : Dir) (g : DirGraph) :
    validateDirection d (reEdge σ g) = validateDirection d g :=
  validateDirection_reEdge σ hσ d g

/-- non-vacuity / regression for the seeded change C05-s1: the exit `A -b-> stream end` written BEFORE the edge
    that closes the cycle `A → B → A` does not hide the cycle; nor does any other order (reversal shown). -/
example : noCycleAnywhere ⟨some "A", [⟨"A", [⟨"b", .stream "globalStream" "end"⟩, ⟨"a", .node "B"⟩]⟩,
    ⟨"B", [⟨"a", .node "A"⟩]⟩]⟩ = false := by decide
example : noCycleAnywhere (reEdge (fun n => n.edges.reverse) ⟨some "A",
    [⟨"A", [⟨"b", .stream "globalStream" "end"⟩, ⟨"a", .node "B"⟩]⟩, ⟨"B", [⟨"a", .node "A"⟩]⟩]⟩) = false := by decide

/-- non-vacuity: a diamond `R → {A, B} → C` passes the check (paths are cloned, `C` is visited twice). -/
example : noCycleAnywhere ⟨some "R", [⟨"R", [⟨"a", .node "A"⟩, ⟨"a", .node "B"⟩]⟩, ⟨"A", [⟨"", .node "C"⟩]⟩,
    ⟨"B", [⟨"", .node "C"⟩]⟩, ⟨"C", [⟨"", .stream "globalStream" "end"⟩]⟩]⟩ = true := by decide

/-- a cycle is refused wherever it is — here it is NOT reachable from the root `R` -/
example : noCycleAnywhere ⟨some "R", [⟨"R", [⟨"a", .stream "globalStream" "end"⟩]⟩, ⟨"A", [⟨"a", .node "B"⟩]⟩,
    ⟨"B", [⟨"b", .node "A"⟩]⟩]⟩ = false := by decide

/-! ## 2. Walks of validated directions terminate, with a bound on processor executions -/

/-- **walk_terminates.**  In a direction the loader validated, the walk from EVERY entry point — the root
    or the continuation of any short-circuit node — with any output oracle halts: with every fuel ≥ `N + 1`
    (N = number of nodes) it never reports `.fuel`, and it executes at most 1 + D + D² + … + D^N processors
    (D = largest out-degree). -/
theorem walk_terminates (f : Flow) (o : Oracle) (d : Dir) (hv : validateDirection d (f.dir d) = .ok ())
    (k : String) (fuel : Nat) (hf : (f.dir d).nodes.length + 1 ≤ fuel) :
    (walk f o d fuel k).err ≠ some .fuel ∧
    steps (walk f o d fuel k).trace ≤ bnd (maxDeg (f.dir d)) ((f.dir d).nodes.length + 1) :=
  walk_any_ok f o d hv k fuel hf

/-- **req_walk_terminates** (the request walk from the root). -/
theorem req_walk_terminates (f : Flow) (o : Oracle) (hv : validateDirection .req f.req = .ok ())
    (r : String) (fuel : Nat) (hf : f.req.nodes.length + 1 ≤ fuel) :
    (walk f o .req fuel r).err ≠ some .fuel ∧
    steps (walk f o .req fuel r).trace ≤ bnd (maxDeg f.req) (f.req.nodes.length + 1) :=
  walk_any_ok f o .req hv r fuel hf

/-- **resp_walk_terminates** (the response walk from the root or from a short-circuit entry). -/
theorem resp_walk_terminates (f : Flow) (o : Oracle) (hv : validateDirection .res f.res = .ok ())
    (k : String) (fuel : Nat) (hf : f.res.nodes.length + 1 ≤ fuel) :
    (walk f o .res fuel k).err ≠ some .fuel ∧
    steps (walk f o .res fuel k).trace ≤ bnd (maxDeg f.res) (f.res.nodes.length + 1) :=
  walk_any_ok f o .res hv k fuel hf

/-- **walk_fuel_irrelevant.**  A walk that ended without `.fuel` is final: more fuel gives the same result
    (so "fuel" is only a device to make the walker total; `.fuel` for every fuel = non-termination). -/
theorem walk_fuel_irrelevant (f : Flow) (o : Oracle) (d : Dir) (fuel : Nat) (k : String)
    (h : (walk f o d fuel k).err ≠ some .fuel) (m : Nat) : walk f o d (fuel + m) k = walk f o d fuel k :=
  walk_stable_add f o d fuel k h m

/-- non-vacuity of the hypotheses: a validated direction with a root -/
example : validateDirection .req ⟨some "A", [⟨"A", [⟨"a", .node "B"⟩]⟩, ⟨"B", []⟩]⟩ = .ok () :=
  vOk_ok (by decide)

/-! ## 3. Loading terminates -/

/-- **build_terminates.**  Building the connection list of any flow of the configuration, with any flow
    references, never exhausts the loader's fuel: the nesting of `incorporateFlow` is bounded by the number of
    flows (in-progress set), every level by the longest connection list. -/
theorem build_terminates (pts : List PType) (fs : List XFlow) (x : XFlow) (hx : x ∈ fs) (d : Dir) (s : BS) :
    buildX pts fs x.name d (buildFuel fs) [] x.name s (x.conns d) ≠ .error .fuel :=
  buildX_top_noFuel pts fs x hx d s

/-- **ref_cycle_refused.**  If the builder succeeds on the connection list of the flow under construction
    (`x`, in-progress set empty), then along EVERY chain of flow references starting at `x` no flow occurs twice
    and `x` itself does not occur: the reference graph reachable from `x` is acyclic.  Contrapositive: a
    reference cycle reachable from `x` — through `x` (self reference, A ⇄ B, rings) or not (rho shapes: a tail
    into a cycle) — makes the build of `x` fail, and by `build_terminates` it fails with an error, it does not
    run out of fuel.  Fuel-free: the statement holds for whatever fuel the successful build was given. -/
theorem ref_cycle_refused (pts : List PType) (fs : List XFlow) (x : XFlow) (d : Dir) (fuel : Nat) (s s' : BS)
    (h : buildX pts fs x.name d fuel [] x.name s (x.conns d) = .ok s') (p : List String)
    (hp : RefChain fs d (x.conns d) p) : (x.name :: p).Nodup := by
  have := buildX_ok_chain pts fs x.name d p (x.conns d) fuel [] x.name s s' h hp
  exact List.nodup_cons.mpr ⟨fun hin => (this.2 x.name hin).2 rfl, this.1⟩

/-- the same one level down: the in-progress set grows strictly along the recursion (every flow being
    incorporated is recorded), which is what bounds the nesting by the number of flows -/
theorem incorporate_records_target (pts : List PType) (fs : List XFlow) (home : String) (d : Dir) (cs : List XConn)
    (fuel : Nat) (stack : List String) (cur : String) (s s' : BS)
    (h : buildX pts fs home d fuel stack cur s cs = .ok s') (y : String) (hy : y ∈ refTargets cs) :
    ∃ tf, findFlow fs y = some tf ∧ y ∉ stack ∧ y ≠ home ∧
      ∃ fuel' s0 s2, buildX pts fs home d fuel' (y :: stack) y s0 (tf.conns d) = .ok s2 :=
  buildX_ok_refs pts fs home d cs fuel stack cur s s' h y hy

/-- regression for the seeded change C05-s3, rho shape `Entry → LoopA → LoopB → LoopA`: refused with
    "circular flow reference", for every one of the three flows, although the cycle does not pass through `Entry` -/
example : load wCfgRho = .reject "refcycle" := by decide
example : RefChain wCfgRho.flows .res (wRhoEntry.conns .res) ["LoopA", "LoopB", "LoopA"] :=
  ⟨by decide, _, rfl, by decide, _, rfl, by decide, _, rfl, trivial⟩

/-- **parent_walk_terminates.**  On every quota tree the loader builds (`treeOf`: ids may repeat — the same id at
    several depths of a branch, on sibling branches, a limit below itself) the loop `for parentQuotaID != ""` of
    `Stream.addParentsQuotaReferences` ends, from whatever id it starts: `GetNode` answers the FIRST match, which
    is never inserted later than the actual parent node, so the insertion index of the resolved node strictly
    decreases.  Fuel `#nodes + 1` is never exhausted. -/
theorem parent_walk_terminates (q : QEntry) (ils : List QEntry) (t : List QNode) (h : treeOf q ils = some t)
    (id : String) : refWalkOk t id = true ∧ ∀ i j, walkStep t i = some j → j < i :=
  ⟨refWalkOk_true (treeOf_wf h) id, fun _ _ hs => walkStep_lt (treeOf_wf h) hs⟩

/-- regression for the seeded change C05-s8: `c1` declared again below itself; the walk from `c1` ends at the quota -/
example : treeOf { id := "q1" } [{ id := "c1", parent := some "q1" }, { id := "c1", parent := some "c1" }] =
    some [⟨"q1", none⟩, ⟨"c1", some 0⟩, ⟨"c1", some 1⟩] := by decide
example : walkStep [⟨"q1", none⟩, ⟨"c1", some 0⟩, ⟨"c1", some 1⟩] 2 = some 1 := by decide

/-- **load_terminates.**  The loader ends with accept or reject for EVERY configuration directory: neither the
    builder's recursion nor the parent-quota walk can run for ever. -/
theorem load_terminates (c : Cfg) : (∃ fls, load c = .accept fls) ∨ (∃ cls, load c = .reject cls) := by
  cases h : load c with
  | accept fls => exact Or.inl ⟨fls, rfl⟩
  | reject cls => exact Or.inr ⟨cls, rfl⟩
  | crash => exact absurd h (load_no_crash c)
  | hang => exact absurd h (load_no_hang c)

/-- regression examples: the former witnesses of F05a, F05b, F05c are refused with an error … -/
example : load wCfgA = .reject "cycle" := by decide
example : load wCfgB = .reject "refcycle" := by decide
example : load wCfgC = .reject "quota" := by decide
/-- … while the neighbouring legitimate configurations still load: a short-circuit continuation without
    cycle in a root-less response direction, and a flow incorporated twice (diamond of references). -/
example : isAccept (load wCfgA') = true := by decide
example : isAccept (load wCfgDiamond) = true := by decide

/-! ## 4. The property -/

/-- **accepted_runs_safely.**  Every configuration the loader accepts handles every transaction (any
    oracle, either direction, including early responses continued on the response side) within `bound`
    processor executions and returns actions or an error; it never recurses without end. -/
theorem accepted_runs_safely (c : Cfg) (fls : List Flow) (h : load c = .accept fls) (o : Oracle) (d : Dir) :
    (runTxn c fls o d).err ≠ some .fuel ∧ steps (runTxn c fls o d).trace ≤ bound fls :=
  runTxn_ok c o fls d (load_ready h)

/-- regression examples for F05d / F05e (repaired): an empty entry in a connection list is refused as a
    YAML-level error; a flow with a `status_code` filter takes part in a response with a listed status, and is
    left out of the response walk of an early response (there is no response whose status could be tested):
    `G` answers, the response side of the same flow (filter 429, 500) is not walked — 1 execution. -/
example : load { wCfgOk with flows := wCfgOk.flows.map fun f => { f with res := f.res ++ [⟨.nothing, .nothing⟩] } } =
    .reject "yaml" := by decide
example : (modelObs wCfgStatus [(wOracleA, .req), (fun _ _ _ => { name := "a" }, .res)]) =
    ⟨.accept true, [.ok 1, .ok 0]⟩ := by decide

/-- **judge_holds_of_model** — the connection theorem: the judge predicate is true of EVERY model run (any
    configuration, any list of transactions).  So a judge failure on the implementation is by construction
    a divergence from the proved model. -/
theorem judge_holds_of_model (c : Cfg) (txns : List (Oracle × Dir)) : holds c (modelObs c txns) = true := by
  unfold holds modelObs modelLoadObs
  cases hl : load c with
  | accept fls =>
    simp only [Bool.true_and, List.all_map, List.all_eq_true]
    intro t _
    have := accepted_runs_safely c fls hl t.1 t.2
    simp only [Function.comp, modelTxnObs, hl, cfgBound, resObs]
    cases he : (runTxn c fls t.1 t.2).err with
    | none => simpa [txnOk] using this.2
    | some e =>
      cases e with
      | fuel => exact absurd he this.1
      | proc => simpa [txnOk] using this.2
      | respNode => simpa [txnOk] using this.2
      | missing => simpa [txnOk] using this.2
  | reject cls =>
    simp only [List.all_map, List.all_eq_true]
    intro t _
    simp [Function.comp, modelTxnObs, hl]
  | crash => exact absurd hl (load_no_crash c)
  | hang => exact absurd hl (load_no_hang c)

/-- non-vacuity: an accepted configuration whose request transaction executes three processors
    (`A → {B, C}`), within the bound -/
example : (modelObs wCfgOk [(fun _ _ _ => { name := "a" }, .req)]) = ⟨.accept true, [.ok 3]⟩ := by decide

/-- and one where an early response continues on a root-less response side: `G`, then `B`, `C` -/
example : (modelObs wCfgA' [(wOracleA, .req)]) = ⟨.accept true, [.ok 3]⟩ := by decide

end LunarVerif.C05
