import LunarVerif.Proofs.C05Txn
import LunarVerif.Proofs.C05Wit
/-!
# C05 — every configuration the loader accepts runs safely on all traffic

Objects: `FlowGraph.validateDirection` / `buildFlow` (the loader's graph validation, shared with C04),
`FlowExec.walk` / `executeFlow` / `transaction` (the walker, shared), `C05.load` (the whole loader:
quota files, YAML-level validation, processor creation, builder incl. flow references), `C05.holds` (the
judge predicate over observable histories).

The unchanged code violates the property in three ways; the model is faithful to the code and each defect
is an explicit decidable exclusion with a machine-checked witness that also replays on the real engine
(`corpus/C05/F05{a,b,c}.ops`):
  F05a  the cycle DFS starts from the root's edges only: a response cycle entered from a short-circuit node
  F05b  `incorporateFlow` has no visited set: mutually referencing flows
  F05c  quota files with null list entries are dereferenced before they are validated
-/
namespace LunarVerif.C05
open LunarVerif.FlowGraph LunarVerif.FlowExec

/-! ## 1. The validator's DFS -/

/-- **dfs_sound.**  If `detectCircularConnections` accepts a direction, then below every target of the
    root's edges all paths are shorter than `dfsFuel g`: no cycle is reachable from the root's edge
    targets (a reachable cycle would give paths of every length, see `no_reachable_cycle`). -/
theorem dfs_sound (g : DirGraph) (h : noCycleFromRoot g = true) (r : String) (n : Node)
    (hr : g.root = some r) (hn : g.find r = some n) (e : Edge) (he : e ∈ n.edges) (t : String)
    (ht : e.target = .node t) : ∀ p, IsPath g (t :: p) → p.length < dfsFuel g := by
  unfold noCycleFromRoot at h
  simp only [hr, hn] at h
  rw [List.all_eq_true] at h
  have := h e he
  simp only [ht] at this
  exact dfs_paths_bounded g _ [] t e.cond this

/-- **no_reachable_cycle.**  Hence no node reachable from a root edge target lies on a cycle. -/
theorem no_reachable_cycle (g : DirGraph) (h : noCycleFromRoot g = true) (r : String) (n : Node)
    (hr : g.root = some r) (hn : g.find r = some n) (e : Edge) (he : e ∈ n.edges) (t : String)
    (ht : e.target = .node t) (p q : List String) (x : String)
    (hreach : IsPath g (t :: p ++ [x])) (hcyc : IsPath g (x :: q ++ [x])) : False :=
  cycle_unbounded g (dfsFuel g) t p q x hreach hcyc (dfs_sound g h r n hr hn e he t ht)

/-- non-vacuity: a diamond `R → {A, B} → C` passes the check (paths are cloned, `C` is visited twice). -/
example : noCycleFromRoot ⟨some "R", [⟨"R", [⟨"a", .node "A"⟩, ⟨"a", .node "B"⟩]⟩, ⟨"A", [⟨"", .node "C"⟩]⟩,
    ⟨"B", [⟨"", .node "C"⟩]⟩, ⟨"C", [⟨"", .stream "globalStream" "end"⟩]⟩]⟩ = true := by decide

/-- and a cycle below the root is refused -/
example : noCycleFromRoot ⟨some "R", [⟨"R", [⟨"a", .node "A"⟩]⟩, ⟨"A", [⟨"a", .node "B"⟩]⟩,
    ⟨"B", [⟨"b", .node "A"⟩]⟩]⟩ = false := by decide

/-! ## 2. Walks of validated directions terminate, with a bound on processor executions -/

/-- **dfs_sound_nodup.**  Equivalently: every path below a root edge target is duplicate-free and, by the
    pigeonhole principle, has at most `N` (= number of nodes of the direction) steps. -/
theorem dfs_sound_nodup (g : DirGraph) (h : noCycleFromRoot g = true) (r : String) (n : Node)
    (hr : g.root = some r) (hn : g.find r = some n) (e : Edge) (he : e ∈ n.edges) (t : String)
    (ht : e.target = .node t) (p : List String) (hp : IsPath g (t :: p)) :
    (t :: p).Nodup ∧ p.length ≤ g.nodes.length :=
  ⟨path_nodup g _ p t hp (dfs_sound g h r n hr hn e he t ht),
   path_length_le g _ p t hp (dfs_sound g h r n hr hn e he t ht)⟩

/-- **req_walk_terminates.**  For a request direction the loader validated, the walk from the root with
    any output oracle halts: with every fuel ≥ `N + 1` (N = number of nodes) it never reports `.fuel`, and
    it executes at most `dirBound` = 1 + D + D² + … + D^N processors (D = largest out-degree). -/
theorem req_walk_terminates (f : Flow) (o : Oracle) (hv : validateDirection .req f.req = .ok ())
    (r : String) (hr : f.req.root = some r) (fuel : Nat) (hf : f.req.nodes.length + 1 ≤ fuel) :
    (walk f o .req fuel r).err ≠ some .fuel ∧
    steps (walk f o .req fuel r).trace ≤ bnd (maxDeg f.req) (f.req.nodes.length + 1) :=
  walk_root_ok f o .req hv hr fuel hf

/-- **resp_walk_from_root_terminates.** -/
theorem resp_walk_from_root_terminates (f : Flow) (o : Oracle) (hv : validateDirection .res f.res = .ok ())
    (r : String) (hr : f.res.root = some r) (fuel : Nat) (hf : f.res.nodes.length + 1 ≤ fuel) :
    (walk f o .res fuel r).err ≠ some .fuel ∧
    steps (walk f o .res fuel r).trace ≤ bnd (maxDeg f.res) (f.res.nodes.length + 1) :=
  walk_root_ok f o .res hv hr fuel hf

/-- **walk_fuel_irrelevant.**  A walk that ended without `.fuel` is final: more fuel gives the same result
    (so "fuel" is only a device to make the walker total; `.fuel` for every fuel = non-termination). -/
theorem walk_fuel_irrelevant (f : Flow) (o : Oracle) (d : Dir) (fuel : Nat) (k : String)
    (h : (walk f o d fuel k).err ≠ some .fuel) (m : Nat) : walk f o d (fuel + m) k = walk f o d fuel k :=
  walk_stable_add f o d fuel k h m

/-- **walk_terminates_after_fix.**  With the proposed fix (cycle DFS from EVERY node) every entry point
    is safe, in particular the short-circuit continuation. -/
theorem walk_terminates_after_fix (f : Flow) (o : Oracle) (d : Dir) (hs : noCycleAnywhere (f.dir d) = true)
    (k : String) (fuel : Nat) (hf : depthOf (f.dir d) ≤ fuel) :
    (walk f o d fuel k).err ≠ some .fuel ∧ steps (walk f o d fuel k).trace ≤ dirBound (f.dir d) :=
  walk_any_ok f o d hs k fuel hf

/-- non-vacuity of the hypotheses of `req_walk_terminates`: a validated direction with a root; the walk
    `A → B` executes 2 processors, within the bound 1 + 1 + 1 -/
example : validateDirection .req ⟨some "A", [⟨"A", [⟨"a", .node "B"⟩]⟩, ⟨"B", []⟩]⟩ = .ok () :=
  vOk_ok (by decide)

/-! ## 3. F05a: the short-circuit entry -/

/-- **resp_walk_from_shortcircuit_violation_witness (F05a).**  The loader accepts the configuration of
    `corpus/C05/F05a.ops` (response `start → R → end`, cycle `B ⇄ C` reachable only from the answering
    node `G`); the response walk entered from `G` does not terminate for the constant oracle: for EVERY
    fuel the result is `.fuel`. -/
theorem resp_walk_from_shortcircuit_violation_witness :
    ∃ (c : Cfg) (f : Flow) (o : Oracle),
      load c = .accept [f] ∧ validateDirection .res f.res = .ok () ∧ f.res.root.isSome = true ∧
      f05a c = true ∧
      ∀ fuel, (executeFlow f o .res fuel (some "G")).err = some .fuel :=
  ⟨wCfgA, wFlowA, wOracleA, wCfgA_load, vOk_ok (by decide), by decide, wCfgA_f05a, wFlowA_loops⟩

/-- the same on the level of a whole request transaction: it never returns -/
theorem request_txn_violation_witness :
    ∃ (c : Cfg) (f : Flow) (o : Oracle), load c = .accept [f] ∧
      ∀ fuel, (transaction (selected [f]) o fuel .req).err = some .fuel :=
  ⟨wCfgA, wFlowA, wOracleA, wCfgA_load, wTxnA_loops⟩

/-! ## 4. Loading terminates -/

/-- **build_terminates_partial.**  Building a reference-free connection list consumes at most one unit
    of fuel per connection: it never reports `.fuel`. -/
theorem build_terminates_partial (pts : List PType) (fs : List XFlow) (home : String) (d : Dir)
    (cs : List XConn) (hfree : cs.all (·.base?.isSome) = true) (cur : String) (s : BS) (fuel : Nat)
    (hf : cs.length ≤ fuel) : buildX pts fs home d fuel cur s cs ≠ .error .fuel :=
  buildX_refFree_noFuel pts fs home d cs hfree cur s fuel hf

/-- hence the loader never crashes on a reference-free configuration -/
theorem load_terminates_partial (c : Cfg) (h : f05b c = false) : load c ≠ .crash :=
  load_no_crash h

/-- **build_violation_witness (F05b).**  `fa: A → flow fb start`, `fb: B → flow fa start`: for EVERY fuel
    the builder reports `.fuel` — `incorporateFlow` recurses without bound, the loader crashes. -/
theorem build_violation_witness :
    ∃ (c : Cfg) (x : XFlow), x ∈ c.flows ∧ f05b c = true ∧
      (∀ fuel s, buildX c.ptypes c.flows x.name .req fuel x.name s x.req = .error .fuel) ∧
      load c = .crash :=
  ⟨wCfgB, wFa, by decide, by decide, fun fuel s => (wB_loops fuel "fa" s).1, wCfgB_load⟩

/-- **load_never_panics_partial** and its witness (F05c). -/
theorem load_never_panics_partial (c : Cfg) (h : f05c c = false) (cls : String) : load c ≠ .panic cls :=
  load_no_panic h cls

theorem load_panic_violation_witness : ∃ c : Cfg, f05c c = true ∧ load c = .panic "nil-deref" :=
  ⟨{ qfiles := [{ quotas := [{ id := "q1", url := some "verif.test/*", strat := { kind := "conc", maxreq := some 5 } }],
                  internals := [{ null := true }] }] }, by decide, by decide⟩

/-! ## 5. The property -/

/-- **accepted_runs_safely_partial.**  Every configuration the loader accepts, outside F05a, handles every
    transaction (any oracle, either direction) within `bound` processor executions and returns actions or
    an error; it never recurses without end. -/
theorem accepted_runs_safely_partial (c : Cfg) (fls : List Flow) (h : load c = .accept fls)
    (ha : f05a c = false) (o : Oracle) (d : Dir) :
    (runTxn fls o d).err ≠ some .fuel ∧ steps (runTxn fls o d).trace ≤ bound fls := by
  have hs : ∀ f ∈ fls, noCycleAnywhere f.res = true := by
    unfold f05a at ha
    simp only [h] at ha
    intro f hf
    have := List.any_eq_false.mp ha f hf
    simpa using this
  exact transaction_ok o (walkFuel fls) fls d (load_ready h) hs

/-- **response_runs_safely.**  Response transactions need no exclusion at all. -/
theorem response_runs_safely (c : Cfg) (fls : List Flow) (h : load c = .accept fls) (o : Oracle) :
    (runTxn fls o .res).err ≠ some .fuel ∧ steps (runTxn fls o .res).trace ≤ bound fls :=
  responseTxn_ok o (walkFuel fls) fls (load_ready h)

/-- **judge_holds_of_model_partial** — the connection theorem: the judge predicate is true of every model
    run (any configuration, any list of transactions) outside the three defect classes.  So a judge
    failure on the implementation is a divergence from the proved model or a listed finding. -/
theorem judge_holds_of_model_partial (c : Cfg) (txns : List (Oracle × Dir))
    (ha : f05a c = false) (hb : f05b c = false) (hc : f05c c = false) :
    holds c (modelObs c txns) = true := by
  unfold holds modelObs modelLoadObs
  cases hl : load c with
  | accept fls =>
    simp only [Bool.true_and, List.all_map, List.all_eq_true]
    intro t _
    have := accepted_runs_safely_partial c fls hl ha t.1 t.2
    simp only [Function.comp, modelTxnObs, hl, cfgBound, load_raw hl hb, resObs]
    cases he : (runTxn fls t.1 t.2).err with
    | none => simpa [txnOk] using this.2
    | some e =>
      cases e with
      | fuel => exact absurd he this.1
      | proc => simpa [txnOk] using this.2
      | respNode => simpa [txnOk] using this.2
      | missing => simpa [txnOk] using this.2
  | reject cls =>
    simp only [List.all_map, List.all_eq_true]
    intro t _
    simp [Function.comp, modelTxnObs, hl]
  | panic cls => exact absurd hl (load_no_panic hc cls)
  | crash => exact absurd hl (load_no_crash hb)

/-- non-vacuity: an accepted configuration outside all three classes whose request transaction executes
    three processors (`A → {B, C}`), well within the bound -/
example : f05a wCfgOk = false ∧ f05b wCfgOk = false ∧ f05c wCfgOk = false ∧
    (modelObs wCfgOk [(fun _ _ _ => { name := "a" }, .req)]) = ⟨.accept true, [.ok 3]⟩ := by decide

end LunarVerif.C05
