import LunarVerif.Proofs.C10
/-!
# C10 — Policy-mode delayed queue releases waiters in order and never strands one

Property theorems only (helpers live in `Proofs/C10.lean`).  The model is the labelled transition
system of `Model/C10.lean` (`step` = one critical section / one timer firing / one clock tick of one
thread of `DelayedPriorityQueue`); a *schedule* is any `List Label`, `run` executes it from the
freshly constructed queue and fails (`none`) when a step is not enabled.  All statements quantify
over every configuration (quota, window size, queue size), every start instant and EVERY schedule —
every interleaving of enqueuers, the roll-over goroutine, TTL timers and clock ticks, including
timers that fire late.  `safe`, `fair`, `holds`, `clean` are the Spec predicates evaluated by the
judge on the real queue's answers (`Spec/C10.lean`).
-/
namespace LunarVerif.C10

/-- Observer state after a history. -/
def observe (cfg : Cfg) (t0 : Nat) (es : List Ev) : Obs := es.foldl (obsStep cfg) (Obs.init cfg t0)

/-- Connection theorem, safety part, ALL schedules: per-window quota, queue-size bound, rejection
    only when full / TTL elapsed, well-formed events. -/
theorem safe_holds (cfg : Cfg) (t0 : Nat) (ls : List Label) (s : State) (es : List Ev)
    (hrun : run cfg (init cfg t0) ls = some (s, es)) : safe cfg t0 es = true :=
  (run_inv ls (inv_init cfg t0) hrun).1

/-- Connection theorem, whole property: the judge predicate is true of every model run whose
    history contains no event of the class of F10a (roll-over while a pushed request has not yet
    reached its `select`) or F10b (newcomer takes a slot ahead of waiters before the window's
    roll-over ran). -/
theorem spec_holds_partial (cfg : Cfg) (t0 : Nat) (ls : List Label) (s : State) (es : List Ev)
    (hrun : run cfg (init cfg t0) ls = some (s, es)) (hclean : clean cfg t0 es = true) :
    holds cfg t0 es = true := by
  have h1 := (run_inv ls (inv_init cfg t0) hrun).1
  have h2 := (run_finv ls (inv_init cfg t0) (finv_init cfg t0) hrun hclean).1
  simp [holds, h1, h2]

/-- Grants (immediate passes + hand-offs) whose instant lies in any one aligned window never
    exceed the window quota — all schedules. -/
theorem releases_le_quota (cfg : Cfg) (t0 : Nat) (ls : List Label) (s : State) (es : List Ev)
    (hrun : run cfg (init cfg t0) ls = some (s, es)) (w : Nat) :
    grantsIn cfg w (observe cfg t0 es).grants ≤ cfg.quota :=
  (run_inv ls (inv_init cfg t0) hrun).2.quota w

/-- The number of requests inside `Enqueue` that were queued and have not returned yet (the sum of
    `Counts()`) never exceeds the queue size: the size test and the push are one critical section —
    all schedules. -/
theorem waiters_le_size (cfg : Cfg) (t0 : Nat) (ls : List Label) (s : State) (es : List Ev)
    (hrun : run cfg (init cfg t0) ls = some (s, es)) :
    waitingCount s.reqs ≤ cfg.size ∧ waitingCount (observe cfg t0 es).reqs ≤ cfg.size := by
  have inv := (run_inv ls (inv_init cfg t0) hrun).2
  exact ⟨inv.size, by rw [observe, inv.reqs]; exact inv.size⟩

/-- Release order, any state (reachable or not), any roll-over: if `a` is handed off while `b`,
    which is in the heap and parked in its `select`, is not, then `b` is not strictly before `a`
    for (priority, timestamp). -/
theorem release_order (cfg : Cfg) (s s' : State) (rel : List Nat) (a b : Nat)
    (hstep : step cfg s .roll = some (s', .roll rel))
    (ha : a ∈ rel) (hb : b ∈ s.heap) (hpark : (phaseOf s.reqs b).isParked = true) (hnot : b ∉ rel) :
    keyLt (getReq s.reqs b) (getReq s.reqs a) = false := by
  obtain ⟨c, f⟩ := roll_facts hstep
  exact f.order a ha b (f.keep b hb hpark hnot)

/-- A request is rejected only because the queue was full (and the window quota used up), and is
    answered `false` after waiting only when its TTL timer fired at or after its deadline (deadline =
    instant it entered the select + TTL) — all schedules, every position of the history. -/
theorem rejected_only_if_full_or_ttl (cfg : Cfg) (t0 : Nat) (ls : List Label) (s : State)
    (pre post : List Ev) (e : Ev)
    (hrun : run cfg (init cfg t0) ls = some (s, pre ++ e :: post)) :
    (∀ p ttl, e = .enq p ttl .full →
        cfg.size ≤ waitingCount (observe cfg t0 pre).reqs ∧
        cfg.quota ≤ grantsIn cfg ((observe cfg t0 pre).now / cfg.win) (observe cfg t0 pre).grants) ∧
    (∀ r, e = .expire r → ∃ dl, phaseOf (observe cfg t0 pre).reqs r = .parked dl ∧ dl ≤ (observe cfg t0 pre).now) ∧
    (∀ r, e = .finish r false → phaseOf (observe cfg t0 pre).reqs r = .wokeTTL) := by
  have h : safeOk cfg (observe cfg t0 pre) e = true :=
    safeFrom_split cfg pre e post _ (safe_holds cfg t0 ls s _ hrun)
  refine ⟨?_, ?_, ?_⟩
  · intro p ttl he; subst he
    simp only [safeOk, Bool.and_eq_true, decide_eq_true_eq] at h
    exact ⟨h.2, h.1⟩
  · intro r he; subst he
    simp only [safeOk] at h
    split at h
    · next dl hp => exact ⟨dl, hp, by simpa using h⟩
    · simp at h
  · intro r he; subst he
    simpa [safeOk] using h

/-- No stranding, any state, any roll-over: a waiter that is in the heap and PARKED in its
    `select` when the roll-over runs is released, unless the window quota is used up. -/
theorem no_stranding_partial (cfg : Cfg) (s s' : State) (rel : List Nat) (b : Nat)
    (hstep : step cfg s .roll = some (s', .roll rel))
    (hb : b ∈ s.heap) (hpark : (phaseOf s.reqs b).isParked = true) :
    b ∈ rel ∨ cfg.quota ≤ s'.counter := by
  obtain ⟨c, f⟩ := roll_facts hstep
  by_cases hn : b ∈ rel
  · exact Or.inl hn
  · right
    rcases f.stop (Nat.le_refl _) with h | h
    · exact h
    · have := f.keep b hb hpark hn
      simp only at h this
      rw [h] at this
      simp at this

/-- Outside the classes of F10a/F10b every request still waiting for its turn is in the heap, so
    `no_stranding_partial` and `release_order` apply to it at the next roll-over. -/
theorem waiting_in_heap_partial (cfg : Cfg) (t0 : Nat) (ls : List Label) (s : State) (es : List Ev)
    (hrun : run cfg (init cfg t0) ls = some (s, es)) (hclean : clean cfg t0 es = true)
    (b : Nat) (hlive : (phaseOf s.reqs b).live = true) : b ∈ s.heap :=
  (run_finv ls (inv_init cfg t0) (finv_init cfg t0) hrun hclean).2.inHeap b hlive

/-- "Dropped and never retried", any state, any step of any thread: a request that is not in the
    heap is neither put back nor handed off — so a waiter dropped by a failed hand-off can only leave
    through its TTL. -/
theorem dropped_never_released (cfg : Cfg) (s s' : State) (l : Label) (e : Ev) (b : Nat)
    (hstep : step cfg s l = some (s', e)) (hb : b < s.reqs.length) (hout : b ∉ s.heap) :
    b ∉ s'.heap ∧ ∀ rel, e = .roll rel → b ∉ rel := by
  cases l with
  | tick d =>
    simp only [step, Option.some.injEq, Prod.mk.injEq] at hstep
    obtain ⟨rfl, rfl⟩ := hstep
    exact ⟨hout, by simp⟩
  | enq prio ttl =>
    simp only [step] at hstep
    split at hstep
    · simp only [Option.some.injEq, Prod.mk.injEq] at hstep
      obtain ⟨rfl, rfl⟩ := hstep
      exact ⟨hout, by simp⟩
    · split at hstep
      · simp only [Option.some.injEq, Prod.mk.injEq] at hstep
        obtain ⟨rfl, rfl⟩ := hstep
        exact ⟨hout, by simp⟩
      · simp only [Option.some.injEq, Prod.mk.injEq] at hstep
        obtain ⟨rfl, rfl⟩ := hstep
        refine ⟨?_, by simp⟩
        simp only [List.mem_append, List.mem_singleton, not_or]
        exact ⟨hout, by omega⟩
  | park r =>
    simp only [step] at hstep
    split at hstep
    · simp only [Option.some.injEq, Prod.mk.injEq] at hstep
      obtain ⟨rfl, rfl⟩ := hstep
      exact ⟨hout, by simp⟩
    · simp at hstep
  | expire r =>
    simp only [step] at hstep
    split at hstep
    · split at hstep
      · simp only [Option.some.injEq, Prod.mk.injEq] at hstep
        obtain ⟨rfl, rfl⟩ := hstep
        exact ⟨hout, by simp⟩
      · simp at hstep
    · simp at hstep
  | finish r =>
    simp only [step] at hstep
    split at hstep
    · simp only [Option.some.injEq, Prod.mk.injEq] at hstep
      obtain ⟨rfl, rfl⟩ := hstep
      exact ⟨hout, by simp⟩
    · simp only [Option.some.injEq, Prod.mk.injEq] at hstep
      obtain ⟨rfl, rfl⟩ := hstep
      exact ⟨hout, by simp⟩
    · simp at hstep
  | roll =>
    have hroll : ∃ rel, e = .roll rel := by
      simp only [step] at hstep
      split at hstep
      · simp only [Option.some.injEq, Prod.mk.injEq] at hstep
        exact ⟨_, hstep.2.symm⟩
      · simp at hstep
    obtain ⟨rel, rfl⟩ := hroll
    obtain ⟨c, f⟩ := roll_facts hstep
    refine ⟨fun h => hout (f.heapSub b h), ?_⟩
    intro rel' he h
    simp only [Ev.roll.injEq] at he
    subst he
    exact hout (f.relSub b h)

/-! ### Witnesses: the unchanged code violates the full-strength property -/

/-- quota 1 per 1000 ns window, queue size 5, start at 10000. -/
def wCfg : Cfg := ⟨1, 1000, 5⟩

/-- F10a: request 1 is pushed; the roll-over pops it while it is between unlock and select (send
    fails, dropped); it then parks, three windows with free quota go by, its TTL fires. -/
def lostHandoff : List Label :=
  [.enq 0 5000, .tick 1, .enq 0 5000, .tick 999, .roll, .park 1, .tick 1000, .roll, .tick 1000, .roll,
   .tick 3000, .expire 1, .finish 1]

/-- The lost hand-off: a schedule after which request 1 has been answered `false` although no
    grant at all was made in the windows 12 and 13 it waited through (quota 1 each), nobody else was
    waiting, and the full-strength property is false on the history. -/
theorem lost_handoff_witness :
    ∃ s es, run wCfg (init wCfg 10000) lostHandoff = some (s, es) ∧
      phaseOf s.reqs 1 = .retF ∧
      grantsIn wCfg 12 (observe wCfg 10000 es).grants = 0 ∧
      grantsIn wCfg 13 (observe wCfg 10000 es).grants = 0 ∧
      waitingCount s.reqs = 0 ∧
      safe wCfg 10000 es = true ∧ fair wCfg 10000 es = false := by
  refine ⟨_, _, rfl, ?_⟩
  decide

/-- The full-strength statement (`spec_holds_partial` without its `clean` hypothesis) is false. -/
theorem no_stranding_violation_witness :
    ∃ cfg t0 ls s es, run cfg (init cfg t0) ls = some (s, es) ∧ ¬ holds cfg t0 es = true :=
  ⟨wCfg, 10000, lostHandoff, _, _, rfl, by decide⟩

/-- F10b: request 1 (priority 0) is queued and parked; the clock enters the next window; request 2
    (priority 3) calls Enqueue before the roll-over ran and takes the window's only slot. -/
def lateRollover : List Label :=
  [.enq 0 5000, .tick 1, .enq 0 5000, .park 1, .tick 999, .enq 3 5000, .roll]

/-- Overtaking: no roll-over ever ran with a request in the gap (no F10a event), yet a newcomer of
    worse priority is granted while request 1 keeps waiting, and the roll-over releases nobody. -/
theorem release_order_violation_witness :
    ∃ s es, run wCfg (init wCfg 10000) lateRollover = some (s, es) ∧
      phaseOf s.reqs 2 = .passed ∧ (phaseOf s.reqs 1).isParked = true ∧
      es.getLast? = some (.roll []) ∧
      safe wCfg 10000 es = true ∧ fair wCfg 10000 es = false := by
  refine ⟨_, _, rfl, ?_⟩
  decide

/-! ### Non-vacuity -/

/-- A clean schedule with real queueing: requests 1 (priority 2) and 2 (priority 1) wait; the first
    roll-over releases request 2 (better priority although it arrived later), the next one request 1. -/
def orderly : List Label :=
  [.enq 0 5000, .tick 1, .enq 2 5000, .park 1, .tick 1, .enq 1 5000, .park 2, .tick 998, .roll,
   .finish 2, .tick 1000, .roll, .finish 1]

example : ∃ s es, run wCfg (init wCfg 10000) orderly = some (s, es) ∧
    clean wCfg 10000 es = true ∧ holds wCfg 10000 es = true ∧
    es.filter (fun e => match e with | .roll _ => true | _ => false) = [.roll [2], .roll [1]] ∧
    grantsIn wCfg 10 (observe wCfg 10000 es).grants = 1 ∧
    grantsIn wCfg 11 (observe wCfg 10000 es).grants = 1 := by
  refine ⟨_, _, rfl, ?_⟩
  decide

/-- Hypotheses of `release_order` / `no_stranding_partial` are met at the first roll-over of
    `orderly`: request 2 is released while request 1 is parked, in the heap and stays behind. -/
example : ∃ s s' es, run wCfg (init wCfg 10000) (orderly.take 8) = some (s, es) ∧
    step wCfg s .roll = some (s', .roll [2]) ∧ 1 ∈ s.heap ∧ (phaseOf s.reqs 1).isParked = true ∧
    wCfg.quota ≤ s'.counter := by
  refine ⟨_, _, _, rfl, rfl, ?_⟩
  decide

/-- Hypotheses of `dropped_never_released` are met by a LIVE waiter: after the first roll-over of
    `lostHandoff` request 1 is still waiting for its turn but is no longer in the heap. -/
example : ∃ s es, run wCfg (init wCfg 10000) (lostHandoff.take 5) = some (s, es) ∧
    1 < s.reqs.length ∧ 1 ∉ s.heap ∧ (phaseOf s.reqs 1).live = true := by
  refine ⟨_, _, rfl, ?_⟩
  decide

/-- The queue-size bound is tight and a full queue rejects: size 1, the third request is refused. -/
example : ∃ s es, run ⟨1, 1000, 1⟩ (init ⟨1, 1000, 1⟩ 10000) [.enq 0 50, .tick 1, .enq 0 50, .tick 1, .enq 0 50]
      = some (s, es) ∧ waitingCount s.reqs = 1 ∧ es.getLast? = some (.enq 0 50 .full) := by
  refine ⟨_, _, rfl, ?_⟩
  decide

end LunarVerif.C10
