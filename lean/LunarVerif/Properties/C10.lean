import LunarVerif.Proofs.C10
import LunarVerif.Proofs.C10Plugin
import LunarVerif.Generated.C18Facts
/-!
# C10 — Policy-mode delayed queue releases waiters in order and never strands one

Property theorems only (helpers live in `Proofs/C10.lean`).  The model is the labelled transition
system of `Model/C10.lean` (`step` = one critical section / one timer firing / one clock tick of one
thread of `DelayedPriorityQueue`, AFTER the repairs F10a and F10b); a *schedule* is any
`List Label`, `run` executes it from the freshly constructed queue and fails (`none`) when a step is
not enabled.  All statements quantify over every configuration (quota, window size, queue size),
every start instant and EVERY schedule — every interleaving of enqueuers, the roll-over goroutine,
TTL timers and clock ticks, including timers that fire late and enqueuers that are slow to reach
their `select`.  `safe`, `fair`, `holds` are the Spec predicates evaluated by the judge on the real
queue's answers (`Spec/C10.lean`).  No excluded class is left: `spec_holds` is unconditional.
-/
namespace LunarVerif.C10

/-- Observer state after a history. -/
def observe (cfg : Cfg) (t0 : Nat) (es : List Ev) : Obs := es.foldl (obsStep cfg) (Obs.init cfg t0)

/-- Connection theorem, whole property, ALL schedules: the judge predicate (`safe ∧ fair`: quota per
    aligned window, queue-size bound, rejection only when full / TTL elapsed without a hand-off,
    release order, no stranding) is true of the history of every model run. -/
theorem spec_holds (cfg : Cfg) (t0 : Nat) (ls : List Label) (s : State) (es : List Ev)
    (hrun : run cfg (init cfg t0) ls = some (s, es)) : holds cfg t0 es = true := by
  obtain ⟨h1, h2, _⟩ := run_inv ls (inv_init cfg t0) hrun
  simp [holds, h1, h2]

/-- Safety part alone. -/
theorem safe_holds (cfg : Cfg) (t0 : Nat) (ls : List Label) (s : State) (es : List Ev)
    (hrun : run cfg (init cfg t0) ls = some (s, es)) : safe cfg t0 es = true :=
  (run_inv ls (inv_init cfg t0) hrun).1

/-- Grants (immediate passes + hand-offs) whose instant lies in any one aligned window never
    exceed the window quota — all schedules. -/
theorem releases_le_quota (cfg : Cfg) (t0 : Nat) (ls : List Label) (s : State) (es : List Ev)
    (hrun : run cfg (init cfg t0) ls = some (s, es)) (w : Nat) :
    grantsIn cfg w (observe cfg t0 es).grants ≤ cfg.quota :=
  (run_inv ls (inv_init cfg t0) hrun).2.2.quota w

/-- The number of requests inside `Enqueue` that were queued and have not returned yet (the sum of
    `Counts()`) never exceeds the queue size — all schedules. -/
theorem waiters_le_size (cfg : Cfg) (t0 : Nat) (ls : List Label) (s : State) (es : List Ev)
    (hrun : run cfg (init cfg t0) ls = some (s, es)) :
    waitingCount s.reqs ≤ cfg.size ∧ waitingCount (observe cfg t0 es).reqs ≤ cfg.size := by
  have inv := (run_inv ls (inv_init cfg t0) hrun).2.2
  exact ⟨inv.size, by rw [observe, inv.reqs]; exact inv.size⟩

/-- Release order, ALL schedules, every batch of hand-offs of the history (by a roll-over or by an
    Enqueue serving the waiters first): if `a` is handed off while `b` — any request still waiting
    for its turn, whether parked in its `select`, still on its way to it, or with its TTL timer just
    fired — is not, then `b` is not strictly before `a` for (priority, timestamp). -/
theorem release_order (cfg : Cfg) (t0 : Nat) (ls : List Label) (s : State)
    (pre post : List Ev) (e : Ev) (rel : List Nat) (a b : Nat)
    (hrun : run cfg (init cfg t0) ls = some (s, pre ++ e :: post)) (he : evRel e = some rel)
    (ha : a ∈ rel) (hb : (phaseOf (observe cfg t0 pre).reqs b).eligible = true) (hnot : b ∉ rel) :
    keyLt (getReq (observe cfg t0 pre).reqs b) (getReq (observe cfg t0 pre).reqs a) = false := by
  have hf : fairOk cfg (observe cfg t0 pre) e = true :=
    fairFrom_split cfg pre e post _ (run_inv ls (inv_init cfg t0) hrun).2.1
  have hrf : relFair cfg (observe cfg t0 pre) rel = true := by
    cases e <;> simp only [evRel, Option.some.injEq, reduceCtorEq] at he <;> subst he <;> exact hf
  simp only [relFair, Bool.and_eq_true, Bool.or_eq_true, List.all_eq_true, List.contains_iff_mem,
    Bool.not_eq_true'] at hrf
  rcases hrf.1 b (mem_eligIds.mpr hb) with h | h
  · exact absurd h hnot
  · exact h a ha

/-- No stranding, ALL schedules, every batch of hand-offs of the history: a request still waiting
    for its turn when a roll-over (or a newcomer's Enqueue) runs is handed off, unless the quota of
    the current window is used up by this batch — whether or not it has reached its `select`. -/
theorem no_stranding (cfg : Cfg) (t0 : Nat) (ls : List Label) (s : State)
    (pre post : List Ev) (e : Ev) (rel : List Nat) (b : Nat)
    (hrun : run cfg (init cfg t0) ls = some (s, pre ++ e :: post)) (he : evRel e = some rel)
    (hb : (phaseOf (observe cfg t0 pre).reqs b).eligible = true) :
    b ∈ rel ∨
    grantsIn cfg ((observe cfg t0 pre).now / cfg.win) (observe cfg t0 pre).grants + rel.length = cfg.quota := by
  have hf : fairOk cfg (observe cfg t0 pre) e = true :=
    fairFrom_split cfg pre e post _ (run_inv ls (inv_init cfg t0) hrun).2.1
  have hrf : relFair cfg (observe cfg t0 pre) rel = true := by
    cases e <;> simp only [evRel, Option.some.injEq, reduceCtorEq] at he <;> subst he <;> exact hf
  simp only [relFair, Bool.and_eq_true, Bool.or_eq_true, List.all_eq_true, List.contains_iff_mem,
    decide_eq_true_eq] at hrf
  rcases hrf.2 with h | h
  · exact Or.inl (h b (mem_eligIds.mpr hb))
  · exact Or.inr h

/-- A newcomer takes a slot at once only when, after it served the queue, nobody is left waiting
    for a turn — all schedules. -/
theorem pass_only_if_nobody_waits (cfg : Cfg) (t0 : Nat) (ls : List Label) (s : State)
    (pre post : List Ev) (p ttl : Nat) (rel : List Nat) (b : Nat)
    (hrun : run cfg (init cfg t0) ls = some (s, pre ++ .enq p ttl .pass rel :: post))
    (hb : (phaseOf (observe cfg t0 pre).reqs b).eligible = true) : b ∈ rel := by
  have hs : safeOk cfg (observe cfg t0 pre) (.enq p ttl .pass rel) = true :=
    safeFrom_split cfg pre _ post _ (run_inv ls (inv_init cfg t0) hrun).1
  simp only [safeOk, Bool.and_eq_true, decide_eq_true_eq] at hs
  rcases no_stranding cfg t0 ls s pre post _ rel b hrun rfl hb with h | h
  · exact h
  · omega

/-- A request is rejected only because the queue was full (and the window quota used up), and is
    answered `false` after waiting only when its TTL timer fired at or after its deadline (deadline =
    instant it entered the select + TTL) and no hand-off had reached it when it re-took the mutex —
    all schedules, every position of the history. -/
theorem rejected_only_if_full_or_ttl (cfg : Cfg) (t0 : Nat) (ls : List Label) (s : State)
    (pre post : List Ev) (e : Ev)
    (hrun : run cfg (init cfg t0) ls = some (s, pre ++ e :: post)) :
    (∀ p ttl rel, e = .enq p ttl .full rel →
        cfg.size ≤ waitingCount (observe cfg t0 pre).reqs ∧
        cfg.quota ≤ grantsIn cfg ((observe cfg t0 pre).now / cfg.win) (observe cfg t0 pre).grants + rel.length) ∧
    (∀ r, e = .expire r → ∃ dl, phaseOf (observe cfg t0 pre).reqs r = .parked dl ∧ dl ≤ (observe cfg t0 pre).now) ∧
    (∀ r, e = .finish r false → phaseOf (observe cfg t0 pre).reqs r = .wokeTTL) := by
  have h : safeOk cfg (observe cfg t0 pre) e = true :=
    safeFrom_split cfg pre e post _ (safe_holds cfg t0 ls s _ hrun)
  refine ⟨?_, ?_, ?_⟩
  · intro p ttl rel he; subst he
    simp only [safeOk, Bool.and_eq_true, decide_eq_true_eq] at h
    exact ⟨h.2, h.1.2⟩
  · intro r he; subst he
    simp only [safeOk] at h
    split at h
    · next dl hp => exact ⟨dl, hp, by simpa using h⟩
    · simp at h
  · intro r he; subst he
    simpa [safeOk] using h

/-- Every request still waiting for its turn is in the heap — all schedules (nothing is ever
    dropped by a failed hand-off any more). -/
theorem waiting_in_heap (cfg : Cfg) (t0 : Nat) (ls : List Label) (s : State) (es : List Ev)
    (hrun : run cfg (init cfg t0) ls = some (s, es))
    (b : Nat) (hel : (phaseOf s.reqs b).eligible = true) : b ∈ s.heap :=
  (run_inv ls (inv_init cfg t0) hrun).2.2.inHeap b hel

/-- Per-step form, ANY state (reachable or not), any serving step (roll-over or Enqueue): a request
    that is in the heap and still waiting for its turn is handed off, or the step ends with the
    window quota used up; and whoever is handed off is not worse than anybody left in the heap. -/
theorem serve_step (cfg : Cfg) (s s' : State) (l : Label) (e : Ev) (rel : List Nat) (b : Nat)
    (hstep : step cfg s l = some (s', e)) (he : evRel e = some rel)
    (hb : b ∈ s.heap) (hel : (phaseOf s.reqs b).eligible = true) (hnot : b ∉ rel) :
    cfg.quota ≤ s'.counter ∧ ∀ a ∈ rel, keyLt (getReq s.reqs b) (getReq s.reqs a) = false := by
  obtain ⟨c, L, f, _, hc, _⟩ := serve_facts hstep he
  have hk := f.keep b hb hel hnot
  refine ⟨?_, fun a ha => f.order a ha b hk⟩
  rcases f.stop (Nat.le_refl _) with h | h
  · rcases hc with hc | hc <;> omega
  · rw [h] at hk; simp at hk

/-- Plugin level, one queue per remedy key: `k` first requests for a key arriving at one instant on
    its (single, fresh) queue — in any order, the clock standing still — yield at most `quota`
    immediate passes and at most `size` waiting requests.  (`burstOk`, the judge predicate for the
    plugin-level burst cases, asks exactly this of the real plugin, plus "one queue was created".) -/
theorem burst_bounds (cfg : Cfg) (t0 p ttl k : Nat) (s : State) (es : List Ev)
    (hrun : run cfg (init cfg t0) (List.replicate k (.enq p ttl)) = some (s, es)) :
    passCount es ≤ cfg.quota ∧ waitingCount s.reqs ≤ cfg.size := by
  refine ⟨?_, (waiters_le_size cfg t0 _ s es hrun).1⟩
  have h1 := passCount_le_grants cfg es (Obs.init cfg t0) (run_replicate_enq k hrun)
  have h2 := releases_le_quota cfg t0 _ s es hrun (t0 / cfg.win)
  have : (Obs.init cfg t0).now = t0 := rfl
  rw [this] at h1
  unfold observe at h2
  omega

/-- Plugin level, requests under different queue keys never share a queue: a step of the queue of
    `k'` leaves the queue of every other key `k` exactly as it was. -/
theorem queues_not_shared (cfgOf : Nat → Cfg) (p p' : Plugin) (k k' : Nat) (l : Label) (hne : k' ≠ k)
    (h : pstep cfgOf p (.on k' l) = some p') : lookupQ p'.queues k = lookupQ p.queues k := by
  simp only [pstep] at h
  split at h
  · simp at h
  · simp only [Option.some.injEq] at h
    subst h
    exact lookup_setQ_ne _ _ _ _ (Ne.symm hne)

/-- Plugin level, per-key projection, ALL plugin schedules from a fresh plugin: the queue of key `k`
    is `none` until `k`'s first own step, and from then on it is the state reached by a run of the
    SINGLE-queue model (`run`, the object of every theorem above) with `k`'s own configuration, created
    at the instant of that first step, over the clock ticks and `k`'s own steps only — whatever the
    other keys (other remedy names, or the same name with another strategy) do in between. -/
theorem plugin_projection (cfgOf : Nat → Cfg) (t0 : Nat) (ls : List PLabel) (p' : Plugin) (k : Nat)
    (hr : prun cfgOf ⟨t0, []⟩ ls = some p') :
    lookupQ p'.queues k = createdRun cfgOf k t0 ls :=
  prun_absent cfgOf k ls ⟨t0, []⟩ p' rfl hr

/-! ### Non-vacuity (and the former violation witnesses, now satisfying the property) -/

/-- One remedy name, two strategies (keys 100 = quota 1, 200 = quota 2, 1000 ns windows, size 3),
    interleaved: the quota-1 queue queues its second request, the quota-2 queue passes both, and
    each is what the single-queue model gives on its own projection. -/
example : let cfgOf : Nat → Cfg := fun k => ⟨k / 100, 1000, 3⟩
    let ls : List PLabel := [.on 100 (.enq 0 50), .tick 1, .on 200 (.enq 0 50), .tick 1, .on 100 (.enq 0 50),
                             .tick 1, .on 200 (.enq 0 50)]
    ∃ p', prun cfgOf ⟨5500, []⟩ ls = some p' ∧
      ((lookupQ p'.queues 100).map (fun s => s.reqs.map (·.ph))) = some [.passed, .gap] ∧
      ((lookupQ p'.queues 200).map (fun s => s.reqs.map (·.ph))) = some [.passed, .passed] ∧
      lookupQ p'.queues 100 = runS (cfgOf 100) (init (cfgOf 100) 5500) [.enq 0 50, .tick 1, .tick 1, .enq 0 50, .tick 1] := by
  refine ⟨_, rfl, ?_⟩
  decide


/-- A burst of 8 on quota 2 / size 3: 2 pass, 3 wait, 3 are refused. -/
example : ∃ s es, run ⟨2, 1000, 3⟩ (init ⟨2, 1000, 3⟩ 5500) (List.replicate 8 (.enq 0 2000)) = some (s, es) ∧
    passCount es = 2 ∧ waitingCount s.reqs = 3 ∧ burstOk ⟨2, 1000, 3⟩ 8 1 2 3 3 = true := by
  refine ⟨_, _, rfl, ?_⟩
  decide


/-- quota 1 per 1000 ns window, queue size 5, start at 10000. -/
def wCfg : Cfg := ⟨1, 1000, 5⟩

/-- Former F10a witness: request 1 is pushed and the roll-over runs while it is still between unlock
    and select.  The hand-off is buffered; when request 1 reaches its select it returns true. -/
def earlyHandoff : List Label :=
  [.enq 0 5000, .tick 1, .enq 0 5000, .tick 999, .roll, .park 1, .finish 1]

example : ∃ s es, run wCfg (init wCfg 10000) earlyHandoff = some (s, es) ∧
    phaseOf s.reqs 1 = .retT ∧ es.contains (.roll [1]) = true ∧ holds wCfg 10000 es = true ∧
    grantsIn wCfg 11 (observe wCfg 10000 es).grants = 1 := by
  refine ⟨_, _, rfl, ?_⟩
  decide

/-- Former F10b witness: request 1 (priority 0) is queued and parked; the clock enters the next
    window; request 2 (priority 3) calls Enqueue before the roll-over ran: it serves request 1 first
    and is queued itself. -/
def lateRollover : List Label :=
  [.enq 0 5000, .tick 1, .enq 0 5000, .park 1, .tick 999, .enq 3 5000, .finish 1, .roll]

example : ∃ s es, run wCfg (init wCfg 10000) lateRollover = some (s, es) ∧
    phaseOf s.reqs 1 = .retT ∧ phaseOf s.reqs 2 = .gap ∧
    es.contains (.enq 3 5000 .push [1]) = true ∧ es.getLast? = some (.roll []) ∧
    holds wCfg 10000 es = true := by
  refine ⟨_, _, rfl, ?_⟩
  decide

/-- Real queueing: requests 1 (priority 2) and 2 (priority 1) wait; the first roll-over releases
    request 2 (better priority although it arrived later), the next one request 1; here the
    hypotheses of `release_order` / `no_stranding` are met with `b = 1` at the first roll-over. -/
def orderly : List Label :=
  [.enq 0 5000, .tick 1, .enq 2 5000, .park 1, .tick 1, .enq 1 5000, .park 2, .tick 998, .roll,
   .finish 2, .tick 1000, .roll, .finish 1]

example : ∃ s es, run wCfg (init wCfg 10000) orderly = some (s, es) ∧ holds wCfg 10000 es = true ∧
    es.filter (fun e => match e with | .roll _ => true | _ => false) = [.roll [2], .roll [1]] ∧
    (phaseOf (observe wCfg 10000 (es.take 8)).reqs 1).eligible = true ∧
    grantsIn wCfg 10 (observe wCfg 10000 es).grants = 1 ∧
    grantsIn wCfg 11 (observe wCfg 10000 es).grants = 1 := by
  refine ⟨_, _, rfl, ?_⟩
  decide

/-- A hand-off that races with the TTL: request 1's timer fires, but the roll-over hands off before
    request 1 re-takes the mutex — it returns true and the grant is not wasted. -/
example : ∃ s es, run wCfg (init wCfg 10000)
      [.enq 0 5000, .tick 1, .enq 0 500, .park 1, .tick 999, .expire 1, .roll, .finish 1] = some (s, es) ∧
    phaseOf s.reqs 1 = .retT ∧ holds wCfg 10000 es = true := by
  refine ⟨_, _, rfl, ?_⟩
  decide

/-- …and if request 1 re-takes the mutex first it is marked expired, answered false, and the
    roll-over skips it without spending quota. -/
example : ∃ s es, run wCfg (init wCfg 10000)
      [.enq 0 5000, .tick 1, .enq 0 500, .park 1, .tick 999, .expire 1, .finish 1, .roll] = some (s, es) ∧
    phaseOf s.reqs 1 = .retF ∧ s.counter = 0 ∧ es.getLast? = some (.roll []) ∧ holds wCfg 10000 es = true := by
  refine ⟨_, _, rfl, ?_⟩
  decide

/-- The queue-size bound is tight and a full queue rejects: size 1, the third request is refused. -/
example : ∃ s es, run ⟨1, 1000, 1⟩ (init ⟨1, 1000, 1⟩ 10000) [.enq 0 50, .tick 1, .enq 0 50, .tick 1, .enq 0 50]
      = some (s, es) ∧ waitingCount s.reqs = 1 ∧ es.getLast? = some (.enq 0 50 .full []) := by
  refine ⟨_, _, rfl, ?_⟩
  decide

end LunarVerif.C10

/-! ## Step granularity of the transition system, tied to the source

The labels `enq` and `roll` of `Model/C10.lean` are each ONE locked section of `DelayedPriorityQueue`.
`Generated/C18Facts.lean` is rewritten from /repo's working tree on every run (per function: every access of a
field, the locks held, the number of the critical section it lies in), so this `decide` re-checks what
`in_memory_delayed_priority_queue.go` says now. -/
namespace LunarVerif.C10

/-- accesses of the window counter, the window end and the heap inside function `fn` (and the helpers it calls
    with the lock held are attributed to `fn`'s section by the extractor) -/
def dpqAccesses (fn : String) (fields : List String) : List LunarVerif.C18.Access :=
  LunarVerif.C18.Generated.facts.filter fun a =>
    a.struct == "queue.DelayedPriorityQueue" && a.func == fn && !a.init && fields.contains a.field

/-- `Enqueue` reads and writes the window counter, reads the window end and uses the heap inside ONE exclusive
    section (decide-and-enqueue cannot be separated by another caller or by the roll-over); the roll-over pass
    (`process`) updates the counter and serves the heap inside ONE exclusive section. -/
theorem enqueue_and_rollover_are_single_sections :
    ((dpqAccesses "Enqueue" ["currentWindowCounter"]).any (·.write)
      && (dpqAccesses "Enqueue" ["queue"]).any (fun _ => true)
      && LunarVerif.C18.oneRegion (dpqAccesses "Enqueue" ["currentWindowCounter", "currentWindowEndTime", "queue"])
      && (dpqAccesses "Enqueue" ["currentWindowCounter", "currentWindowEndTime", "queue"]).all
           (fun a => a.locks.any fun l => l.name == "mutex" && l.excl)
      && (dpqAccesses "process" ["currentWindowCounter"]).any (·.write)
      && LunarVerif.C18.oneRegion (dpqAccesses "process" ["currentWindowCounter", "queue"])
      && (dpqAccesses "process" ["currentWindowCounter", "queue"]).all
           (fun a => a.locks.any fun l => l.name == "mutex" && l.excl)) = true := by
  decide +kernel

end LunarVerif.C10
