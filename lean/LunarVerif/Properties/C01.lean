import LunarVerif.Proofs.C01Exact
import LunarVerif.Proofs.C01Atomic
import LunarVerif.Proofs.C01Verdict
import LunarVerif.Proofs.C01Unit
/-!
# C01 — Fixed-window quotas never admit more than their limit per window

Property theorems only (helpers live in `Proofs/C01.lean`).  Model: `Model/C01.lean`
(`incLevel / allowedLevel / decLevel / refundLevel` = the critical sections `quota.Inc / Allowed / Dec /
refund`, with
`AtomicIncWindow` inlined; `Sys.run` = any interleaving of these atomic steps by any number of
in-flight `Inc` / `Allowed` / `Dec` / limiter calls under a clock that only moves forward).
Spec: `Spec/C01.lean` (windows reconstructed from the log of charged arrivals).
-/
namespace LunarVerif.C01

/-! ## All interleavings -/

/-- The stored counter of every quota level never exceeds the configured maximum, whatever the
    schedule (any number of calls in flight, steps interleaved arbitrarily, any clock advance). -/
theorem counter_le_max (cfg : Cfg) (t0 : Nat) (sched : List Act) (k : Key) (c : QuotaCfg)
    (hk : cfg.quotas[k.1]? = some c) :
    ((Sys.run cfg (Sys.init t0) sched).st.at k).counter ≤ c.max :=
  ((SysInv.run cfg sched _ (SysInv.init cfg t0)).lvl k c hk).counter_le

/-- (i) Bound: for every quota (leaf or ancestor, `fixed_window`, custom counter or percentage child
    with its effective limit), every group value and every window reconstructed from the log of charged
    arrivals, what the admissions (`Allowed = true`) made while that window was current had counted sums
    to at most `max` — for every schedule. -/
theorem admitted_le_max (cfg : Cfg) (t0 : Nat) (sched : List Act) (k : Key) (c : QuotaCfg)
    (hk : cfg.quotas[k.1]? = some c) :
    ∀ w ∈ tally c.win k (Sys.run cfg (Sys.init t0) sched).log,
      w.admitted ≤ c.max ∧ w.charged ≤ c.max ∧ w.admitted ≤ w.charged := by
  intro w hw
  have := ((SysInv.run cfg sched _ (SysInv.init cfg t0)).lvl k c hk).all w hw
  omega

/-- Custom counters: the sum of the (non-negative) header values charged to a window, net of the
    charges given back, never exceeds `max`, whatever the values and the interleaving. -/
theorem charged_cost_le_max (cfg : Cfg) (t0 : Nat) (sched : List Act) (k : Key) (c : QuotaCfg)
    (hk : cfg.quotas[k.1]? = some c) :
    ∀ w ∈ tally c.win k (Sys.run cfg (Sys.init t0) sched).log, w.charged ≤ c.max :=
  fun w hw => (admitted_le_max cfg t0 sched k c hk w hw).2.1

/-- At a plain `fixed_window` quota every event that changes a window counts exactly 1 (charge,
    admission, refund): there `admitted` / `charged` are *numbers of requests*, so `admitted_le_max` is
    the bound of the property as stated. -/
theorem fixed_window_counts_requests (cfg : Cfg) (t0 : Nat) (sched : List Act) (k : Key) (c : QuotaCfg)
    (hk : cfg.quotas[k.1]? = some c) (hcc : c.cc = none) :
    ∀ e ∈ (Sys.run cfg (Sys.init t0) sched).log,
      (∀ r t cost, e = LEv.inc k r t cost .increased → cost = 1) ∧
      (∀ r amt, e = LEv.allowed k r true amt → amt = 1) ∧
      (∀ r amt, e = LEv.refund k r true amt → amt = 1) := by
  intro e he
  have hu := (UInv.run cfg sched _ (UInv.init cfg t0)).log k c hk hcc e he
  refine ⟨?_, ?_, ?_⟩
  · intro r t cost h; subst h; exact hu rfl
  · intro r amt h; subst h; exact hu rfl
  · intro r amt h; subst h; exact hu rfl

/-- A call is let through (verdict `true`) only after *every* quota of its chain — the quota itself
    and each ancestor, in the group the request's headers select — admitted it; so the requests let
    through are among the admissions bounded by `admitted_le_max` at each of these levels. -/
theorem let_through_admitted_by_every_level (cfg : Cfg) (t0 : Nat) (sched : List Act)
    (tid : Nat) (th : Thread) (r : Rid) (q : QId)
    (hth : (Sys.run cfg (Sys.init t0) sched).threads[tid]? = some th)
    (hv : LEv.verdict tid r q true ∈ (Sys.run cfg (Sys.init t0) sched).log) :
    r = th.r ∧ q = th.q ∧
    ∀ p ∈ chain cfg th.q, ∃ amt,
      LEv.allowed (p.1, groupOf p.2 th.h) th.r true amt ∈ (Sys.run cfg (Sys.init t0) sched).log :=
  (VInv.run cfg sched _ (VInv.init cfg t0)).ver tid th r q hth hv

/-! ### Non-vacuity -/

/-- Two quotas: parent 0 (max 1 per 2 s), child 1 (max 2 per 2 s).  Three limiter calls in flight,
    their steps interleaved; the clock crosses the window boundary in the middle. -/
def exCfg : Cfg := ⟨[⟨none, 1, 2 * nsPerSec, none, none⟩, ⟨some 0, 2, 2 * nsPerSec, none, none⟩]⟩

def exSched : List Act :=
  [.spawn .req 1 1 [], .spawn .req 1 2 [], .spawn .req 1 3 [],
   .step 0, .step 1, .step 0, .step 1, .step 2, .step 0, .step 0, .step 1, .step 2,
   .tick (2 * nsPerSec), .spawn .req 1 4 [], .step 3, .step 3, .step 3, .step 3]

/-- The parent level has two windows (starts 10 s and 12 s), one admission each = its max. -/
example : tally (2 * nsPerSec) (0, 0) (Sys.run exCfg (Sys.init (10 * nsPerSec + 5)) exSched).log
    = [⟨12, 1, 1⟩, ⟨10, 1, 1⟩] := by decide

/-- Threads 0 and 3 were let through, thread 2 was refused, thread 1 (refused by the parent, its charge
    to the child given back) is about to start its `Allowed` walk. -/
example : (Sys.run exCfg (Sys.init (10 * nsPerSec + 5)) exSched).threads.map (·.pc) =
    [.done (some true),
     .allowed [(1, ⟨some 0, 2, 2 * nsPerSec, none, none⟩), (0, ⟨none, 1, 2 * nsPerSec, none, none⟩)],
     .done (some false), .done (some true)] := by
  decide

/-- The child level: request 2's charge was given back (`refund`), so its first window ends with one
    charge and one admission.  (Request 3 had been blocked while that charge was outstanding: under
    interleaving only the bound is claimed, not exactness.) -/
example : tally (2 * nsPerSec) (1, 0) (Sys.run exCfg (Sys.init (10 * nsPerSec + 5)) exSched).log
    = [⟨12, 1, 1⟩, ⟨10, 1, 1⟩] := by decide

example : LEv.refund (1, 0) 2 true 1 ∈ (Sys.run exCfg (Sys.init (10 * nsPerSec + 5)) exSched).log := by decide

/-- (ii) Spacing: in every schedule the reconstructed windows of a level start at least one window
    length apart (window lengths are whole seconds, as the configuration format makes them). -/
theorem windows_spaced (cfg : Cfg) (t0 : Nat) (sched : List Act) (k : Key) (win : Nat)
    (hw : win % nsPerSec = 0) :
    spacedBy (win / nsPerSec) (tally win k (Sys.run cfg (Sys.init t0) sched).log) = true := by
  have hs := run_sorted cfg sched (Sys.init t0) trivial (fun _ _ _ _ _ h => by simp [Sys.init] at h)
  exact (tally_spaced win k hw _ _ hs.1 hs.2).1

/-- The newest window of `exSched`'s parent level starts exactly one window length (2 s) after the first. -/
example : windowsOf (2 * nsPerSec) (0, 0) (Sys.run exCfg (Sys.init (10 * nsPerSec + 5)) exSched).log = [10, 12] := by
  decide

/-! ## Percentage allocation (`allocation_percentage` children of `internal_limits`) -/

/-- The loader gives a percentage child a copy of its parent's strategy with the limit
    `parent.max * pct / 100` (integer division): the bounds above hold for it with that effective limit. -/
theorem alloc_child_bound (cfg : Cfg) (t0 : Nat) (sched : List Act) (k : Key) (pid : QId) (parent : QuotaCfg)
    (pct : Nat) (hk : cfg.quotas[k.1]? = some (allocate pid parent pct)) :
    ∀ w ∈ tally parent.win k (Sys.run cfg (Sys.init t0) sched).log,
      w.admitted ≤ parent.max * pct / 100 ∧ w.charged ≤ parent.max * pct / 100 := by
  intro w hw
  have := admitted_le_max cfg t0 sched k _ hk w hw
  simp only [allocate, effMax] at this
  exact ⟨this.1, this.2.1⟩

/-- A percentage ≤ 100 (the validator's `lte=100`) never gives a child more than its parent. -/
theorem effMax_le_parent (m pct : Nat) (h : pct ≤ 100) : effMax m pct ≤ m := by
  unfold effMax
  apply Nat.div_le_of_le_mul
  calc m * pct ≤ m * 100 := Nat.mul_le_mul_left m h
    _ = 100 * m := Nat.mul_comm m 100

/-- When the percentages of the children add up to at most 100, their effective limits add up to at
    most the parent's limit (rounding is downwards). -/
theorem alloc_sum_le (m : Nat) (ps : List Nat) (h : ps.sum ≤ 100) : (ps.map (effMax m)).sum ≤ m := by
  have key : ∀ (ps : List Nat), (ps.map (effMax m)).sum ≤ m * ps.sum / 100 := by
    intro ps
    induction ps with
    | nil => simp
    | cons p ps ih =>
      simp only [List.map_cons, List.sum_cons, effMax, Nat.mul_add] at ih ⊢
      omega
  calc (ps.map (effMax m)).sum ≤ m * ps.sum / 100 := key ps
    _ ≤ m := effMax_le_parent m ps.sum h

/-- The code does **not** check the sum of the children's percentages (each is only validated to be
    ≤ 100): two children of 60 % of a parent of 10 get 6 + 6 = 12.  The children are still bounded
    together by the parent's own window, since a child passes every arrival it charges on to the parent. -/
theorem alloc_sum_not_enforced : ∃ (m : Nat) (ps : List Nat), (∀ p ∈ ps, p ≤ 100) ∧ m < (ps.map (effMax m)).sum :=
  ⟨10, [60, 60], by decide, by decide⟩

/-- Rounding: 10 % of 5 is 0 — such a child refuses everything. -/
example : effMax 5 10 = 0 ∧ effMax 5 50 = 2 ∧ effMax (effMax 5 50) 50 = 1 := by decide

/-! ## Groups -/

/-- A request without the group-by header and a request carrying the literal value `default`
    (reading 0) are counted in the same group, i.e. share one window and one limit. -/
theorem default_group_shared (c : QuotaCfg) (i : Nat) (hc : c.gh = some i) (h : Hdrs)
    (habsent : h.lookup i = none) : groupOf c h = groupOf c ((i, 0) :: h) := by
  simp [groupOf, hc, habsent]

/-- Distinct header values are distinct groups with separate windows. -/
theorem groups_separate (c : QuotaCfg) (i : Nat) (hc : c.gh = some i) (h : Hdrs) (g g' : Nat) (hne : g ≠ g') :
    groupOf c ((i, g) :: h) ≠ groupOf c ((i, g') :: h) := by
  simpa [groupOf, hc] using hne

/-! ## Custom counters: the parse glue -/

/-- Missing, malformed, negative and out-of-range header texts all count 0; `+7` counts 7. -/
example : parseCost "" = 0 ∧ parseCost "abc" = 0 ∧ parseCost " 1" = 0 ∧ parseCost "-5" = 0 ∧ parseCost "+7" = 7 ∧
    parseCost "007" = 7 ∧ parseCost "9223372036854775807" = 9223372036854775807 ∧
    parseCost "9223372036854775808" = 0 := by decide

/-- A custom-counter quota (max 3) charged by header values: 2 passes, a value that does not fit is
    refused without changing anything, a request counting 0 always passes, and 1 more fits. -/
example : (observe ⟨[⟨none, 3, 60 * nsPerSec, none, some 0⟩]⟩ St.init
    [⟨.req, 0, 1, 5, [(costKey 0, 2)]⟩, ⟨.req, 0, 2, 5, [(costKey 0, 2)]⟩, ⟨.req, 0, 3, 5, []⟩,
     ⟨.req, 0, 4, 5, [(costKey 0, 1)]⟩, ⟨.req, 0, 5, 5, [(costKey 0, 1)]⟩]).map (·.ans) =
    [some true, some false, some true, some true, some false] := by decide

/-! ## Spill-over and monthly renewal

`incLevelFull` is `quota.Inc` with the spill-over branch of a quota that declares the optional
`spillover` block; the credit it reads is written by nobody else (see `Model/C01.lean`). -/

/-- With no credit, `Inc` of a quota with the spill-over block is `Inc` of a quota without it, and the
    credit stays 0: since the credit starts at 0 and this is its only writer, it is 0 forever, and every
    theorem of this file applies unchanged to quotas with the block.  The bound proved is therefore "at
    most `max` per window" — there is never any carried-over credit to add in this code base. -/
theorem spillover_inert (withSpillover : Bool) (mx win : Nat) (l : Lvl) (r t cost : Nat) :
    incLevelFull withSpillover 0 mx win l r t cost = (incLevel mx win l r t cost, 0) := by
  unfold incLevelFull
  cases hl : l.memo.lookup r with
  | some v => simp [incLevel, hl]
  | none => simp

/-- The credit never grows (it is only ever used up). -/
theorem spillover_credit_never_grows (withSpillover : Bool) (credit mx win : Nat) (l : Lvl) (r t cost : Nat) :
    (incLevelFull withSpillover credit mx win l r t cost).2 ≤ credit := by
  unfold incLevelFull
  cases hl : l.memo.lookup r with
  | some v => simp
  | none =>
    simp only
    split
    · exact Nat.sub_le _ _
    · exact Nat.le_refl _

/-- What the branch would do if anything ever credited the key: a request let through for free. -/
example : (incLevelFull true 2 1 nsPerSec ⟨some 10, 1, [], 1⟩ 7 (10 * nsPerSec) 1) =
    ((⟨some 10, 1, [(7, some 0)], 1⟩, .increased), 1) := by decide

/-! ## The engine: live system flows -/

/-- A hierarchy org(0) > team(1) > user(2) named by a flow only at the user level: no quota keeps a live
    system-flow increment (the ancestors are switched off), so a request is exactly one limiter call. -/
example : liveOrder ⟨[⟨none, 1, nsPerSec, none, none⟩, ⟨some 0, 100, 60 * nsPerSec, none, none⟩,
    ⟨some 1, 2, 60 * nsPerSec, none, none⟩]⟩ [2] = [] := by decide

/-- A sibling quota (3) that no flow names keeps its increment live; it runs before the limiter. -/
example : engineOps ⟨[⟨none, 1, nsPerSec, none, none⟩, ⟨some 0, 100, 60 * nsPerSec, none, none⟩,
    ⟨some 1, 2, 60 * nsPerSec, none, none⟩, ⟨some 1, 1, 60 * nsPerSec, none, none⟩]⟩ [2] 2 9 5 [] =
    [⟨.inc, 3, 9, 5, []⟩, ⟨.req, 2, 9, 5, []⟩] := by decide

/-! ## API calls are schedules -/

/-- An API call on an existing quota, spawned and run to completion with no other step in between,
    has exactly the effect and the answer of the API-level model `apiStep` (which the driver runs and
    the correspondence check compares with the real code). -/
theorem api_call_is_atomic_schedule (cfg : Cfg) (s : Sys) (kind : Kind) (q : QId) (r : Rid) (h : Hdrs)
    (hq : chain cfg q ≠ []) (n : Nat) (hn : 3 * (chain cfg q).length + 1 ≤ n) :
    (Sys.run cfg s (.spawn kind q r h :: List.replicate n (.step s.threads.length))).st
        = (apiStep cfg s.st ⟨kind, q, r, s.now, h⟩).1 ∧
    (Sys.run cfg s (.spawn kind q r h :: List.replicate n (.step s.threads.length))).threads[s.threads.length]?
        = some ⟨r, q, h, .done (apiStep cfg s.st ⟨kind, q, r, s.now, h⟩).2⟩ := by
  have := atomic_call cfg s kind q r h hq n hn
  exact ⟨this.1, this.2.1⟩

/-- Every one-at-a-time run of API calls (existing quotas, non-decreasing instants) is the run of some
    schedule: the theorems above about all schedules cover the API-level runs. -/
theorem api_runs_are_schedules (cfg : Cfg) (t0 : Nat) (ops : List Op)
    (hq : ∀ o ∈ ops, chain cfg o.q ≠ []) (hm : opsFrom t0 ops) :
    ∃ sched : List Act, (Sys.run cfg (Sys.init t0) sched).st = apiFinal cfg St.init ops :=
  api_run_is_schedule cfg ops (Sys.init t0) hq hm

/-- The hypotheses are satisfiable (a limiter call on the child, then `Inc` / `Allowed` on the parent). -/
example : (∀ o ∈ ([⟨.req, 1, 1, 5, []⟩, ⟨.inc, 0, 2, 5, []⟩, ⟨.allowed, 0, 2, 9, []⟩] : List Op), chain exCfg o.q ≠ []) ∧
    opsFrom 3 [⟨.req, 1, 1, 5, []⟩, ⟨.inc, 0, 2, 5, []⟩, ⟨.allowed, 0, 2, 9, []⟩] := by
  refine ⟨?_, by simp [opsFrom]⟩
  intro o ho
  simp only [List.mem_cons, List.mem_nil_iff, or_false] at ho
  rcases ho with h | h | h <;> subst h <;> decide

/-! ## API histories: the predicate the judge evaluates holds of every run of the model

`observe cfg St.init ops` is the history of the model answering the API calls `ops` one at a time
(`Inc`, `Allowed`, `Dec`, limiter call — generated interleavings of several requests' calls).
`regular` = every request id arrives once. -/

/-- (i) at the API layer: no reconstructed window of any quota of any chain lets more than `max` through. -/
theorem api_bound (cfg : Cfg) (hwf : wellFormed cfg = true) (ops : List Op)
    (hreg : regular (observe cfg St.init ops) = true) :
    boundHolds cfg (observe cfg St.init ops) = true := by
  unfold regular at hreg
  rw [arrivals_observe, Bool.and_eq_true] at hreg
  have := api_rel cfg (wellFormed_parents hwf) ops St.init SSt.init [] (LevelsRel.init cfg) (AmtInv.init cfg)
    (init_fresh ops) hreg.1 hreg.2
  exact boundHolds_of_rel cfg _ _ this

/-- (ii) at the API layer, for *any* history with non-decreasing instants (the implementation's too). -/
theorem api_windows_spaced (cfg : Cfg) (hwf : wellFormed cfg = true) (h : History) (hm : monotone h = true) :
    spacedHolds cfg h = true :=
  spacedHolds_of cfg (fun i c hi => (wellFormed_at hwf i c hi).2.1) h hm

/-- (iii) Exactness, for every well-formed configuration (any hierarchy, any grouping, custom counters,
    percentage children): handled one at a time, a request is refused only if its quota or one of its
    ancestors has no room left for what the request counts there, given what it has already **let
    through** in its current window (for `fixed_window`: it has let `max` requests through).  (Holds since the repair of F01a: a quota gives its charge
    back when a quota further up refuses the request.) -/
theorem seq_exact_hier (cfg : Cfg) (hwf : wellFormed cfg = true) (ops : List Op)
    (hreg : regular (observe cfg St.init ops) = true) :
    exactStrict cfg (observe cfg St.init ops) = true := by
  unfold exactStrict
  cases hseq : sequential (observe cfg St.init ops) with
  | false => rfl
  | true =>
    simp only [Bool.not_true, Bool.false_or]
    unfold regular at hreg
    rw [arrivals_observe, Bool.and_eq_true] at hreg
    apply seq_exact_run cfg (wellFormed_parents hwf) ops St.init SSt.init [] (LevelsRel.init cfg) (AmtInv.init cfg)
      (init_fresh ops) hreg.1
    · intro o ho
      have hall : ∀ (ops : List Op) (st : St), sequential (observe cfg st ops) = true → ∀ o ∈ ops, o.kind = .req := by
        intro ops
        induction ops with
        | nil => intro _ _ o ho; simp at ho
        | cons x xs ih =>
          intro st hs o ho
          simp only [sequential, observe, List.all_cons, Bool.and_eq_true, beq_iff_eq] at hs
          simp only [List.mem_cons] at ho
          rcases ho with ho | ho
          · subst ho; exact hs.1
          · exact ih _ (by simpa [sequential] using hs.2) o ho
      exact hall ops St.init hseq o ho
    · intro k w hw; simp [SSt.at_init] at hw

/-- The whole judge predicate holds of every run of the model on a well-formed configuration. -/
theorem c01_holds (cfg : Cfg) (hwf : wellFormed cfg = true) (ops : List Op) :
    holds cfg (observe cfg St.init ops) = true := by
  unfold holds
  cases hreg : regular (observe cfg St.init ops) with
  | false => rfl
  | true =>
    cases hm : monotone (observe cfg St.init ops) with
    | false => rfl
    | true =>
      simp [api_bound cfg hwf ops hreg, api_windows_spaced cfg hwf _ hm, seq_exact_hier cfg hwf ops hreg]

/-! ### Regression: the former F01a witness -/

/-- Child quota 1: 5 per hour; parent quota 0: 2 per minute. -/
def f01aCfg : Cfg := ⟨[⟨none, 2, 60 * nsPerSec, none, none⟩, ⟨some 0, 5, 3600 * nsPerSec, none, none⟩]⟩

/-- Five requests in the first minute (two pass, three are refused by the parent), one request at the
    start of the second minute. -/
def f01aOps : List Op :=
  [⟨.req, 1, 1, 1700000000250000000, []⟩, ⟨.req, 1, 2, 1700000001000000000, []⟩,
   ⟨.req, 1, 3, 1700000002000000000, []⟩, ⟨.req, 1, 4, 1700000003000000000, []⟩,
   ⟨.req, 1, 5, 1700000004000000000, []⟩, ⟨.req, 1, 6, 1700000060000000000, []⟩]

/-- The refused requests no longer use up the child's hour: the request of the second minute passes
    (before the repair it was refused with 2 of 5 let through; `corpus/C01/regress-F01a.ops`). -/
example : (observe f01aCfg St.init f01aOps).map (·.ans) =
    [some true, some true, some false, some false, some false, some true] := by decide

/-- Non-vacuity of `seq_exact_hier`: this is a well-formed, regular, one-at-a-time history of a
    hierarchy with refusals. -/
example : wellFormed f01aCfg = true ∧ regular (observe f01aCfg St.init f01aOps) = true ∧
    sequential (observe f01aCfg St.init f01aOps) = true ∧ monotone (observe f01aCfg St.init f01aOps) = true := by
  decide

/-- A flat quota (max 2 per 2 s) refuses the third request of a window and lets the next one through
    exactly at `start + window`. -/
example : (observe ⟨[⟨none, 2, 2 * nsPerSec, none, none⟩]⟩ St.init
    [⟨.req, 0, 1, 10 * nsPerSec + 7, []⟩, ⟨.req, 0, 2, 11 * nsPerSec, []⟩, ⟨.req, 0, 3, 12 * nsPerSec - 1, []⟩,
     ⟨.req, 0, 4, 12 * nsPerSec, []⟩]).map (·.ans) = [some true, some true, some false, some true] := by decide

end LunarVerif.C01
