import LunarVerif.Proofs.C01Exact
import LunarVerif.Proofs.C01Atomic
import LunarVerif.Proofs.C01Verdict
/-!
# C01 — Fixed-window quotas never admit more than their limit per window

Property theorems only (helpers live in `Proofs/C01.lean`).  Model: `Model/C01.lean`
(`incLevel / allowedLevel / decLevel / refundLevel` = the critical sections `quota.Inc / Allowed / Dec /
refund`, with
`AtomicIncWindow` inlined; `Sys.run` = any interleaving of these atomic steps by any number of
in-flight `Inc` / `Allowed` / `Dec` / limiter calls under a clock that only moves forward).
Spec: `Spec/C01.lean` (windows reconstructed from the log of charged arrivals).
-/
namespace LunarVerif.C01

/-! ## All interleavings -/

/-- The stored counter of every quota level never exceeds the configured maximum, whatever the
    schedule (any number of calls in flight, steps interleaved arbitrarily, any clock advance). -/
theorem counter_le_max (cfg : Cfg) (t0 : Nat) (sched : List Act) (k : Key) (c : QuotaCfg)
    (hk : cfg.quotas[k.1]? = some c) :
    ((Sys.run cfg (Sys.init t0) sched).st.at k).counter ≤ c.max :=
  ((SysInv.run cfg sched _ (SysInv.init cfg t0)).lvl k c hk).counter_le

/-- (i) Bound: for every quota (leaf or ancestor), every group value and every window
    reconstructed from the log of charged arrivals, the admissions (`Allowed = true`) made while
    that window was current number at most `max` — for every schedule.  Every window also holds
    at most `max` charged arrivals and admissions never exceed charges. -/
theorem admitted_le_max (cfg : Cfg) (t0 : Nat) (sched : List Act) (k : Key) (c : QuotaCfg)
    (hk : cfg.quotas[k.1]? = some c) :
    ∀ w ∈ tally c.win k (Sys.run cfg (Sys.init t0) sched).log,
      w.admitted ≤ c.max ∧ w.charged ≤ c.max ∧ w.admitted ≤ w.charged := by
  intro w hw
  have := ((SysInv.run cfg sched _ (SysInv.init cfg t0)).lvl k c hk).all w hw
  omega

/-- A call is let through (verdict `true`) only after *every* quota of its chain — the quota itself
    and each ancestor, in the group the request's headers select — admitted it; so the requests let
    through are among the admissions bounded by `admitted_le_max` at each of these levels. -/
theorem let_through_admitted_by_every_level (cfg : Cfg) (t0 : Nat) (sched : List Act)
    (tid : Nat) (th : Thread) (r : Rid) (q : QId)
    (hth : (Sys.run cfg (Sys.init t0) sched).threads[tid]? = some th)
    (hv : LEv.verdict tid r q true ∈ (Sys.run cfg (Sys.init t0) sched).log) :
    r = th.r ∧ q = th.q ∧
    ∀ p ∈ chain cfg th.q, LEv.allowed (p.1, groupOf p.2 th.h) th.r true ∈ (Sys.run cfg (Sys.init t0) sched).log :=
  (VInv.run cfg sched _ (VInv.init cfg t0)).ver tid th r q hth hv

/-! ### Non-vacuity -/

/-- Two quotas: parent 0 (max 1 per 2 s), child 1 (max 2 per 2 s).  Three limiter calls in flight,
    their steps interleaved; the clock crosses the window boundary in the middle. -/
def exCfg : Cfg := ⟨[⟨none, 1, 2 * nsPerSec, none⟩, ⟨some 0, 2, 2 * nsPerSec, none⟩]⟩

def exSched : List Act :=
  [.spawn .req 1 1 [], .spawn .req 1 2 [], .spawn .req 1 3 [],
   .step 0, .step 1, .step 0, .step 1, .step 2, .step 0, .step 0, .step 1, .step 2,
   .tick (2 * nsPerSec), .spawn .req 1 4 [], .step 3, .step 3, .step 3, .step 3]

/-- The parent level has two windows (starts 10 s and 12 s), one admission each = its max. -/
example : tally (2 * nsPerSec) (0, 0) (Sys.run exCfg (Sys.init (10 * nsPerSec + 5)) exSched).log
    = [⟨12, 1, 1⟩, ⟨10, 1, 1⟩] := by decide

/-- Threads 0 and 3 were let through, thread 2 was refused, thread 1 (refused by the parent, its charge
    to the child given back) is about to start its `Allowed` walk. -/
example : (Sys.run exCfg (Sys.init (10 * nsPerSec + 5)) exSched).threads.map (·.pc) =
    [.done (some true),
     .allowed [(1, ⟨some 0, 2, 2 * nsPerSec, none⟩), (0, ⟨none, 1, 2 * nsPerSec, none⟩)],
     .done (some false), .done (some true)] := by
  decide

/-- The child level: request 2's charge was given back (`refund`), so its first window ends with one
    charge and one admission.  (Request 3 had been blocked while that charge was outstanding: under
    interleaving only the bound is claimed, not exactness.) -/
example : tally (2 * nsPerSec) (1, 0) (Sys.run exCfg (Sys.init (10 * nsPerSec + 5)) exSched).log
    = [⟨12, 1, 1⟩, ⟨10, 1, 1⟩] := by decide

example : LEv.refund (1, 0) 2 true ∈ (Sys.run exCfg (Sys.init (10 * nsPerSec + 5)) exSched).log := by decide

/-- (ii) Spacing: in every schedule the reconstructed windows of a level start at least one window
    length apart (window lengths are whole seconds, as the configuration format makes them). -/
theorem windows_spaced (cfg : Cfg) (t0 : Nat) (sched : List Act) (k : Key) (win : Nat)
    (hw : win % nsPerSec = 0) :
    spacedBy (win / nsPerSec) (tally win k (Sys.run cfg (Sys.init t0) sched).log) = true := by
  have hs := run_sorted cfg sched (Sys.init t0) trivial (fun _ _ _ _ h => by simp [Sys.init] at h)
  exact (tally_spaced win k hw _ _ hs.1 hs.2).1

/-- The newest window of `exSched`'s parent level starts exactly one window length (2 s) after the first. -/
example : windowsOf (2 * nsPerSec) (0, 0) (Sys.run exCfg (Sys.init (10 * nsPerSec + 5)) exSched).log = [10, 12] := by
  decide

/-! ## API calls are schedules -/

/-- An API call on an existing quota, spawned and run to completion with no other step in between,
    has exactly the effect and the answer of the API-level model `apiStep` (which the driver runs and
    the correspondence check compares with the real code). -/
theorem api_call_is_atomic_schedule (cfg : Cfg) (s : Sys) (kind : Kind) (q : QId) (r : Rid) (h : Hdrs)
    (hq : chain cfg q ≠ []) (n : Nat) (hn : 3 * (chain cfg q).length + 1 ≤ n) :
    (Sys.run cfg s (.spawn kind q r h :: List.replicate n (.step s.threads.length))).st
        = (apiStep cfg s.st ⟨kind, q, r, s.now, h⟩).1 ∧
    (Sys.run cfg s (.spawn kind q r h :: List.replicate n (.step s.threads.length))).threads[s.threads.length]?
        = some ⟨r, q, h, .done (apiStep cfg s.st ⟨kind, q, r, s.now, h⟩).2⟩ := by
  have := atomic_call cfg s kind q r h hq n hn
  exact ⟨this.1, this.2.1⟩

/-- Every one-at-a-time run of API calls (existing quotas, non-decreasing instants) is the run of some
    schedule: the theorems above about all schedules cover the API-level runs. -/
theorem api_runs_are_schedules (cfg : Cfg) (t0 : Nat) (ops : List Op)
    (hq : ∀ o ∈ ops, chain cfg o.q ≠ []) (hm : opsFrom t0 ops) :
    ∃ sched : List Act, (Sys.run cfg (Sys.init t0) sched).st = apiFinal cfg St.init ops :=
  api_run_is_schedule cfg ops (Sys.init t0) hq hm

/-- The hypotheses are satisfiable (a limiter call on the child, then `Inc` / `Allowed` on the parent). -/
example : (∀ o ∈ ([⟨.req, 1, 1, 5, []⟩, ⟨.inc, 0, 2, 5, []⟩, ⟨.allowed, 0, 2, 9, []⟩] : List Op), chain exCfg o.q ≠ []) ∧
    opsFrom 3 [⟨.req, 1, 1, 5, []⟩, ⟨.inc, 0, 2, 5, []⟩, ⟨.allowed, 0, 2, 9, []⟩] := by
  refine ⟨?_, by simp [opsFrom]⟩
  intro o ho
  simp only [List.mem_cons, List.mem_nil_iff, or_false] at ho
  rcases ho with h | h | h <;> subst h <;> decide

/-! ## API histories: the predicate the judge evaluates holds of every run of the model

`observe cfg St.init ops` is the history of the model answering the API calls `ops` one at a time
(`Inc`, `Allowed`, `Dec`, limiter call — generated interleavings of several requests' calls).
`regular` = every request id arrives once. -/

/-- (i) at the API layer: no reconstructed window of any quota of any chain lets more than `max` through. -/
theorem api_bound (cfg : Cfg) (hwf : wellFormed cfg = true) (ops : List Op)
    (hreg : regular (observe cfg St.init ops) = true) :
    boundHolds cfg (observe cfg St.init ops) = true := by
  unfold regular at hreg
  rw [arrivals_observe] at hreg
  have := api_rel cfg (wellFormed_parents hwf) ops St.init SSt.init (LevelsRel.init cfg) (init_fresh ops) hreg
  exact boundHolds_of_rel cfg _ _ this

/-- (ii) at the API layer, for *any* history with non-decreasing instants (the implementation's too). -/
theorem api_windows_spaced (cfg : Cfg) (hwf : wellFormed cfg = true) (h : History) (hm : monotone h = true) :
    spacedHolds cfg h = true :=
  spacedHolds_of cfg (fun i c hi => (wellFormed_at hwf i c hi).2.2.1) h hm

/-- (iii) Exactness, for every well-formed configuration (any hierarchy, any grouping): handled one
    at a time, a request is refused only if its quota or one of its ancestors has already **let through**
    `max` requests in its current window.  (Holds since the repair of F01a: a quota gives its charge
    back when a quota further up refuses the request.) -/
theorem seq_exact_hier (cfg : Cfg) (hwf : wellFormed cfg = true) (ops : List Op)
    (hreg : regular (observe cfg St.init ops) = true) :
    exactStrict cfg (observe cfg St.init ops) = true := by
  unfold exactStrict
  cases hseq : sequential (observe cfg St.init ops) with
  | false => rfl
  | true =>
    simp only [Bool.not_true, Bool.false_or]
    unfold regular at hreg
    rw [arrivals_observe] at hreg
    apply seq_exact_run cfg (wellFormed_parents hwf) ops St.init SSt.init (LevelsRel.init cfg) (init_fresh ops) hreg
    · intro o ho
      have hall : ∀ (ops : List Op) (st : St), sequential (observe cfg st ops) = true → ∀ o ∈ ops, o.kind = .req := by
        intro ops
        induction ops with
        | nil => intro _ _ o ho; simp at ho
        | cons x xs ih =>
          intro st hs o ho
          simp only [sequential, observe, List.all_cons, Bool.and_eq_true, beq_iff_eq] at hs
          simp only [List.mem_cons] at ho
          rcases ho with ho | ho
          · subst ho; exact hs.1
          · exact ih _ (by simpa [sequential] using hs.2) o ho
      exact hall ops St.init hseq o ho
    · intro k w hw; simp [SSt.at_init] at hw

/-- The whole judge predicate holds of every run of the model on a well-formed configuration. -/
theorem c01_holds (cfg : Cfg) (hwf : wellFormed cfg = true) (ops : List Op) :
    holds cfg (observe cfg St.init ops) = true := by
  unfold holds
  cases hreg : regular (observe cfg St.init ops) with
  | false => rfl
  | true =>
    cases hm : monotone (observe cfg St.init ops) with
    | false => rfl
    | true =>
      simp [api_bound cfg hwf ops hreg, api_windows_spaced cfg hwf _ hm, seq_exact_hier cfg hwf ops hreg]

/-! ### Regression: the former F01a witness -/

/-- Child quota 1: 5 per hour; parent quota 0: 2 per minute. -/
def f01aCfg : Cfg := ⟨[⟨none, 2, 60 * nsPerSec, none⟩, ⟨some 0, 5, 3600 * nsPerSec, none⟩]⟩

/-- Five requests in the first minute (two pass, three are refused by the parent), one request at the
    start of the second minute. -/
def f01aOps : List Op :=
  [⟨.req, 1, 1, 1700000000250000000, []⟩, ⟨.req, 1, 2, 1700000001000000000, []⟩,
   ⟨.req, 1, 3, 1700000002000000000, []⟩, ⟨.req, 1, 4, 1700000003000000000, []⟩,
   ⟨.req, 1, 5, 1700000004000000000, []⟩, ⟨.req, 1, 6, 1700000060000000000, []⟩]

/-- The refused requests no longer use up the child's hour: the request of the second minute passes
    (before the repair it was refused with 2 of 5 let through; `corpus/C01/regress-F01a.ops`). -/
example : (observe f01aCfg St.init f01aOps).map (·.ans) =
    [some true, some true, some false, some false, some false, some true] := by decide

/-- Non-vacuity of `seq_exact_hier`: this is a well-formed, regular, one-at-a-time history of a
    hierarchy with refusals. -/
example : wellFormed f01aCfg = true ∧ regular (observe f01aCfg St.init f01aOps) = true ∧
    sequential (observe f01aCfg St.init f01aOps) = true ∧ monotone (observe f01aCfg St.init f01aOps) = true := by
  decide

/-- A flat quota (max 2 per 2 s) refuses the third request of a window and lets the next one through
    exactly at `start + window`. -/
example : (observe ⟨[⟨none, 2, 2 * nsPerSec, none⟩]⟩ St.init
    [⟨.req, 0, 1, 10 * nsPerSec + 7, []⟩, ⟨.req, 0, 2, 11 * nsPerSec, []⟩, ⟨.req, 0, 3, 12 * nsPerSec - 1, []⟩,
     ⟨.req, 0, 4, 12 * nsPerSec, []⟩]).map (·.ans) = [some true, some true, some false, some true] := by decide

end LunarVerif.C01
