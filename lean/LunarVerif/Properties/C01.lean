import LunarVerif.Proofs.C01
/-!
# C01 — Fixed-window quotas never admit more than their limit per window

Property theorems only (helpers live in `Proofs/C01.lean`).  Model: `Model/C01.lean`
(`incLevel / allowedLevel / decLevel` = the critical sections `quota.Inc / Allowed / Dec`, with
`AtomicIncWindow` inlined; `Sys.run` = any interleaving of these atomic steps by any number of
in-flight `Inc` / `Allowed` / `Dec` / limiter calls under a clock that only moves forward).
Spec: `Spec/C01.lean` (windows reconstructed from the log of charged arrivals).
-/
namespace LunarVerif.C01

/-! ## All interleavings -/

/-- The stored counter of every quota level never exceeds the configured maximum, whatever the
    schedule (any number of calls in flight, steps interleaved arbitrarily, any clock advance). -/
theorem counter_le_max (cfg : Cfg) (t0 : Nat) (sched : List Act) (k : Key) (c : QuotaCfg)
    (hk : cfg.quotas[k.1]? = some c) :
    ((Sys.run cfg (Sys.init t0) sched).st.at k).counter ≤ c.max :=
  ((SysInv.run cfg sched _ (SysInv.init cfg t0)).lvl k c hk).counter_le

/-- (i) Bound: for every quota (leaf or ancestor), every group value and every window
    reconstructed from the log of charged arrivals, the admissions (`Allowed = true`) made while
    that window was current number at most `max` — for every schedule.  Every window also holds
    at most `max` charged arrivals and admissions never exceed charges. -/
theorem admitted_le_max (cfg : Cfg) (t0 : Nat) (sched : List Act) (k : Key) (c : QuotaCfg)
    (hk : cfg.quotas[k.1]? = some c) :
    ∀ w ∈ tally c.win k (Sys.run cfg (Sys.init t0) sched).log,
      w.admitted ≤ c.max ∧ w.charged ≤ c.max ∧ w.admitted ≤ w.charged := by
  intro w hw
  have := ((SysInv.run cfg sched _ (SysInv.init cfg t0)).lvl k c hk).all w hw
  omega

/-! ### Non-vacuity -/

/-- Two quotas: parent 0 (max 1 per 2 s), child 1 (max 2 per 2 s).  Three limiter calls in flight,
    their steps interleaved; the clock crosses the window boundary in the middle. -/
def exCfg : Cfg := ⟨[⟨none, 1, 2 * nsPerSec, none⟩, ⟨some 0, 2, 2 * nsPerSec, none⟩]⟩

def exSched : List Act :=
  [.spawn .req 1 1 [], .spawn .req 1 2 [], .spawn .req 1 3 [],
   .step 0, .step 1, .step 0, .step 1, .step 2, .step 0, .step 0, .step 1, .step 2,
   .tick (2 * nsPerSec), .spawn .req 1 4 [], .step 3, .step 3, .step 3, .step 3]

/-- The parent level has two windows (starts 10 s and 12 s), one admission each = its max. -/
example : tally (2 * nsPerSec) (0, 0) (Sys.run exCfg (Sys.init (10 * nsPerSec + 5)) exSched).log
    = [⟨12, 1, 1⟩, ⟨10, 1, 1⟩] := by decide

/-- The child level admitted two requests in its first window (= its max): request 2 was admitted by
    the child and is still in flight towards the parent's `Allowed` when the schedule ends. -/
example : tally (2 * nsPerSec) (1, 0) (Sys.run exCfg (Sys.init (10 * nsPerSec + 5)) exSched).log
    = [⟨12, 1, 1⟩, ⟨10, 2, 2⟩] := by decide

end LunarVerif.C01
