import LunarVerif.Proofs.C02
/-!
# C02 — Concurrency quotas bound in-flight requests and always free their slots

Property theorems only (helpers live in `Proofs/C02.lean`).  The model is `Model/C02.lean`, the observable
property `Spec/C02.lean`.

* `Reach cfg s`: `s` is reachable by ANY finite sequence of the code's critical sections (set add under the
  state mutex, set remove, status write, status delete, `reqIDToQuota` set/pop, clock) with ANY arguments —
  every interleaving of every number of concurrent `Inc` / `Allowed` / `Dec` / GC / drop executions is such a
  sequence, so the `Reach` theorems hold for all schedules.
* `run cfg (S.init cfg) events` / `final …`: event histories (request, response, proxy error, clock advance with
  GC ticks), each event run to completion as the engine does; every such state is `Reach` (`run_reach`).
* Three parts of the property are violated by the unchanged code; each is stated as `…_partial` with the
  decidable class of `Spec/C02.lean` as explicit hypothesis, next to a `…_violation_witness`:
  F02a (`errLeaky`: proxy error releases only the first quota touched), F02b (`gcCrowded`: a GC tick over
  three or more members skips expired ones), F02c (`respLeaky` / `reqRisk`: only the last
  `QuotaProcessorDec` of a filter's system flow is wired).
-/
namespace LunarVerif.C02

/-! ## (i) the bound -/

/-- The in-flight set of every quota never holds more than `max` members — for every sequence of critical
    sections, hence for every schedule of concurrent requests, responses, drops and GC runs. -/
theorem members_le_max (cfg : Cfg) (s : S) (h : Reach cfg s) (q : Nat) :
    (s.members q).length ≤ cfg.max q :=
  bounded_reach cfg s h q

/-- Event-level histories only pass through `Reach` states. -/
theorem run_reach (cfg : Cfg) (events : List Event) : Reach cfg (final cfg (S.init cfg) events) :=
  reach_final cfg events _ .init

/-- The bound along every event history. -/
theorem members_le_max_run (cfg : Cfg) (events : List Event) (q : Nat) :
    ((final cfg (S.init cfg) events).members q).length ≤ cfg.max q :=
  members_le_max cfg _ (run_reach cfg events) q

/-- The bound is about admitted transactions: an admitted request holds a member in every concurrent quota
    its limiters consulted (so "admitted and still holding" ≤ set size ≤ max), and no quota ever holds two
    members of one transaction. -/
theorem admitted_holds_slot (cfg : Cfg) (hwf : cfg.wf = true) (events : List Event) (r : Nat) (post : Bool)
    (h : (reqEvent cfg (final cfg (S.init cfg) events) r post).2 = .admitted) (q : Nat) (hq : q ∈ cfg.concPath) :
    holdsSlot r ((reqEvent cfg (final cfg (S.init cfg) events) r post).1.members q) = true :=
  admitted_holds cfg hwf _ r post (inv0_final cfg hwf events _ (Inv0.init cfg)).jq h q hq

theorem one_slot_per_transaction (cfg : Cfg) (hwf : cfg.wf = true) (events : List Event) (q : Nat) :
    (((final cfg (S.init cfg) events).members q).map (·.req)).Nodup :=
  ((inv0_final cfg hwf events _ (Inv0.init cfg)).jq q).reqs_nodup

/-! ## (ii) released exactly once -/

/-- Every removal from a set removes a member that an earlier add put there and that no other removal has
    taken since: per member value, `adds = removals + copies still in the set`; a `SRem` of an absent member
    changes nothing (it is not counted).  All schedules. -/
theorem released_at_most_once (cfg : Cfg) (s : S) (h : Reach cfg s) (q : Nat) (m : Member) :
    s.adds q m = s.rems q m + (s.members q).count m ∧ s.rems q m ≤ s.adds q m := by
  have := accounted_reach cfg s h q m
  exact ⟨this, by omega⟩

/-- Response: exactly `r`'s members leave, from every concurrent quota, everything else stays — unless `r` holds
    a slot the wired `QuotaProcessorDec` does not reach (F02c). -/
theorem released_on_response_partial (cfg : Cfg) (hwf : cfg.wf = true) (events : List Event) (r : Nat)
    (hclass : respLeaky cfg (final cfg (S.init cfg) events).members r = false)
    (q : Nat) (hc : cfg.isConc q = true) :
    (respEvent cfg (final cfg (S.init cfg) events) r).members q =
      others r ((final cfg (S.init cfg) events).members q) ∧
    holdsSlot r ((respEvent cfg (final cfg (S.init cfg) events) r).members q) = false := by
  have h := endFlows_exact cfg hwf _ r (inv0_final cfg hwf events _ (Inv0.init cfg)).jq hclass q hc
  exact ⟨h, holds_eq_of_mem_others r _ _ h⟩

/-- two independent concurrent quotas (max 1) on one filter, both limited by the flow -/
def exCC : Cfg := ⟨[⟨.conc, 1, 21, none⟩, ⟨.conc, 1, 21, none⟩], [0, 1], false, 0, 10⟩

/-- F02c: r1 admitted, its response arrives, yet q0 still holds r1's slot and the probe r2 is refused. -/
theorem released_on_response_violation_witness :
    ∃ (cfg : Cfg) (events : List Event) (r q : Nat), cfg.wf = true ∧ cfg.isConc q = true ∧
      holdsSlot r ((respEvent cfg (final cfg (S.init cfg) events) r).members q) = true ∧
      (reqEvent cfg (respEvent cfg (final cfg (S.init cfg) events) r) 2 false).2 = .refused :=
  ⟨exCC, [.req 1 false], 1, 0, by decide⟩

/-- Early answer / refusal by the gateway: `r` holds no slot afterwards — in the simple set-ups (one limiter on a
    concurrent quota whose ancestors are all the concurrent quotas there are; F02c otherwise). -/
theorem released_on_early_response_partial (cfg : Cfg) (hwf : cfg.wf = true) (events : List Event)
    (r : Nat) (post : Bool)
    (hclass : reqRisk cfg (final cfg (S.init cfg) events).members r = false)
    (hv : (reqEvent cfg (final cfg (S.init cfg) events) r post).2 = .refused ∨
          (reqEvent cfg (final cfg (S.init cfg) events) r post).2 = .early)
    (q : Nat) (hc : cfg.isConc q = true) :
    holdsSlot r ((reqEvent cfg (final cfg (S.init cfg) events) r post).1.members q) = false := by
  have hI := inv0_final cfg hwf events _ (Inv0.init cfg)
  simp only [reqRisk, Bool.or_eq_false_iff, Bool.not_eq_false'] at hclass
  rw [reqEvent_released cfg _ r post hv]
  refine released_simple cfg hwf _ r hI.jq (hI.rmft r) hclass.1 hclass.2 ?_ q hc
  intro q'
  have hM : JQ (incPhase cfg (final cfg (S.init cfg) events) r).1 q' :=
    (hI.jq q').inc (incPhase_rel cfg hwf _ r q').1
  exact hM.dec (((drop_rel cfg hwf _ r q').1).trans (endFlows_rel cfg hwf _ r q').1)

/-- fixed companion, then two concurrent quotas, all limited; the flow answers POST itself -/
def exFCC : Cfg := ⟨[⟨.fixed, 0, 0, none⟩, ⟨.conc, 1, 21, none⟩, ⟨.conc, 1, 21, none⟩], [0, 1, 2], true, 0, 10⟩

/-- F02c (early answer): the flow answers r1 itself after all limiters admitted it; q1 keeps r1's slot. -/
theorem released_on_early_response_violation_witness :
    ∃ (cfg : Cfg) (r q : Nat), cfg.wf = true ∧ cfg.isConc q = true ∧
      (reqEvent cfg (S.init cfg) r true).2 = .early ∧
      holdsSlot r ((reqEvent cfg (S.init cfg) r true).1.members q) = true :=
  ⟨exFCC, 1, 1, by decide⟩

/-- Proxy error (`Stream.OnError`): exactly `r`'s members leave, from every concurrent quota — unless `r` holds a
    slot outside the chain of the first quota it touched (F02a).  `hprev`: no Spec condition failed earlier in
    the history. -/
theorem released_on_proxy_error_partial (cfg : Cfg) (hwf : cfg.wf = true) (events : List Event) (r : Nat)
    (hprev : judge cfg (run cfg (S.init cfg) events) = none)
    (hclass : errLeaky cfg (final cfg (S.init cfg) events).members r = false)
    (q : Nat) (hc : cfg.isConc q = true) :
    (errEvent cfg (final cfg (S.init cfg) events) r).members q =
      others r ((final cfg (S.init cfg) events).members q) ∧
    holdsSlot r ((errEvent cfg (final cfg (S.init cfg) events) r).members q) = false := by
  have hI := inv_of_judge_none cfg hwf events _ _ (Inv.init cfg) (Tracks.init cfg) hprev
  have h := drop_exact cfg hwf _ r hI hclass q hc
  exact ⟨h, holds_eq_of_mem_others r _ _ h⟩

/-- flow `Limiter(fixed q0) → Limiter(concurrent q1, max 1)` -/
def exFC : Cfg := ⟨[⟨.fixed, 0, 0, none⟩, ⟨.conc, 1, 21, none⟩], [0, 1], false, 0, 10⟩
/-- the same quotas, limiters in the other order -/
def exCF : Cfg := ⟨[⟨.fixed, 0, 0, none⟩, ⟨.conc, 1, 21, none⟩], [1, 0], false, 0, 10⟩

/-- F02a: r1 admitted, `OnError(r1)`: only the fixed quota is remembered for r1, the concurrent slot stays taken and
    the probe r2 is refused (order [F, C]); with order [C, F] the slot is freed and the probe admitted. -/
theorem released_on_proxy_error_violation_witness :
    (holdsSlot 1 ((final exFC (S.init exFC) [.req 1 false, .err 1]).members 1) = true ∧
     (reqEvent exFC (final exFC (S.init exFC) [.req 1 false, .err 1]) 2 false).2 = .refused) ∧
    (holdsSlot 1 ((final exCF (S.init exCF) [.req 1 false, .err 1]).members 1) = false ∧
     (reqEvent exCF (final exCF (S.init exCF) [.req 1 false, .err 1]) 2 false).2 = .admitted) := by
  decide

/-- GC: a clock advance that passes `k + 1` GC instants (the last at `nextGC + k·gc`) removes only members whose
    expiry is at or before that instant, and keeps the order of the others. -/
theorem gc_removes_only_expired (cfg : Cfg) (hwf : cfg.wf = true) (events : List Event) (d k : Nat)
    (hk : dueCount (final cfg (S.init cfg) events).nextGC cfg.gc ((final cfg (S.init cfg) events).now + d) = k + 1)
    (q : Nat) :
    ((advance cfg (final cfg (S.init cfg) events) d).members q).Sublist
      ((final cfg (S.init cfg) events).members q) ∧
    ∀ m ∈ (final cfg (S.init cfg) events).members q,
      m ∈ (advance cfg (final cfg (S.init cfg) events) d).members q ∨
      m.expiry ≤ (final cfg (S.init cfg) events).nextGC + k * cfg.gc := by
  have hI := inv0_final cfg hwf events _ (Inv0.init cfg)
  have h := (tickN_spec cfg k _ hI.jq).2.1 q
  simp only [advance, hk]
  exact ⟨h.sub, h.exp⟩

/-- GC: after the first GC instant at or after its expiry a member is gone — when the set holds at most two
    members at that time (F02b otherwise). -/
theorem released_by_gc_after_expiry_partial (cfg : Cfg) (hwf : cfg.wf = true) (events : List Event) (d k : Nat)
    (hk : dueCount (final cfg (S.init cfg) events).nextGC cfg.gc ((final cfg (S.init cfg) events).now + d) = k + 1)
    (q : Nat) (hc : cfg.isConc q = true)
    (hclass : ((final cfg (S.init cfg) events).members q).length ≤ 2) :
    ∀ m ∈ (advance cfg (final cfg (S.init cfg) events) d).members q,
      (final cfg (S.init cfg) events).nextGC + k * cfg.gc < m.expiry := by
  have hI := inv0_final cfg hwf events _ (Inv0.init cfg)
  have h := (tickN_spec cfg k _ hI.jq).2.2.2.2 q hc hclass
  simp only [advance, hk]
  exact h

/-- one concurrent quota, max 3, expiry 11, GC every 10 -/
def ex3 : Cfg := ⟨[⟨.conc, 3, 11, none⟩], [0], false, 0, 10⟩

/-- F02b: three admitted transactions nobody answers (expiry 11); the GC instant 20 passes, yet r2's member is still
    there (the loop ranged over the array `SRem` was shifting), and goes only at the next instant 30. -/
theorem released_by_gc_violation_witness :
    (final ex3 (S.init ex3) [.req 1 false, .req 2 false, .req 3 false, .adv 20]).members 0 = [⟨11, 2⟩] ∧
    (final ex3 (S.init ex3) [.req 1 false, .req 2 false, .req 3 false, .adv 20, .adv 10]).members 0 = [] := by
  decide

/-! ## (iii) no lasting exhaustion -/

/-- A request is refused only if some concurrent quota its limiters consulted is full: so when every such set
    has room — in particular once every transaction has ended and the sets are empty — a fresh probe is not
    refused. -/
theorem quiescent_probe_admitted (cfg : Cfg) (hwf : cfg.wf = true) (events : List Event) (r : Nat) (post : Bool)
    (hroom : ∀ q ∈ cfg.concPath, ((final cfg (S.init cfg) events).members q).length < cfg.max q) :
    (reqEvent cfg (final cfg (S.init cfg) events) r post).2 ≠ .refused := by
  intro h
  obtain ⟨q, hq, hfull⟩ := refused_full cfg hwf _ r post h
  have := hroom q hq
  omega

/-- On ANY observed history that satisfies the Spec — the model's or the implementation's — once every transaction
    has ended (none is open: each one's last event is a response, a proxy error, a refusal or an early answer)
    every concurrent quota's set is empty. -/
theorem quiescent_sets_empty (cfg : Cfg) (obs : List Obs) (h : holds cfg obs = true)
    (hended : ∀ r, lastOpen r obs false = false) (q : Nat) (hc : cfg.isConc q = true) :
    lastSnap cfg (Tracker.init cfg) obs q = [] := by
  apply List.eq_nil_iff_forall_not_mem.mpr
  intro m hm
  have := members_open cfg obs (Tracker.init cfg) (fun _ => false) h
    (by intro q _ m hm; simp [Tracker.init] at hm) q hc m hm
  rw [hended m.req] at this
  cases this

/-- (iii) for model histories: no event in a defect class, every transaction ended, every consulted quota has
    `max > 0` — then a fresh probe is not refused. -/
theorem quiescent_history_probe_admitted (cfg : Cfg) (hwf : cfg.wf = true) (events : List Event)
    (hclean : clean cfg (run cfg (S.init cfg) events) = true)
    (hended : ∀ r, lastOpen r (run cfg (S.init cfg) events) false = false)
    (hmax : ∀ q ∈ cfg.concPath, 0 < cfg.max q) (r : Nat) (post : Bool) :
    (reqEvent cfg (final cfg (S.init cfg) events) r post).2 ≠ .refused := by
  apply quiescent_probe_admitted cfg hwf events r post
  intro q hq
  have hc : cfg.isConc q = true := by
    obtain ⟨q0, _, hc0, hq'⟩ := mem_concPath cfg q (List.contains_iff_mem.mpr hq)
    exact (wf_chain cfg hwf q0 hc0).2 q hq'
  have hholds := holds_of_judge cfg _ _ (judge_run cfg hwf events _ _ (Inv.init cfg) (Tracks.init cfg)) hclean
  have := quiescent_sets_empty cfg _ hholds hended q hc
  rw [lastSnap_run cfg events _ _ rfl] at this
  rw [this]
  exact hmax q hq

/-! ## The connection: the judge predicate holds of every model run -/

/-- For every well-formed configuration and every event history, the first event (if any) whose observation fails a
    condition of `Spec/C02.lean` lies in one of the three known-defect classes: the judge never reports an
    unclassified failure on the model.  (`judge = none`: all conditions hold; `some (some F)`: first failure is in
    class `F`; `some none` would be an unclassified failure.) -/
theorem c02_judge (cfg : Cfg) (hwf : cfg.wf = true) (events : List Event) :
    judge cfg (run cfg (S.init cfg) events) ≠ some none :=
  judge_run cfg hwf events _ _ (Inv.init cfg) (Tracks.init cfg)

/-- Hence: on histories none of whose events falls in a defect class the whole property holds. -/
theorem c02_holds_partial (cfg : Cfg) (hwf : cfg.wf = true) (events : List Event)
    (hclean : clean cfg (run cfg (S.init cfg) events) = true) :
    holds cfg (run cfg (S.init cfg) events) = true :=
  holds_of_judge cfg _ _ (c02_judge cfg hwf events) hclean

/-! ### Non-vacuity -/

/-- one concurrent quota (max 1, expiry 11 incl. the dead-request delta, GC every 10); the flow answers POST -/
def exC : Cfg := ⟨[⟨.conc, 1, 11, none⟩], [0], true, 0, 10⟩
/-- child limiter (max 2) with a concurrent parent (max 1) -/
def exPC : Cfg := ⟨[⟨.conc, 1, 21, none⟩, ⟨.conc, 2, 21, some 0⟩], [1], true, 0, 10⟩

example : exC.wf = true ∧ exPC.wf = true ∧ exFC.wf = true ∧ exCC.wf = true ∧ ex3.wf = true := by decide

/-- The bound is reached and enforced: r1 admitted, r2 refused, the set holds one member. -/
example : (run exC (S.init exC) [.req 1 false, .req 2 false]).map (·.verdict) = [.admitted, .refused] ∧
    ((final exC (S.init exC) [.req 1 false, .req 2 false]).members 0).length = 1 := by decide

/-- adds / removals are really counted: after request + response one add, one removal, empty set. -/
example : (final exC (S.init exC) [.req 1 false, .resp 1]).adds 0 ⟨11, 1⟩ = 1 ∧
    (final exC (S.init exC) [.req 1 false, .resp 1]).rems 0 ⟨11, 1⟩ = 1 ∧
    (final exC (S.init exC) [.req 1 false, .resp 1]).members 0 = [] := by decide

/-- `released_on_response_partial`: hypotheses hold with `r` really holding slots (child and parent). -/
example : respLeaky exPC (final exPC (S.init exPC) [.req 1 false]).members 1 = false ∧
    holdsSlot 1 ((final exPC (S.init exPC) [.req 1 false]).members 0) = true ∧
    holdsSlot 1 ((final exPC (S.init exPC) [.req 1 false]).members 1) = true := by decide

/-- `released_on_early_response_partial`: a held transaction is answered early by the flow; also a refusal by the
    parent after the child admitted. -/
example : reqRisk exC (final exC (S.init exC) [.req 1 false]).members 1 = false ∧
    (reqEvent exC (final exC (S.init exC) [.req 1 false]) 1 true).2 = .early ∧
    holdsSlot 1 ((final exC (S.init exC) [.req 1 false]).members 0) = true ∧
    reqRisk exPC (final exPC (S.init exPC) [.req 1 false]).members 2 = false ∧
    (reqEvent exPC (final exPC (S.init exPC) [.req 1 false]) 2 false).2 = .refused := by decide

/-- `released_on_proxy_error_partial`: clean history, not in the class, slot held before the error. -/
example : judge exCF (run exCF (S.init exCF) [.req 1 false]) = none ∧
    errLeaky exCF (final exCF (S.init exCF) [.req 1 false]).members 1 = false ∧
    holdsSlot 1 ((final exCF (S.init exCF) [.req 1 false]).members 1) = true := by decide

/-- GC theorems: two expired members, one GC instant passed (`dueCount = 1`), both are removed. -/
def ex2 : Cfg := ⟨[⟨.conc, 2, 11, none⟩], [0], false, 0, 10⟩
example : dueCount (final ex2 (S.init ex2) [.req 1 false, .req 2 false, .adv 5]).nextGC ex2.gc
      ((final ex2 (S.init ex2) [.req 1 false, .req 2 false, .adv 5]).now + 15) = 1 + 1 ∧
    ((final ex2 (S.init ex2) [.req 1 false, .req 2 false, .adv 5]).members 0).length = 2 ∧
    (advance ex2 (final ex2 (S.init ex2) [.req 1 false, .req 2 false, .adv 5]) 15).members 0 = [] := by decide

/-- `quiescent_probe_admitted`: after request, response the set has room and the probe is admitted. -/
example : (reqEvent exC (final exC (S.init exC) [.req 1 false, .resp 1]) 2 false).2 = .admitted := by decide

/-- `quiescent_sets_empty` / `quiescent_history_probe_admitted`: a history in which four transactions end in the four
    ways (response, early answer, proxy error, refusal) and none is left open. -/
example : clean exC (run exC (S.init exC) [.req 1 false, .req 2 false, .resp 1, .req 2 true, .req 3 false, .err 3]) = true ∧
    (∀ r ∈ [1, 2, 3, 4], lastOpen r (run exC (S.init exC)
      [.req 1 false, .req 2 false, .resp 1, .req 2 true, .req 3 false, .err 3]) false = false) ∧
    lastOpen 3 (run exC (S.init exC) [.req 1 false, .req 2 false, .resp 1, .req 2 true, .req 3 false]) false = true := by
  decide

/-- `c02_judge` / `c02_holds_partial`: a clean non-trivial history (admit, refuse, respond, early answer, proxy error,
    expiry + GC) on which the whole Spec holds; and the three witnesses are classified, not unclassified. -/
example : clean exC (run exC (S.init exC)
      [.req 1 false, .req 2 false, .resp 1, .req 2 true, .req 3 false, .err 3, .req 4 false, .adv 25, .req 5 false]) = true ∧
    holds exC (run exC (S.init exC)
      [.req 1 false, .req 2 false, .resp 1, .req 2 true, .req 3 false, .err 3, .req 4 false, .adv 25, .req 5 false]) = true := by
  decide

example : judge exFC (run exFC (S.init exFC) [.req 1 false, .err 1]) = some (some .F02a) ∧
    judge ex3 (run ex3 (S.init ex3) [.req 1 false, .req 2 false, .req 3 false, .adv 20]) = some (some .F02b) ∧
    judge exCC (run exCC (S.init exCC) [.req 1 false, .resp 1]) = some (some .F02c) := by decide

end LunarVerif.C02
