import LunarVerif.Generated.Constants
import LunarVerif.Proofs.C02
import LunarVerif.Proofs.C02Sched
/-!
# C02 — Concurrency quotas bound in-flight requests and always free their slots

Property theorems only (helpers live in `Proofs/C02.lean`).  The model is `Model/C02.lean`, the observable
property `Spec/C02.lean`.  The model describes the code WITH the repairs F04e/F02c, F02a, F02b, F02d, F02e; no
part of the property is excluded any more.

* `Reach cfg s`: `s` is reachable by ANY finite sequence of the code's critical sections (set add under the
  state mutex, set remove, status write, status delete, `reqIDToQuota` append/pop, clock) with ANY arguments —
  every interleaving of every number of concurrent `Inc` / `Allowed` / `Dec` / GC / drop executions is such a
  sequence, so the `Reach` theorems hold for all schedules.
* `run cfg (S.init cfg) events` / `final …`: event histories (request, response, proxy error, clock advance with
  GC ticks), each event run to completion as the engine does; every such state is `Reach` (`run_reach`).
-/
namespace LunarVerif.C02

/-- a GET and a POST on path /x without the header -/
def txG : Tx := ⟨false, false, false⟩
def txP : Tx := ⟨true, false, false⟩

/-- The invariant at the end of every history. -/
theorem inv_history (cfg : Cfg) (hwf : cfg.wf = true) (events : List Event) :
    Inv cfg (final cfg (S.init cfg) events) :=
  inv_final cfg hwf events _ _ (Inv.init cfg) (Tracks.init cfg)

/-! ## (i) the bound -/

/-- The in-flight set of every quota never holds more than `max` members — for every sequence of critical
    sections, hence for every schedule of concurrent requests, responses, drops and GC runs. -/
theorem members_le_max (cfg : Cfg) (s : S) (h : Reach cfg s) (q : Nat) :
    (s.members q).length ≤ cfg.max q :=
  bounded_reach cfg s h q

/-- Event-level histories only pass through `Reach` states. -/
theorem run_reach (cfg : Cfg) (events : List Event) : Reach cfg (final cfg (S.init cfg) events) :=
  reach_final cfg events _ .init

/-- The bound along every event history. -/
theorem members_le_max_run (cfg : Cfg) (events : List Event) (q : Nat) :
    ((final cfg (S.init cfg) events).members q).length ≤ cfg.max q :=
  members_le_max cfg _ (run_reach cfg events) q

/-- The bound is about admitted transactions: an admitted request holds a member in every concurrent quota
    its limiters consulted (so "admitted and still holding" ≤ set size ≤ max), and no quota ever holds two
    members of one transaction. -/
theorem admitted_holds_slot (cfg : Cfg) (hwf : cfg.wf = true) (events : List Event) (r : Nat) (tx : Tx)
    (h : (reqEvent cfg (final cfg (S.init cfg) events) r tx).2 = .admitted) (q : Nat) (hq : q ∈ cfg.concPath) :
    holdsSlot r ((reqEvent cfg (final cfg (S.init cfg) events) r tx).1.members q) = true :=
  admitted_holds cfg hwf _ r tx (inv_history cfg hwf events).jq h q hq

theorem one_slot_per_transaction (cfg : Cfg) (hwf : cfg.wf = true) (events : List Event) (q : Nat) :
    (((final cfg (S.init cfg) events).members q).map (·.req)).Nodup :=
  ((inv_history cfg hwf events).jq q).reqs_nodup

/-! ## (ii) released exactly once -/

/-- Every removal from a set removes a member that an earlier add put there and that no other removal has
    taken since: per member value, `adds = removals + copies still in the set`; a `SRem` of an absent member
    changes nothing (it is not counted).  All schedules. -/
theorem released_at_most_once (cfg : Cfg) (s : S) (h : Reach cfg s) (q : Nat) (m : Member) :
    s.adds q m = s.rems q m + (s.members q).count m ∧ s.rems q m ≤ s.adds q m := by
  have := accounted_reach cfg s h q m
  exact ⟨this, by omega⟩

/-- Response: exactly `r`'s members leave, from every concurrent quota; everything else stays, in order. -/
theorem released_on_response (cfg : Cfg) (hwf : cfg.wf = true) (events : List Event) (r : Nat)
    (tx : Tx) (q : Nat) (hc : cfg.isConc q = true) :
    (respEvent cfg (final cfg (S.init cfg) events) r tx).members q =
      others r ((final cfg (S.init cfg) events).members q) ∧
    holdsSlot r ((respEvent cfg (final cfg (S.init cfg) events) r tx).members q) = false := by
  have h := endFlows_exact cfg hwf _ r tx (inv_history cfg hwf events).jq ((inv_history cfg hwf events).held r) q hc
  exact ⟨h, holds_eq_of_mem_others r _ _ h⟩

/-- Early answer / refusal by the gateway: `r` holds no slot afterwards, in any concurrent quota. -/
theorem released_on_early_response (cfg : Cfg) (hwf : cfg.wf = true) (events : List Event)
    (r : Nat) (tx : Tx)
    (hv : (reqEvent cfg (final cfg (S.init cfg) events) r tx).2 = .refused ∨
          (reqEvent cfg (final cfg (S.init cfg) events) r tx).2 = .early)
    (q : Nat) (hc : cfg.isConc q = true) :
    holdsSlot r ((reqEvent cfg (final cfg (S.init cfg) events) r tx).1.members q) = false := by
  have hI := inv_history cfg hwf events
  rw [reqEvent_released cfg _ r tx hv]
  have hIM := inv_incPhase cfg hwf _ r tx hI
  have hJD : ∀ q', JQ (drop cfg (incPhase cfg (final cfg (S.init cfg) events) r tx).1 r) q' := fun q' =>
    (hIM.jq q').dec (drop_rel cfg hwf _ r q').1
  have hHD : HeldR cfg r (drop cfg (incPhase cfg (final cfg (S.init cfg) events) r tx).1 r) := by
    intro q' hc' hh
    rw [drop_exact cfg hwf _ r hIM q' hc', holds_others_false] at hh; cases hh
  exact holds_eq_of_mem_others r _ _ (endFlows_exact cfg hwf _ r tx hJD hHD q hc)

/-- Proxy error (`Stream.OnError`): exactly `r`'s members leave, from every concurrent quota. -/
theorem released_on_proxy_error (cfg : Cfg) (hwf : cfg.wf = true) (events : List Event) (r : Nat)
    (q : Nat) (hc : cfg.isConc q = true) :
    (errEvent cfg (final cfg (S.init cfg) events) r).members q =
      others r ((final cfg (S.init cfg) events).members q) ∧
    holdsSlot r ((errEvent cfg (final cfg (S.init cfg) events) r).members q) = false := by
  have h := drop_exact cfg hwf _ r (inv_history cfg hwf events) q hc
  exact ⟨h, holds_eq_of_mem_others r _ _ h⟩

/-- GC: a clock advance that passes `k + 1` GC instants (the last at `nextGC + k·gc`) removes only members whose
    expiry is at or before that instant, and keeps the order of the others. -/
theorem gc_removes_only_expired (cfg : Cfg) (hwf : cfg.wf = true) (events : List Event) (d k : Nat)
    (hk : dueCount (final cfg (S.init cfg) events).nextGC cfg.gc ((final cfg (S.init cfg) events).now + d) = k + 1)
    (q : Nat) :
    ((advance cfg (final cfg (S.init cfg) events) d).members q).Sublist
      ((final cfg (S.init cfg) events).members q) ∧
    ∀ m ∈ (final cfg (S.init cfg) events).members q,
      m ∈ (advance cfg (final cfg (S.init cfg) events) d).members q ∨
      m.expiry ≤ (final cfg (S.init cfg) events).nextGC + k * cfg.gc := by
  have h := (tickN_spec cfg k _ (inv_history cfg hwf events).jq).2.1 q
  simp only [advance, hk]
  exact ⟨h.sub, h.exp⟩

/-- GC: after the first GC instant at or after its expiry a member is gone, whatever the size of the set. -/
theorem released_by_gc_after_expiry (cfg : Cfg) (hwf : cfg.wf = true) (events : List Event) (d k : Nat)
    (hk : dueCount (final cfg (S.init cfg) events).nextGC cfg.gc ((final cfg (S.init cfg) events).now + d) = k + 1)
    (q : Nat) (hc : cfg.isConc q = true) :
    ∀ m ∈ (advance cfg (final cfg (S.init cfg) events) d).members q,
      (final cfg (S.init cfg) events).nextGC + k * cfg.gc < m.expiry := by
  have h := (tickN_spec cfg k _ (inv_history cfg hwf events).jq).2.2.2.2 q hc
  simp only [advance, hk]
  exact h

/-! ## (iii) no lasting exhaustion -/

/-- A request is refused only if some concurrent quota its limiters consulted is full: so when every such set
    has room — in particular once every transaction has ended and the sets are empty — a fresh probe is not
    refused. -/
theorem quiescent_probe_admitted (cfg : Cfg) (hwf : cfg.wf = true) (events : List Event) (r : Nat) (tx : Tx)
    (hroom : ∀ q ∈ cfg.concPath, ((final cfg (S.init cfg) events).members q).length < cfg.max q) :
    (reqEvent cfg (final cfg (S.init cfg) events) r tx).2 ≠ .refused := by
  intro h
  obtain ⟨q, hq, hfull⟩ := refused_full cfg hwf _ r tx h
  have := hroom q hq
  omega

/-! ## The connection: the Spec holds of every model run -/

/-- For every well-formed configuration and every event history the observable history of the model satisfies the
    whole property `Spec.holds` — the very predicate the judge evaluates on the implementation's answers. -/
theorem c02_holds (cfg : Cfg) (hwf : cfg.wf = true) (events : List Event) :
    holds cfg (run cfg (S.init cfg) events) = true :=
  holds_run cfg hwf events _ _ (Inv.init cfg) (Tracks.init cfg)

/-- On ANY observed history that satisfies the Spec — the model's or the implementation's — once every transaction
    has ended (none is open: each one's last event is a response, a proxy error, a refusal or an early answer)
    every concurrent quota's set is empty. -/
theorem quiescent_sets_empty (cfg : Cfg) (obs : List Obs) (h : holds cfg obs = true)
    (hended : ∀ r, lastOpen r obs false = false) (q : Nat) (hc : cfg.isConc q = true) :
    lastSnap cfg (Tracker.init cfg) obs q = [] := by
  apply List.eq_nil_iff_forall_not_mem.mpr
  intro m hm
  have := members_open cfg obs (Tracker.init cfg) (fun _ => false) h
    (by intro q _ m hm; simp [Tracker.init] at hm) q hc m hm
  rw [hended m.req] at this
  cases this

/-- (iii) for every model history: every transaction ended, every consulted quota has `max > 0` — then a fresh
    probe is not refused. -/
theorem quiescent_history_probe_admitted (cfg : Cfg) (hwf : cfg.wf = true) (events : List Event)
    (hended : ∀ r, lastOpen r (run cfg (S.init cfg) events) false = false)
    (hmax : ∀ q ∈ cfg.concPath, 0 < cfg.max q) (r : Nat) (tx : Tx) :
    (reqEvent cfg (final cfg (S.init cfg) events) r tx).2 ≠ .refused := by
  apply quiescent_probe_admitted cfg hwf events r tx
  intro q hq
  have hc : cfg.isConc q = true := by
    obtain ⟨q0, _, hc0, hq'⟩ := mem_concPath cfg hwf q (List.contains_iff_mem.mpr hq)
    exact (wf_chain cfg hwf q0 hc0).2 q hq'
  have := quiescent_sets_empty cfg _ (c02_holds cfg hwf events) hended q hc
  rw [lastSnap_run cfg events _ _ rfl] at this
  rw [this]
  exact hmax q hq


/-! ## All schedules: release under arbitrary interleavings (`Model/C02Sched.lean`)

Threads = the engine's calls as programs of critical sections (request walk with `Inc` / `Allowed` per level,
response-direction `Dec`s, `OnRequestDrop`, `OnResponseFinish`, GC agents), each in program order, interleaved by an
arbitrary schedule `sched : List Ev` (spawns, single instructions, clock).  Schedule class: one request thread per
transaction id; its response / proxy-error threads (any number, concurrently) and the GC agents for its members start
after the request thread has finished. -/

/-- Every configuration reached by any schedule satisfies the thread-level invariant. -/
theorem all_schedules_invariant (cfg : Cfg) (hwf : cfg.wf = true) (sched : List Ev) :
    GInv cfg (grun cfg (G.init cfg) sched) :=
  ginv_grun hwf sched _ (GInv.init cfg)

/-- Whatever the other threads do in between — other transactions' requests, responses and errors, a GC agent
    removing the very same member, a second `Dec` of the same transaction (response racing with a proxy error):
    once a thread of transaction `r` has run the `SRem` section of `Dec` at level `q` (`clr q`), `r` holds no member
    in `q` any more, and every add of a member of `r` to `q` has been matched by exactly one removal. -/
theorem released_exactly_once_all_schedules (cfg : Cfg) (hwf : cfg.wf = true) (sched : List Ev)
    (tid : Nat) (t : Thread) (q : Nat)
    (ht : (grun cfg (G.init cfg) sched).th tid = some t) (hq : t.loc.clr q = true) :
    (∀ m ∈ (grun cfg (G.init cfg) sched).s.members q, m.req ≠ t.owner) ∧
    ∀ m, m.req = t.owner →
      (grun cfg (G.init cfg) sched).s.rems q m = (grun cfg (G.init cfg) sched).s.adds q m := by
  have hG := all_schedules_invariant cfg hwf sched
  have hno := (hG.thr tid t ht).clrNo q hq
  refine ⟨hno, ?_⟩
  intro m hm
  have hacc := accounted_reach cfg _ hG.reach q m
  have : ((grun cfg (G.init cfg) sched).s.members q).count m = 0 :=
    List.count_eq_zero.mpr (fun hin => hno m hin hm)
  omega

/-- A finished response thread, and a finished request thread that was refused / answered early, have run that
    section for every concurrent quota: the transaction holds no slot anywhere. -/
theorem released_on_ending_all_schedules (cfg : Cfg) (hwf : cfg.wf = true) (sched : List Ev)
    (tid : Nat) (t : Thread)
    (ht : (grun cfg (G.init cfg) sched).th tid = some t) (hfin : t.todo = [])
    (hk : t.kind = .resp ∨ (t.kind = .request ∧ t.loc.rel = true)) (q : Nat) (hc : cfg.isConc q = true) :
    ∀ m ∈ (grun cfg (G.init cfg) sched).s.members q, m.req ≠ t.owner := by
  have hT := (all_schedules_invariant cfg hwf sched).thr tid t ht
  rcases hT.covers hk q hc with h | ⟨i, hi, _⟩
  · exact hT.clrNo q h
  · rw [hfin] at hi; cases hi

/-- Quiescence for all schedules: once every transaction that ever sent a request has a finished response thread
    (or was refused / answered early and that request thread has finished), every concurrent quota's set is empty —
    whatever else is still running. -/
theorem quiescent_all_schedules (cfg : Cfg) (hwf : cfg.wf = true) (sched : List Ev)
    (hended : ∀ r tid0, (grun cfg (G.init cfg) sched).reqTid r = some tid0 →
      ∃ tid t, (grun cfg (G.init cfg) sched).th tid = some t ∧ t.owner = r ∧ t.todo = [] ∧
        (t.kind = .resp ∨ (t.kind = .request ∧ t.loc.rel = true)))
    (q : Nat) (hc : cfg.isConc q = true) : (grun cfg (G.init cfg) sched).s.members q = [] := by
  apply List.eq_nil_iff_forall_not_mem.mpr
  intro m hm
  have hG := all_schedules_invariant cfg hwf sched
  obtain ⟨tid0, h0⟩ := Option.isSome_iff_exists.mp (hG.src q m hm)
  obtain ⟨tid, t, ht, ho, hfin, hk⟩ := hended m.req tid0 h0
  exact released_on_ending_all_schedules cfg hwf sched tid t ht hfin hk q hc m hm ho.symm

/-- The bound for all schedules of the thread model (its states are `Reach`). -/
theorem members_le_max_all_schedules (cfg : Cfg) (hwf : cfg.wf = true) (sched : List Ev) (q : Nat) :
    ((grun cfg (G.init cfg) sched).s.members q).length ≤ cfg.max q :=
  members_le_max cfg _ (all_schedules_invariant cfg hwf sched).reach q

/-! ### Non-vacuity (and the former violation witnesses, now regressions) -/

/-- one concurrent quota (max 1, expiry 11 incl. the dead-request delta, GC every 10); the flow answers POST -/
def exC : Cfg := ⟨[⟨.conc, 1, 11, none, .any⟩], [0], true, 0, 10⟩
/-- child limiter (max 2) with a concurrent parent (max 1) -/
def exPC : Cfg := ⟨[⟨.conc, 1, 21, none, .any⟩, ⟨.conc, 2, 21, some 0, .any⟩], [1], true, 0, 10⟩
/-- flow `Limiter(fixed q0) → Limiter(concurrent q1, max 1)` (F02a's set-up) -/
def exFC : Cfg := ⟨[⟨.fixed, 0, 0, none, .any⟩, ⟨.conc, 1, 21, none, .any⟩], [0, 1], false, 0, 10⟩
/-- two independent concurrent quotas (max 1) on one filter, both limited by the flow (F02c's set-up) -/
def exCC : Cfg := ⟨[⟨.conc, 1, 21, none, .any⟩, ⟨.conc, 1, 21, none, .any⟩], [0, 1], false, 0, 10⟩
/-- fixed companion, then two concurrent quotas, all limited; the flow answers POST itself -/
def exFCC : Cfg := ⟨[⟨.fixed, 0, 0, none, .any⟩, ⟨.conc, 1, 21, none, .any⟩, ⟨.conc, 1, 21, none, .any⟩], [0, 1, 2], true, 0, 10⟩
/-- one concurrent quota, max 3, expiry 11, GC every 10 (F02b's set-up) -/
def ex3 : Cfg := ⟨[⟨.conc, 3, 11, none, .any⟩], [0], false, 0, 10⟩
/-- child expires before its parent (F02d's set-up) -/
def exGap : Cfg := ⟨[⟨.conc, 1, 31, none, .any⟩, ⟨.conc, 1, 11, some 0, .any⟩], [1], false, 0, 10⟩

example : exC.wf = true ∧ exPC.wf = true ∧ exFC.wf = true ∧ exCC.wf = true ∧ exFCC.wf = true ∧ ex3.wf = true ∧
    exGap.wf = true := by decide

/-- The bound is reached and enforced: r1 admitted, r2 refused, the set holds one member. -/
example : (run exC (S.init exC) [.req 1 txG, .req 2 txG]).map (·.verdict) = [.admitted, .refused] ∧
    ((final exC (S.init exC) [.req 1 txG, .req 2 txG]).members 0).length = 1 := by decide

/-- adds / removals are really counted: after request + response one add, one removal, empty set. -/
example : (final exC (S.init exC) [.req 1 txG, .resp 1 txG]).adds 0 ⟨11, 1⟩ = 1 ∧
    (final exC (S.init exC) [.req 1 txG, .resp 1 txG]).rems 0 ⟨11, 1⟩ = 1 ∧
    (final exC (S.init exC) [.req 1 txG, .resp 1 txG]).members 0 = [] := by decide

/-- `released_on_response`: `r` really holds slots (child and parent) before; (former F02c witness) with two
    concurrent quotas on one filter the response now frees both and the probe is admitted. -/
example : holdsSlot 1 ((final exPC (S.init exPC) [.req 1 txG]).members 0) = true ∧
    holdsSlot 1 ((final exPC (S.init exPC) [.req 1 txG]).members 1) = true ∧
    (final exCC (S.init exCC) [.req 1 txG, .resp 1 txG]).members 0 = [] ∧
    (reqEvent exCC (final exCC (S.init exCC) [.req 1 txG, .resp 1 txG]) 2 txG).2 = .admitted := by decide

/-- child limiter whose own filter (method GET) is narrower than the flow's (F02f's set-up) -/
def exNarrow : Cfg := ⟨[⟨.conc, 2, 21, none, .any⟩, ⟨.conc, 1, 21, some 0, .mGet⟩], [1], false, 0, 10⟩

/-- `released_on_response` with a quota whose own filter does not match the transaction (former F02f witness): a POST is
    admitted through the limiter although the child's system flows are selected for GET only (`sysDecsFor` lacks the
    child); the response still frees child and parent, and the next POST is admitted. -/
example : exNarrow.wf = true ∧ exNarrow.sysDecsFor txP = [0] ∧
    holdsSlot 1 ((final exNarrow (S.init exNarrow) [.req 1 txP]).members 1) = true ∧
    (final exNarrow (S.init exNarrow) [.req 1 txP, .resp 1 txP]).members 1 = [] ∧
    (final exNarrow (S.init exNarrow) [.req 1 txP, .resp 1 txP]).members 0 = [] ∧
    (reqEvent exNarrow (final exNarrow (S.init exNarrow) [.req 1 txP, .resp 1 txP]) 2 txP).2 = .admitted := by decide

/-- `released_on_early_response`: a held transaction answered early by the flow; a refusal by the parent after the
    child admitted; (former F02c-early witness) nothing stays in q1. -/
example : (reqEvent exC (final exC (S.init exC) [.req 1 txG]) 1 txP).2 = .early ∧
    holdsSlot 1 ((final exC (S.init exC) [.req 1 txG]).members 0) = true ∧
    (reqEvent exPC (final exPC (S.init exPC) [.req 1 txG]) 2 txG).2 = .refused ∧
    (reqEvent exFCC (S.init exFCC) 1 txP).2 = .early ∧
    (reqEvent exFCC (S.init exFCC) 1 txP).1.members 1 = [] := by decide

/-- `released_on_proxy_error`: (former F02a witness) with the fixed quota touched first the proxy error now frees the
    concurrent slot and the probe is admitted; (former F02d case) the child's member expired and was collected, the
    parent's is still there, the proxy error frees it. -/
example : holdsSlot 1 ((final exFC (S.init exFC) [.req 1 txG]).members 1) = true ∧
    (final exFC (S.init exFC) [.req 1 txG, .err 1]).members 1 = [] ∧
    (reqEvent exFC (final exFC (S.init exFC) [.req 1 txG, .err 1]) 2 txG).2 = .admitted ∧
    (final exGap (S.init exGap) [.req 1 txG, .adv 20]).members 1 = [] ∧
    holdsSlot 1 ((final exGap (S.init exGap) [.req 1 txG, .adv 20]).members 0) = true ∧
    (final exGap (S.init exGap) [.req 1 txG, .adv 20, .err 1]).members 0 = [] := by decide

/-- GC theorems: (former F02b witness) three expired members, one GC instant passed (`dueCount = 1 + 1` ticks at 10
    and 20): all three are removed at once. -/
example : dueCount (final ex3 (S.init ex3) [.req 1 txG, .req 2 txG, .req 3 txG]).nextGC ex3.gc
      ((final ex3 (S.init ex3) [.req 1 txG, .req 2 txG, .req 3 txG]).now + 20) = 1 + 1 ∧
    ((final ex3 (S.init ex3) [.req 1 txG, .req 2 txG, .req 3 txG]).members 0).length = 3 ∧
    (final ex3 (S.init ex3) [.req 1 txG, .req 2 txG, .req 3 txG, .adv 20]).members 0 = [] := by decide

/-- `quiescent_probe_admitted`: after request, response the set has room and the probe is admitted. -/
example : (reqEvent exC (final exC (S.init exC) [.req 1 txG, .resp 1 txG]) 2 txG).2 = .admitted := by decide

/-- `quiescent_sets_empty` / `quiescent_history_probe_admitted`: a history in which four transactions end in the four
    ways (response, early answer, proxy error, refusal) and none is left open; before the last event one is open. -/
example : (∀ r ∈ [1, 2, 3, 4], lastOpen r (run exC (S.init exC)
      [.req 1 txG, .req 2 txG, .resp 1 txG, .req 2 txP, .req 3 txG, .err 3]) false = false) ∧
    lastOpen 3 (run exC (S.init exC) [.req 1 txG, .req 2 txG, .resp 1 txG, .req 2 txP, .req 3 txG]) false = true := by
  decide


/-- All-schedules theorems: transaction 1 is admitted (thread 0, 11 instructions); then its response (thread 2) runs
    interleaved with a GC agent that took the very same member (thread 1): GC's `SRem` lands between the response's
    lookup and its own `SRem`, GC's status delete before the response's.  The response has cleared level 0, the set is
    empty, one add, one removal. -/
def schedGcRace : List Ev :=
  [.spawnReq 0 1 false] ++ List.replicate 11 (.run 0) ++
  [.spawnGc 1 0 ⟨11, 1⟩, .spawnResp 2 1, .run 2, .run 2, .run 1, .run 2, .run 2, .run 1, .run 2, .run 2] ++
  List.replicate 6 (.run 2)

example : ((grun exC (G.init exC) (schedGcRace.take 12)).s.members 0 = [⟨11, 1⟩]) ∧
    (grun exC (G.init exC) schedGcRace).s.members 0 = [] ∧
    ((grun exC (G.init exC) schedGcRace).th 2).map (fun t => (t.todo.length, t.loc.clr 0, t.kind == .resp)) =
      some (0, true, true) ∧
    (grun exC (G.init exC) schedGcRace).s.adds 0 ⟨11, 1⟩ = 1 ∧
    (grun exC (G.init exC) schedGcRace).s.rems 0 ⟨11, 1⟩ = 1 ∧
    (grun exC (G.init exC) schedGcRace).reqTid 1 = some 0 := by decide

/-- A response (thread 1) racing with a proxy error (thread 2) for the same transaction: both read the status before
    either removes; one `SRem` removes, the other is a no-op; one removal in total. -/
def schedRespErr : List Ev :=
  [.spawnReq 0 1 false] ++ List.replicate 11 (.run 0) ++
  [.spawnResp 1 1, .spawnErr 2 1, .run 1, .run 2, .run 1, .run 2, .run 1, .run 2, .run 2, .run 1, .run 2, .run 1, .run 1] ++
  List.replicate 6 (.run 1)

example : (grun exC (G.init exC) schedRespErr).s.members 0 = [] ∧
    ((grun exC (G.init exC) schedRespErr).th 1).map (fun t => (t.todo.length, t.loc.clr 0)) = some (0, true) ∧
    ((grun exC (G.init exC) schedRespErr).th 2).map (fun t => (t.todo.length, t.loc.clr 0)) = some (0, true) ∧
    (grun exC (G.init exC) schedRespErr).s.rems 0 ⟨11, 1⟩ = 1 := by decide

/-! ## Reload: a quota rebuilt by a later load of the configuration behaves as the first one did -/

/-- What a reload leaves: every set empty, no status, nothing recorded per transaction, the clock where it was, and
    the rebuilt quotas' own collector due one (new) GC interval after the reload instant. -/
theorem reload_fresh (cfg' : Cfg) (s : S) :
    (∀ q, (reload cfg' s).members q = []) ∧ (∀ q r, (reload cfg' s).allowed q r = none)
    ∧ (∀ r, (reload cfg' s).rm r = []) ∧ (reload cfg' s).now = s.now
    ∧ (reload cfg' s).nextGC = s.now + cfg'.gc :=
  ⟨fun _ => rfl, fun _ _ => rfl, fun _ => rfl, rfl, rfl⟩

/-- For every history with any number of reloads (each loading any well-formed configuration, the same or a changed
    one), what is observed under every load satisfies the whole property `Spec.holds` on that load's configuration —
    the predicate the judge evaluates load by load. -/
theorem c02_holds_reloads (cfg : Cfg) (hwf : cfg.wf = true) (events : List Event)
    (reloads : List (Cfg × List Event)) (hwfs : ∀ p ∈ reloads, p.1.wf = true) :
    ∀ p ∈ runReloads cfg (S.init cfg) events reloads, holds p.1 p.2 = true := by
  intro p hp
  obtain ⟨c, now, es, hc, rfl⟩ := runReloads_fresh cfg cfg.t0 events reloads hwf hwfs p hp
  exact c02_holds (c.startedAt now) ((wf_startedAt c now).trans hc) es

/-- After a reload, too: past the first GC instant (of the rebuilt quota's own collector) at or after its expiry a
    member is gone — an abandoned transaction admitted by a rebuilt quota does not hold its slot for good. -/
theorem released_by_gc_after_reload (cfg' : Cfg) (hwf : cfg'.wf = true) (s : S) (events : List Event) (d k : Nat)
    (hk : dueCount (final (cfg'.startedAt s.now) (reload cfg' s) events).nextGC cfg'.gc
            ((final (cfg'.startedAt s.now) (reload cfg' s) events).now + d) = k + 1)
    (q : Nat) (hc : cfg'.isConc q = true) :
    ∀ m ∈ (advance (cfg'.startedAt s.now) (final (cfg'.startedAt s.now) (reload cfg' s) events) d).members q,
      (final (cfg'.startedAt s.now) (reload cfg' s) events).nextGC + k * cfg'.gc < m.expiry :=
  released_by_gc_after_expiry (cfg'.startedAt s.now) ((wf_startedAt cfg' s.now).trans hwf) events d k hk q hc

/-! ## Defaults (tie to the source; `Generated/Constants.lean` is rewritten from /repo by `harness/go/cmd/extract`
    on every run, so this `decide` re-checks what the code says now) -/

/-- The expiry and GC interval the model uses for a field that is left out are `defaultRequestExpiration` and
    `defaultGCInterval` of quota.type.go; each setting looks at its own field only (configured: that many seconds);
    both are positive (a zero GC interval would never tick, a zero expiry would free the slots of running
    transactions at the next tick). -/
theorem defaults_match_source :
    (defaultRequestExpiration : Int) = Generated.Const.concurrentDefaultRequestExpiration
    ∧ (defaultGCInterval : Int) = Generated.Const.concurrentDefaultGCInterval
    ∧ (requestExpiration 0 : Int) = Generated.Const.concurrentDefaultRequestExpiration
    ∧ (gcInterval 0 : Int) = Generated.Const.concurrentDefaultGCInterval
    ∧ (∀ n, 0 < n → requestExpiration n = n * 1000000000 ∧ gcInterval n = n * 1000000000)
    ∧ (∀ n, 0 < requestExpiration n ∧ 0 < gcInterval n) := by
  refine ⟨by decide, by decide, by decide, by decide, ?_, ?_⟩
  · intro n hn
    have h : (n == 0) = false := by simp; omega
    simp [requestExpiration, gcInterval, h]
  · intro n
    unfold requestExpiration gcInterval defaultRequestExpiration defaultGCInterval
    constructor <;> split <;> simp_all <;> omega

end LunarVerif.C02
