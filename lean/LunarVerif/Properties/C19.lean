import LunarVerif.Generated.Constants
import LunarVerif.Proofs.C19
/-!
# C19 — Interceptor fail-safe bypasses the gateway after repeated errors, then recovers

Property theorems only (helpers live in `Proofs/C19IP.lean`, `Proofs/C19.lean`).  The model is
`Model/C19.lean` (`call` = one intercepted `Session.request`: `state_ok` → `is_allowed` → gateway
leg inside `with fail_safe` → `__exit__` → direct leg); `run` is the observable history of a
sequence of calls and clock advances from a fresh interceptor.  All statements quantify over every
threshold, cool-down, allow list, block list, DNS table (`cfg.wf`: DNS answers are dotted quads),
start instant and every finite input sequence.

The model describes the code after `fix:` F19a (`_is_external` catches the `ValueError` family and
answers "not external"): the decision is a total function, and the connection theorem `c19_holds`
is unconditional.
-/
namespace LunarVerif.C19

/-! ## Connection: the judge predicate is true of every model run -/

/-- Full property: the Spec predicate the judge evaluates holds of every run. -/
theorem c19_holds (cfg : Cfg) (hw : cfg.wf = true) (t0 : Nat) (is : List Input) :
    holds cfg (run cfg (St.init t0) is) = true :=
  run_holds cfg hw is (St.init t0) Ref.init (rel_init cfg t0)

/-- The routing decision never raises into the application: whatever the state, the destination,
    the header, the lists and the DNS answer (including `UnicodeError`), every intercepted call
    contacts the gateway or the provider, and what the application gets is the answer or the
    exception of a leg that was contacted (the result type has no other inhabitant). -/
theorem decision_total (cfg : Cfg) (s : St) (c : CallIn) :
    (call cfg s c).2.sent ≠ [] ∧
    ((call cfg s c).2.sent.contains .gw = true ∨ (call cfg s c).2.sent.contains .direct = true) := by
  have h := call_sent_ne_nil cfg s c
  refine ⟨h, ?_⟩
  cases hs : (call cfg s c).2.sent with
  | nil => exact absurd hs h
  | cons t ts => cases t <;> simp

/-- The destinations on which the unrepaired code raised — an IPv6 literal, a name whose
    resolution raises `UnicodeError` — are sent directly to the provider (unless a header or an
    allow list routes them), from a fresh interceptor with the breaker closed. -/
theorem unclassifiable_sent_directly (cfg : Cfg) (hw : cfg.wf = true) (t0 : Nat) (is : List Input)
    (o : Obs) (ho : o ∈ run cfg (St.init t0) is)
    (hh : hdrOverride o.inp.hdr = none) (ha : allowEntries cfg = none)
    (hx : ((parseIPv4 o.inp.host).isNone && isIPv6 o.inp.host
            || (!validateIp o.inp.host && cfg.resolve o.inp.host == .unicodeErr)) = true) :
    o.out.sent = [.direct] ∧ o.out.result = directResult o.inp := by
  obtain ⟨r, hr⟩ := holdsFrom_mem cfg _ _ (c19_holds cfg hw t0 is) o ho
  have hroute : shouldRoute cfg o.inp.host o.inp.hdr = false := by
    simp [shouldRoute, hh, ha, unclassifiable_not_external cfg _ hx]
  simp only [eventOk, filterRespected, hroute, Bool.and_eq_true, Bool.or_false, Bool.false_and,
    Bool.not_eq_true'] at hr
  exact noSwallow_direct_only o hr.1.1.1 hr.1.2

/-- Asking the filter directly (`TrafficFilter.is_allowed`), anywhere in a run and with the cache
    the calls have filled so far, always yields an answer; the answer is the routing rule, except
    that a decision during which the resolver failed transiently answers "do not route". -/
theorem decisions_hold (cfg : Cfg) (hw : cfg.wf = true) (t0 : Nat) (is : List Input) :
    decisionsOk cfg (runDec cfg (St.init t0) is) = true :=
  runDec_ok cfg hw is (St.init t0) Ref.init (rel_init cfg t0)

/-- The decision is total and exception-free for EVERY resolver outcome of the modelled set
    (`gaierror`, plain `OSError`, `herror`, `timeout`, `UnicodeError`): a name that is not an IP
    literal, is not cached and does not resolve to an address is answered "do not route", and the
    failure is not cached (whatever the cache, lists validity and block list). -/
theorem resolver_failure_not_routed (cfg : Cfg) (c : Cache) (lk : Lookups) (h : Str) (hdr : Hdr)
    (hh : hdrOverride hdr = none) (ha : (mkFilter cfg).allow = none)
    (hv : validateIp h = false) (hc : cacheGet c h = none)
    (hr : cfg.resolve h = .gaierror ∨ cfg.resolve h = .oserror ∨ cfg.resolve h = .herror ∨
          cfg.resolve h = .timeout ∨ cfg.resolve h = .unicodeErr) :
    (isAllowed cfg (mkFilter cfg) c lk h hdr).allowed = false ∧
    (isAllowed cfg (mkFilter cfg) c lk h hdr).cache = c := by
  apply isAllowed_of_resolver_failure cfg c lk h hdr hh ha hv hc
  intro a ha'
  rcases hr with e | e | e | e | e <;> rw [e] at ha' <;> exact absurd ha' (by simp)

/-- A TRANSIENT resolver failure (the resolver's answers are a history: the first lookups of a
    name fail, later ones succeed) is not remembered: the decision answers "do not route", reports
    the fault, consumes one lookup and leaves the verdict cache exactly as it was - so the next
    decision looks the name up again (`routed_when_closed` then routes a public destination). -/
theorem transient_failure_not_remembered (cfg : Cfg) (c : Cache) (lk : Lookups) (h : Str) (hdr : Hdr)
    (hvalid : (mkFilter cfg).valid = true) (hh : hdrOverride hdr = none)
    (ha : (mkFilter cfg).allow = none) (hb : checkBlocked (mkFilter cfg) h = true)
    (hv : validateIp h = false) (hc : cacheGet c h = none)
    (ht : lookupCount lk h < cfg.transientFor h) :
    isAllowed cfg (mkFilter cfg) c lk h hdr = ⟨false, c, bumpLookup lk h, true⟩ := by
  unfold isAllowed
  simp only [hvalid, hh, ha, hb, Bool.not_true, Bool.false_eq_true, if_false, if_true]
  exact isExternal_of_transient cfg c lk h hv hc ht

/-- … and on every run such a call is sent to the provider only, the application gets the
    provider's answer, nothing is raised (no header override, no allow list). -/
theorem resolver_failure_sent_directly (cfg : Cfg) (hw : cfg.wf = true) (t0 : Nat) (is : List Input)
    (o : Obs) (ho : o ∈ run cfg (St.init t0) is)
    (hh : hdrOverride o.inp.hdr = none) (ha : allowEntries cfg = none)
    (hp : parseIPv4 o.inp.host = none) (hr : ∀ a, cfg.resolve o.inp.host ≠ .ip a) :
    o.out.sent = [.direct] ∧ o.out.result = directResult o.inp := by
  obtain ⟨r, hr'⟩ := holdsFrom_mem cfg _ _ (c19_holds cfg hw t0 is) o ho
  have hroute : shouldRoute cfg o.inp.host o.inp.hdr = false := by
    simp [shouldRoute, hh, ha, external_false_of_no_addr cfg _ hp hr]
  simp only [eventOk, filterRespected, hroute, Bool.and_eq_true, Bool.or_false, Bool.false_and,
    Bool.not_eq_true'] at hr'
  exact noSwallow_direct_only o hr'.1.1.1 hr'.1.2

/-! ## The breaker -/

/-- After `max` (or more) consecutive gateway-side failures of routed calls, every call made
    while all calls since then fall inside the cool-down is sent directly to the provider, and the
    application gets the provider's answer. -/
theorem bypass_during_cooldown (cfg : Cfg) (hw : cfg.wf = true) (t0 : Nat) (is : List Input)
    (pre init : List Obs) (f : Obs) (mid : List Obs) (o : Obs) (post : List Obs)
    (hrun : run cfg (St.init t0) is = pre ++ ((init ++ [f]) ++ (mid ++ o :: post)))
    (hlen : cfg.maxEff ≤ init.length + 1)
    (hfail : ∀ x ∈ init ++ [f], gwTried x = true ∧ x.inp.gw.failed = true)
    (hmid : ∀ x ∈ mid, x.t < f.t + cfg.coolTicks)
    (hin : o.t < f.t + cfg.coolTicks) :
    o.out.sent = [.direct] ∧ o.out.result = directResult o.inp := by
  have h := c19_holds cfg hw t0 is
  rw [holds, hrun, holdsFrom_append cfg pre, holdsFrom_append cfg (init ++ [f]),
    holdsFrom_append cfg mid] at h
  simp only [Bool.and_eq_true] at h
  obtain ⟨_, _, hmidok, hrest⟩ := h
  have htrip := trip_after_fails cfg (pre.foldl (Ref.next cfg) Ref.init) init f hfail hlen
  have hstab := trip_stable cfg f.t mid _ htrip hmidok hmid
  have hev := holdsFrom_head cfg _ o post hrest
  have hopen : Ref.isOpen cfg (mid.foldl (Ref.next cfg)
      ((init ++ [f]).foldl (Ref.next cfg) (pre.foldl (Ref.next cfg) Ref.init))) o.t = true := by
    simp only [Ref.isOpen, hstab, decide_eq_true_eq]; exact hin
  simp only [eventOk, cooldownRespected, hopen, Bool.and_eq_true, Bool.not_true, Bool.false_or,
    Bool.not_eq_true'] at hev
  exact noSwallow_direct_only o hev.1.1.1 hev.1.1.2

/-- `n` consecutive gateway-side failures of routed calls, with nothing between them, and the next
    call (inside the cool-down) is sent directly. -/
theorem trips_after_n (cfg : Cfg) (hw : cfg.wf = true) (t0 : Nat) (is : List Input)
    (pre init : List Obs) (f o : Obs) (post : List Obs)
    (hrun : run cfg (St.init t0) is = pre ++ ((init ++ [f]) ++ o :: post))
    (hlen : init.length + 1 = cfg.maxEff)
    (hfail : ∀ x ∈ init ++ [f], gwTried x = true ∧ x.inp.gw.failed = true)
    (hin : o.t < f.t + cfg.coolTicks) :
    o.out.sent = [.direct] ∧ o.out.result = directResult o.inp :=
  bypass_during_cooldown cfg hw t0 is pre init f [] o post (by simpa using hrun) (by omega) hfail
    (by simp) hin

/-- Once the cool-down that followed the trip has elapsed, a destination the gateway should see
    is tried through the gateway again (in a call during which the resolver does not fail). -/
theorem retries_after_cooldown (cfg : Cfg) (hw : cfg.wf = true) (t0 : Nat) (is : List Input)
    (pre init : List Obs) (f : Obs) (mid : List Obs) (o : Obs) (post : List Obs)
    (hrun : run cfg (St.init t0) is = pre ++ ((init ++ [f]) ++ (mid ++ o :: post)))
    (hlen : cfg.maxEff ≤ init.length + 1)
    (hfail : ∀ x ∈ init ++ [f], gwTried x = true ∧ x.inp.gw.failed = true)
    (hmid : ∀ x ∈ mid, x.t < f.t + cfg.coolTicks)
    (hout : f.t + cfg.coolTicks ≤ o.t)
    (hroute : shouldRoute cfg o.inp.host o.inp.hdr = true) (hnf : o.fault = false) :
    gwTried o = true := by
  have h := c19_holds cfg hw t0 is
  rw [holds, hrun, holdsFrom_append cfg pre, holdsFrom_append cfg (init ++ [f]),
    holdsFrom_append cfg mid] at h
  simp only [Bool.and_eq_true] at h
  obtain ⟨_, _, hmidok, hrest⟩ := h
  have htrip := trip_after_fails cfg (pre.foldl (Ref.next cfg) Ref.init) init f hfail hlen
  have hstab := trip_stable cfg f.t mid _ htrip hmidok hmid
  have hev := holdsFrom_head cfg _ o post hrest
  have hclosed : Ref.isOpen cfg (mid.foldl (Ref.next cfg)
      ((init ++ [f]).foldl (Ref.next cfg) (pre.foldl (Ref.next cfg) Ref.init))) o.t = false := by
    simp only [Ref.isOpen, hstab, decide_eq_false_iff_not]; omega
  simp only [eventOk, recovers, hclosed, hroute, hnf, Bool.and_eq_true, Bool.not_true, Bool.false_or] at hev
  exact hev.2

/-- In general: whenever the reference breaker computed from the observed history is closed, a
    destination the gateway should see is tried through the gateway (in a call during which the
    resolver does not fail): in particular a name whose earlier lookups failed transiently is looked
    up again and routed - a failed lookup is never remembered. -/
theorem routed_when_closed (cfg : Cfg) (hw : cfg.wf = true) (t0 : Nat) (is : List Input)
    (pre : List Obs) (o : Obs) (post : List Obs)
    (hrun : run cfg (St.init t0) is = pre ++ o :: post)
    (hclosed : (refAfter cfg pre).isOpen cfg o.t = false)
    (hroute : shouldRoute cfg o.inp.host o.inp.hdr = true) (hnf : o.fault = false) :
    gwTried o = true := by
  have h := c19_holds cfg hw t0 is
  rw [holds, hrun, holdsFrom_append] at h
  simp only [Bool.and_eq_true] at h
  have hev := holdsFrom_head cfg _ o post h.2
  unfold refAfter at hclosed
  simp only [eventOk, recovers, hclosed, hroute, hnf, Bool.and_eq_true, Bool.not_true, Bool.false_or] at hev
  exact hev.2

/-- A successful call through the gateway clears the failure count (any state, any call). -/
theorem success_resets (cfg : Cfg) (s : St) (c : CallIn)
    (h : (call cfg s c).2.result = .respGw) : (call cfg s c).1.cnt = 0 := by
  rcases call_cases cfg s c with ⟨_, e⟩ | ⟨_, x, y, e⟩ | ⟨_, x, y, e⟩ <;> rw [e] at h ⊢
  · exact absurd h (directResult_ne_respGw c)
  · exact absurd h (directResult_ne_respGw c)
  · unfold gwLeg at h ⊢
    cases hg : c.gw <;> simp only [hg] at h ⊢ <;>
      first | rfl | exact absurd h (directResult_ne_respGw c) | (simp at h)

/-- An exception outside `handle_on` raised on the gateway leg is re-raised to the application,
    the provider is not contacted, and the failure counter, the breaker flag and the cool-down
    start are left as `state_ok` found them. -/
theorem foreign_errors_propagate (cfg : Cfg) (s : St) (c : CallIn)
    (hg : c.gw = .appExc) (hs : (call cfg s c).2.sent.contains .gw = true) :
    (call cfg s c).2 = ⟨[.gw], .raiseGwApp⟩ ∧ (call cfg s c).1.cnt = s.cnt ∧
    (call cfg s c).1.ok = (stateOk cfg s).ok ∧ (call cfg s c).1.start = s.start := by
  obtain ⟨hc, hst, _⟩ := stateOk_fields cfg s
  rcases call_cases cfg s c with ⟨_, e⟩ | ⟨_, x, y, e⟩ | ⟨_, x, y, e⟩ <;> rw [e] at hs ⊢
  · simp [directLeg] at hs
  · simp [directLeg] at hs
  · unfold gwLeg
    rw [hg]
    exact ⟨rfl, hc, rfl, hst⟩

/-- Nothing is swallowed, whatever the state: if the provider was contacted the application gets
    the provider's answer or exception; an application exception on the gateway leg reaches the
    application. -/
theorem never_swallow (cfg : Cfg) (s : St) (c : CallIn) :
    ((call cfg s c).2.sent.contains .direct = true → (call cfg s c).2.result = directResult c) ∧
    ((call cfg s c).2.sent.contains .gw = true → c.gw = .appExc →
        (call cfg s c).2.result = .raiseGwApp) := by
  rcases call_cases cfg s c with ⟨_, e⟩ | ⟨_, x, y, e⟩ | ⟨_, x, y, e⟩ <;> rw [e]
  · simp [directLeg]
  · simp [directLeg]
  · unfold gwLeg
    cases hg : c.gw <;> simp [directLeg]

/-- On every run, every event satisfies `noSwallow`: the application receives the answer or
    exception of the last leg contacted, a gateway-side failure falls through to the provider, an
    application exception does not, and some leg is contacted. -/
theorem never_swallow_run (cfg : Cfg) (hw : cfg.wf = true) (t0 : Nat) (is : List Input)
    (o : Obs) (ho : o ∈ run cfg (St.init t0) is) : noSwallow o = true := by
  obtain ⟨r, hr⟩ := holdsFrom_mem cfg _ _ (c19_holds cfg hw t0 is) o ho
  simp only [eventOk, Bool.and_eq_true] at hr
  exact hr.1.1.1

/-! ## The traffic filter -/

/-- All 2^32 addresses: the code's classification (two-character prefix table, then
    `IPv4Network.__contains__`) answers "not external" exactly on 10/8 ∪ 127/8 ∪ 172.16/12 ∪
    192.168/16 ∪ {0.0.0.0}.  (Closed by `decide` over the 256 first-octet values, lifted by
    `inNet_render`.) -/
theorem private_classification (a b c d : Fin 256) :
    isExternalIp (render ⟨a, b, c, d⟩) = .ok false ↔
      (a.val = 10 ∨ a.val = 127 ∨ (a.val = 172 ∧ 16 ≤ b.val ∧ b.val ≤ 31) ∨ (a.val = 192 ∧ b.val = 168)
        ∨ (a.val = 0 ∧ b.val = 0 ∧ c.val = 0 ∧ d.val = 0)) := by
  have hw : IPv4.wf ⟨a, b, c, d⟩ = true := by simp [IPv4.wf]
  rw [isExternalIp_render _ hw]
  simp only [Except.ok.injEq, Bool.not_eq_false', isPrivate, Bool.or_eq_true, Bool.and_eq_true,
    beq_iff_eq, decide_eq_true_eq]
  omega

/-- The classification never raises on a rendered address and is total on them. -/
theorem classification_total (a b c d : Fin 256) :
    ∃ e, isExternalIp (render ⟨a, b, c, d⟩) = .ok e :=
  ⟨_, isExternalIp_render _ (by simp [IPv4.wf])⟩

/-- A call that reached the gateway went to a destination the lists allow: either the request
    carried `x-lunar-allow: true`, or it carried no override and — with an allow list — the host
    is one of its entries, — without — the host is not on the block list and its address is known
    and outside the loopback / private ranges. -/
theorem lists_respected (cfg : Cfg) (hw : cfg.wf = true) (t0 : Nat) (is : List Input)
    (o : Obs) (ho : o ∈ run cfg (St.init t0) is) (hgw : gwTried o = true) :
    hdrOverride o.inp.hdr = some true ∨
    (hdrOverride o.inp.hdr = none ∧
      (∀ l, parseList cfg.allow = some l → o.inp.host ∈ l) ∧
      (parseList cfg.allow = none →
        o.inp.host ∉ blockEntries cfg ∧ ∃ ip, destAddr cfg o.inp.host = some ip ∧ isPrivate ip = false)) := by
  obtain ⟨r, hr⟩ := holdsFrom_mem cfg _ _ (c19_holds cfg hw t0 is) o ho
  have hsr : shouldRoute cfg o.inp.host o.inp.hdr = true := by
    simp only [eventOk, filterRespected, hgw, Bool.and_eq_true, Bool.not_true, Bool.false_or] at hr
    exact hr.1.2.1
  simp only [shouldRoute, Bool.and_eq_true] at hsr
  obtain ⟨_, hsr⟩ := hsr
  cases hov : hdrOverride o.inp.hdr with
  | some b =>
    rw [hov] at hsr
    simp only at hsr
    left; rw [hsr]
  | none =>
    rw [hov] at hsr
    simp only at hsr
    right
    refine ⟨rfl, ?_, ?_⟩
    · intro l hl
      simp only [allowEntries, hl, Option.map_some] at hsr
      have := List.contains_iff_mem.mp hsr
      exact (List.mem_filter.mp this).1
    · intro hn
      simp only [allowEntries, hn, Option.map_none, Bool.and_eq_true, Bool.not_eq_true'] at hsr
      obtain ⟨hb, hext⟩ := hsr
      refine ⟨fun hm => ?_, ?_⟩
      · have := List.contains_iff_mem.mpr hm
        rw [hb] at this; exact absurd this (by simp)
      · unfold external at hext
        cases hd : destAddr cfg o.inp.host with
        | none => rw [hd] at hext; simp at hext
        | some ip => rw [hd] at hext; exact ⟨ip, rfl, by simpa using hext⟩

/-! ## Non-vacuity: concrete runs of the model -/

private def api : Str := ['a', 'p', 'i']
private def cfg21 : Cfg := ⟨2, 1, none, none, [(api, .ip ⟨93, 184, 216, 34⟩)], []⟩
private def fail1 : Input := .call ⟨api, .absent, .connErr, .ok⟩
private def fail2 : Input := .call ⟨api, .absent, .errHdr ['1', '0'], .ok⟩
private def good : Input := .call ⟨api, .absent, .ok, .ok⟩

/-- Threshold 2, cool-down 1 s (8 ticks): two failures (one by exception, one by header) trip the
    breaker; a call 7 ticks later is sent directly; a call at exactly 8 ticks goes through the
    gateway again.  (Hypotheses of `trips_after_n`, `bypass_during_cooldown`,
    `retries_after_cooldown` are met by this run: `pre = []`, `init = [1st]`, `f = 2nd`.) -/
example :
    (run cfg21 (St.init 100) [fail1, fail2, .adv 7, good, .adv 1, good]).map (fun o => (o.t, o.out.sent))
      = [(100, [.gw, .direct]), (100, [.gw, .direct]), (107, [.direct]), (108, [.gw])] := by
  decide

/-- `transient_failure_not_remembered` / `routed_when_closed`: the first two lookups of a public name
    fail transiently: those two calls go to the provider and report the fault, the third is routed
    (and later ones use the cached verdict: no fault, no lookup). -/
example :
    (run ⟨2, 1, none, none, [(api, .ip ⟨93, 184, 216, 34⟩)], [(api, 2)]⟩ (St.init 0) [good, good, good, good]).map
        (fun o => (o.out.sent, o.fault))
      = [([.direct], true), ([.direct], true), ([.gw], false), ([.gw], false)] ∧
    (runSt ⟨2, 1, none, none, [(api, .ip ⟨93, 184, 216, 34⟩)], [(api, 2)]⟩ (St.init 0) [good, good, good, good]).lookups
      = [(api, 3)] := by
  decide

/-- `resolver_failure_not_routed` / `decisions_hold`: a resolver system error (plain `OSError`),
    `herror`, `timeout`: the call goes to the provider, the filter answers "no", nothing is cached. -/
example :
    let h : Str := ['d', 'b']
    (call ⟨2, 1, none, none, [(h, .oserror)], []⟩ (St.init 0) ⟨h, .absent, .ok, .ok⟩).2 = ⟨[.direct], .respDirect⟩ ∧
    (call ⟨2, 1, none, none, [(h, .herror)], []⟩ (St.init 0) ⟨h, .absent, .ok, .exc⟩).2 = ⟨[.direct], .raiseDirectApp⟩ ∧
    (runDec ⟨2, 1, none, none, [(h, .timeout)], []⟩ (St.init 0) [.decide h .absent]).map (·.answer) = [false] ∧
    (runSt ⟨2, 1, none, none, [(h, .oserror)], []⟩ (St.init 0) [.decide h .absent]).cache = [] := by
  decide

/-- `decision_total` / `unclassifiable_sent_directly`: `::1` and a name whose resolution raises
    `UnicodeError` go to the provider, nothing is raised, the breaker state is untouched. -/
example :
    (call ⟨2, 1, none, none, [], []⟩ (St.init 0) ⟨[':', ':', '1'], .absent, .ok, .ok⟩).2
        = ⟨[.direct], .respDirect⟩ ∧
    (call ⟨2, 1, none, none, [(['a', '.', '.', 'b'], .unicodeErr)], []⟩ (St.init 0)
        ⟨['a', '.', '.', 'b'], .absent, .ok, .ok⟩).2 = ⟨[.direct], .respDirect⟩ := by
  constructor <;> decide

/-- `success_resets` / `foreign_errors_propagate`: one failure, an application exception on the
    gateway leg (propagated, counter stays 1), a success (counter 0), one more failure does not
    trip (threshold 2). -/
example :
    (runSt cfg21 (St.init 0) [fail1, .call ⟨api, .absent, .appExc, .ok⟩]).cnt = 1 ∧
    (runSt cfg21 (St.init 0) [fail1, .call ⟨api, .absent, .appExc, .ok⟩, good]).cnt = 0 ∧
    (runSt cfg21 (St.init 0) [fail1, good, fail1]).ok = true ∧
    (runSt cfg21 (St.init 0) [fail1, fail1]).ok = false := by
  decide

/-- `lists_respected`: a private literal is not routed, an allow-listed private literal is, a
    blocked public name is not, `x-lunar-allow: true` overrides. -/
example :
    let ten : Str := ['1', '0', '.', '0', '.', '0', '.', '1']
    (call ⟨2, 1, none, none, [], []⟩ (St.init 0) ⟨ten, .absent, .ok, .ok⟩).2.sent = [.direct] ∧
    (call ⟨2, 1, none, some ten, [], []⟩ (St.init 0) ⟨ten, .absent, .ok, .ok⟩).2.sent = [.gw] ∧
    (call ⟨2, 1, some api, none, [(api, .ip ⟨93, 184, 216, 34⟩)], []⟩ (St.init 0) ⟨api, .absent, .ok, .ok⟩).2.sent = [.direct] ∧
    (call ⟨2, 1, none, none, [], []⟩ (St.init 0) ⟨ten, .val ['t', 'r', 'u', 'e'], .ok, .ok⟩).2.sent = [.gw] := by
  decide

end LunarVerif.C19

/-! ## Regenerated constants (tie to the source; `Generated/Constants.lean` is rewritten from /repo
    by `harness/go/cmd/extract` on every run, so this `decide` re-checks what the code says now) -/
namespace LunarVerif.C19
open LunarVerif.Generated

/-- The defaults the model uses when the environment configures nothing (`Cfg.maxEff`, `Cfg.coolEff`)
    are the ones in `fail_safe.py`, and they are positive (a zero default threshold would trip on the
    first error; a zero cool-down would never bypass). -/
theorem interceptor_defaults_ok :
    Const.pyDefaultMaxErrors = 5 ∧ Const.pyDefaultCooldownSec = 10 ∧
    (⟨0, 0, none, none, [], []⟩ : Cfg).maxEff = Const.pyDefaultMaxErrors.toNat ∧
    (⟨0, 0, none, none, [], []⟩ : Cfg).coolEff = Const.pyDefaultCooldownSec.toNat := by
  decide

end LunarVerif.C19
