import LunarVerif.Proofs.C03
/-!
# C03 — A flow runs for a transaction exactly when its own filter accepts it

Property theorems only (helpers: `Proofs/UrlTree.lean`, `Proofs/C03Trav.lean`, `Proofs/C03Look.lean`,
`Proofs/C03Build.lean`, `Proofs/C03.lean`).  Model: `Model/UrlTree.lean` (extensional trie, shared),
`Model/C03.lean` (`lookupFlow` loop verbatim, `AddFlow`, node requirements, per-flow qualification,
`FilterResult.Extend`).  Spec: `Spec/UrlMatch.lean`, `Spec/C03.lean` (observable terms only).

`getFlow_char` and `N` hold for EVERY tree and transaction.  The `_partial` theorems quantify over every list
of flows (= every load order), every transaction; their only extra hypothesis is `Benign cfg t` — the
conjunction of the decidable classifiers of `Spec/C03.lean` (findings F03a–i) — and each class has a
`_violation_witness` showing that its conjunct cannot be dropped on the unchanged code.
(`t.parts ≠ []`: `splitURL` never returns the empty list.)
-/
namespace LunarVerif.C03
open LunarVerif.UrlTree LunarVerif.UrlMatch

/-! ### closed form (unconditional) -/

/-- `getFlow_char`.  For every filter tree (hence every set of flows and every load order) and every
    transaction: the names reported per group are those of `selected` — for each node returned by the
    traversal, in order, the node's flows that pass the node's qualification — and `found` tells whether
    any group is non-empty. -/
theorem getFlow_char (ft : FTree) (t : Txn) :
    (∀ k, (observe ft t).names k = (selected ft t k).map (·.name)) ∧
    (observe ft t).found = [Kind.user, Kind.sysStart, Kind.sysEnd].any (fun k => !(selected ft t k).isEmpty) :=
  observe_char ft t

/-- (N) `found` is false exactly when nothing is selected, and then nothing at all is executed. -/
theorem N (ft : FTree) (t : Txn) :
    nOk (observe ft t) = true ∧ ((observe ft t).found = false → executed ft t = []) :=
  ⟨nOk_observe ft t, executed_nil⟩

/-! ### witnesses: concrete flows (parts written as `splitURL` produces them) -/

def hostACom : List Part := [⟨true, .lit "a"⟩, ⟨true, .lit "com"⟩]
def seg (s : String) : Part := ⟨false, .lit s⟩
def star : Part := ⟨false, .wild⟩

/-- a user flow without constraints -/
def plain (name url : String) (parts : List Part) : Flow :=
  { name := name, kind := .user, url := url, parts := parts, canon := true,
    methods := [], headers := [], query := [], statuses := [] }

def fX : Flow := plain "f0" "a.com/x" (hostACom ++ [seg "x"])
def fXget : Flow := { plain "f1" "a.com/x" (hostACom ++ [seg "x"]) with methods := ["GET"] }
def fXstar : Flow := plain "f2" "a.com/x/*" (hostACom ++ [seg "x", star])
def fStar : Flow := plain "f3" "a.com/*" (hostACom ++ [star])
def fUsers : Flow := plain "f4" "a.com/users/{id}/posts" (hostACom ++ [seg "users", ⟨false, .par "id"⟩, seg "posts"])
def fXslash (name : String) : Flow := { plain name "a.com/x/" (hostACom ++ [seg "x"]) with canon := false }
def fXsys : Flow := { plain "q0" "a.com/x" (hostACom ++ [seg "x"]) with kind := .sysStart }
def fXq : Flow := { plain "f5" "a.com/x" (hostACom ++ [seg "x"]) with query := [("k", none)] }

def req (m : String) (parts : List Part) (q : List (String × String) := []) : Txn :=
  ⟨false, m, parts, [], q, 0⟩

def urlX : List Part := hostACom ++ [seg "x"]
def urlXY : List Part := hostACom ++ [seg "x", seg "y"]
def urlXYZ : List Part := hostACom ++ [seg "x", seg "y", seg "z"]

/-- What the model answers for `t` after loading `cfg` in that order (`none`: a load error). -/
def answer (cfg : List Flow) (t : Txn) : Option Answer :=
  match build cfg with
  | .ok ft => some (observe ft t)
  | .error _ => none

/-- The three verdicts of the Spec on the model's answer. -/
def verdict (cfg : List Flow) (t : Txn) : Option (Bool × Bool × Bool) :=
  (answer cfg t).map fun a => (selOk cfg t a, compOk cfg t a, nOk a)

/-! ### the characterisation and (S), (C) outside the excluded classes -/

/-- `getFlow_char` under `Benign`: a loaded configuration selects exactly the flows whose own filter
    accepts the transaction and that no literal sibling shadows. -/
theorem selected_char_partial (cfg : List Flow) (ft : FTree) (t : Txn) (hbuild : build cfg = .ok ft)
    (hB : Benign cfg t = true) (ht : t.parts ≠ []) (k : Kind) (f : Flow) :
    f ∈ selected ft t k ↔ f ∈ cfg ∧ f.kind = k ∧ applies f t = true ∧ shadowed cfg f t = false :=
  selected_iff (build_inv (benign_cfg hB) hbuild) hB ht k f

/-- (S) selected ⇒ applies. -/
theorem S_partial (cfg : List Flow) (ft : FTree) (t : Txn) (hbuild : build cfg = .ok ft)
    (hB : Benign cfg t = true) (ht : t.parts ≠ []) : selOk cfg t (observe ft t) = true := by
  apply selOk_of
  intro k n hn
  obtain ⟨f, hf, hname⟩ := mem_names_observe.mp hn
  obtain ⟨hc, hk, ha, _⟩ := (selected_char_partial cfg ft t hbuild hB ht k f).mp hf
  exact ⟨f, hc, hname, hk, ha⟩

/-- (C) applies ∧ ¬shadowed ⇒ selected. -/
theorem C_partial (cfg : List Flow) (ft : FTree) (t : Txn) (hbuild : build cfg = .ok ft)
    (hB : Benign cfg t = true) (ht : t.parts ≠ []) : compOk cfg t (observe ft t) = true := by
  apply compOk_of
  intro f hf ha hs
  exact mem_names_observe.mpr ⟨f, (selected_char_partial cfg ft t hbuild hB ht f.kind f).mpr ⟨hf, rfl, ha, hs⟩, rfl⟩

/-- CONNECTION: the judge's per-transaction predicate holds of every model answer on `Benign` inputs. -/
theorem c03_holds_partial (cfg : List Flow) (ft : FTree) (t : Txn) (hbuild : build cfg = .ok ft)
    (hB : Benign cfg t = true) (ht : t.parts ≠ []) : txnOk cfg t (observe ft t) = true := by
  unfold txnOk
  rw [S_partial cfg ft t hbuild hB ht, C_partial cfg ft t hbuild hB ht, (N ft t).1]
  rfl

/-- non-vacuity: overlapping patterns (literal, `/*`, parameter), a GET-only flow, a matching request that
    selects two flows from two different nodes. -/
example :
    Benign [fStar, fUsers, fXget] (req "GET" urlX) = true ∧
    answer [fStar, fUsers, fXget] (req "GET" urlX) = some ⟨true, ["f3", "f1"], [], []⟩ ∧
    answer [fStar, fUsers, fXget] (req "POST" urlX) = some ⟨true, ["f3"], [], []⟩ ∧
    verdict [fStar, fUsers, fXget] (req "GET" urlX) = some (true, true, true) := by decide

/-- The judge finds nothing to report in a round of model answers on `Benign` inputs. -/
theorem judge_round_ok (cfg : List Flow) (ft : FTree) (reqs : List Req) (hbuild : build cfg = .ok ft)
    (h : ∀ q ∈ reqs, Benign cfg q.txn = true ∧ q.txn.parts ≠ [] ∧ q.ans = observe ft q.txn) :
    reqVerdicts ⟨cfg, reqs⟩ = [] := by
  unfold reqVerdicts
  rw [List.filterMap_eq_nil_iff]
  intro q hq
  obtain ⟨hB, ht, ha⟩ := h q hq
  simp only
  rw [ha, S_partial cfg ft q.txn hbuild hB ht, C_partial cfg ft q.txn hbuild hB ht, (N ft q.txn).1]
  simp

/-! ### (O) order independence -/

/-- (O) Two load orders of the same flows, both outside the excluded classes (F03d and F03g are
    order-sensitive), select the same set for every transaction. -/
theorem O_partial (cfg cfg' : List Flow) (ft ft' : FTree) (t : Txn) (hp : cfg.Perm cfg')
    (hbuild : build cfg = .ok ft) (hbuild' : build cfg' = .ok ft')
    (hB : Benign cfg t = true) (hB' : Benign cfg' t = true) (ht : t.parts ≠ []) :
    sameSel (observe ft t) (observe ft' t) = true := by
  apply sameSel_of
  intro k n
  rw [mem_names_observe, mem_names_observe]
  constructor
  · rintro ⟨f, hf, hn⟩
    obtain ⟨hc, hk, ha, hs⟩ := (selected_char_partial cfg ft t hbuild hB ht k f).mp hf
    exact ⟨f, (selected_char_partial cfg' ft' t hbuild' hB' ht k f).mpr
      ⟨hp.mem_iff.mp hc, hk, ha, by rw [← shadowed_perm hp]; exact hs⟩, hn⟩
  · rintro ⟨f, hf, hn⟩
    obtain ⟨hc, hk, ha, hs⟩ := (selected_char_partial cfg' ft' t hbuild' hB' ht k f).mp hf
    exact ⟨f, (selected_char_partial cfg ft t hbuild hB ht k f).mpr
      ⟨hp.mem_iff.mpr hc, hk, ha, by rw [shadowed_perm hp]; exact hs⟩, hn⟩

/-- non-vacuity of `O_partial`: three overlapping patterns, two orders, both benign, same set in a
    different order. -/
example :
    [fStar, fUsers, fXget].Perm [fXget, fStar, fUsers] ∧
    Benign [fStar, fUsers, fXget] (req "GET" urlX) = true ∧ Benign [fXget, fStar, fUsers] (req "GET" urlX) = true ∧
    answer [fStar, fUsers, fXget] (req "GET" urlX) = some ⟨true, ["f3", "f1"], [], []⟩ ∧
    answer [fXget, fStar, fUsers] (req "GET" urlX) = some ⟨true, ["f3", "f1"], [], []⟩ := by
  refine ⟨?_, by decide, by decide, by decide, by decide⟩
  exact (List.perm_append_comm (l₁ := [fStar, fUsers]) (l₂ := [fXget]))

/-- The judge's order check finds nothing to report between two rounds of model answers (two load orders of
    the same flows) on `Benign` inputs. -/
theorem judge_order_ok (cfg cfg' : List Flow) (ft ft' : FTree) (reqs reqs' : List Req) (hp : cfg.Perm cfg')
    (hbuild : build cfg = .ok ft) (hbuild' : build cfg' = .ok ft')
    (h : ∀ q ∈ reqs, Benign cfg q.txn = true ∧ q.txn.parts ≠ [] ∧ q.ans = observe ft q.txn)
    (h' : ∀ q ∈ reqs', Benign cfg' q.txn = true ∧ q.txn.parts ≠ [] ∧ q.ans = observe ft' q.txn)
    (hline : ∀ q ∈ reqs, ∀ q' ∈ reqs', q.line = q'.line → q.txn = q'.txn) :
    roundsAgree ⟨cfg, reqs⟩ ⟨cfg', reqs'⟩ = [] := by
  unfold roundsAgree
  rw [List.filterMap_eq_nil_iff]
  intro q2 hq2
  simp only
  cases hf : reqs.find? (fun q1 => q1.line == q2.line) with
  | none => rfl
  | some q1 =>
    simp only
    have hq1 : q1 ∈ reqs := List.mem_of_find?_eq_some hf
    have hl : q1.line = q2.line := by simpa using List.find?_some hf
    obtain ⟨hB, ht, ha⟩ := h q1 hq1
    obtain ⟨hB', _, ha'⟩ := h' q2 hq2
    have htx := hline q1 hq1 q2 hq2 hl
    rw [ha, ha', ← htx, O_partial cfg cfg' ft ft' q1.txn hp hbuild hbuild' hB (by rw [htx]; exact hB') ht]
    rfl

/-- The tree the driver answers from — flows added one by one, refused ones skipped — is `build` of the
    flows it accepted (the judge's observable configuration). -/
theorem driver_tree_is_build (fs : List Flow) :
    build (((fs.zip (loadSkip .empty fs).2).filter (fun p => p.2.isNone)).map (·.1)) = .ok (loadSkip .empty fs).1 :=
  loadSkip_build fs .empty

/-! ### violation witnesses: no conjunct of `Benign` can be dropped -/

/-- F03a.  `[f0 (no constraint), f1 (GET only)]` on `a.com/x`: `POST a.com/x` runs f1 (S fails);
    in the other order `HEAD a.com/x` runs nothing although f0 applies (C fails); the selected set for
    `POST` depends on the order (O fails). -/
theorem mixed_shapes_violation_witness :
    mixedShapes [fX, fXget] = true ∧
    answer [fX, fXget] (req "POST" urlX) = some ⟨true, ["f0", "f1"], [], []⟩ ∧
    verdict [fX, fXget] (req "POST" urlX) = some (false, true, true) ∧
    answer [fXget, fX] (req "HEAD" urlX) = some ⟨false, [], [], []⟩ ∧
    verdict [fXget, fX] (req "HEAD" urlX) = some (true, false, true) ∧
    answer [fXget, fX] (req "POST" urlX) = some ⟨true, ["f0"], [], []⟩ ∧
    [fX, fXget].Perm [fXget, fX] := by
  refine ⟨by decide, by decide, by decide, by decide, by decide, by decide, List.Perm.swap _ _ _⟩

/-- F03b.  Only `a.com/x` loaded: it is selected for `a.com/x/y`. -/
theorem one_extra_violation_witness :
    oneExtra [fX] urlXY = true ∧ «matches» fX.parts urlXY = false ∧
    answer [fX] (req "GET" urlXY) = some ⟨true, ["f0"], [], []⟩ ∧
    verdict [fX] (req "GET" urlXY) = some (false, true, true) := by decide

/-- F03c.  `a.com/x` and `a.com/x/*` loaded: `a.com/x` selects neither. -/
theorem zero_segment_violation_witness :
    zeroSegWild [fX, fXstar] urlX = true ∧
    answer [fX, fXstar] (req "GET" urlX) = some ⟨false, [], [], []⟩ ∧
    verdict [fX, fXstar] (req "GET" urlX) = some (true, false, true) := by decide

/-- F03d.  `a.com/x/*` loaded before `a.com/x`: the literal flow is attached to the wildcard node and runs
    for `a.com/x/y/z`; the other order behaves as intended. -/
theorem merge_confused_violation_witness :
    mergeConfused [fXstar, fX] = true ∧ mergeConfused [fX, fXstar] = false ∧
    answer [fXstar, fX] (req "GET" urlXYZ) = some ⟨true, ["f2", "f0"], [], []⟩ ∧
    verdict [fXstar, fX] (req "GET" urlXYZ) = some (false, true, true) ∧
    answer [fX, fXstar] (req "GET" urlXYZ) = some ⟨true, ["f2"], [], []⟩ := by decide

/-- F03e.  `a.com/*` is selected for the HOST `a.com.evil.org`. -/
theorem boundary_violation_witness :
    boundaryMix [fStar] [⟨true, .lit "a"⟩, ⟨true, .lit "com"⟩, ⟨true, .lit "evil"⟩, ⟨true, .lit "org"⟩] = true ∧
    verdict [fStar] (req "GET" [⟨true, .lit "a"⟩, ⟨true, .lit "com"⟩, ⟨true, .lit "evil"⟩, ⟨true, .lit "org"⟩]) =
      some (false, true, true) := by decide

/-- F03f.  `a.com/users/{id}/posts` is selected for `a.com/users//posts`. -/
theorem empty_segment_violation_witness :
    emptySegment (hostACom ++ [seg "users", seg "", seg "posts"]) = true ∧
    verdict [fUsers] (req "GET" (hostACom ++ [seg "users", seg "", seg "posts"])) = some (false, true, true) := by
  decide

/-- F03g.  Two flows on the untrimmed URL `a.com/x/`: the second replaces the node of the first. -/
theorem non_canonical_violation_witness :
    nonCanonical [fXslash "f0", fXslash "f1"] = true ∧
    answer [fXslash "f0", fXslash "f1"] (req "GET" urlX) = some ⟨true, ["f1"], [], []⟩ ∧
    verdict [fXslash "f0", fXslash "f1"] (req "GET" urlX) = some (true, false, true) := by decide

/-- F03h.  A system flow without method filter is not applied to `HEAD`. -/
theorem sys_default_methods_violation_witness :
    sysDefaultMethods [fXsys] (req "HEAD" urlX) = true ∧
    answer [fXsys] (req "GET" urlX) = some ⟨true, [], ["q0"], []⟩ ∧
    verdict [fXsys] (req "HEAD" urlX) = some (true, false, true) := by decide

/-- F03i.  A query parameter required without a value does not accept `?k=v`. -/
theorem valueless_query_violation_witness :
    valuelessQuery [fXq] (req "GET" urlX [("k", "v")]) = true ∧
    verdict [fXq] (req "GET" urlX [("k", "v")]) = some (true, false, true) ∧
    verdict [fXq] (req "GET" urlX [("k", "")]) = some (true, true, true) := by decide

/-- Every witness above is classified by the judge under the finding it illustrates, and a configuration is
    unclassified exactly when it is `Benign`. -/
theorem classify_iff_benign (cfg : List Flow) (t : Txn) : classify cfg t = "-" ↔ Benign cfg t = true :=
  classify_benign cfg t

end LunarVerif.C03
