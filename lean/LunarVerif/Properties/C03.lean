import LunarVerif.Proofs.C03
/-!
# C03 — A flow runs for a transaction exactly when its own filter accepts it

Property theorems only (helpers: `Proofs/UrlTree.lean`, `Proofs/C03Trav.lean`, `Proofs/C03Build.lean`,
`Proofs/C03.lean`).  Model: `Model/UrlTree.lean` (extensional trie, shared), `Model/C03.lean` (`lookupFlow`
loop, `AddFlow` with its side table, per-flow qualification, `FilterResult.Extend`) — the code AFTER the repairs
F03a–d, f–i.  Spec: `Spec/UrlMatch.lean`, `Spec/C03.lean` (observable terms only).

`getFlow_char` and `N` hold for EVERY tree and transaction.  The `_partial` theorems quantify over every list
of flows (= every load order) and every transaction; their only excluded class is `Benign cfg` = F03e, remaining
half: two loaded patterns share a trie node from different sides of the host/path boundary (constant/parametric
children are keyed by value only; root cause shared with F13c), with a `_violation_witness`; the repaired
findings have `regress_…` theorems on their old witnesses.
Assumptions: `keysOK cfg` (front end: the trimmed text of a declared URL identifies its parts; false only for
nested braces `{{x}}`), `hostFirst cfg t.parts` (every URL and pattern starts with a host part: `splitURL`),
`t.parts ≠ []` (`splitURL` never returns the empty list).
-/
namespace LunarVerif.C03
open LunarVerif.UrlTree LunarVerif.UrlMatch

/-! ### closed form (unconditional) -/

/-- `getFlow_char`.  For every filter tree (hence every set of flows and every load order) and every
    transaction: the names reported per group are those of `selected` — for each node returned by the
    traversal, in order, the node's flows that pass the node's qualification — and `found` tells whether
    any group is non-empty. -/
theorem getFlow_char (ft : FTree) (t : Txn) :
    (∀ k, (observe ft t).names k = (selected ft t k).map (·.name)) ∧
    (observe ft t).found = [Kind.user, Kind.sysStart, Kind.sysEnd].any (fun k => !(selected ft t k).isEmpty) :=
  observe_char ft t

/-- (N) `found` is false exactly when nothing is selected, and then nothing at all is executed. -/
theorem N (ft : FTree) (t : Txn) :
    nOk (observe ft t) = true ∧ ((observe ft t).found = false → executed ft t = []) :=
  ⟨nOk_observe ft t, executed_nil⟩

/-! ### witnesses: concrete flows (parts written as `splitURL` produces them) -/

def hostACom : List Part := [⟨true, .lit "a"⟩, ⟨true, .lit "com"⟩]
def seg (s : String) : Part := ⟨false, .lit s⟩
def star : Part := ⟨false, .wild⟩

/-- a user flow without constraints -/
def plain (name url : String) (parts : List Part) : Flow :=
  { name := name, kind := .user, url := url, parts := parts, key := url,
    methods := [], headers := [], query := [], statuses := [] }

def fX : Flow := plain "f0" "a.com/x" (hostACom ++ [seg "x"])
def fXget : Flow := { plain "f1" "a.com/x" (hostACom ++ [seg "x"]) with methods := ["GET"] }
def fXstar : Flow := plain "f2" "a.com/x/*" (hostACom ++ [seg "x", star])
def fStar : Flow := plain "f3" "a.com/*" (hostACom ++ [star])
def fUsers : Flow := plain "f4" "a.com/users/{id}/posts" (hostACom ++ [seg "users", ⟨false, .par "id"⟩, seg "posts"])
def fXslash (name : String) : Flow := { plain name "a.com/x/" (hostACom ++ [seg "x"]) with key := "a.com/x" }
def fXsys : Flow := { plain "q0" "a.com/x" (hostACom ++ [seg "x"]) with kind := .sysStart }
def fXq : Flow := { plain "f5" "a.com/x" (hostACom ++ [seg "x"]) with query := [("k", none)] }

def req (m : String) (parts : List Part) (q : List (String × String) := []) : Txn :=
  ⟨false, m, parts, [], q, 0, true⟩

def urlX : List Part := hostACom ++ [seg "x"]
def urlXY : List Part := hostACom ++ [seg "x", seg "y"]
def urlXYZ : List Part := hostACom ++ [seg "x", seg "y", seg "z"]

/-- What the model answers for `t` after loading `cfg` in that order (`none`: a load error). -/
def answer (cfg : List Flow) (t : Txn) : Option Answer :=
  match build cfg with
  | .ok ft => some (observe ft t)
  | .error _ => none

/-- The three verdicts of the Spec on the model's answer. -/
def verdict (cfg : List Flow) (t : Txn) : Option (Bool × Bool × Bool) :=
  (answer cfg t).map fun a => (selOk cfg t a, compOk cfg t a, nOk a)

/-! ### the characterisation and (S), (C), (O) outside F03e -/

/-- `getFlow_char`, declarative form: a loaded configuration selects exactly the flows whose own filter
    accepts the transaction and that no literal sibling shadows. -/
theorem selected_char_partial (cfg : List Flow) (ft : FTree) (t : Txn) (hbuild : build cfg = .ok ft)
    (hK : keysOK cfg = true) (hB : Benign cfg = true) (hH : hostFirst cfg t.parts = true) (ht : t.parts ≠ []) (k : Kind) (f : Flow) :
    f ∈ selected ft t k ↔ f ∈ cfg ∧ f.kind = k ∧ applies f t = true ∧ shadowed cfg f t = false :=
  selected_iff (build_inv hK (benign_parts hB) hbuild) hB hH ht k f

/-- (S) selected ⇒ applies. -/
theorem S_partial (cfg : List Flow) (ft : FTree) (t : Txn) (hbuild : build cfg = .ok ft)
    (hK : keysOK cfg = true) (hB : Benign cfg = true) (hH : hostFirst cfg t.parts = true) (ht : t.parts ≠ []) :
    selOk cfg t (observe ft t) = true := by
  apply selOk_of
  intro k n hn
  obtain ⟨f, hf, hname⟩ := mem_names_observe.mp hn
  obtain ⟨hc, hk, ha, _⟩ := (selected_char_partial cfg ft t hbuild hK hB hH ht k f).mp hf
  exact ⟨f, hc, hname, hk, ha⟩

/-- (C) applies ∧ ¬shadowed ⇒ selected. -/
theorem C_partial (cfg : List Flow) (ft : FTree) (t : Txn) (hbuild : build cfg = .ok ft)
    (hK : keysOK cfg = true) (hB : Benign cfg = true) (hH : hostFirst cfg t.parts = true) (ht : t.parts ≠ []) :
    compOk cfg t (observe ft t) = true := by
  apply compOk_of
  intro f hf ha hs
  exact mem_names_observe.mpr
    ⟨f, (selected_char_partial cfg ft t hbuild hK hB hH ht f.kind f).mpr ⟨hf, rfl, ha, hs⟩, rfl⟩

/-- CONNECTION: the judge's per-transaction predicate holds of every model answer outside F03e. -/
theorem c03_holds_partial (cfg : List Flow) (ft : FTree) (t : Txn) (hbuild : build cfg = .ok ft)
    (hK : keysOK cfg = true) (hB : Benign cfg = true) (hH : hostFirst cfg t.parts = true) (ht : t.parts ≠ []) :
    txnOk cfg t (observe ft t) = true := by
  unfold txnOk
  rw [S_partial cfg ft t hbuild hK hB hH ht, C_partial cfg ft t hbuild hK hB hH ht, (N ft t).1]
  rfl

/-- non-vacuity: overlapping patterns (literal, `/*`, parameter), flows with different constraint shapes on
    one URL, requests selecting flows from two nodes. -/
example :
    keysOK [fStar, fUsers, fXget, fX, fXstar] = true ∧
    Benign [fStar, fUsers, fXget, fX, fXstar] = true ∧ hostFirst [fStar, fUsers, fXget, fX, fXstar] urlX = true ∧
    answer [fStar, fUsers, fXget, fX, fXstar] (req "GET" urlX) = some ⟨true, ["f3", "f2", "f1", "f0"], [], []⟩ ∧
    answer [fStar, fUsers, fXget, fX, fXstar] (req "POST" urlXY) = some ⟨true, ["f3", "f2"], [], []⟩ ∧
    verdict [fStar, fUsers, fXget, fX, fXstar] (req "HEAD" urlX) = some (true, true, true) := by decide

/-- The judge finds nothing to report in a round of model answers outside F03e. -/
theorem judge_round_ok (cfg : List Flow) (ft : FTree) (reqs : List Req) (hbuild : build cfg = .ok ft)
    (hB : Benign cfg = true)
    (h : ∀ q ∈ reqs, hostFirst cfg q.txn.parts = true ∧ q.txn.parts ≠ [] ∧ q.ans = observe ft q.txn) :
    reqVerdicts ⟨cfg, reqs⟩ = [] := by
  unfold reqVerdicts
  simp only
  cases hK : keysOK cfg with
  | false => rfl
  | true =>
    simp only [Bool.not_true, Bool.false_eq_true, if_false]
    rw [List.filterMap_eq_nil_iff]
    intro q hq
    obtain ⟨hH, ht, ha⟩ := h q hq
    rw [ha, S_partial cfg ft q.txn hbuild hK hB hH ht, C_partial cfg ft q.txn hbuild hK hB hH ht, (N ft q.txn).1]
    simp

/-- (O) Two load orders of the same flows select the same set for every transaction outside F03e (the
    hypotheses are about the SET of flows: stated for one order, they hold for every order). -/
theorem O_partial (cfg cfg' : List Flow) (ft ft' : FTree) (t : Txn) (hp : cfg.Perm cfg')
    (hbuild : build cfg = .ok ft) (hbuild' : build cfg' = .ok ft')
    (hK : keysOK cfg = true) (hB : Benign cfg = true) (hH : hostFirst cfg t.parts = true) (ht : t.parts ≠ []) :
    sameSel (observe ft t) (observe ft' t) = true := by
  have hK' := keysOK_perm hp hK
  have hB' : Benign cfg' = true := by rw [← benign_perm hp]; exact hB
  have hH' := hostFirst_perm hp _ hH
  apply sameSel_of
  intro k n
  rw [mem_names_observe, mem_names_observe]
  constructor
  · rintro ⟨f, hf, hn⟩
    obtain ⟨hc, hk, ha, hs⟩ := (selected_char_partial cfg ft t hbuild hK hB hH ht k f).mp hf
    exact ⟨f, (selected_char_partial cfg' ft' t hbuild' hK' hB' hH' ht k f).mpr
      ⟨hp.mem_iff.mp hc, hk, ha, by rw [← shadowed_perm hp]; exact hs⟩, hn⟩
  · rintro ⟨f, hf, hn⟩
    obtain ⟨hc, hk, ha, hs⟩ := (selected_char_partial cfg' ft' t hbuild' hK' hB' hH' ht k f).mp hf
    exact ⟨f, (selected_char_partial cfg ft t hbuild hK hB hH ht k f).mpr
      ⟨hp.mem_iff.mpr hc, hk, ha, by rw [shadowed_perm hp]; exact hs⟩, hn⟩

/-- non-vacuity of `O_partial`: the F03a and F03d witnesses, both orders, same set. -/
example :
    [fXstar, fX, fXget].Perm [fXget, fXstar, fX] ∧ keysOK [fXstar, fX, fXget] = true ∧
    Benign [fXstar, fX, fXget] = true ∧
    answer [fXstar, fX, fXget] (req "POST" urlX) = some ⟨true, ["f2", "f0"], [], []⟩ ∧
    answer [fXget, fXstar, fX] (req "POST" urlX) = some ⟨true, ["f2", "f0"], [], []⟩ := by
  refine ⟨?_, by decide, by decide, by decide, by decide⟩
  exact (List.perm_append_comm (l₁ := [fXstar, fX]) (l₂ := [fXget]))

/-- The judge's order check finds nothing to report between two rounds of model answers (two load orders of
    the same flows) outside F03e. -/
theorem judge_order_ok (cfg cfg' : List Flow) (ft ft' : FTree) (reqs reqs' : List Req) (hp : cfg.Perm cfg')
    (hbuild : build cfg = .ok ft) (hbuild' : build cfg' = .ok ft')
    (hB : Benign cfg = true)
    (h : ∀ q ∈ reqs, hostFirst cfg q.txn.parts = true ∧ q.txn.parts ≠ [] ∧ q.ans = observe ft q.txn)
    (h' : ∀ q ∈ reqs', q.ans = observe ft' q.txn)
    (hline : ∀ q ∈ reqs, ∀ q' ∈ reqs', q.line = q'.line → q.txn = q'.txn) :
    roundsAgree ⟨cfg, reqs⟩ ⟨cfg', reqs'⟩ = [] := by
  unfold roundsAgree
  simp only
  cases hK : keysOK cfg with
  | false => rfl
  | true =>
    simp only [Bool.not_true, Bool.false_eq_true, if_false]
    rw [List.filterMap_eq_nil_iff]
    intro q2 hq2
    cases hf : reqs.find? (fun q1 => q1.line == q2.line) with
    | none => rfl
    | some q1 =>
      simp only
      have hq1 : q1 ∈ reqs := List.mem_of_find?_eq_some hf
      have hl : q1.line = q2.line := by simpa using List.find?_some hf
      obtain ⟨hH, ht, ha⟩ := h q1 hq1
      have ha' := h' q2 hq2
      have htx := hline q1 hq1 q2 hq2 hl
      rw [ha, ha', ← htx, O_partial cfg cfg' ft ft' q1.txn hp hbuild hbuild' hK hB hH ht]
      rfl

/-- The tree the driver answers from — flows added one by one, refused ones skipped — is `build` of the
    flows it accepted (the judge's observable configuration). -/
theorem driver_tree_is_build (fs : List Flow) :
    build (((fs.zip (loadSkip .empty fs).2).filter (fun p => p.2.isNone)).map (·.1)) = .ok (loadSkip .empty fs).1 :=
  loadSkip_build fs .empty

/-! ### the raw query string -/

/-- Pieces of the query string that `Query()` drops (bad percent escape, `;`, empty piece) do not affect
    what is read from their well-formed neighbours: the parsed query — hence every presence / value test,
    `applies`, and the selection — is the same with and without them. -/
theorem malformed_neighbours_ignored (a bad b : List String) (hbad : ∀ p ∈ bad, parsePair p = none) :
    parsePieces (a ++ bad ++ b) = parsePieces (a ++ b) := by
  have : bad.filterMap parsePair = [] := by
    rw [List.filterMap_eq_nil_iff]; exact hbad
  simp [parsePieces, List.filterMap_append, this]

/-- … in particular for a transaction: same answer of the model, same verdict of the filter. -/
theorem malformed_neighbours_same_selection (ft : FTree) (f : Flow) (t : Txn) (a bad b : List String)
    (hbad : ∀ p ∈ bad, parsePair p = none) :
    observe ft { t with query := parsePieces (a ++ bad ++ b) } = observe ft { t with query := parsePieces (a ++ b) } ∧
    applies f { t with query := parsePieces (a ++ bad ++ b) } = applies f { t with query := parsePieces (a ++ b) } := by
  rw [malformed_neighbours_ignored a bad b hbad]
  exact ⟨rfl, rfl⟩

/-- what `Query()` drops and what it keeps (the seeds of the generator's odd pieces) -/
example :
    parsePair "ref=100%zz" = none ∧ parsePair "%zz=1" = none ∧ parsePair "utm=a;b" = none ∧ parsePair "" = none ∧
    parsePair "x=%" = none ∧ parsePair "y=%4" = none ∧
    parsePair "q=books" = some ("q", "books") ∧ parsePair "flag" = some ("flag", "") ∧
    parsePair "=v" = some ("", "v") ∧ parsePair "a+b=c+d" = some ("a b", "c d") ∧
    parsePair "%6b=%76" = some ("k", "v") ∧ parsePair "k=v=w" = some ("k", "v=w") ∧
    parsePieces ["q=books", "ref=100%zz", "%zz=1", "k=v"] = [("q", "books"), ("k", "v")] := by decide

/-! ### percent escapes in the transaction URL -/

/-- The URL is matched as sent: `a%2Fb` is ONE segment (`splitURL` splits the raw text, nothing is decoded), so
    `files/{name}` accepts it, `files/{name}/{part}` and the literal `files/a/b` do not — request and response. -/
example :
    let f1 := plain "f1" "a.com/files/{name}" (hostACom ++ [seg "files", ⟨false, .par "name"⟩])
    let f2 := plain "f2" "a.com/files/{name}/{part}" (hostACom ++ [seg "files", ⟨false, .par "name"⟩, ⟨false, .par "part"⟩])
    let f3 := plain "f3" "a.com/files/a/b" (hostACom ++ [seg "files", seg "a", seg "b"])
    let u := hostACom ++ [seg "files", seg "a%2Fb"]
    answer [f1, f2, f3] (req "GET" u) = some ⟨true, ["f1"], [], []⟩ ∧
    answer [f1, f2, f3] { (req "GET" u) with isResp := true, status := 200 } = some ⟨true, ["f1"], [], []⟩ ∧
    verdict [f1, f2, f3] (req "GET" u) = some (true, true, true) := by decide

/-! ### early responses -/

/-- The response walk of an EARLY response (a processor answered the request: the filter tree is asked again
    with the stream switched to the response type and no response object) never selects a flow that carries a
    status-code constraint — for every tree and transaction.  (S, C, O above cover `t.early` like any other
    transaction; `statusOk` of the Spec reads a missing status as "no constraint is met".) -/
theorem early_response_selects_no_status_flow (ft : FTree) (t : Txn) (k : Kind) (f : Flow)
    (h : f ∈ selected ft t.early k) : f.statuses = [] := by
  simp only [selected, List.mem_flatMap, List.mem_filter] at h
  obtain ⟨_, _, _, hv⟩ := h
  simp only [flowValid, isStatusCodeQualified, Txn.early, Bool.and_eq_true] at hv
  have hs := hv.1.1.2
  cases hst : f.statuses with
  | nil => rfl
  | cons a l => simp [hst] at hs

/-- non-vacuity: a status-constrained sibling is left out of the early-response walk, runs on a real 500. -/
example :
    let f500 : Flow := { plain "f1" "a.com/x" (hostACom ++ [seg "x"]) with statuses := [500] }
    answer [fX, f500] (req "GET" urlX).early = some ⟨true, ["f0"], [], []⟩ ∧
    answer [fX, f500] { (req "GET" urlX) with isResp := true, status := 500 } = some ⟨true, ["f0", "f1"], [], []⟩ ∧
    verdict [fX, f500] (req "GET" urlX).early = some (true, true, true) := by decide

/-! ### quota system flows: is folding by `Filter.ToComparable` sound? -/

/-- Two filters that agree on the parts `ToComparable` looks at — same URL parts, same methods, header pairs,
    query pairs and status codes up to ORDER — accept exactly the same transactions: folding their quotas into
    one system flow (which keeps one of the two filters) is sound. -/
theorem same_key_same_acceptance (f g : Flow) (h : SameKey f g) (t : Txn) : applies f t = applies g t := by
  rw [applies_eq, applies_eq, h.parts, sameKey_filterOk h]

/-- Filters with the same key — same raw URL, same sorted methods / header items / query items / status codes —
    whose query parameters all carry a value agree up to order: they are `SameKey` (given that equal URL texts
    split into equal parts, which is what the front end does), hence accept the same transactions. -/
theorem same_compKey_same_acceptance (f g : Flow) (hk : compKey f = compKey g)
    (hparts : f.url = g.url → f.parts = g.parts)
    (hvf : ∀ kv ∈ f.query, kv.2 ≠ none) (hvg : ∀ kv ∈ g.query, kv.2 ≠ none) (t : Txn) :
    applies f t = applies g t := by
  have hq : f.query.Perm g.query := by
    have hm : (f.query.map fun kv => (kv.1, kv.2.getD "")).Perm (g.query.map fun kv => (kv.1, kv.2.getD "")) :=
      perm_of_sortBy_eq (congrArg CompKey.query hk)
    have hf : f.query = (f.query.map fun kv => (kv.1, kv.2.getD "")).map fun p => (p.1, some p.2) := by
      rw [List.map_map]
      conv => lhs; rw [← List.map_id f.query]
      apply List.map_congr_left
      intro kv hkv
      obtain ⟨k, v⟩ := kv
      cases v with
      | none => exact absurd rfl (hvf _ hkv)
      | some v => rfl
    have hg : g.query = (g.query.map fun kv => (kv.1, kv.2.getD "")).map fun p => (p.1, some p.2) := by
      rw [List.map_map]
      conv => lhs; rw [← List.map_id g.query]
      apply List.map_congr_left
      intro kv hkv
      obtain ⟨k, v⟩ := kv
      cases v with
      | none => exact absurd rfl (hvg _ hkv)
      | some v => rfl
    rw [hf, hg]
    exact hm.map _
  exact same_key_same_acceptance f g
    ⟨hparts (congrArg CompKey.url hk), perm_of_sortBy_eq (congrArg CompKey.method hk),
     perm_of_sortBy_eq (congrArg CompKey.headers hk), hq, perm_of_sortBy_eq (congrArg CompKey.status hk)⟩ t

/-- quota ids run for `t` (`none`: a load error) -/
def runOf (qs : List Flow) (t : Txn) : Option (List String) :=
  match quotasRun qs t with
  | .ok l => some l
  | .error _ => none

def qOn (name : String) (ms : List String) : Flow :=
  { plain name "a.com/x" (hostACom ++ [seg "x"]) with kind := .sysStart, methods := ms }

def fQk : Flow := { plain "qK" "a.com/x" (hostACom ++ [seg "x"]) with kind := .sysStart, query := [("k", none)] }
def fQe : Flow := { plain "qE" "a.com/x" (hostACom ++ [seg "x"]) with kind := .sysStart, query := [("k", some "")] }

/-- The key is COARSER than the filter in one respect (besides separators inside tokens): a query parameter
    required without a value and one required with the empty value both render as `k=`, yet the first accepts
    `?k=v` and the second does not — two such quotas on one URL are folded and the later one runs by the filter
    of the first. -/
theorem key_collapses_valueless_and_empty_value :
    compKey fQk = compKey fQe ∧
    applies fQk (req "GET" urlX [("k", "v")]) = true ∧ applies fQe (req "GET" urlX [("k", "v")]) = false ∧
    runOf [fQk, fQe] (req "GET" urlX [("k", "v")]) = some ["qK", "qE", "qK", "qE"] := by decide

/-- non-vacuity / regression (seed C03-s11): GET and POST limits on one URL get different keys, a reordered
    method list the same key; every quota runs exactly for the methods its own filter accepts. -/
example :
    compKey (qOn "qG" ["GET"]) ≠ compKey (qOn "qP" ["POST"]) ∧
    compKey (qOn "qB" ["GET", "POST"]) = compKey (qOn "qC" ["POST", "GET"]) ∧
    (groupQuotas [qOn "qG" ["GET"], qOn "qP" ["POST"], qOn "qB" ["GET", "POST"], qOn "qC" ["POST", "GET"]]).map
      (·.members) = [["qG"], ["qP"], ["qB", "qC"]] ∧
    runOf [qOn "qG" ["GET"], qOn "qP" ["POST"]] (req "GET" urlX) = some ["qG", "qG"] ∧
    runOf [qOn "qG" ["GET"], qOn "qP" ["POST"]] (req "POST" urlX) = some ["qP", "qP"] ∧
    runOf [qOn "qG" ["GET"], qOn "qP" ["POST"]] (req "DELETE" urlX) = some [] := by decide

/-! ### the open class: F03e (remaining half) -/

/-- F03e.  `a.com/x` and `a.com.x` share a trie node (children are keyed by value only); the later flow
    replaces the node and is selected for the URL of the earlier one, which is lost. -/
theorem boundary_cfg_violation_witness :
    cfgBoundaryMix [fX, plain "f9" "a.com.x" [⟨true, .lit "a"⟩, ⟨true, .lit "com"⟩, ⟨true, .lit "x"⟩]] = true ∧
    verdict [fX, plain "f9" "a.com.x" [⟨true, .lit "a"⟩, ⟨true, .lit "com"⟩, ⟨true, .lit "x"⟩]] (req "GET" urlX) =
      some (false, false, true) := by decide

/-- F03e.  `a.com/*` and `a.com.*` share the wildcard node: the later insert replaces it and the earlier flow
    is lost for the URLs on its side. -/
theorem boundary_wild_cfg_violation_witness :
    cfgBoundaryMix [fStar, plain "f9" "a.com.*" [⟨true, .lit "a"⟩, ⟨true, .lit "com"⟩, ⟨true, .wild⟩]] = true ∧
    verdict [fStar, plain "f9" "a.com.*" [⟨true, .lit "a"⟩, ⟨true, .lit "com"⟩, ⟨true, .wild⟩]] (req "GET" urlX) =
      some (true, false, true) := by decide

/-! ### the repaired findings: their old witnesses now satisfy the property -/

/-- F03a repaired: a GET-only flow next to an unconstrained one on the same URL, both orders. -/
theorem regress_F03a :
    answer [fX, fXget] (req "POST" urlX) = some ⟨true, ["f0"], [], []⟩ ∧
    answer [fXget, fX] (req "HEAD" urlX) = some ⟨true, ["f0"], [], []⟩ ∧
    verdict [fX, fXget] (req "POST" urlX) = some (true, true, true) ∧
    verdict [fXget, fX] (req "HEAD" urlX) = some (true, true, true) := by decide

/-- F03b repaired: `a.com/x` is not selected for `a.com/x/y`. -/
theorem regress_F03b :
    answer [fX] (req "GET" urlXY) = some ⟨false, [], [], []⟩ ∧
    verdict [fX] (req "GET" urlXY) = some (true, true, true) := by decide

/-- F03c repaired: `a.com/x` selects both the `/*` flow and the literal flow. -/
theorem regress_F03c :
    answer [fX, fXstar] (req "GET" urlX) = some ⟨true, ["f2", "f0"], [], []⟩ ∧
    verdict [fX, fXstar] (req "GET" urlX) = some (true, true, true) := by decide

/-- F03d repaired: the literal flow is no longer attached to the wildcard node, whatever the order. -/
theorem regress_F03d :
    answer [fXstar, fX] (req "GET" urlXYZ) = some ⟨true, ["f2"], [], []⟩ ∧
    answer [fX, fXstar] (req "GET" urlXYZ) = some ⟨true, ["f2"], [], []⟩ ∧
    verdict [fXstar, fX] (req "GET" urlXYZ) = some (true, true, true) := by decide

/-- F03e, wildcard half, repaired: `a.com/*` is not selected for the HOST `a.com.evil.org` (and still is for
    paths under `a.com`). -/
theorem regress_F03e_wildcard :
    answer [fStar] (req "GET" [⟨true, .lit "a"⟩, ⟨true, .lit "com"⟩, ⟨true, .lit "evil"⟩, ⟨true, .lit "org"⟩]) =
      some ⟨false, [], [], []⟩ ∧
    verdict [fStar] (req "GET" [⟨true, .lit "a"⟩, ⟨true, .lit "com"⟩, ⟨true, .lit "evil"⟩, ⟨true, .lit "org"⟩]) =
      some (true, true, true) ∧
    answer [fStar] (req "GET" urlXY) = some ⟨true, ["f3"], [], []⟩ := by decide

/-- F03f repaired: `{id}` does not accept an empty segment. -/
theorem regress_F03f :
    verdict [fUsers] (req "GET" (hostACom ++ [seg "users", seg "", seg "posts"])) = some (true, true, true) ∧
    answer [fUsers] (req "GET" (hostACom ++ [seg "users", seg "", seg "posts"])) = some ⟨false, [], [], []⟩ := by
  decide

/-- F03g repaired: two flows on the untrimmed URL `a.com/x/` share one node. -/
theorem regress_F03g :
    answer [fXslash "f0", fXslash "f1"] (req "GET" urlX) = some ⟨true, ["f0", "f1"], [], []⟩ ∧
    verdict [fXslash "f0", fXslash "f1"] (req "GET" urlX) = some (true, true, true) := by decide

/-- F03h repaired: a system flow without method filter is applied to `HEAD`. -/
theorem regress_F03h :
    answer [fXsys] (req "HEAD" urlX) = some ⟨true, [], ["q0"], []⟩ ∧
    verdict [fXsys] (req "HEAD" urlX) = some (true, true, true) := by decide

/-- F03i repaired: a query parameter required without a value accepts `?k=v`; its absence still refuses. -/
theorem regress_F03i :
    verdict [fXq] (req "GET" urlX [("k", "v")]) = some (true, true, true) ∧
    answer [fXq] (req "GET" urlX [("k", "v")]) = some ⟨true, ["f5"], [], []⟩ ∧
    answer [fXq] (req "GET" urlX) = some ⟨false, [], [], []⟩ := by decide

/-- The judge names no finding exactly when the input is `Benign`. -/
theorem classify_iff_benign (cfg : List Flow) : classify cfg = "-" ↔ Benign cfg = true :=
  classify_benign cfg

end LunarVerif.C03
