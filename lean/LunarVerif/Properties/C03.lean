import LunarVerif.Proofs.C03
namespace LunarVerif.C03
open LunarVerif.UrlTree LunarVerif.UrlMatch

theorem placeholder : True := trivial

end LunarVerif.C03
