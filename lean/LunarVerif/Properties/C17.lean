import LunarVerif.Proofs.C17
/-!
# C17 — Retries are bounded by the configured number of attempts

Property theorems only (helpers live in `Proofs/C17.lean`).  Flows mode: `Model.C17.fstep` is one
`retryProcessor.Execute`; histories are arbitrary lists of executions, each naming its processor
settings and its counter key (`<processor>::retry_counter::<sequence id>`), so interleavings of any
number of sequences and processors sharing one flow context are covered.  Policy mode:
`Model.C17.presp` is one `RetryPlugin.OnResponse`; histories are arbitrary lists of responses
(sequence, first-flag, status) interleaved with arbitrary passages of time in which the cache's
TTL timers do (`adv`) or do not yet (`jump`) fire.
-/
namespace LunarVerif.C17

/-! ## flows mode -/

/-- Connection theorem: the judge predicate holds of every run of the model — the `(n+1)`-th
    consecutive call on a counter key is answered `retry` (with the configured cool-down) while
    `n+1 ≤ attempts`, `failed` after that, and the count restarts after `failed`. -/
theorem flows_holds (ops : List FOp) : fholds (frun [] ops) = true := by
  have := (frun_holds ops [] [] finv_init rfl).1
  simpa [fholds] using this

/-- Bound: for every history, every counter key `k` whose executions all carry `attempts = A`, and
    every stretch `seg` of the history without a `failed` on `k` (in particular between two
    consecutive `failed`, or from the start to the first one), at most `A` answers on `k` are
    `retry`. -/
theorem flows_bound (ops : List FOp) (k : Key) (A : Nat)
    (hA : ∀ o ∈ ops, o.key = k → o.cfg.attempts = A)
    (pre seg post : List FEvent) (hsplit : frun [] ops = pre ++ seg ++ post)
    (hnf : noFailedOn k seg = true) : countRetryOn k seg ≤ A := by
  have h := flows_holds ops
  rw [fholds, hsplit] at h
  simp only [List.reverse_append, List.append_assoc] at h
  have h2 := fholdsRev_append_right _ _ h
  have hA' : ∀ e ∈ seg.reverse ++ pre.reverse, e.key = k → e.cfg.attempts = A := by
    intro e he hk
    have hmem : e ∈ frun [] ops := by
      rw [hsplit]
      simp only [List.mem_append, List.mem_reverse] at he
      simp only [List.mem_append]
      rcases he with he | he
      · exact Or.inl (Or.inr he)
      · exact Or.inl (Or.inl he)
    obtain ⟨o, ho, hc, hkey⟩ := frun_mem ops [] e hmem
    rw [hc]; exact hA o ho (by rw [← hkey]; exact hk)
  have h3 := retriesSince_le k A _ h2 hA'
  rw [retriesSince_append k seg _ hnf] at h3
  omega

/-- After `failed` the counter is gone, so a later call on the same key (by a processor with at
    least one attempt) starts from 1: it is answered `retry` with the first cool-down. -/
theorem flows_fresh_after_failed (p p' : PCfg) (m : AMap Nat) (k : Key)
    (hf : (fstep p m k).2 = .failed) (h1 : 1 ≤ p'.attempts) :
    lookup k (fstep p m k).1 = none ∧
    (fstep p' (fstep p m k).1 k).2 = .retry (waitSec p' 1) := by
  have hnone : lookup k (fstep p m k).1 = none := by
    unfold fstep at hf ⊢
    dsimp only at hf ⊢
    split
    · exact lookup_erase_same _ _
    · rename_i hgt; simp [hgt] at hf
  refine ⟨hnone, ?_⟩
  generalize (fstep p m k).1 = m' at hnone
  unfold fstep
  simp only [hnone, Option.getD_none]
  have : ¬ (0 + 1 > p'.attempts) := by omega
  simp [this]

/-- Interleaving independence (frame property of the counter map): the answers given on counter
    key `k` within any history are exactly the answers of the run restricted to the executions on
    `k` — executions on other keys (other sequences, other processors) have no influence. -/
theorem flows_interleaving_independent (ops : List FOp) (k : Key) :
    (frun [] ops).filter (fun e => decide (e.key = k)) =
      frun [] (ops.filter fun o => decide (o.key = k)) :=
  frun_filter k ops [] [] rfl

/-- Observation (not a violation of the bound): nothing but `failed` removes a counter.  After any
    history the counter of `k` is present exactly when `k`'s last answers were `retry`s — also when
    the retried call then succeeded and the processor was never asked again. -/
theorem flows_counter_kept_until_failed (ops : List FOp) (k : Key) :
    lookup k (ffinal [] ops) =
      (if retriesSince k (frun [] ops).reverse = 0 then none
       else some (retriesSince k (frun [] ops).reverse)) := by
  have := (frun_holds ops [] [] finv_init rfl).2 k
  simpa using this

/-! ## policy mode -/

/-- Connection theorem: the judge predicate holds of every run of the model, for every configured
    `attempts` (zero or negative included: then no retry header is ever answered). -/
theorem policy_monitor (cfg : RCfg) (t0 : Nat) (ops : List POp) :
    pholds cfg.attempts (prun cfg (PState.init t0) ops) = true :=
  prun_holds cfg ops _ _ (pinv_init t0)

/-- Bound: for every history and every sequence `s`, the number of retry headers answered on `s`
    is at most `attempts` per in-range *first* response of `s` (a well-formed sequence has exactly
    one first response, so at most `attempts` retries; none at all when `attempts ≤ 0`). -/
theorem policy_bound (cfg : RCfg) (t0 : Nat) (ops : List POp) (s : Key) :
    countRetryHdr s (prun cfg (PState.init t0) ops) ≤
      cfg.attempts.toNat * countFirstIn s (prun cfg (PState.init t0) ops) := by
  have h := pholdsFrom_bound cfg.attempts s _ [] (policy_monitor cfg t0 ops)
  simpa [lookup] using h

/-- With no attempt configured nothing is ever retried (the former finding F17a). -/
theorem policy_no_attempts_no_retry (cfg : RCfg) (t0 : Nat) (ops : List POp) (s : Key)
    (hA : cfg.attempts < 1) : countRetryHdr s (prun cfg (PState.init t0) ops) = 0 := by
  have h := policy_bound cfg t0 ops s
  have : cfg.attempts.toNat = 0 := by omega
  rw [this] at h
  omega

/-- Fresh start: an in-range *first* response (`ID = SequenceID`) is always answered with a retry
    header when at least one attempt is configured — whatever happened to the sequence id before. -/
theorem policy_first_response_retried (cfg : RCfg) (s : PState) (seq : Key) (status : Int)
    (hr : inRange cfg status = true) (hA : 1 ≤ cfg.attempts) :
    ∃ n, (presp cfg s seq true status).2 = .retry n := by
  unfold presp
  have hA' : ¬ cfg.attempts < 1 := by omega
  cases hg : cacheGet s seq with
  | some e =>
    by_cases hx : e.left - 1 < 1
    · exact ⟨e.next, by simp [hr, hx]⟩
    · exact ⟨e.next, by simp [hr, hx]⟩
  | none =>
    by_cases hx : cfg.attempts - 1 < 1
    · exact ⟨cfg.cooldown, by simp [hr, hA', hx]⟩
    · exact ⟨cfg.cooldown, by simp [hr, hA', hx]⟩

/-- ... and when the sequence is forgotten (exhausted, ended by an out-of-range response, expired)
    the first response of its new life gets the full set again: the initial cool-down, and
    `attempts - 1` attempts left in the stored state. -/
theorem policy_fresh_start_after_forgotten (cfg : RCfg) (s : PState) (seq : Key) (status : Int)
    (hr : inRange cfg status = true) (hg : cacheGet s seq = none) (hA : 2 ≤ cfg.attempts) :
    (presp cfg s seq true status).2 = .retry cfg.cooldown ∧
    ∃ e, lookup seq (presp cfg s seq true status).1.cache = some e ∧ e.left = cfg.attempts - 1 := by
  unfold presp
  have hA' : ¬ cfg.attempts < 1 := by omega
  have hx : ¬ cfg.attempts - 1 < 1 := by omega
  simp [hr, hg, hA', hx, lookup_insert_same]

/-- A response outside the retry conditions is answered NoOp and the sequence's state is deleted. -/
theorem policy_out_of_range_ends (cfg : RCfg) (s : PState) (seq : Key) (first : Bool) (status : Int)
    (h : inRange cfg status = false) :
    (presp cfg s seq first status).2 = .noop ∧
    lookup seq (presp cfg s seq first status).1.cache = none := by
  unfold presp
  simp [h, lookup_erase_same]

/-- A non-first response of a sequence without (live) state is answered NoOp, whatever its status,
    and creates no state. -/
theorem policy_non_first_without_state_noop (cfg : RCfg) (s : PState) (seq : Key) (status : Int)
    (h : cacheGet s seq = none) :
    (presp cfg s seq false status).2 = .noop ∧
    cacheGet (presp cfg s seq false status).1 seq = none := by
  unfold presp
  by_cases hr : inRange cfg status = true
  · simp [hr, h]
  · have hr' : inRange cfg status = false := by simpa using hr
    simp [hr', cacheGet, lookup_erase_same]

/-- Exhaustion: the retry header that uses the last attempt deletes the sequence's state. -/
theorem policy_exhaustion_deletes (cfg : RCfg) (s : PState) (seq : Key) (first : Bool) (status : Int)
    (e : Entry) (hr : inRange cfg status = true) (hg : cacheGet s seq = some e) (hl : e.left ≤ 1) :
    (presp cfg s seq first status).2 = .retry e.next ∧
    lookup seq (presp cfg s seq first status).1.cache = none := by
  unfold presp
  have : e.left - 1 < 1 := by omega
  simp [hr, hg, this, lookup_erase_same]

/-! ### Non-vacuity -/

/-- flows: attempts = 2, two interleaved sequences: each gets two `retry` then `failed`, then starts afresh. -/
example :
    (frun [] [⟨⟨2, 1, 2⟩, "R::retry_counter::s1"⟩, ⟨⟨2, 1, 2⟩, "R::retry_counter::s2"⟩,
              ⟨⟨2, 1, 2⟩, "R::retry_counter::s1"⟩, ⟨⟨2, 1, 2⟩, "R::retry_counter::s1"⟩,
              ⟨⟨2, 1, 2⟩, "R::retry_counter::s1"⟩]).map (·.out)
      = [.retry 1, .retry 1, .retry 2, .failed, .retry 1] := by decide

/-- flows_bound's hypotheses are met with a non-empty stretch reaching the bound exactly. -/
example :
    countRetryOn "k" (frun [] [⟨⟨2, 0, 0⟩, "k"⟩, ⟨⟨2, 0, 0⟩, "j"⟩, ⟨⟨2, 0, 0⟩, "k"⟩]) = 2 ∧
    noFailedOn "k" (frun [] [⟨⟨2, 0, 0⟩, "k"⟩, ⟨⟨2, 0, 0⟩, "j"⟩, ⟨⟨2, 0, 0⟩, "k"⟩]) = true := by decide

/-- flows_fresh_after_failed's hypothesis is reachable (counter at 1, attempts = 1). -/
example : (fstep ⟨1, 0, 0⟩ [("k", 1)] "k").2 = .failed := by decide

/-- the leak: sequence `s1` was retried once and never failed — its counter stays. -/
example : lookup "R::retry_counter::s1" (ffinal [] [⟨⟨3, 0, 0⟩, "R::retry_counter::s1"⟩]) = some 1 := by decide

/-- policy: attempts = 2, cool-down 5 × 2: two retry headers (5, 10), then NoOp; an out-of-range status is NoOp. -/
example :
    (prun ⟨2, 5, 2, [(500, 502), (504, 599)]⟩ (PState.init 0)
      [.resp "a" true 500, .resp "a" false 504, .resp "a" false 500, .resp "b" true 503]).map (·.out)
      = [.retry 5, .retry 10, .noop, .noop] := by decide

/-- policy: TTL expiry between retries — after 36 s + 1 ns the state (TTL 5+30+1 s) is gone. -/
example :
    (prun ⟨3, 5, 1, [(500, 599)]⟩ (PState.init 0)
      [.resp "a" true 500, .jump 36000000001, .resp "a" false 500]).map (·.out)
      = [.retry 5, .noop] := by decide

/-- policy: a stale timer of an earlier `Set` deletes the re-set state early (observation). -/
example :
    (prun ⟨3, 0, 1, [(500, 599)]⟩ (PState.init 0)
      [.resp "a" true 500, .adv 20000000000, .resp "a" false 500, .adv 11000000000,
       .resp "a" false 500]).map (·.out)
      = [.retry 0, .retry 0, .noop] := by decide

/-- policy, attempts = 0 (former F17a witness): the first in-range response is answered NoOp. -/
example : (prun ⟨0, 0, 1, [(500, 599)]⟩ (PState.init 0) [.resp "s1" true 500]).map (·.out) = [.noop] := by
  decide

/-- policy: a sequence id re-used by a new logical call right after exhaustion starts afresh. -/
example :
    (prun ⟨2, 0, 1, [(500, 599)]⟩ (PState.init 0)
      [.resp "a" true 500, .resp "a" false 500, .resp "a" true 500, .resp "a" false 500,
       .resp "a" false 500]).map (·.out)
      = [.retry 0, .retry 0, .retry 0, .retry 0, .noop] := by decide

/-- policy_exhaustion_deletes / policy_non_first_without_state_noop: hypotheses reachable. -/
example : cacheGet (presp ⟨2, 0, 1, [(500, 599)]⟩ (PState.init 0) "a" true 500).1 "a"
    = some ⟨1, 0, 31000000000⟩ := by decide
example : cacheGet (PState.init 0) "a" = none := by decide

end LunarVerif.C17
