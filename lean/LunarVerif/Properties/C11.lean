import LunarVerif.Proofs.C11
import LunarVerif.Proofs.C11Glue
import LunarVerif.Generated.Constants
/-!
# C11 — A transaction sees one policy version from request to response

Property theorems only (helpers live in `Proofs/C11.lean`).  The model is `Model/C11.lean`
(`step` = `GetTxnPoliciesData` / `UpdatePoliciesData` / one `MapVacuum.vacuum()` run of either vacuum /
passage of time).  All statements quantify over every configuration with `pinTTL ≤ verTTL` (both are
`staleVersionTTL` = 30 s in `policies_accessor.go`), every initial instant and every finite list of
primitive steps: lookups of any transactions, applied and rejected updates (a reload and a fail-safe
revert are the same `UpdatePoliciesData`), vacuum runs at ARBITRARY positions (so arbitrarily late
ticks, in any interleaving of the two vacuums) and arbitrary clock advances.
-/
namespace LunarVerif.C11

/-- Connection theorem: the judge predicate `Spec.C11.holds` is true of the observable history of
    EVERY model run.  (A fresh transaction gets the policies in force; within the retention period a
    transaction keeps getting what its first lookup got; no lookup yields the empty policies.) -/
theorem c11_holds (cfg : Cfg) (hT : cfg.pinTTL ≤ cfg.verTTL) (t0 : Nat) (ops : List Op) :
    holds cfg (run cfg (init cfg t0) ops) = true := by
  have := (run_holds cfg hT ops (init cfg t0) [] (inv_init cfg t0) rfl).1
  simpa [holds] using this

/-- `pin_stable`: if the first lookup of transaction `x` happened at `t1` and answered `r1`, then
    every later lookup of `x` at an instant `t2 ≤ t1 + pinTTL` answers `r1` again - whatever
    updates, reverts, vacuum runs and other transactions lie in between - and `r1` is the data that
    was in force when `x` was first seen. -/
theorem pin_stable (cfg : Cfg) (hT : cfg.pinTTL ≤ cfg.verTTL) (t0 : Nat) (ops : List Op)
    (pre mid post : List Ev) (x t1 t2 : Nat) (r1 r2 : Option Nat)
    (hsplit : run cfg (init cfg t0) ops = pre ++ .lookup t1 x r1 :: (mid ++ .lookup t2 x r2 :: post))
    (hfirst : noLookupOf x pre) (hle : t2 ≤ t1 + cfg.pinTTL) :
    r2 = r1 ∧ r1 = some (curData cfg.d0 pre.reverse) := by
  have h := c11_holds cfg hT t0 ops
  rw [holds, hsplit] at h
  simp only [List.reverse_append, List.reverse_cons, List.append_assoc, List.singleton_append] at h
  have hnone : firstLookup pre.reverse x = none :=
    firstLookup_none_of_noLookup _ x (fun t r hm => hfirst t r (List.mem_reverse.mp hm))
  have h2 := holdsRev_append_right _ _ post.reverse _ h
  have e2 : eventOk cfg.pinTTL cfg.d0 (.lookup t2 x r2) (mid.reverse ++ .lookup t1 x r1 :: pre.reverse) = true :=
    holdsRev_head _ _ _ _ h2
  have e1 : eventOk cfg.pinTTL cfg.d0 (.lookup t1 x r1) pre.reverse = true :=
    holdsRev_head _ _ _ _ (holdsRev_append_right _ _ (.lookup t2 x r2 :: mid.reverse) _ h2)
  have hf : firstLookup (mid.reverse ++ Ev.lookup t1 x r1 :: pre.reverse) x = some (t1, r1) := by
    rw [firstLookup_append, firstLookup_lookup_none _ _ _ _ _ hnone]; simp
  simp only [eventOk, hnone, beq_iff_eq] at e1
  simp only [eventOk, hf, Bool.and_eq_true, Bool.or_eq_true, Bool.not_eq_true',
    decide_eq_false_iff_not, beq_iff_eq] at e2
  refine ⟨?_, e1⟩
  rcases e2.2 with hn | heq
  · exact absurd hle hn
  · exact heq

/-- `new_txn_new_version`: the first lookup of a transaction answers with the policies in force at
    that moment (the data of the latest applied update, else the initial policies). -/
theorem new_txn_new_version (cfg : Cfg) (hT : cfg.pinTTL ≤ cfg.verTTL) (t0 : Nat) (ops : List Op)
    (pre post : List Ev) (x t : Nat) (r : Option Nat)
    (hsplit : run cfg (init cfg t0) ops = pre ++ .lookup t x r :: post)
    (hfirst : noLookupOf x pre) :
    r = some (curData cfg.d0 pre.reverse) := by
  have h := c11_holds cfg hT t0 ops
  rw [holds, hsplit] at h
  simp only [List.reverse_append, List.reverse_cons, List.append_assoc, List.singleton_append] at h
  have hnone : firstLookup pre.reverse x = none :=
    firstLookup_none_of_noLookup _ x (fun t r hm => hfirst t r (List.mem_reverse.mp hm))
  have e1 := holdsRev_head _ _ _ _ (holdsRev_append_right _ _ post.reverse _ h)
  simpa only [eventOk, hnone, beq_iff_eq] using e1

/-- ... in particular a transaction that starts after an update (reload or revert) with data `d`,
    with no further update in between, is answered with `d`. -/
theorem new_txn_after_update (cfg : Cfg) (hT : cfg.pinTTL ≤ cfg.verTTL) (t0 : Nat) (ops : List Op)
    (pre mid post : List Ev) (x t tu d : Nat) (r : Option Nat)
    (hsplit : run cfg (init cfg t0) ops = pre ++ .update tu d :: (mid ++ .lookup t x r :: post))
    (hfirst : noLookupOf x (pre ++ .update tu d :: mid)) (hmid : noUpdate mid) :
    r = some d := by
  have hsplit' : run cfg (init cfg t0) ops = (pre ++ .update tu d :: mid) ++ .lookup t x r :: post := by
    rw [hsplit]; simp
  rw [new_txn_new_version cfg hT t0 ops _ post x t r hsplit' hfirst]
  simp only [List.reverse_append, List.reverse_cons, List.append_assoc, List.singleton_append]
  rw [curData_append_noUpdate _ _ _ (fun t d hm => hmid t d (List.mem_reverse.mp hm))]
  rfl

/-- No lookup ever yields the empty policies (`&PoliciesData{}`). -/
theorem lookup_never_empty (cfg : Cfg) (hT : cfg.pinTTL ≤ cfg.verTTL) (t0 : Nat) (ops : List Op)
    (t x : Nat) (r : Option Nat) (hm : Ev.lookup t x r ∈ run cfg (init cfg t0) ops) :
    ∃ d, r = some d := by
  obtain ⟨pre, post, hsplit⟩ := List.append_of_mem hm
  have h := c11_holds cfg hT t0 ops
  rw [holds, hsplit] at h
  simp only [List.reverse_append, List.reverse_cons, List.append_assoc, List.singleton_append] at h
  have e1 := holdsRev_head _ _ _ _ (holdsRev_append_right _ _ post.reverse _ h)
  simp only [eventOk] at e1
  cases hf : firstLookup pre.reverse x with
  | none => rw [hf] at e1; exact ⟨_, by simpa using e1⟩
  | some p =>
    rw [hf] at e1
    simp only [Bool.and_eq_true] at e1
    exact Option.isSome_iff_exists.mp e1.1

/-- `version_outlives_pins` (invariant of every reachable state): a pin whose queue entry has not
    expired (`now ≤ vacuumAt`, i.e. the pin is at most `pinTTL` old) points to a retained version. -/
theorem version_outlives_pins (cfg : Cfg) (hT : cfg.pinTTL ≤ cfg.verTTL) (t0 : Nat) (ops : List Op)
    (x v e : Nat)
    (hpin : mfind x (runSt cfg (init cfg t0) ops).pins = some v)
    (hq : (e, x) ∈ (runSt cfg (init cfg t0) ops).pinQ)
    (hlive : (runSt cfg (init cfg t0) ops).now ≤ e) :
    ∃ d, mfind v (runSt cfg (init cfg t0) ops).versions = some d := by
  have hinv := (run_holds cfg hT ops (init cfg t0) [] (inv_init cfg t0) rfl).2
  obtain ⟨e', he', hc⟩ := hinv.pinOk x v hpin
  have : e' = e := key_unique _ hinv.pinQnd _ _ x he' hq
  subst this
  rcases hc with a | ⟨te, hte, _⟩ | c
  · rw [a]; exact ⟨_, hinv.curData⟩
  · exact hinv.verQin _ hte
  · omega

/-- ... and every pin has exactly such a queue entry, created `pinTTL` after an instant not later than now. -/
theorem pin_has_entry (cfg : Cfg) (hT : cfg.pinTTL ≤ cfg.verTTL) (t0 : Nat) (ops : List Op) (x v : Nat)
    (hpin : mfind x (runSt cfg (init cfg t0) ops).pins = some v) :
    ∃ e, (e, x) ∈ (runSt cfg (init cfg t0) ops).pinQ ∧
      e ≤ (runSt cfg (init cfg t0) ops).now + cfg.pinTTL := by
  have hinv := (run_holds cfg hT ops (init cfg t0) [] (inv_init cfg t0) rfl).2
  obtain ⟨e, he, _⟩ := hinv.pinOk x v hpin
  exact ⟨e, he, hinv.pinQle _ he⟩

/-- Finer interleaving: a reload that completes while a NEW transaction is being anchored - after
    `setTxnVersion` has written the anchor under the lock, before `GetTxnPoliciesData` reads the anchored
    version - does not change what that lookup returns: it is the same as the lookup followed by the reload. -/
theorem anchored_read_survives_reload (cfg : Cfg) (hT : cfg.pinTTL ≤ cfg.verTTL) (t0 : Nat) (ops : List Op)
    (x d : Nat) (hfresh : mfind x (runSt cfg (init cfg t0) ops).pins = none) :
    getData (step cfg (step cfg (runSt cfg (init cfg t0) ops) (.lookup x)).1 (.update d true)).1
        (runSt cfg (init cfg t0) ops).cur =
      getData (step cfg (runSt cfg (init cfg t0) ops) (.lookup x)).1 (runSt cfg (init cfg t0) ops).cur := by
  have hinv := (run_holds cfg hT ops (init cfg t0) [] (inv_init cfg t0) rfl).2
  have hc := hinv.curData
  rw [step_lookup_fresh cfg _ x hfresh]
  simp only [step, getData]
  rw [mfind_minsert_ne _ _ _ _ (by omega), hc]

/-- `queue_sorted`: both vacuum queues are always in `vacuumAt` order (no hypothesis on the ttls). -/
theorem queue_sorted (cfg : Cfg) (t0 : Nat) (ops : List Op) :
    sortedQ (runSt cfg (init cfg t0) ops).pinQ ∧ sortedQ (runSt cfg (init cfg t0) ops).verQ := by
  have := qinv_run cfg ops (init cfg t0) (qinv_init cfg t0)
  exact ⟨this.pinSorted, this.verSorted⟩

/-- ... hence the loop that `break`s at the first unexpired entry removes every expired entry: right
    after a vacuum run no entry with `vacuumAt < now` is left in that queue. -/
theorem vacuum_complete (cfg : Cfg) (t0 : Nat) (ops : List Op) :
    (∀ p ∈ (step cfg (runSt cfg (init cfg t0) ops) .vacPins).1.pinQ,
        (runSt cfg (init cfg t0) ops).now ≤ p.1) ∧
    (∀ p ∈ (step cfg (runSt cfg (init cfg t0) ops) .vacVers).1.verQ,
        (runSt cfg (init cfg t0) ops).now ≤ p.1) := by
  have hs := queue_sorted cfg t0 ops
  exact ⟨dropExpired_complete _ _ hs.1, dropExpired_complete _ _ hs.2⟩

/-- The hypothesis `pinTTL ≤ verTTL` is necessary: with a shorter version retention a pinned
    transaction is answered with other policies inside its retention period. -/
theorem pin_stable_needs_ttl_order :
    ∃ (cfg : Cfg) (ops : List Op), ¬ holds cfg (run cfg (init cfg 0) ops) = true :=
  ⟨⟨10, 0, 0⟩, [.lookup 0, .update 1 true, .advance 1, .vacVers, .lookup 0], by decide⟩

/-! ### Non-vacuity -/

/-- The constants of `policies_accessor.go` (30 s / 30 s) satisfy the hypothesis. -/
example : (⟨30000000000, 30000000000, 0⟩ : Cfg).pinTTL ≤ (⟨30000000000, 30000000000, 0⟩ : Cfg).verTTL := by
  decide

/-- A concrete history (ttl 30): txn 0 pinned at 0 to data 7, update to 9, at exactly 30 both vacuums
    run and txn 0 still gets 7 while the new txn 1 gets 9; one ns later the pin is vacuumed and txn 0
    gets 9. -/
example :
    run ⟨30, 30, 7⟩ (init ⟨30, 30, 7⟩ 0)
      [.lookup 0, .update 9 true, .advance 30, .vacPins, .vacVers, .lookup 0, .lookup 1,
       .advance 1, .vacPins, .vacVers, .lookup 0]
    = [.lookup 0 0 (some 7), .update 0 9, .lookup 30 0 (some 7), .lookup 30 1 (some 9),
       .lookup 31 0 (some 9)] := by
  decide

/-- A reachable state with a live pin to a superseded, still retained version (hypotheses of
    `version_outlives_pins` are satisfiable, with `v ≠ cur`). -/
example :
    let s := runSt ⟨30, 30, 7⟩ (init ⟨30, 30, 7⟩ 0) [.lookup 0, .update 9 true, .advance 30, .vacPins, .vacVers]
    mfind 0 s.pins = some 1 ∧ (30, 0) ∈ s.pinQ ∧ s.now ≤ 30 ∧ s.cur = 2 ∧ mfind 1 s.versions = some 7 := by
  decide

/-- The Spec predicate is not trivially true: a history in which a pinned transaction changes its
    answer inside the retention period is rejected. -/
example : holds ⟨30, 30, 7⟩ [.lookup 0 0 (some 7), .update 0 9, .lookup 30 0 (some 9)] = false := by
  decide

/-! ## Level 2: the handler glue (`routing/messages_handler.go`, policy mode)

Model `Model/C11Glue.lean`: `processRequest` and `processResponse` both look the policies up by the
transaction's OWN id; the accessor is the model above; the retry "lens" (`retryLens`) is what makes the
version used by the response path observable.  Spec `Spec/C11Glue.lean` (observable history only).
All request/response messages (first and retried attempts of any sequences, responses without a
request, repeated responses), applied and rejected reloads and reverts, in any order. -/

/-- Connection theorem of the glue level: the judge predicate `gHolds` is true of every model run -
    every message of a transaction, request or response, is processed with the policies that were in
    force when that transaction (not its sequence) was first seen. -/
theorem c11_glue_holds (cfg : Cfg) (t0 : Nat) (gops : List GOp) :
    gHolds cfg (grun cfg (ginit cfg t0) gops) = true := by
  have := grun_holds cfg gops (ginit cfg t0) [] (ginv_init cfg t0) rfl
  simpa [gHolds] using this

/-- The response of a transaction is processed with exactly the policies its own request was stamped
    with (`k`; the stamp does not distinguish the diagnosis-free variant of the same policies, nor do
    the lenses), whatever reloads/reverts and other attempts of the same sequence lie in between and
    whatever sequence id it carries: the lens answers as the retry remedy of policies `k` would. -/
theorem glue_response_uses_request_version (cfg : Cfg) (t0 : Nat) (gops : List GOp)
    (pre mid post : List GEv) (id seq seq' status k : Nat) (out : Option Nat)
    (hsplit : grun cfg (ginit cfg t0) gops =
      pre ++ .req id seq (some k) :: (mid ++ .resp id seq' status out :: post)) :
    out = (retryLens (gRetry cfg.d0 (mid.reverse ++ .req id seq (some k) :: pre.reverse))
            k id seq' status).2 := by
  have h := c11_glue_holds cfg t0 gops
  rw [gHolds, hsplit] at h
  simp only [List.reverse_append, List.reverse_cons, List.append_assoc, List.singleton_append] at h
  have h2 := gHoldsRev_append_right _ post.reverse _ h
  have e2 : gEventOk cfg.d0 (.resp id seq' status out) (mid.reverse ++ .req id seq (some k) :: pre.reverse) = true :=
    gHoldsRev_head _ _ _ h2
  have e1 : gEventOk cfg.d0 (.req id seq (some k)) pre.reverse = true :=
    gHoldsRev_head _ _ _ (gHoldsRev_append_right _ (.resp id seq' status out :: mid.reverse) _ h2)
  simp only [gEventOk, beq_iff_eq, Option.some.injEq] at e1
  have hp : gPinned cfg.d0 (mid.reverse ++ .req id seq (some k) :: pre.reverse) id =
      some (gLabel cfg.d0 pre.reverse id) := by
    apply gPinned_append_some
    rw [gPinned_self _ _ _ _ (by simp [mentions])]
  simp only [gEventOk, gLabel, hp, beq_iff_eq] at e2
  rw [e2, e1, retryLens_stamp]
  rfl

/-- In particular: a response whose status is not the retry status of ITS OWN request's policies is
    never answered with a retry header - even when the policies in force by then would retry it. -/
theorem glue_no_retry_under_other_policies (cfg : Cfg) (t0 : Nat) (gops : List GOp)
    (pre mid post : List GEv) (id seq seq' status k : Nat) (out : Option Nat)
    (hsplit : grun cfg (ginit cfg t0) gops =
      pre ++ .req id seq (some k) :: (mid ++ .resp id seq' status out :: post))
    (hst : status ≠ lensStatus k) : out = none := by
  rw [glue_response_uses_request_version cfg t0 gops pre mid post id seq seq' status k out hsplit]
  simp [retryLens, hst]

/-- The diagnosis leg: whenever the diagnosis worker gets to a finished transaction - after any
    backlog, reloads, reverts and other transactions (also other attempts of the same sequence) - the
    record it exports was produced with the policies that transaction's own request was stamped with. -/
theorem glue_diagnosis_uses_request_version (cfg : Cfg) (t0 : Nat) (gops : List GOp)
    (pre mid post : List GEv) (id seq k : Nat) (r : Option Nat)
    (hsplit : grun cfg (ginit cfg t0) gops =
      pre ++ .req id seq (some k) :: (mid ++ .diag id r :: post)) :
    r = some (diagLens k) := by
  have h := c11_glue_holds cfg t0 gops
  rw [gHolds, hsplit] at h
  simp only [List.reverse_append, List.reverse_cons, List.append_assoc, List.singleton_append] at h
  have h2 := gHoldsRev_append_right _ post.reverse _ h
  have e2 : gEventOk cfg.d0 (.diag id r) (mid.reverse ++ .req id seq (some k) :: pre.reverse) = true :=
    gHoldsRev_head _ _ _ h2
  have e1 : gEventOk cfg.d0 (.req id seq (some k)) pre.reverse = true :=
    gHoldsRev_head _ _ _ (gHoldsRev_append_right _ (.diag id r :: mid.reverse) _ h2)
  simp only [gEventOk, beq_iff_eq, Option.some.injEq] at e1
  have hp : gPinned cfg.d0 (mid.reverse ++ .req id seq (some k) :: pre.reverse) id =
      some (gLabel cfg.d0 pre.reverse id) := by
    apply gPinned_append_some
    rw [gPinned_self _ _ _ _ (by simp [mentions])]
  simp only [gEventOk, gLabel, hp, beq_iff_eq] at e2
  rw [e2, e1, diagLens_stamp]
  rfl

/-- Non-vacuity: a retried sequence with reloads between request and response and between attempts. -/
example :
    grun ⟨30, 30, 0⟩ (ginit ⟨30, 30, 0⟩ 0)
      [.req 1 1, .reload 1 true, .resp 1 1 500, .req 2 1, .reload 2 true, .resp 2 1 501, .resp 2 1 502, .diag]
    = [.req 1 1 (some 0), .reload 1, .resp 1 1 500 (some 10), .req 2 1 (some 1), .reload 2,
       .resp 2 1 501 (some 10), .resp 2 1 502 none, .diag 1 (some 0), .diag 2 (some 1), .diag 2 (some 1)] := by
  decide

/-- The glue Spec rejects the history produced when the response path looks the policies up by the
    SEQUENCE id (the retried attempt 2 is then processed with attempt 1's policies: no retry on 501). -/
example :
    gHolds ⟨30, 30, 0⟩ [.req 1 1 (some 0), .reload 1, .resp 1 1 500 (some 10), .req 2 1 (some 1),
      .resp 2 1 501 none] = false := by
  decide

/-- ... and the history produced when the diagnosis worker resolves the policies under the sequence id
    or reuses the policies of another queued task (attempt 2 diagnosed with attempt 1's policies). -/
example :
    gHolds ⟨30, 30, 0⟩ [.req 1 1 (some 0), .reload 1, .req 2 1 (some 1), .resp 1 1 200 none,
      .resp 2 1 200 none, .diag 1 (some 0), .diag 2 (some 0)] = false := by
  decide

end LunarVerif.C11

/-! ## Regenerated constants (tie to the source; `Generated/Constants.lean` is rewritten from /repo
    by `harness/go/cmd/extract` on every run, so these `decide`s re-check what the code says now) -/
namespace LunarVerif.C11
open LunarVerif.Generated

/-- The retention constants the code passes to its two vacuums satisfy the hypothesis of every theorem
    above: transaction pins never outlive the policy versions they point to, and both sweeps tick. -/
theorem retention_constants_ok :
    Const.notFound = [] ∧ 0 < Const.txnVacuumTTL ∧ Const.txnVacuumTTL ≤ Const.versionsVacuumTTL ∧
    0 < Const.txnVacuumTick ∧ 0 < Const.versionsVacuumTick ∧
    Const.txnVacuumTick ≤ Const.txnVacuumTTL ∧ Const.versionsVacuumTick ≤ Const.versionsVacuumTTL := by
  decide

/-- The configuration the code actually runs with (extracted), for any initial policies. -/
def extractedCfg (d0 : Nat) : Cfg :=
  { pinTTL := Const.txnVacuumTTL.toNat, verTTL := Const.versionsVacuumTTL.toNat, d0 := d0 }

/-- `c11_holds` instantiated at the extracted constants: no hypothesis left. -/
theorem c11_holds_extracted (d0 t0 : Nat) (ops : List Op) :
    holds (extractedCfg d0) (run (extractedCfg d0) (init (extractedCfg d0) t0) ops) = true :=
  c11_holds (extractedCfg d0)
    (by show Const.txnVacuumTTL.toNat ≤ Const.versionsVacuumTTL.toNat; decide) t0 ops

end LunarVerif.C11
