import LunarVerif.Proofs.C14Holds
/-!
# C14 — Traffic a flow or policy must see is always registered as managed

Property theorems only (helpers: `Proofs/Regex.lean`, `Proofs/C14*.lean`).

Reading.  For every declaration the engine loads (flow filter / endpoint policy: methods `M`, URL pattern `P`)
and every request `(m, u)`: if the engine matches the request to the declaration, then the proxy forwards it:
manage-all is set or some registered expression is FOUND (unanchored, as `map_reg … -m found`) in `m:::u`.
One way only: nothing is claimed about requests the proxy forwards and the engine ignores.

The unchanged code violates the full statement in six decidable classes (`Spec.C14.classify`, F14a–F14f); each
has a machine-checked witness below that also replays on the real code (`corpus/C14/F14x.ops`).  Outside them:

  * `format_parse_safe`              the TEXT that `HaproxyEndpointFormat` produces for a safe pattern is parsed by
                                     the regex syntax (Go/PCRE precedence rules) as exactly the intended AST;
  * `managed_covers_engine_partial`  that AST matches the subject of every URL the declarative matcher accepts
                                     (declarative `Search`), hence the executable search on the text succeeds;
  * `c14_holds_partial`              CONNECTION: on the model's own answers the judge predicate never reports a
                                     violation outside the six classes, for every configuration and request.
-/
namespace LunarVerif.C14
open LunarVerif.UrlTree LunarVerif.UrlMatch LunarVerif.Regex

/-- The executable regex search is the declarative one (both directions) — what ties `exprSearch`, and
    through the differential run Go's `regexp`, to the semantics the other theorems speak about. -/
theorem search_correct (r : Re) (s : List Char) : reSearch r s = true ↔ Search r s := reSearch_iff r s

/-- For a SAFE pattern (host labels and literal segments without regex metacharacters — dots allowed in the
    path —, parameters only in path position with names in `[a-zA-Z0-9-_]+`, `*` only as last path part) and a
    metacharacter-free method, the text `HaproxyEndpointFormat` produces is read by the regex parser as exactly
    the intended expression. -/
theorem format_parse_safe (m : String) (P : Pattern) (hs : safe P = true) (hm : safeMethod m = true) :
    parseRe (formatEndpoint m.toList (render P)) = some (formatAST m.toList P) :=
  parse_format_safe m.toList P hs (by simpa [safeMethod] using hm)

/-- C14 for one declaration, partial: outside the excluded classes (pattern not safe: F14a/c/f; text not in
    canonical form: F14d is about strings and appears in `c14_holds_partial`), every URL that the declarative
    matcher accepts for the pattern is FOUND by the registered expression, for every registered method. -/
theorem managed_covers_engine_partial (m : String) (P : Pattern) (U : Url)
    (hs : safe P = true) (hm : safeMethod m = true) (hu : urlWF U = true) (hmt : «matches» P U = true) :
    Search (formatAST m.toList P) (subject m.toList (render U)) ∧
    exprSearch (formatEndpoint m.toList (render P)) (subject m.toList (render U)) = true := by
  have hm' : ∀ c ∈ m.toList, plainChar c = true := by simpa [safeMethod] using hm
  exact ⟨search_of_full (covers_full m.toList P U hs hu hmt), exprSearch_safe m.toList P U hs hm' hu hmt⟩

/-- … and the expression is a FULL match of the subject's tail: it ends with `$` exactly when the pattern does
    not end with `*` (the literal characters of the URL are matched literally, nothing more is accepted after
    them). -/
theorem managed_full_match (m : String) (P : Pattern) (U : Url)
    (hs : safe P = true) (hu : urlWF U = true) (hmt : «matches» P U = true) :
    Matches true (formatAST m.toList P) (subject m.toList (render U)) true :=
  covers_full m.toList P U hs hu hmt

/-- Every supported method of every enabled declaration gets its expression registered (flows: one per
    method of the comparable-filter group, default list when the filter names none; policies: one per enabled
    plugin). -/
theorem every_method_registered (cfg : Cfg) (d : Decl) (method : String) (hd : d ∈ declsOf cfg)
    (he : d.enabled = true) (hm : method ∈ d.supported) :
    formatEndpoint method.toList d.url.toList ∈ registered cfg :=
  registered_mem cfg d method hd he hm

/-- CONNECTION (partial form).  For every configuration, every request and ANY set of declared names the
    engine may select: with the model's `managedB`, the judge's verdict is never a violation outside the known
    classes.  (A selected declaration that is clean for the request forces `managedB = true`.) -/
theorem c14_holds_partial (cfg : Cfg) (method url : String) (sel : List String)
    (hsel : ∀ n ∈ sel, (findDecl (declsOf cfg) n).isSome = true) :
    ∀ why, reqVerdict (declsOf cfg) method url sel (managedB cfg method url) ≠ .violated why := by
  intro why hv
  unfold reqVerdict at hv
  split at hv
  · cases hv
  · rename_i hnot
    dsimp only at hv
    simp only [Bool.or_eq_true, not_or, Bool.not_eq_true] at hnot
    split at hv
    · rename_i hany
      simp only [List.any_eq_true, List.mem_map, beq_iff_eq] at hany
      obtain ⟨x, ⟨n, hn, hx⟩, hxn⟩ := hany
      have := hsel n hn
      rw [hxn] at hx
      cases hfd : findDecl (declsOf cfg) n with
      | none => rw [hfd] at this; simp at this
      | some d => rw [hfd] at hx; simp at hx
    · split at hv
      · rename_i hany
        simp only [List.any_eq_true, List.mem_map, beq_iff_eq] at hany
        obtain ⟨x, ⟨n, _, hx⟩, hxn⟩ := hany
        rw [hxn] at hx
        cases hfd : findDecl (declsOf cfg) n with
        | none => rw [hfd] at hx; simp at hx
        | some d =>
          rw [hfd] at hx
          simp only [Option.map_some, Option.some.injEq] at hx
          have hmem : d ∈ declsOf cfg := List.mem_of_find?_eq_some hfd
          have := clean_managed cfg d method url hmem hx
          rw [this] at hnot
          exact absurd hnot.2 (by simp)
      · split at hv <;> cases hv

/-- The property predicate itself, for a selection that contains a clean declaration. -/
theorem selected_clean_is_managed (cfg : Cfg) (method url : String) (sel : List String) (d : Decl)
    (hd : d ∈ declsOf cfg) (_hn : d.name ∈ sel) (hc : classify d method url = none) :
    reqOk sel (managedB cfg method url) = true := by
  simp [reqOk, clean_managed cfg d method url hd hc]

/-! ### Witnesses: the full statement is false on the unchanged code (each replays: corpus/C14/F14x.ops) -/

def pat (host : List String) (path : List Seg) : List Part :=
  host.map (fun h => ⟨true, .lit h⟩) ++ path.map (fun s => ⟨false, s⟩)

/-- F14a: `api.com/a+b/{id}/c(1)` is registered as `GET:::api\.com/a+b/[^/]+/c(1)$`; the URL with these very
    characters is accepted by the matcher but NOT found by the expression (`+` repeats, `(1)` groups). -/
theorem metachar_violation_witness :
    ∃ (P : Pattern) (U : Url) (m : String), «matches» P U = true ∧ urlWF U = true ∧
      formatEndpoint m.toList (render P) = "GET:::api\\.com/a+b/[^/]+/c(1)$".toList ∧
      exprSearch (formatEndpoint m.toList (render P)) (subject m.toList (render U)) = false ∧
      exprSearch (formatEndpoint m.toList (render P)) "GET:::api.com/aab/7/c1".toList = true :=
  ⟨pat ["api", "com"] [.lit "a+b", .par "id", .lit "c(1)"], pat ["api", "com"] [.lit "a+b", .lit "7", .lit "c(1)"],
    "GET", by decide, by decide, by decide, by decide, by decide⟩

/-- F14b: a flow without methods is qualified by the engine for HEAD (the node requirement list is empty),
    but the five registered expressions do not contain HEAD: not managed. -/
theorem default_methods_witness :
    ∃ (f : Flow), f.methods = [] ∧
      methodOK ⟨[f], f.methods⟩ f "HEAD" = true ∧
      flowGo [(pat ["api", "com"] [.lit "x"], some 0)] [] (pat ["api", "com"] [.lit "x"]) = [0] ∧
      (registered (.flows [f])).length = 5 ∧
      managedB (.flows [f]) "HEAD" f.url = false ∧ managedB (.flows [f]) "GET" f.url = true :=
  ⟨⟨"f1", "api.com/x", []⟩, rfl, by decide, by decide, by decide, by decide, by decide⟩

/-- F14c: a host-position parameter is not translated: `{sub}.api.com/x` stays `{sub}\.api\.com/x$`, which
    no real host satisfies, while the matcher accepts `eu.api.com/x`. -/
theorem host_param_witness :
    ∃ (P : Pattern) (U : Url), «matches» P U = true ∧ urlWF U = true ∧
      formatEndpoint "GET".toList (render P) = "GET:::{sub}\\.api\\.com/x$".toList ∧
      exprSearch (formatEndpoint "GET".toList (render P)) (subject "GET".toList (render U)) = false :=
  ⟨⟨true, .par "sub"⟩ :: pat ["api", "com"] [.lit "x"], pat ["eu", "api", "com"] [.lit "x"],
    by decide, by decide, by decide, by decide⟩

/-- F14d: the engine looks the request up after `strings.Trim(url, "./")`, the proxy searches the untrimmed
    subject: `api.com/x/` is the engine's `api.com/x` but is not found by `GET:::api\.com/x$`. -/
theorem trailing_slash_witness :
    trimURL "api.com/x/" = "api.com/x" ∧
    exprSearch (formatEndpoint "GET".toList "api.com/x".toList) (subject "GET".toList "api.com/x/".toList) = false ∧
    exprSearch (formatEndpoint "GET".toList "api.com/x".toList) (subject "GET".toList "api.com/x".toList) = true := by
  decide

/-- F14f: `{user.id}` is a parameter for the engine; its dot is escaped first, so the path-parameter rule no
    longer recognises it and the braces stay literal text. -/
theorem odd_param_witness :
    ∃ (P : Pattern) (U : Url), «matches» P U = true ∧ urlWF U = true ∧
      formatEndpoint "GET".toList (render P) = "GET:::api\\.com/users/{user\\.id}$".toList ∧
      exprSearch (formatEndpoint "GET".toList (render P)) (subject "GET".toList (render U)) = false :=
  ⟨pat ["api", "com"] [.lit "users", .par "user.id"], pat ["api", "com"] [.lit "users", .lit "7"],
    by decide, by decide, by decide, by decide⟩

/-- F14e: the engine's traversal selects the node of `api.com/x` for `api.com/x/extra` (loop break on the last
    part, F03b) although the pattern does not match; the expression, correctly, does not cover it. -/
theorem engine_overmatch_witness :
    ∃ (P : Pattern) (U : Url), «matches» P U = false ∧ flowGo [(P, some 0)] [] U = [0] ∧
      exprSearch (formatEndpoint "GET".toList (render P)) (subject "GET".toList (render U)) = false :=
  ⟨pat ["api", "com"] [.lit "x"], pat ["api", "com"] [.lit "x", .lit "extra"], by decide, by decide, by decide⟩

/-- The converse is NOT claimed and is false: the search is unanchored on the left, and `.*`-free patterns
    still accept what the engine refuses (`FORGET:::api.com/x` is found by `GET:::api\.com/x$`). -/
theorem converse_fails_witness :
    exprSearch (formatEndpoint "GET".toList "api.com/x".toList) "FORGET:::api.com/x".toList = true := by
  decide

/-! ### Non-vacuity -/

/-- A safe pattern with dots in host and path, a port, a parameter and a trailing wildcard, and a URL it
    accepts: the hypotheses of `managed_covers_engine_partial` are satisfiable, and its conclusion computes. -/
example :
    let P := pat ["api", "com:8080"] [.lit "v1.0", .par "user_id", .wild]
    let U := pat ["api", "com:8080"] [.lit "v1.0", .lit "a.b", .lit "posts", .lit "7"]
    safe P = true ∧ safeMethod "GET" = true ∧ urlWF U = true ∧ «matches» P U = true ∧
    formatEndpoint "GET".toList (render P) = "GET:::api\\.com:8080/v1\\.0/[^/]+(/.*)?".toList ∧
    exprSearch (formatEndpoint "GET".toList (render P)) (subject "GET".toList (render U)) = true := by
  decide

/-- the same pattern without the wildcard ends with `$` and refuses the longer URL -/
example :
    let P := pat ["api", "com"] [.lit "users", .par "id"]
    exprSearch (formatEndpoint "GET".toList (render P)) "GET:::api.com/users/7".toList = true ∧
    exprSearch (formatEndpoint "GET".toList (render P)) "GET:::api.com/users/7/x".toList = false ∧
    exprSearch (formatEndpoint "GET".toList (render P)) "GET:::api.com/users/".toList = false ∧
    exprSearch (formatEndpoint "GET".toList (render P)) "GET:::apixcom/users/7".toList = false := by
  decide

/-- host-only pattern (empty path): `api.com` is registered as `GET:::api\.com$` and found for the URL
    `api.com`; upper-case hosts are different literals for the expression (and for the engine's trie). -/
example :
    let P := pat ["api", "com"] []
    safe P = true ∧ «matches» P P = true ∧ urlWF P = true ∧
    formatEndpoint "GET".toList (render P) = "GET:::api\\.com$".toList ∧
    exprSearch (formatEndpoint "GET".toList (render P)) "GET:::api.com".toList = true ∧
    exprSearch (formatEndpoint "GET".toList (render P)) "GET:::API.com".toList = false := by
  decide

/-- `c14_holds_partial` speaks about non-trivial configurations: its hypothesis on the selection is
    satisfiable, the proxy's verdict differs between requests, and the judge's verdict on them computes. -/
example :
    let cfg := Cfg.flows [⟨"f1", "api.com/users/{id}", ["GET", "POST"]⟩, ⟨"f2", "api.com/v1/*", []⟩]
    (∀ n ∈ ["f1"], (findDecl (declsOf cfg) n).isSome = true) ∧
    (registered cfg).length = 7 ∧
    managedB cfg "POST" "api.com/users/7" = true ∧ managedB cfg "HEAD" "api.com/users/7" = false ∧
    reqVerdict (declsOf cfg) "POST" "api.com/users/7" ["f1"] (managedB cfg "POST" "api.com/users/7") = .ok := by
  decide

end LunarVerif.C14
