import LunarVerif.Proofs.C14Holds
import LunarVerif.Proofs.C14Reload
/-!
# C14 — Traffic a flow or policy must see is always registered as managed

Property theorems only (helpers: `Proofs/Regex.lean`, `Proofs/C14*.lean`).  State AFTER the repairs F14a (every
literal part quoted with `regexp.QuoteMeta`), F14f (every part the URL tree treats as a parameter is one for the
expression), F14c (host labels: parameters and a trailing `*`), F14b (a filter without methods is registered
with an any-method expression) and the trie repairs of C03/C13.

Reading.  For every declaration the engine loads (flow filter / endpoint policy: methods `M`, URL pattern `P`)
and every request `(m, u)`: if the engine matches the request to the declaration, then the proxy forwards it:
manage-all is set or some registered expression is FOUND (unanchored, as `map_reg … -m found`) in `m:::u`.
One way only: nothing is claimed about requests the proxy forwards and the engine ignores.

  * `format_parse`           the TEXT `HaproxyEndpointFormat` produces for ANY pattern `validateURL` accepts (`safe`
                             is structure only: host labels, then path segments, `*` last) is parsed by the regex
                             syntax as exactly the intended AST — no alphabet restriction any more;
  * `managed_covers_engine`  that AST matches the subject of every URL the declarative matcher accepts (no
                             excluded class: the former hypotheses "no metacharacter", "parameter names in
                             `[a-zA-Z0-9-_]+`", "parameters only in the path" are gone);
  * `c14_holds_partial`      CONNECTION: on the model's own answers the judge predicate never reports a
                             violation outside the two classes that stay open (F14d trimming, F14e engine
                             over-match), for every configuration and request within the input assumptions.
-/
namespace LunarVerif.C14
open LunarVerif.UrlTree LunarVerif.UrlMatch LunarVerif.Regex

/-- The executable regex search is the declarative one (both directions). -/
theorem search_correct (r : Re) (s : List Char) : reSearch r s = true ↔ Search r s := reSearch_iff r s

/-- For every pattern of the shape `validateURL` accepts and a method that is an HTTP token (`some m`) or the
    any-method expression (`none`), the text `HaproxyEndpointFormat` produces is read by the regex parser as
    exactly the intended expression — whatever characters the literal parts contain. -/
theorem format_parse (meth : Option String) (P : Pattern) (hs : safe P = true)
    (hm : ∀ m, meth = some m → tokenMethod m = true) :
    parseRe (formatEndpoint (methodText (meth.map String.toList)) (render P))
      = some (formatAST (meth.map String.toList) P) := by
  apply parse_format_safe _ P hs
  intro m' hm'
  cases meth with
  | none => simp at hm'
  | some m =>
    simp only [Option.map_some, Option.some.injEq] at hm'
    subst hm'
    exact (tokenMethod_facts (hm m rfl)).2.1

/-- C14 for one declaration that names the method: every URL the declarative matcher accepts for the pattern is
    FOUND by the registered expression. -/
theorem managed_covers_engine (m : String) (P : Pattern) (U : Url)
    (hs : safe P = true) (hm : tokenMethod m = true) (hu : urlWF U = true) (hmt : «matches» P U = true) :
    Search (formatAST (some m.toList) P) (subject m.toList (render U)) ∧
    exprSearch (formatEndpoint m.toList (render P)) (subject m.toList (render U)) = true := by
  obtain ⟨_, t2, _⟩ := tokenMethod_facts hm
  have hmeth : (some m.toList : Option (List Char)) = some m.toList ∨
      ((some m.toList : Option (List Char)) = none ∧ m.toList ≠ [] ∧ ∀ c ∈ m.toList, c ≠ ':') := Or.inl rfl
  refine ⟨search_of_full (covers_full (some m.toList) m.toList P U hmeth hs hu hmt), ?_⟩
  have := exprSearch_safe (some m.toList) m.toList P U hmeth
    (fun m' hm' => by cases hm'; exact t2) hs hu hmt
  simpa [methodText] using this

/-- … and for a declaration that names NO method (registered once, with `[^:]+` in place of the method): found
    for EVERY method token (F14b repaired). -/
theorem managed_covers_engine_any_method (m : String) (P : Pattern) (U : Url)
    (hs : safe P = true) (hm : tokenMethod m = true) (hu : urlWF U = true) (hmt : «matches» P U = true) :
    Search (formatAST none P) (subject m.toList (render U)) ∧
    exprSearch (formatEndpoint anyMethodRegex (render P)) (subject m.toList (render U)) = true := by
  obtain ⟨t1, _, t3⟩ := tokenMethod_facts hm
  have hmeth : (none : Option (List Char)) = some m.toList ∨ ((none : Option (List Char)) = none ∧ m.toList ≠ [] ∧
      ∀ c ∈ m.toList, c ≠ ':') := Or.inr ⟨rfl, t1, t3⟩
  refine ⟨search_of_full (covers_full none m.toList P U hmeth hs hu hmt), ?_⟩
  have := exprSearch_safe none m.toList P U hmeth (fun m' hm' => by cases hm') hs hu hmt
  simpa [methodText] using this

/-- The expression is a FULL match of the subject (literal characters matched literally, `$` unless the
    pattern ends with `*`). -/
theorem managed_full_match (m : String) (P : Pattern) (U : Url)
    (hs : safe P = true) (hu : urlWF U = true) (hmt : «matches» P U = true) :
    Matches true (formatAST (some m.toList) P) (subject m.toList (render U)) true :=
  covers_full (some m.toList) m.toList P U (Or.inl rfl) hs hu hmt

/-- Every method an enabled declaration accepts has an expression registered for it: its own, or the
    any-method one when the declaration names none. -/
theorem every_method_registered (cfg : Cfg) (d : Decl) (method : String) (hd : d ∈ declsOf cfg)
    (he : d.enabled = true) (hm : d.acceptsMethod method = true) :
    ∃ meth : Option (List Char), (meth = some method.toList ∨ meth = none) ∧
      formatEndpoint (methodText meth) d.url.toList ∈ registered cfg :=
  registered_mem cfg d method hd he hm

/-- Policy side of the registration (`BuildHAProxyEndpointsRequest`: one entry per ENABLED remedy, then per
    enabled diagnosis): every endpoint of which the engine applies at least one enabled plugin — whatever the
    number, kind and order of its enabled and disabled plugins — has its expression registered. -/
theorem enabled_plugin_registered (ps : List Policy) (g : Bool) (p : Policy) (hp : p ∈ ps)
    (he : p.enabled = true) :
    formatEndpoint p.method.toList p.url.toList ∈ registered (.policies ps g) :=
  policy_registered ps g p hp he

/-- CONNECTION (partial form: F14d and F14e stay open).  For every configuration and request within the input
    assumptions (patterns `validateURL` accepts, canonical texts, token methods) and ANY set of declared names
    the engine may select SOUNDLY up to the host/path boundary (`hsound`: no selected declaration is classified
    `overmatch`; that is C03's / C13's soundness theorem): with the model's `managedB`, the judge's verdict is
    never a violation outside the open classes. -/
theorem c14_holds_partial (cfg : Cfg) (method url : String) (sel : List String)
    (hA : ∀ d ∈ declsOf cfg, untrimmed d url = true → assumptionsOK d method url = true)
    (hsel : ∀ n ∈ sel, (findDecl (declsOf cfg) n).isSome = true)
    (hsound : ∀ n ∈ sel, ∀ d, findDecl (declsOf cfg) n = some d → classify d method url ≠ some .overmatch) :
    ∀ why, reqVerdict (declsOf cfg) method url sel (managedB cfg method url) ≠ .violated why := by
  intro why hv
  unfold reqVerdict at hv
  split at hv
  · cases hv
  · rename_i hnot
    dsimp only at hv
    simp only [Bool.or_eq_true, not_or, Bool.not_eq_true] at hnot
    split at hv
    · rename_i hany
      simp only [List.any_eq_true, List.mem_map, beq_iff_eq] at hany
      obtain ⟨x, ⟨n, hn, hx⟩, hxn⟩ := hany
      have := hsel n hn
      rw [hxn] at hx
      cases hfd : findDecl (declsOf cfg) n with
      | none => rw [hfd] at this; simp at this
      | some d => rw [hfd] at hx; simp at hx
    · split at hv
      · rename_i hany
        simp only [List.any_eq_true, List.mem_map, beq_iff_eq] at hany
        obtain ⟨x, ⟨n, _, hx⟩, hxn⟩ := hany
        rw [hxn] at hx
        cases hfd : findDecl (declsOf cfg) n with
        | none => rw [hfd] at hx; simp at hx
        | some d =>
          rw [hfd] at hx
          simp only [Option.map_some, Option.some.injEq] at hx
          have hmem : d ∈ declsOf cfg := List.mem_of_find?_eq_some hfd
          have hun : untrimmed d url = true := by
            unfold classify at hx
            split at hx
            · cases hx
            · rename_i h; simpa using h
          have := clean_managed cfg d method url hmem (hA d hmem hun) hx
          rw [this] at hnot
          exact absurd hnot.2 (by simp)
      · split at hv
        · rename_i hany
          simp only [List.any_eq_true, List.mem_map, beq_iff_eq] at hany
          obtain ⟨x, ⟨n, hn, hx⟩, hxn⟩ := hany
          rw [hxn] at hx
          cases hfd : findDecl (declsOf cfg) n with
          | none => rw [hfd] at hx; simp at hx
          | some d =>
            rw [hfd] at hx
            simp only [Option.map_some, Option.some.injEq] at hx
            exact hsound n hn d hfd hx
        · split at hv <;> cases hv

/-- The property predicate itself, for a selection that contains a clean declaration. -/
theorem selected_clean_is_managed (cfg : Cfg) (method url : String) (sel : List String) (d : Decl)
    (hd : d ∈ declsOf cfg) (_hn : d.name ∈ sel) (ha : assumptionsOK d method url = true)
    (hc : classify d method url = none) :
    reqOk sel (managedB cfg method url) = true := by
  simp [reqOk, clean_managed cfg d method url hd ha hc]

/-! ### Regressions: the witnesses of the repaired findings now PASS (corpus/C14/regress-F14x.ops) -/

def pat (host : List String) (path : List Seg) : List Part :=
  host.map (fun h => ⟨true, .lit h⟩) ++ path.map (fun s => ⟨false, s⟩)

/-- former F14a: `api.com/a+b/{id}/c(1)` is registered as `GET:::api\.com/a\+b/[^/]+/c\(1\)$`; the URL with these
    very characters is found, its regex-reading `aab`/`c1` no longer is. -/
theorem regress_F14a :
    let P := pat ["api", "com"] [.lit "a+b", .par "id", .lit "c(1)"]
    let U := pat ["api", "com"] [.lit "a+b", .lit "7", .lit "c(1)"]
    safe P = true ∧ «matches» P U = true ∧ urlWF U = true ∧
    formatEndpoint "GET".toList (render P) = "GET:::api\\.com/a\\+b/[^/]+/c\\(1\\)$".toList ∧
    exprSearch (formatEndpoint "GET".toList (render P)) (subject "GET".toList (render U)) = true ∧
    exprSearch (formatEndpoint "GET".toList (render P)) "GET:::api.com/aab/7/c1".toList = false := by
  decide

/-- former F14b: a flow without methods is registered ONCE, for any method: HEAD is managed. -/
theorem regress_F14b :
    let f : Flow := ⟨"f1", "api.com/x", [], false⟩
    methodOK f "HEAD" = true ∧ (registered (.flows [f])).length = 1 ∧
    registered (.flows [f]) = ["[^:]+:::api\\.com/x$".toList] ∧
    managedB (.flows [f]) "HEAD" f.url = true ∧ managedB (.flows [f]) "GET" f.url = true := by
  decide

/-- former F14c: a host-position parameter is one host label for the expression too; a host-only pattern may
    end with `*`. -/
theorem regress_F14c :
    let P : Pattern := ⟨true, .par "sub"⟩ :: pat ["api", "com"] [.lit "x"]
    let U := pat ["eu", "api", "com"] [.lit "x"]
    let Q : Pattern := [⟨true, .lit "api"⟩, ⟨true, .wild⟩]
    safe P = true ∧ «matches» P U = true ∧ urlWF U = true ∧
    formatEndpoint "GET".toList (render P) = "GET:::[^./]+\\.api\\.com/x$".toList ∧
    exprSearch (formatEndpoint "GET".toList (render P)) (subject "GET".toList (render U)) = true ∧
    exprSearch (formatEndpoint "GET".toList (render P)) "GET:::eu.x.api.com/x".toList = false ∧
    safe Q = true ∧ formatEndpoint "GET".toList (render Q) = "GET:::api(\\..*)?".toList ∧
    exprSearch (formatEndpoint "GET".toList (render Q)) "GET:::api.com/x/y".toList = true := by
  decide

/-- former F14f: `{user.id}` is a parameter for the expression as it is for the engine. -/
theorem regress_F14f :
    let P := pat ["api", "com"] [.lit "users", .par "user.id"]
    let U := pat ["api", "com"] [.lit "users", .lit "7"]
    safe P = true ∧ «matches» P U = true ∧ urlWF U = true ∧
    formatEndpoint "GET".toList (render P) = "GET:::api\\.com/users/[^/]+$".toList ∧
    exprSearch (formatEndpoint "GET".toList (render P)) (subject "GET".toList (render U)) = true := by
  decide

/-! ### Witnesses of what stays open (each replays: corpus/C14/F14x.ops) -/

/-- F14d: the engine looks the request up after `strings.Trim(url, "./")`, the proxy searches the untrimmed
    subject: `api.com/x/` is the engine's `api.com/x` but is not found by `GET:::api\.com/x$`. -/
theorem trailing_slash_witness :
    trimURL "api.com/x/" = "api.com/x" ∧
    exprSearch (formatEndpoint "GET".toList "api.com/x".toList) (subject "GET".toList "api.com/x/".toList) = false ∧
    exprSearch (formatEndpoint "GET".toList "api.com/x".toList) (subject "GET".toList "api.com/x".toList) = true := by
  decide

/-- F14e: what is left of the engine's over-matching after the trie repairs: the host/path boundary is not
    part of the trie key (constant children are keyed by value; the node keeps its creator's flag, F03e/F13c).
    With `a.b/x` declared first, the later pattern `a/b/y` is filed under the HOST node `b`, so the traversal
    selects it for `a.b/y`, which it does not match; the expression, correctly, does not cover it. -/
theorem engine_overmatch_witness :
    ∃ (P1 P2 : Pattern) (U : Url), «matches» P2 U = false ∧ «matches» P1 U = false ∧
      C03.lookupFlow [(P1, some 0), (P2, some 1)] U = [1] ∧
      exprSearch (formatEndpoint "GET".toList (render P2)) (subject "GET".toList (render U)) = false ∧
      exprSearch (formatEndpoint "GET".toList (render P1)) (subject "GET".toList (render U)) = false :=
  ⟨pat ["a", "b"] [.lit "x"], pat ["a"] [.lit "b", .lit "y"], pat ["a", "b"] [.lit "y"],
    by decide, by decide, by decide, by decide, by decide⟩

/-- former F14e inputs, repaired by F03b/F03f: the traversal no longer selects `api.com/x` for
    `api.com/x/extra`, nor lets a parameter accept an empty segment. -/
theorem regress_F14e :
    C03.lookupFlow [(pat ["api", "com"] [.lit "x"], some 0)] (pat ["api", "com"] [.lit "x", .lit "extra"]) = [] ∧
    C03.lookupFlow [(pat ["api", "com"] [.lit "users", .par "id", .lit "posts"], some 0)]
      (pat ["api", "com"] [.lit "users", .lit "", .lit "posts"]) = [] := by
  decide

/-- The converse is NOT claimed and is false: the search is unanchored on the left. -/
theorem converse_fails_witness :
    exprSearch (formatEndpoint "GET".toList "api.com/x".toList) "FORGET:::api.com/x".toList = true := by
  decide

/-! ### Non-vacuity -/

/-- A pattern with metacharacters, dots in host and path, a port, parameters in host and path (one with an odd
    name) and a trailing wildcard, and a URL it accepts: the hypotheses of `managed_covers_engine` are satisfiable
    and its conclusion computes. -/
example :
    let P : Pattern := ⟨true, .par "region"⟩ ::
      pat ["api", "com:8080"] [.lit "v1.0", .par "user.id", .lit "a+b(1)", .wild]
    let U := pat ["eu", "api", "com:8080"] [.lit "v1.0", .lit "a.b", .lit "a+b(1)", .lit "posts", .lit "7"]
    safe P = true ∧ tokenMethod "GET" = true ∧ urlWF U = true ∧ «matches» P U = true ∧
    formatEndpoint "GET".toList (render P)
      = "GET:::[^./]+\\.api\\.com:8080/v1\\.0/[^/]+/a\\+b\\(1\\)(/.*)?".toList ∧
    exprSearch (formatEndpoint "GET".toList (render P)) (subject "GET".toList (render U)) = true := by
  decide

/-- the same kind of pattern without the wildcard ends with `$` and refuses the longer URL -/
example :
    let P := pat ["api", "com"] [.lit "users", .par "id"]
    exprSearch (formatEndpoint "GET".toList (render P)) "GET:::api.com/users/7".toList = true ∧
    exprSearch (formatEndpoint "GET".toList (render P)) "GET:::api.com/users/7/x".toList = false ∧
    exprSearch (formatEndpoint "GET".toList (render P)) "GET:::api.com/users/".toList = false ∧
    exprSearch (formatEndpoint "GET".toList (render P)) "GET:::apixcom/users/7".toList = false := by
  decide

/-- host-only pattern (empty path); upper-case hosts are different literals for the expression (and for the
    engine's trie). -/
example :
    let P := pat ["api", "com"] []
    safe P = true ∧ «matches» P P = true ∧ urlWF P = true ∧
    formatEndpoint "GET".toList (render P) = "GET:::api\\.com$".toList ∧
    exprSearch (formatEndpoint "GET".toList (render P)) "GET:::api.com".toList = true ∧
    exprSearch (formatEndpoint "GET".toList (render P)) "GET:::API.com".toList = false := by
  decide

/-- `c14_holds_partial` speaks about non-trivial configurations. -/
example :
    let cfg := Cfg.flows [⟨"f1", "api.com/users/{id}", ["GET", "POST"], false⟩, ⟨"f2", "api.com/v1/*", [], false⟩]
    (∀ n ∈ ["f1"], (findDecl (declsOf cfg) n).isSome = true) ∧
    (registered cfg).length = 3 ∧
    managedB cfg "POST" "api.com/users/7" = true ∧ managedB cfg "HEAD" "api.com/users/7" = false ∧
    managedB cfg "HEAD" "api.com/v1/a" = true ∧
    reqVerdict (declsOf cfg) "POST" "api.com/users/7" ["f1"] (managedB cfg "POST" "api.com/users/7") = .ok := by
  decide

/-! ## Lifetime: what stays registered over a sequence of reloads (`Model/C14Reload.lean`)

"For every flow filter or policy endpoint the engine LOADS … no transaction bypasses the engine" has a time
dimension: after a (re)load has settled (`ttl` = staleVersionTTL later, every scheduled un-manage has fired), what
the configuration in force requires must (still) be in the proxy's map.  The code as it is (`Reload.Mode.ptr`)
violates this on EVERY second load (F14g); comparing entries by text (`Mode.byString`, F14g.patch) repairs the
histories whose reloads wait for one another; stamping registrations (`Mode.stamped`, + F14h.patch) repairs all. -/

open LunarVerif.C14.Reload

/-- F14g on the code as it is: the SAME configuration loaded twice; 30 s later both of its expressions — still
    required, re-registered by the second load — are removed from the map (`lo.Difference` on pointers). -/
theorem reload_unmanages_surviving_endpoints_witness :
    let a : Req := ⟨false, ["GET:::api\\.com/x$", "POST:::api\\.com/y$"]⟩
    let st := run .ptr {} [.reload a, .reload a, .advance ttl]
    st.jobs = [] ∧ st.managed = [] ∧ requiredOK st.cur st.all st.managed = false ∧
    requiredOK a false (run .ptr {} [.reload a, .reload a, .advance (ttl - 1)]).managed = true := by
  decide

/-- … and with entries compared by text (F14g.patch alone) a STALE job still removes what a later reload
    registered again: A → B → A within the TTL (F14h); the same with manage-all (on → off → on). -/
theorem stale_unmanage_witness :
    let a : Req := ⟨false, ["GET:::a\\.com/x$"]⟩
    let b : Req := ⟨false, ["GET:::a\\.com/y$"]⟩
    let st := run .byString {} [.reload a, .reload b, .advance 10000, .reload a, .advance ttl]
    let g : Req := ⟨true, []⟩
    let st' := run .byString {} [.reload g, .reload b, .advance 10000, .reload g, .advance ttl]
    st.jobs = [] ∧ requiredOK st.cur st.all st.managed = false ∧
    st'.jobs = [] ∧ requiredOK st'.cur st'.all st'.managed = false := by
  decide

/-- Lifetime property at full strength (the code as it is now, after F14g + F14h): for EVERY history of updates,
    time steps AND admin-server faults (`Ev.fail p d`: the next `p` PUTs / `d` DELETEs are refused, at whatever
    point of whatever request they fall), at every instant — settled or not — everything the configuration IN
    FORCE requires is managed.  A refused manage request leaves the OLD configuration in force (the update
    registers first and publishes only then); what it had already registered stays registered (harmless). -/
theorem managed_after_reload (evs : List Ev) :
    let st := run .stamped {} evs
    requiredOK st.cur st.all st.managed = true :=
  requiredOK_of_inv _ (inv_run evs {} inv_init)

/-- In-flight transactions (the un-manage delay is tied to the retention of the policies versions): for EVERY
    history, whenever the engine still serves transaction `id` from the version it was anchored to (`txnView` =
    within `ttl` of its anchoring and of the update that superseded that version, and not voided by an immediate
    un-manage, which the fail-safe reverts choose by design), the proxy still manages everything that version
    requires — at every instant of the interval, so the response leg reaches the engine. -/
theorem anchored_transaction_managed (evs : List Ev) (id : String) (req : Req)
    (hv : txnView (run .stamped {} evs) id = some req) :
    requiredOK req (run .stamped {} evs).all (run .stamped {} evs).managed = true :=
  txnView_managed _ (invT_run evs {} invT_init) id req hv

/-- Non-vacuity: a transaction anchored before an update that removes its endpoint is still served — and its
    endpoint still managed — 29 999 ms later; one ms later the un-manage has fired and the anchor has lapsed. -/
example :
    let a : Req := ⟨false, ["GET:::a\\.com/x$", "POST:::a\\.com/y$"]⟩
    let b : Req := ⟨false, ["POST:::a\\.com/y$"]⟩
    let st := run .stamped {} [.reload a, .txn "t1", .reload b, .advance 29999]
    let st' := run .stamped {} [.reload a, .txn "t1", .reload b, .advance 30000]
    txnView st "t1" = some a ∧ st.managed.contains "GET:::a\\.com/x$" = true ∧
    txnView st' "t1" = none ∧ st'.managed.contains "GET:::a\\.com/x$" = false := by
  decide

/-- The un-manage a reload schedules is by MEMBERSHIP of the expression text, not by counting entries: an
    expression the new request still contains — whatever its multiplicity before and after (one entry per enabled
    plugin: `r=1,1` → `r=1,0`) — is in none of the jobs this reload adds.  (`managed_after_reload` then covers what
    the jobs of OTHER reloads do, and `Ev.reloadNow` the immediate un-manage of the fail-safe reverts.) -/
theorem contained_expression_never_unmanaged (st : St) (new : Req) (e : String) (he : e ∈ new.eps) :
    ∀ j ∈ (reload .stamped st new).jobs, j ∉ st.jobs → j.global = false → e ∉ j.eps :=
  reload_job_spares_contained st new e he

/-- Non-vacuity / regression for the seeded change C14-s7: multiplicity 2 → 1 of the SAME expression, on the
    scheduled path and on the immediate path (fail-safe revert): it stays managed, the entry that left is gone. -/
example :
    let two : Req := ⟨false, ["GET:::a\\.com/x$", "GET:::a\\.com/x$", "GET:::a\\.com/y$"]⟩
    let one : Req := ⟨false, ["GET:::a\\.com/x$"]⟩
    let st := run .stamped {} [.reload two, .reload one, .advance ttl]
    let st' := run .stamped {} [.reload two, .reloadNow one]
    st.jobs = [] ∧ st.managed.contains "GET:::a\\.com/x$" = true ∧ st.managed.contains "GET:::a\\.com/y$" = false ∧
    st'.jobs = [] ∧ st'.managed.contains "GET:::a\\.com/x$" = true ∧ st'.managed.contains "GET:::a\\.com/y$" = false := by
  decide

/-- The order matters: publishing the new policies BEFORE the manage request (the seeded change C14-s5) breaks the
    property at the first refused PUT — the engine applies endpoints the proxy never registered. -/
theorem publish_first_violation_witness :
    let a : Req := ⟨false, ["GET:::a\\.com/x$", "GET:::a\\.com/y$"]⟩
    let bad := reload .stamped { failPut := 1 } a true
    let good := reload .stamped { failPut := 1 } a
    bad.cur = a ∧ bad.managed = [] ∧ requiredOK bad.cur bad.all bad.managed = false ∧
    good.cur = ⟨false, []⟩ ∧ requiredOK good.cur good.all good.managed = true := by
  decide

/-- … with F14g.patch alone: for every history in which a reload happens only when the previous ones have
    settled (no un-manage pending). -/
theorem managed_after_reload_spaced (evs : List Ev) (hs : Spaced {} evs) :
    let st := run .byString {} evs
    requiredOK st.cur st.all st.managed = true :=
  requiredOK_of_invS _ (invS_run evs {} invS_init hs)

/-- Non-vacuity: the histories of the two witnesses satisfy the property in the stamped mode, and something is
    really un-managed there (the entry that left the configuration). -/
example :
    let a : Req := ⟨false, ["GET:::a\\.com/x$"]⟩
    let b : Req := ⟨false, ["GET:::a\\.com/y$"]⟩
    let st := run .stamped {} [.reload a, .reload b, .advance 10000, .reload a, .advance ttl]
    st.jobs = [] ∧ st.managed = ["GET:::a\\.com/x$", "GET:::a\\.com/x$"] ∧
    requiredOK st.cur st.all st.managed = true := by
  decide

/-- `managed_after_reload` with faults is not vacuous: the second update is refused at its first PUT — the old
    configuration stays in force and managed, the first new entry stays registered; the retry goes through. -/
example :
    let a : Req := ⟨false, ["GET:::a\\.com/x$"]⟩
    let b : Req := ⟨false, ["GET:::a\\.com/y$", "GET:::a\\.com/z$"]⟩
    let st' := run .stamped {} [.reload a, .fail 1 0, .reload b, .reload b, .advance ttl]
    (run .stamped {} [.reload a, .fail 1 0, .reload b]).cur = a ∧
    (run .stamped {} [.fail 0 1, .reload a, .reload b, .advance ttl]).managed.contains "GET:::a\\.com/x$" = true ∧
    st'.cur = b ∧ st'.jobs = [] ∧ requiredOK st'.cur st'.all st'.managed = true ∧
    st'.managed.contains "GET:::a\\.com/x$" = false := by
  decide

/-- … and the hypothesis of `managed_after_reload_spaced` is satisfiable by a history with two real reloads. -/
example : Spaced {} [.reload ⟨false, ["GET:::a\\.com/x$"]⟩, .advance ttl, .reload ⟨false, ["GET:::a\\.com/y$"]⟩,
    .advance ttl] := by
  simp only [Spaced]
  decide

end LunarVerif.C14
