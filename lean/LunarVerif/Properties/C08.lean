import LunarVerif.Proofs.C08
/-!
# C08 — A configuration update is all-or-nothing

Property theorems only (helpers: `Proofs/C08.lean`; model: `Model/C08.lean`; predicate: `Spec/C08.lean`).
All general statements quantify over every environment (fault plan over the primitive steps,
dry-run / metrics-loader verdicts, HAProxy behaviour, map iteration orders), every initial tree
and engine, every request (endpoint, method, body, payload items in any order) and every set of
probed paths.

The unchanged code does NOT satisfy the property: the `*_witness` theorems exhibit the five
ways it breaks (findings F08a–F08e, each replayed on the real handlers from `corpus/C08/`), and
`c08_partial` proves the property for everything outside those classes.  The theorems whose name
ends in `_fixed` are about the PROPOSED correction of `Restore()` / `SaveMetricsConfig`
(`restoreFixed`, `handleConfigurationFixed` in the model file), not about the current code.
-/
namespace LunarVerif.C08

/-! ## What the current code guarantees -/

/-- Connection theorem (partial form of the full property): for every model step whose request is
    outside the known-finding classes (`finding … = none`: method PUT; if not answered 200 then
    rejected before the first save; if answered 200 then no transaction at the publish point and
    no metrics item aimed at a missing user file), the Spec predicate — the one the judge evaluates
    on the real implementation's answers — holds. -/
theorem c08_partial (env : Env) (hco : env.CleanOrderOk) (probes : List Path) (st : State) (req : Req)
    (hclass : finding (observe probes st req (handle env st req)) = none) :
    holds (observe probes st req (handle env st req)) = true :=
  partial_holds env hco probes st req hclass

/-- A request that stops in the decode / no-data / backup / parse phase changes neither the tree
    nor the engine, and no engine is published on the way. -/
theorem rejected_before_save_leaves_state (env : Env) (st : State) (req : Req)
    (h : (handle env st req).phase.early = true) :
    (handle env st req).disk = st.disk ∧ (handle env st req).engine = st.engine ∧
    (handle env st req).mid = [] :=
  early_handle env st req h

/-- An undecodable payload (malformed JSON, `null`, or any item that is not base64) is answered
    with a status other than 200 and leaves the tree and the engine untouched — on both endpoints,
    whatever faults are injected. -/
theorem undecodable_payload_leaves_disk (env : Env) (st : State) (req : Req)
    (h : req.body.undecodable = true) :
    (handle env st req).status ≠ 200 ∧ (handle env st req).disk = st.disk ∧
    (handle env st req).engine = st.engine := by
  obtain ⟨hs, he⟩ := undecodable_handle env st req h
  obtain ⟨hd, hen, _⟩ := early_handle env st req he
  exact ⟨hs, hd, hen⟩

/-- A 200 means: method PUT, decodable payload, the engine serving afterwards was initialised from
    exactly the tree on disk, and (unless the metrics item was diverted to the built-in file, F08d)
    the tree is the payload applied: overlaid by `/configuration`, replacing everything in scope by
    `/apply_flows`. -/
theorem success_disk_is_payload (env : Env) (hco : env.CleanOrderOk) (st : State) (req : Req)
    (hs : (handle env st req).status = 200) :
    req.methodPut = true ∧ (handle env st req).phase = .ok ∧
    (handle env st req).engine = .ready (handle env st req).disk ∧
    ∃ items, req.body = .payload items ∧ (parse items).isSome = true ∧
      (metricsMismatch (observe [] st req (handle env st req)) = false →
        ∀ p, (handle env st req).disk.get p = expectedGet req.ep items st.disk p) :=
  success_char env hco st req hs

/-! ## How the current code breaks the property -/

/-- F08a, root cause, general form: whatever was backed up, `Restore()` (when none of its stores
    fails) leaves every file exactly as it finds it. -/
theorem restore_is_noop (env : Env) (backup d : Disk) (hwf : d.WF)
    (hnf : ∀ p, env.plan (.restoreStore p) = false) :
    ∀ p, (restore env backup d).1.get p = d.get p :=
  restore_noop env backup d hwf hnf

/-- F08a, the probed scenario: backup; save `a.yaml := new`; save `b.yaml`; restore — `a.yaml` still
    has the new content and `b.yaml` still exists. -/
theorem restore_is_noop_witness :
    let env := demoEnv none
    let d0 : Disk := [(.flow "a.yaml", "old")]
    let backup := snapshot d0
    let d1 := (saveAll env d0 [(.flow "a.yaml", "new"), (.flow "b.yaml", "added")]).1
    (restore env backup d1).2 = true ∧
    (restore env backup d1).1.get (.flow "a.yaml") = some "new" ∧
    (restore env backup d1).1.get (.flow "b.yaml") = some "added" := by
  decide

def wState : State :=
  ⟨[(.flow "a.yaml", "v1"), (.gateway, "g1"), (.defaultMetrics, "m0")],
   .ready [(.flow "a.yaml", "v1"), (.gateway, "g1"), (.defaultMetrics, "m0")]⟩

def wProbes : List Path := [.flow "a.yaml", .flow "b.yaml"]

/-- F08a: `PUT /configuration` with one changed valid flow and one flow failing validation is
    answered 422 and the tree stays changed (same scenario as `corpus/C08/F08a.ops`). -/
theorem configuration_rollback_violation_witness :
    ∃ (env : Env) (st : State) (req : Req) (probes : List Path),
      (handle env st req).status = 422 ∧
      (handle env st req).disk.get (.flow "a.yaml") ≠ st.disk.get (.flow "a.yaml") ∧
      holds (observe probes st req (handle env st req)) = false ∧
      finding (observe probes st req (handle env st req)) = some "F08a" :=
  ⟨demoEnv none, wState,
   ⟨.configuration, true, .payload [⟨.flow "a.yaml", some "v2"⟩, ⟨.flow "b.yaml", some "bad"⟩], false⟩,
   wProbes, by decide⟩

/-- F08b: `PUT /apply_flows` has no backup and starts with `CleanAll`: a payload failing validation
    is answered 422 with the old flow and the gateway configuration gone. -/
theorem apply_flows_no_rollback_witness :
    ∃ (env : Env) (st : State) (req : Req) (probes : List Path),
      (handle env st req).status = 422 ∧
      (handle env st req).disk.get (.flow "a.yaml") = none ∧
      (handle env st req).disk.get .gateway = none ∧
      holds (observe probes st req (handle env st req)) = false ∧
      finding (observe probes st req (handle env st req)) = some "F08b" :=
  ⟨demoEnv none, wState,
   ⟨.applyFlows, true, .payload [⟨.flow "b.yaml", some "bad"⟩], false⟩, wProbes, by decide⟩

/-- F08c: during a SUCCESSFUL update a transaction arriving between `rd.stream = stream` and
    `Initialize()` is served by an engine that knows no flow at all, although both the old and the
    new configuration have a flow for it. -/
theorem half_built_engine_witness :
    ∃ (env : Env) (st : State) (req : Req),
      (handle env st req).status = 200 ∧
      st.engine.probe (.flow "a.yaml") = some "v1" ∧
      (handle env st req).engine.probe (.flow "a.yaml") = some "v2" ∧
      (handle env st req).mid.map (fun e => e.probe (.flow "a.yaml")) = [none] ∧
      holds (observe wProbes st req (handle env st req)) = false ∧
      finding (observe wProbes st req (handle env st req)) = some "F08c" :=
  ⟨demoEnv none, wState,
   ⟨.configuration, true, .payload [⟨.flow "a.yaml", some "v2"⟩], true⟩, by decide⟩

/-- F08c, second half: if `Initialize()` fails, the un-initialised engine stays published and
    serves nothing (here through `/apply_flows`, which does not even try to reload again). -/
theorem failed_initialize_stays_published_witness :
    ∃ (env : Env) (st : State) (req : Req),
      (handle env st req).status = 422 ∧
      st.engine.probe (.flow "a.yaml") = some "v1" ∧
      (handle env st req).disk.get (.flow "a.yaml") = some "v2" ∧
      (handle env st req).engine.probe (.flow "a.yaml") = none :=
  ⟨demoEnv (some (.initialize 1)), wState,
   ⟨.applyFlows, true, .payload [⟨.flow "a.yaml", some "v2"⟩], false⟩, by decide⟩

/-- F08d: with no user metrics file, the payload's metrics overwrite the built-in default file —
    outside the scope of backup and clean-up — and the user metrics path stays empty. -/
theorem metrics_path_mismatch_witness :
    ∃ (env : Env) (st : State) (req : Req),
      (handle env st req).status = 200 ∧
      (handle env st req).disk.get .userMetrics = none ∧
      (handle env st req).disk.get .defaultMetrics = some "m1" ∧
      Path.covered .defaultMetrics = false ∧
      holds (observe wProbes st req (handle env st req)) = false ∧
      finding (observe wProbes st req (handle env st req)) = some "F08d" :=
  ⟨demoEnv none, wState,
   ⟨.configuration, true, .payload [⟨.userMetrics, some "m1"⟩], false⟩, by decide⟩

/-- F08e: a `GET /configuration` is answered 405 — and the payload is applied all the same. -/
theorem method_check_falls_through_witness :
    ∃ (env : Env) (st : State) (req : Req),
      (handle env st req).status = 405 ∧
      (handle env st req).disk.get (.flow "a.yaml") = some "v2" ∧
      (handle env st req).engine.probe (.flow "a.yaml") = some "v2" ∧
      holds (observe wProbes st req (handle env st req)) = false ∧
      finding (observe wProbes st req (handle env st req)) = some "F08e" :=
  ⟨demoEnv none, wState,
   ⟨.configuration, false, .payload [⟨.flow "a.yaml", some "v2"⟩], false⟩, by decide⟩

/-- Double fault (information, not a finding of its own): a store failing INSIDE `Restore()`
    deletes the file it was "restoring". -/
theorem restore_fault_deletes_file_witness :
    ∃ (env : Env) (st : State) (req : Req),
      (handle env st req).status = 422 ∧
      st.disk.get (.flow "a.yaml") = some "v1" ∧
      (handle env st req).disk.get (.flow "a.yaml") = none :=
  ⟨demoEnv (some (.restoreStore (.flow "a.yaml"))), wState,
   ⟨.configuration, true, .payload [⟨.flow "a.yaml", some "v2"⟩, ⟨.flow "b.yaml", some "bad"⟩], false⟩,
   by decide⟩

/-! ## The proposed fix (`restoreFixed`, `handleConfigurationFixed`) — NOT the current code -/

/-- The corrected `Restore()` (iterate the backup, write the backed-up contents, remove covered
    paths absent from the backup) brings back exactly the backed-up tree, whatever the saves did,
    as long as nothing outside the scope of the backup was touched and the restore itself does
    not fail. -/
theorem restoreFixed_restores_fixed (env : Env) (hrr : env.plan .restoreRead = false)
    (hnf : ∀ p, env.plan (.restoreStore p) = false) (d0 d : Disk)
    (hunc : ∀ q, q.covered = false → d.get q = d0.get q) :
    ∀ q, (restoreFixed env (snapshot d0) d).1.get q = d0.get q :=
  restoreFixed_correct env hrr hnf d0 d hunc

/-- Rollback with the fix, general form: ANY combination of failures before the restore (injected
    faults in backup / saves / dry run / Initialize / HAProxy / metrics of round 1, payloads
    failing validation, bad metrics), restore and the reload after it fault-free, the running
    configuration valid and in sync with the disk ⇒ a request not answered 200 leaves the tree
    byte for byte as before and the engine serving every path as before. -/
theorem rollback_fixed (env : Env) (hext : env.Extensional) (hff : env.RestoreFaultFree)
    (st : State) (req : Req) (hput : req.methodPut = true)
    (hwf : ∀ items, req.body = .payload items → Path.defaultMetrics ∉ itemPaths items)
    (hv : env.validates st.disk = true) (hm : env.metricsOk st.disk = true)
    (hsync : ∀ p, st.engine.probe p = st.disk.get p)
    (hs : (handleConfigurationFixed env st req).status ≠ 200) :
    (∀ p, (handleConfigurationFixed env st req).disk.get p = st.disk.get p) ∧
    (∀ p, (handleConfigurationFixed env st req).engine.probe p = st.engine.probe p) :=
  rollback_fixed_aux env hext hff st req hput hwf hv hm hsync hs

/-- Rollback with the fix, single-fault form: for every payload and every step `k` outside the
    restore, if the fault plan fails exactly step `k`, a request not answered 200 leaves the disk
    and the engine's behaviour as before. -/
theorem rollback_single_fault_fixed (env : Env) (k : Step)
    (hk : env.plan = fun s => decide (s = k)) (hnr : k.inRestore = false)
    (hext : env.Extensional) (st : State) (req : Req) (hput : req.methodPut = true)
    (hwf : ∀ items, req.body = .payload items → Path.defaultMetrics ∉ itemPaths items)
    (hv : env.validates st.disk = true) (hm : env.metricsOk st.disk = true)
    (hsync : ∀ p, st.engine.probe p = st.disk.get p)
    (hs : (handleConfigurationFixed env st req).status ≠ 200) :
    (∀ p, (handleConfigurationFixed env st req).disk.get p = st.disk.get p) ∧
    (∀ p, (handleConfigurationFixed env st req).engine.probe p = st.engine.probe p) :=
  rollback_fixed_aux env hext (single_fault_restoreFaultFree env k hk hnr) st req hput hwf hv hm hsync hs

/-! ## Non-vacuity -/

/-- `c08_partial` covers real successes: a valid update without a transaction at the publish
    point is outside every finding class, is answered 200 and changes the tree. -/
example :
    let req : Req := ⟨.configuration, true, .payload [⟨.flow "a.yaml", some "v2"⟩, ⟨.flow "c.yaml", some "v1"⟩], false⟩
    finding (observe wProbes wState req (handle (demoEnv none) wState req)) = none ∧
    (handle (demoEnv none) wState req).status = 200 ∧
    (handle (demoEnv none) wState req).disk.get (.flow "c.yaml") = some "v1" := by
  decide

/-- … and real rejections: bad base64 in the second item, backup read failing. -/
example :
    let req : Req := ⟨.configuration, true, .payload [⟨.flow "a.yaml", some "v2"⟩, ⟨.flow "b.yaml", none⟩], true⟩
    req.body.undecodable = true ∧
    finding (observe wProbes wState req (handle (demoEnv none) wState req)) = none ∧
    (handle (demoEnv none) wState req).status = 400 := by
  decide

example :
    let req : Req := ⟨.configuration, true, .payload [⟨.flow "a.yaml", some "v2"⟩], true⟩
    (handle (demoEnv (some .backupRead)) wState req).phase.early = true ∧
    (handle (demoEnv (some .backupRead)) wState req).status = 500 := by
  decide

/-- `success_disk_is_payload` for `/apply_flows`: everything in scope is replaced. -/
example :
    let req : Req := ⟨.applyFlows, true, .payload [⟨.flow "c.yaml", some "v1"⟩], false⟩
    (handle (demoEnv none) wState req).status = 200 ∧
    (handle (demoEnv none) wState req).disk.get (.flow "a.yaml") = none ∧
    (handle (demoEnv none) wState req).disk.get .gateway = none ∧
    (handle (demoEnv none) wState req).disk.get (.flow "c.yaml") = some "v1" ∧
    (handle (demoEnv none) wState req).disk.get .defaultMetrics = some "m0" := by
  decide

/-- The hypotheses of `restore_is_noop` are met by the F08a scenario (`WF` disk, no restore fault). -/
example : Disk.WF wState.disk ∧ ∀ p, (demoEnv none).plan (.restoreStore p) = false :=
  ⟨by unfold Disk.WF Disk.keys; decide, fun _ => rfl⟩

/-- The hypotheses of `rollback_single_fault_fixed` are satisfiable, and the fixed handler does
    roll the F08a scenario back (422, tree and verdicts as before) — also when the failure is an
    injected fault on the second save (500). -/
example :
    let req : Req := ⟨.configuration, true, .payload [⟨.flow "a.yaml", some "v2"⟩, ⟨.flow "b.yaml", some "bad"⟩], false⟩
    (handleConfigurationFixed (demoEnv none) wState req).status = 422 ∧
    sameDisk (handleConfigurationFixed (demoEnv none) wState req).disk wState.disk = true ∧
    (handleConfigurationFixed (demoEnv none) wState req).engine.probe (.flow "a.yaml") = some "v1" ∧
    (demoEnv none).validates wState.disk = true ∧ (demoEnv none).metricsOk wState.disk = true := by
  decide

example :
    let env := demoEnv (some (.save (.flow "b.yaml")))
    let req : Req := ⟨.configuration, true, .payload [⟨.flow "a.yaml", some "v2"⟩, ⟨.flow "b.yaml", some "v1"⟩], false⟩
    (Step.save (.flow "b.yaml")).inRestore = false ∧
    (handleConfigurationFixed env wState req).status = 500 ∧
    sameDisk (handleConfigurationFixed env wState req).disk wState.disk = true ∧
    sameDisk (handleConfiguration env wState req).disk wState.disk = false := by
  decide

end LunarVerif.C08
