import LunarVerif.Proofs.C08
/-!
# C08 — A configuration update is all-or-nothing

Property theorems only (helpers: `Proofs/C08.lean`; model: `Model/C08.lean`; predicate: `Spec/C08.lean`).
The model describes the code AFTER the repairs F08a–F08e (`fixes/F08*.patch`): `Restore()` iterates
the backup and removes added files, `SaveMetricsConfig` writes the user metrics path, the handlers
return after a 405, the new engine is switched in only after `Initialize()` succeeded, and
`/apply_flows` takes the same backup / restore / reload path as `/configuration`.

All statements quantify over every environment (fault plan over the primitive steps, dry-run /
metrics-loader verdicts, HAProxy behaviour, Go map iteration orders), every initial tree and
engine, every request (endpoint, method, body, payload items in any order) and every set of
probed paths. Hypotheses that recur:

* `env.WF` — the environment is a legal one (clean-up ranges over the two configured files, map
  iteration visits exactly the keys, validators depend on file contents only);
* `env.RestoreFaultFree` — no fault INSIDE `Restore()` nor in the pre-switch part of the reload after
  it (a second fault on top of the one being rolled back cannot be undone by any in-place protocol);
  every other step may fail, in any combination;
* `st.WF env` — the running configuration is valid and the engine was loaded from the tree on disk
  (an invariant: `wellformed_preserved`);
* `req.WF` — the payload does not name the built-in metrics file (the JSON has no field for it).

One class of requests still breaks the property (finding F08f, open): a reload that fails AFTER the
engine switch. `c08_partial` keeps it as an explicit excluded class; `switched_then_failed_witness`
exhibits it.
-/
namespace LunarVerif.C08

/-! ## The property -/

/-- Connection theorem: for every model step whose request is outside the one remaining
    known-finding class (`finding … = none`: the failed request had not already switched engines),
    the Spec predicate — the one the judge evaluates on the real implementation's answers — holds:
    not answered 200 ⇒ tree byte for byte as before, probe verdicts as before, transactions at the
    switch points served as before; answered 200 ⇒ every transaction at the switch point is served
    by the old or by the new configuration and the tree is the payload applied. -/
theorem c08_partial (env : Env) (hwf : env.WF) (hff : env.RestoreFaultFree) (probes : List Path)
    (st : State) (hst : st.WF env) (req : Req) (hreq : req.WF)
    (hclass : finding (observe probes st req (handle env st req)) = none) :
    holds (observe probes st req (handle env st req)) = true :=
  partial_holds env hwf hff probes st hst req hreq hclass

/-- The state hypothesis of `c08_partial` is an invariant of the protocol: it survives every
    request (so the theorems apply to any sequence of requests). -/
theorem wellformed_preserved (env : Env) (hwf : env.WF) (hff : env.RestoreFaultFree)
    (st : State) (hst : st.WF env) (req : Req) (hreq : req.WF) :
    (handle env st req).state.WF env :=
  wf_preserved env hwf hff st hst req hreq

/-- (A) Rollback, general form, both endpoints: ANY combination of failures before the restore
    (injected faults in backup / clean-up / saves / dry run / Initialize / HAProxy / metrics, payloads
    failing validation, bad metrics) ⇒ a request not answered 200 leaves the tree byte for byte as
    before and the engine serving every path as before. -/
theorem rollback (env : Env) (hwf : env.WF) (hff : env.RestoreFaultFree)
    (st : State) (hst : st.WF env) (req : Req) (hreq : req.WF)
    (hs : (handle env st req).status ≠ 200) :
    (∀ p, (handle env st req).disk.get p = st.disk.get p) ∧
    (∀ p, (handle env st req).engine.probe p = st.engine.probe p) :=
  rollback_aux env hwf hff st hst req hreq hs

/-- (A) Rollback, single-fault form: for every payload and every step `k` outside the restore, if
    the fault plan fails exactly step `k`, a request not answered 200 leaves disk and behaviour as
    before. -/
theorem rollback_single_fault (env : Env) (hwf : env.WF) (k : Step)
    (hk : env.plan = fun s => decide (s = k)) (hnr : k.inRestore = false)
    (st : State) (hst : st.WF env) (req : Req) (hreq : req.WF)
    (hs : (handle env st req).status ≠ 200) :
    (∀ p, (handle env st req).disk.get p = st.disk.get p) ∧
    (∀ p, (handle env st req).engine.probe p = st.engine.probe p) :=
  rollback_aux env hwf (single_fault_restoreFaultFree env k hk hnr) st hst req hreq hs

/-- (B) A 200 means: method PUT, decodable payload, the tree is the payload applied (overlaid by
    `/configuration`, replacing everything in scope by `/apply_flows`), the engine serving
    afterwards was initialised from exactly that tree, and every transaction that arrived at the
    switch point was served by the OLD engine — never by a half-built one. -/
theorem success_switch_atomic (env : Env) (hwf : env.WF) (hff : env.RestoreFaultFree)
    (st : State) (hst : st.WF env) (req : Req) (hreq : req.WF)
    (hs : (handle env st req).status = 200) :
    req.methodPut = true ∧ (handle env st req).phase = .ok ∧
    (handle env st req).engine = .ready (handle env st req).disk ∧
    (∀ e ∈ (handle env st req).mid, e = st.engine) ∧
    ∃ items, req.body = .payload items ∧ (parse items).isSome = true ∧
      ∀ p, (handle env st req).disk.get p = expectedGet req.ep items st.disk p :=
  success_aux env hwf hff st hst req hreq hs

/-- `Restore()` brings back exactly the backed-up tree, whatever the clean-up and the saves did, in
    whatever order Go ranges over the backup, as long as nothing outside the scope of the backup
    was touched and the restore itself does not fail. -/
theorem restore_restores (env : Env) (hwf : env.WF) (hrr : env.plan .restoreRead = false)
    (hnf : ∀ p, env.plan (.restoreStore p) = false) (d0 d : Disk)
    (hunc : ∀ q, q.covered = false → d.get q = d0.get q) :
    ∀ q, (restore env (snapshot d0) d).1.get q = d0.get q :=
  restore_correct env hwf hrr hnf d0 d hunc

/-- `storeFileOnDisk` = unlink (error ignored) + create-TRUNCATE + write: after a successful store the
    file holds exactly the new bytes, whether or not the unlink worked — so a failing unlink (during a
    save or inside `Restore()`) is not a failure, and every theorem above holds under such faults
    (`Step.saveUnlink`, `Step.restoreUnlink` are ordinary steps, not part of `RestoreFaultFree`). -/
theorem store_writes_exactly_the_new_bytes (unlinkFails : Bool) (d : Disk) (p : Path) (c : Bytes) (q : Path) :
    (store unlinkFails false d p c).2 = true ∧
    (store unlinkFails false d p c).1.get q = if q = p then some c else d.get q :=
  ⟨rfl, get_write_unlinked unlinkFails d p c q⟩

/-! ## Two overlapping pushes (lock discipline: `TryLock` first, snapshot inside the critical section) -/

/-- A push that finds `handlingLock` taken is answered 226 and touches nothing. -/
theorem busy_push_touches_nothing (env : Env) (st : State) (req : Req) :
    (handleLocked env st true req).status = 226 ∧ (handleLocked env st true req).state = st :=
  ⟨rfl, rfl⟩

/-- For every interleaving of two pushes (`Sched`: one after the other in either order, or one
    arriving while the other is inside its critical section — e.g. parked in its `Backup()`): the
    final tree and serving configuration are those of running, one after the other in the order
    they went through the critical section, exactly the pushes that were answered 200; a refused
    push (validation / save / reload failure, or a 226 collision) leaves no trace — in particular
    it restores the LATEST accepted tree, never an older one. -/
theorem two_pushes_serializable (env : Env) (hwf : env.WF) (hff : env.RestoreFaultFree)
    (st : State) (hst : st.WF env) (a b : Req) (ha : a.WF) (hb : b.WF) (sched : Sched) :
    SerialFrom env st (acceptedInOrder a b (runTwo env st a b sched) sched)
      (runTwo env st a b sched).final :=
  two_pushes_aux env hwf hff st hst a b ha hb sched

/-! ## What the proxy is told to manage (serial discipline of the delayed un-manage) -/

/-- After an engine switch to a configuration with endpoints `new`, once the un-manage delay has elapsed
    every endpoint of `new` is still managed, whatever earlier switches had scheduled for removal (their
    serials were read when they were scheduled, and `new` was registered by a newer request). -/
theorem reregistered_endpoints_survive (r : Registry) (h : r.WF) (prev new : List Path) (e : Path)
    (he : e ∈ new) : e ∈ ((r.switch prev new).tick).managed :=
  Registry.switch_then_tick r h prev new e he

/-- A push that is rolled back AFTER it had switched engines (A → B, failure, restore, B → A): thirty
    seconds later every endpoint of the restored configuration A is still handed to the engine. -/
theorem rolled_back_push_keeps_endpoints (r : Registry) (h : r.WF) (a b : List Path) (e : Path)
    (he : e ∈ a) : e ∈ (((r.switch a b).switch b a).tick).managed :=
  Registry.switch_then_tick _ (Registry.switch_wf r h a b) b a e he

/-! ## Policies mode -/

/-- A policies push that is not answered 200 (document refused, or the proxy refusing the registration of
    its endpoints) leaves `policies.yaml` and the policies serving new transactions as they were; an
    accepted one makes both the pushed document. -/
theorem policies_push_all_or_nothing (proxyRefuses : Bool) (st : PState) (p : PPayload) :
    ((applyPolicies proxyRefuses st p).1 ≠ 200 → (applyPolicies proxyRefuses st p).2 = st) ∧
    ((applyPolicies proxyRefuses st p).1 = 200 →
      ∃ k, p = .label k ∧ (applyPolicies proxyRefuses st p).2 = ⟨k, k⟩) := by
  cases p with
  | invalid => exact ⟨fun _ => rfl, fun h => by cases h⟩
  | label k =>
    cases proxyRefuses with
    | true => exact ⟨fun _ => rfl, fun h => by cases h⟩
    | false => exact ⟨fun h => absurd rfl h, fun _ => ⟨k, rfl, rfl⟩⟩

/-! ## Rejections before the first write (no hypothesis on environment or state) -/

/-- A request that stops in the method / decode / no-data / backup / parse phase changes neither the
    tree nor the engine — literally — and reaches no switch point. -/
theorem rejected_before_save_leaves_state (env : Env) (st : State) (req : Req)
    (h : (handle env st req).phase.early = true) :
    (handle env st req).disk = st.disk ∧ (handle env st req).engine = st.engine ∧
    (handle env st req).mid = [] :=
  early_handle env st req h

/-- An undecodable payload (malformed JSON, `null`, or any item that is not base64) is answered
    with a status other than 200 and leaves tree and engine untouched, whatever faults are injected. -/
theorem undecodable_payload_leaves_disk (env : Env) (st : State) (req : Req)
    (h : req.body.undecodable = true) :
    (handle env st req).status ≠ 200 ∧ (handle env st req).disk = st.disk ∧
    (handle env st req).engine = st.engine := by
  obtain ⟨hs, he⟩ := undecodable_handle env st req h
  obtain ⟨hd, hen, _⟩ := early_handle env st req he
  exact ⟨hs, hd, hen⟩

/-- A request with any method other than PUT is answered 405 and does nothing. -/
theorem non_put_is_rejected (env : Env) (st : State) (req : Req) (h : req.methodPut = false) :
    (handle env st req).status = 405 ∧ (handle env st req).disk = st.disk ∧
    (handle env st req).engine = st.engine := by
  obtain ⟨hs, hp⟩ := non_put_handle env st req h
  obtain ⟨hd, hen, _⟩ := early_handle env st req (by rw [hp]; rfl)
  exact ⟨hs, hd, hen⟩

/-! ## What still breaks the property (F08f, open) and what lies outside its hypotheses -/

def wState : State :=
  ⟨[(.flow "a.yaml", "v1"), (.gateway, "g1"), (.defaultMetrics, "m0")],
   .ready [(.flow "a.yaml", "v1"), (.gateway, "g1"), (.defaultMetrics, "m0")]⟩

def wProbes : List Path := [.flow "a.yaml", .flow "b.yaml"]

/-- F08f: the HAProxy update fails after the engine switch. The request is answered 422 and fully
    rolled back (tree and final verdicts as before) — but the transaction arriving at the switch
    point of the rollback reload is served by the REJECTED configuration (`v2`). -/
theorem switched_then_failed_witness :
    ∃ (env : Env) (st : State) (req : Req),
      env.WF ∧ env.RestoreFaultFree ∧ st.WF env ∧ req.WF ∧
      (handle env st req).status = 422 ∧
      sameDisk (handle env st req).disk st.disk = true ∧
      (handle env st req).engine.probe (.flow "a.yaml") = some "v1" ∧
      (handle env st req).mid.map (fun e => e.probe (.flow "a.yaml")) = [some "v1", some "v2"] ∧
      holds (observe wProbes st req (handle env st req)) = false ∧
      finding (observe wProbes st req (handle env st req)) = some "F08f" :=
  ⟨demoEnv (some (.haproxy 1)), wState,
   ⟨.configuration, true, .payload [⟨.flow "a.yaml", some "v2"⟩], true⟩,
   demoEnv_wf _, single_fault_restoreFaultFree _ (.haproxy 1) rfl rfl,
   ⟨by decide, by decide, fun _ => rfl⟩, by simp [Req.WF, itemsWF, itemPaths], by decide⟩

/-- Double fault (outside `RestoreFaultFree`; information, not a finding): a store failing INSIDE
    `Restore()` leaves the file it was restoring deleted. -/
theorem restore_fault_deletes_file_witness :
    ∃ (env : Env) (st : State) (req : Req),
      (handle env st req).status = 422 ∧
      st.disk.get (.flow "a.yaml") = some "v1" ∧
      (handle env st req).disk.get (.flow "a.yaml") = none :=
  ⟨demoEnv (some (.restoreStore (.flow "a.yaml"))), wState,
   ⟨.configuration, true, .payload [⟨.flow "a.yaml", some "v2"⟩, ⟨.flow "b.yaml", some "bad"⟩], false⟩,
   by decide⟩

/-! ## Non-vacuity -/

/-- The hypotheses of the general theorems are met by a concrete non-trivial environment and state. -/
example : (demoEnv none).WF ∧ (demoEnv none).RestoreFaultFree ∧ wState.WF (demoEnv none) :=
  ⟨demoEnv_wf _, ⟨rfl, fun _ => rfl, rfl, rfl⟩, ⟨by decide, by decide, fun _ => rfl⟩⟩

/-- `rollback` on the former F08a scenario (one changed valid flow + one flow failing validation):
    422, tree and verdicts as before; with a probe at the switch point too. -/
example :
    let req : Req := ⟨.configuration, true, .payload [⟨.flow "a.yaml", some "v2"⟩, ⟨.flow "b.yaml", some "bad"⟩], true⟩
    (handle (demoEnv none) wState req).status = 422 ∧
    sameDisk (handle (demoEnv none) wState req).disk wState.disk = true ∧
    finding (observe wProbes wState req (handle (demoEnv none) wState req)) = none ∧
    holds (observe wProbes wState req (handle (demoEnv none) wState req)) = true := by
  decide

/-- `rollback_single_fault`: an injected fault on the second save (500), and `/apply_flows` with a
    payload failing validation after the tree was wiped (former F08b): both rolled back. -/
example :
    let env := demoEnv (some (.save (.flow "b.yaml")))
    let req : Req := ⟨.configuration, true, .payload [⟨.flow "a.yaml", some "v2"⟩, ⟨.flow "b.yaml", some "v1"⟩], false⟩
    (Step.save (.flow "b.yaml")).inRestore = false ∧
    (handle env wState req).status = 500 ∧ sameDisk (handle env wState req).disk wState.disk = true := by
  decide

example :
    let req : Req := ⟨.applyFlows, true, .payload [⟨.flow "b.yaml", some "bad"⟩], true⟩
    (handle (demoEnv none) wState req).status = 422 ∧
    sameDisk (handle (demoEnv none) wState req).disk wState.disk = true ∧
    (handle (demoEnv none) wState req).engine.probe (.flow "a.yaml") = some "v1" ∧
    holds (observe wProbes wState req (handle (demoEnv none) wState req)) = true := by
  decide

/-- `success_switch_atomic`: a valid update with a transaction at the switch point (former F08c):
    200, the transaction is served by the old engine (`v1`), afterwards `v2`; the metrics item goes
    to the user metrics file, the built-in one is untouched (former F08d). -/
example :
    let req : Req := ⟨.configuration, true, .payload [⟨.flow "a.yaml", some "v2"⟩, ⟨.userMetrics, some "m1"⟩], true⟩
    (handle (demoEnv none) wState req).status = 200 ∧
    (handle (demoEnv none) wState req).mid.map (fun e => e.probe (.flow "a.yaml")) = [some "v1"] ∧
    (handle (demoEnv none) wState req).engine.probe (.flow "a.yaml") = some "v2" ∧
    (handle (demoEnv none) wState req).disk.get .userMetrics = some "m1" ∧
    (handle (demoEnv none) wState req).disk.get .defaultMetrics = some "m0" ∧
    holds (observe wProbes wState req (handle (demoEnv none) wState req)) = true := by
  decide

/-- `/apply_flows` success replaces everything in scope. -/
example :
    let req : Req := ⟨.applyFlows, true, .payload [⟨.flow "c.yaml", some "v1"⟩], false⟩
    (handle (demoEnv none) wState req).status = 200 ∧
    (handle (demoEnv none) wState req).disk.get (.flow "a.yaml") = none ∧
    (handle (demoEnv none) wState req).disk.get .gateway = none ∧
    (handle (demoEnv none) wState req).disk.get (.flow "c.yaml") = some "v1" ∧
    (handle (demoEnv none) wState req).disk.get .defaultMetrics = some "m0" := by
  decide

/-- `two_pushes_serializable`, non-trivially: A (valid, adds c.yaml) is accepted, then B (a flow failing
    validation) is refused — the final tree is A's, not the one from before A; and with A arriving while
    B is inside, A is answered 226 and B alone decides. -/
example :
    let a : Req := ⟨.configuration, true, .payload [⟨.flow "c.yaml", some "v1"⟩], false⟩
    let b : Req := ⟨.applyFlows, true, .payload [⟨.flow "b.yaml", some "bad"⟩], false⟩
    let t := runTwo (demoEnv none) wState a b .aThenB
    t.ra.status = 200 ∧ t.rb.status = 422 ∧ t.final.disk.get (.flow "c.yaml") = some "v1" ∧
    sameDisk t.final.disk t.ra.disk = true ∧
    (acceptedInOrder a b t .aThenB).length = 1 ∧
    (runTwo (demoEnv none) wState a b .aDuringB).ra.status = 226 ∧
    sameDisk (runTwo (demoEnv none) wState a b .aDuringB).final.disk wState.disk = true := by
  decide

/-- `rollback` under a failing unlink inside `Restore()` (a longer rejected content is replaced by the
    shorter backed-up one): still byte for byte the old tree. -/
example :
    let env := demoEnv (some (.restoreUnlink (.flow "a.yaml")))
    let req : Req := ⟨.configuration, true, .payload [⟨.flow "a.yaml", some "v2-much-longer"⟩, ⟨.flow "b.yaml", some "bad"⟩], false⟩
    (Step.restoreUnlink (.flow "a.yaml")).inRestore = false ∧
    (handle env wState req).status = 422 ∧ sameDisk (handle env wState req).disk wState.disk = true := by
  decide

/-- `rolled_back_push_keeps_endpoints`, concretely: A = {a, b}, B = {b, c}; after the round trip and the
    delay exactly A is managed (c, scheduled at the second switch, is gone; a, scheduled at the first, is
    spared because the second switch registered it again). -/
example :
    let a : List Path := [.flow "a.yaml", .flow "b.yaml"]
    let b : List Path := [.flow "b.yaml", .flow "c.yaml"]
    let r := (Registry.empty.switch [] a)
    r.WF ∧ (((r.switch a b).switch b a).tick).managed = [.flow "a.yaml", .flow "b.yaml"] ∧
    ((r.switch a b).tick).managed = [.flow "b.yaml", .flow "c.yaml"] := by
  exact ⟨Registry.switch_wf _ (fun _ hj => by cases hj) _ _, by decide, by decide⟩

/-- Early rejections: bad base64 in the second item; backup read failing; GET (former F08e). -/
example :
    let req : Req := ⟨.configuration, true, .payload [⟨.flow "a.yaml", some "v2"⟩, ⟨.flow "b.yaml", none⟩], true⟩
    req.body.undecodable = true ∧ (handle (demoEnv none) wState req).status = 400 := by
  decide

example :
    let req : Req := ⟨.applyFlows, true, .payload [⟨.flow "a.yaml", some "v2"⟩], true⟩
    (handle (demoEnv (some .backupRead)) wState req).phase.early = true ∧
    (handle (demoEnv (some .backupRead)) wState req).status = 500 := by
  decide

example :
    let req : Req := ⟨.configuration, false, .payload [⟨.flow "a.yaml", some "v2"⟩], false⟩
    (handle (demoEnv none) wState req).status = 405 ∧
    (handle (demoEnv none) wState req).disk.get (.flow "a.yaml") = some "v1" := by
  decide

end LunarVerif.C08
