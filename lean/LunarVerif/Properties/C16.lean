import LunarVerif.Proofs.C16
/-!
# C16 — Obfuscation hides every value that is not explicitly excluded

Property theorems only (helpers live in `Proofs/C16.lean`).  All statements quantify over every
hash function `H`, every entry point (`raw` = `Obfuscator.ObfuscateJSON` as the policy-mode HAR
plugin calls it, `req`/`resp` = the flow-mode HAR collector with its `$.request.body` /
`$.response.body` filter), every exclusion list (any strings, both notations) and every JSON
document (any nesting, arrays, repeated names at different depths) in which no single object
repeats a name (`wellFormed`).  The model is `Model/C16.lean` (`obfuscateBody`), which mirrors the
code as repaired by `fixes/F16a.patch` (findings F16a — an exclusion matched every path that was a
string suffix of it — and F16b — the whole-body exclusion `$.request.body` was ignored).  No
excluded class remains: the statements are at full strength.
-/
namespace LunarVerif.C16

/-- Connection theorem: every model run satisfies the very predicate the judge evaluates on the
    implementation's output (`Spec.holds`): explicitly excluded subtrees verbatim, every other
    primitive hashed, keys / nesting / lengths unchanged. -/
theorem c16_holds (H : Str → Str) (side : Side) (ex : List Str) (d : Json)
    (hwf : wellFormed d = true) : holds H side ex d (obfuscateBody H side ex d) = true := by
  have h := obf_conforms H (bodyExclusions side ex) d [] hwf
  rw [conforms_congr H _ (specExcluded side ex) (excl_agree side ex)] at h
  exact h

/-- The same for ANY body (JSON or not) and the complete answer of the entry point: this is exactly
    the predicate `lvdriver_c16 judge` evaluates (`Spec.holdsOutcome`). -/
theorem c16_outcome (H : Str → Str) (side : Side) (ex : List Str) (i : Input) :
    holdsOutcome H side ex i (run H side ex i) = true := by
  cases i with
  | json d =>
    simp only [run, holdsOutcome, Bool.or_eq_true, Bool.not_eq_true']
    cases hwf : wellFormed d with
    | false => exact Or.inl rfl
    | true => exact Or.inr (c16_holds H side ex d hwf)
  | notJson e => cases side <;> cases e <;> rfl

/-- A whole transaction (request body, then response body, one obfuscator, one exclusion list): both
    exported bodies satisfy the property, each w.r.t. the exclusions of its own side. -/
theorem c16_txn (H : Str → Str) (ex : List Str) (reqBody respBody : Input) :
    holdsTxn H ex reqBody respBody (runTxn H ex reqBody respBody) = true := by
  simp only [holdsTxn, runTxn, Bool.and_eq_true]
  exact ⟨c16_outcome H .req ex reqBody, c16_outcome H .resp ex respBody⟩

/-- Overlapping calls (re-entrant or concurrent): every answer satisfies the property for its own body
    and exclusions. -/
theorem c16_many (H : Str → Str) (calls : List (List Str × Input)) :
    holdsMany H calls (runMany H calls) = true := by
  induction calls with
  | nil => rfl
  | cons c cs ih =>
    simp only [runMany, List.map_cons, holdsMany, Bool.and_eq_true]
    exact ⟨c16_outcome H .raw c.1 c.2, ih⟩

/-- Purity: the answer of the i-th of several overlapping calls is what that call returns alone; it
    does not depend on any other call. -/
theorem c16_calls_independent (H : Str → Str) (calls : List (List Str × Input)) (i : Nat) :
    (runMany H calls)[i]? = calls[i]?.map (fun c => run H .raw c.1 c.2) := by
  simp [runMany]

/-- One exported body in policy mode obeys the settings it was exported under. -/
theorem c16_exported (H : Str → Str) (obfuscate : Bool) (paths : List Str) (i : Input) :
    holdsExported H obfuscate paths i (extractBody H obfuscate paths i) = true := by
  cases i with
  | json d =>
    cases obfuscate with
    | false => rfl
    | true =>
      simp only [extractBody, holdsExported, if_true, Bool.true_and, Bool.or_eq_true, Bool.not_eq_true']
      cases hwf : wellFormed d with
      | false => exact Or.inl rfl
      | true => exact Or.inr (c16_holds H .raw paths d hwf)
  | notJson e => cases obfuscate <;> rfl

/-- A policy-mode transaction (`runner.RunTask`): one record per enabled diagnosis, each obeying the
    obfuscation settings of that very diagnosis. -/
theorem c16_policy (H : Str → Str) (ds : List Diag) (reqBody respBody : Input) :
    holdsPolicy H ds reqBody respBody (runPolicy H ds reqBody respBody) = true := by
  simp only [holdsPolicy, runPolicy, selectDiagnoses]
  generalize (ds.filter fun d => d.endpoint && d.enabled) ++ (ds.filter fun d => !d.endpoint && d.enabled) = sel
  induction sel with
  | nil => rfl
  | cons d sel ih =>
    simp only [List.map_cons, holdsRecords, Bool.and_eq_true]
    exact ⟨⟨c16_exported H _ _ _, c16_exported H _ _ _⟩, ih⟩

/-- Keys, nesting and array lengths are preserved. -/
theorem structure_preserved (H : Str → Str) (side : Side) (ex : List Str) (d : Json)
    (hwf : wellFormed d = true) : shape (obfuscateBody H side ex d) = shape d :=
  conforms_shape H _ d _ [] (c16_holds H side ex d hwf)

/-- A subtree on or under an explicitly excluded path is returned unchanged. -/
theorem excluded_verbatim (H : Str → Str) (side : Side) (ex : List Str) (d v : Json) (q : List Step)
    (hwf : wellFormed d = true) (hget : getAt q d = some v) (hcov : covered side ex q = true) :
    getAt q (obfuscateBody H side ex d) = some v :=
  (conforms_getAt H _ q [] d _ v (c16_holds H side ex d hwf) hget).1 hcov

/-- Every primitive whose path is not explicitly excluded, nor any ancestor's, becomes the string
    `H(pre-image)`. -/
theorem non_excluded_hashed (H : Str → Str) (side : Side) (ex : List Str) (d v : Json) (q : List Step)
    (hwf : wellFormed d = true) (hget : getAt q d = some v) (hleaf : isLeaf v = true)
    (hnot : covered side ex q = false) :
    getAt q (obfuscateBody H side ex d) = some (.str (H (leafPre v))) := by
  obtain ⟨o, ho, hc, he⟩ := (conforms_getAt H _ q [] d _ v (c16_holds H side ex d hwf) hget).2 hnot
  rw [← conforms_leaf H _ _ v o hleaf he hc]
  exact ho

/-- A string whose path is not excluded never leaves as itself, whatever it looks like (a digest, a
    token, …) — for every hasher without a fixed point on that string.  (The hasher of the code is MD5; the
    correspondence harness drives the production `MD5Hasher` with digest-shaped values.) -/
theorem non_excluded_string_changes (H : Str → Str) (side : Side) (ex : List Str) (d : Json) (q : List Step)
    (lx : Str) (hwf : wellFormed d = true) (hget : getAt q d = some (.str lx))
    (hnot : covered side ex q = false) (hH : H (unescape lx) ≠ lx) :
    getAt q (obfuscateBody H side ex d) ≠ some (.str lx) := by
  rw [non_excluded_hashed H side ex d (.str lx) q hwf hget rfl hnot]
  intro h
  injection h with h
  injection h with h
  exact hH h

/-- No cross exposure: a primitive is left in clear exactly when its own path or an ancestor's is
    explicitly excluded, and is hashed otherwise — an exclusion for one path never exposes a value
    at a different path, such as a field with the same name elsewhere in the document. -/
theorem no_cross_exposure (H : Str → Str) (side : Side) (ex : List Str) (d v : Json) (q : List Step)
    (hwf : wellFormed d = true) (hget : getAt q d = some v) (hleaf : isLeaf v = true) :
    (covered side ex q = true → getAt q (obfuscateBody H side ex d) = some v) ∧
    (covered side ex q = false → getAt q (obfuscateBody H side ex d) = some (.str (H (leafPre v)))) :=
  ⟨excluded_verbatim H side ex d v q hwf hget, non_excluded_hashed H side ex d v q hwf hget hleaf⟩

/-! ### Non-vacuity and regression examples -/

/-- names repeated at two depths, an array of objects, a number, a boolean -/
def exDoc : Json :=
  .obj [("name".toList, .str "top-secret".toList),
        ("user".toList, .obj [("name".toList, .str "bob".toList), ("id".toList, .num "7".toList)]),
        ("items".toList, .arr [.obj [("id".toList, .num "10.999".toList)], .obj []]),
        ("ok".toList, .bool true)]

example : wellFormed exDoc = true := by decide

/-- the former F16a witness: the exclusion `$.request.body.user.name` keeps `.user.name` verbatim and
    now hashes the TOP-LEVEL `name` (and everything else) -/
example : ∀ H : Str → Str,
    obfuscateBody H .req ["$.request.body.user.name".toList] exDoc =
      .obj [("name".toList, .str (H "top-secret".toList)),
            ("user".toList, .obj [("name".toList, .str "bob".toList), ("id".toList, .str (H "7.00".toList))]),
            ("items".toList, .arr [.obj [("id".toList, .str (H "11.00".toList))], .obj []]),
            ("ok".toList, .str (H "true".toList))] := fun _ => rfl

/-- both notations work at the `raw` entry point (policy-mode lists) -/
example : ∀ H : Str → Str,
    obfuscateBody H .raw [".user.name".toList] exDoc =
      obfuscateBody H .raw ["$.request.body.user.name".toList] exDoc := fun _ => rfl

/-- the former F16b witness: `$.request.body` excludes the whole request body -/
example : ∀ H : Str → Str, obfuscateBody H .req ["$.request.body".toList] exDoc = exDoc := fun _ => rfl

/-- hypotheses of `excluded_verbatim` / `non_excluded_hashed` met at concrete positions -/
example : covered .raw [".items".toList] [.key "items".toList, .elem 0, .key "id".toList] = true ∧
    getAt [.key "items".toList, .elem 0, .key "id".toList] exDoc = some (.num "10.999".toList) := ⟨by decide, rfl⟩

example : covered .req ["$.request.body.user.name".toList] [.key "name".toList] = false ∧
    getAt [.key "name".toList] exDoc = some (.str "top-secret".toList) ∧
    isLeaf (.str "top-secret".toList) = true := ⟨by decide, rfl, by decide⟩

/-- one transaction, the same path in both bodies, excluded on the request side only: the response
    body's `.user.name` is hashed; letter case matters (`.user.Name` is a different path) -/
example : ∀ H : Str → Str,
    runTxn H ["$.request.body.user.name".toList]
      (.json (.obj [("user".toList, .obj [("name".toList, .str "alice".toList), ("Name".toList, .str "A".toList)])]))
      (.json (.obj [("user".toList, .obj [("name".toList, .str "bob".toList)])]))
    = (.doc (.obj [("user".toList, .obj [("name".toList, .str "alice".toList), ("Name".toList, .str (H "A".toList))])]),
       .doc (.obj [("user".toList, .obj [("name".toList, .str (H "bob".toList))])])) := fun _ => rfl

/-- the exclusion written for the other side is filtered out: nothing is excluded -/
example : ∀ H : Str → Str,
    obfuscateBody H .resp ["$.request.body.a".toList] (.obj [("a".toList, .str "x".toList)])
      = .obj [("a".toList, .str (H "x".toList))] := fun _ => rfl

end LunarVerif.C16
