import LunarVerif.Proofs.C16
/-!
# C16 — Obfuscation hides every value that is not explicitly excluded

Property theorems only (helpers live in `Proofs/C16.lean`).  All statements quantify over every
hash function `H`, every entry point (`raw` = `Obfuscator.ObfuscateJSON` as the policy-mode HAR
plugin calls it, `req`/`resp` = the flow-mode HAR collector with its `$.request.body` /
`$.response.body` filter), every exclusion list (any strings, both notations) and every JSON
document (any nesting, arrays, repeated names at different depths) in which no single object
repeats a name (`wellFormed`).  The model is `Model/C16.lean` (`obfuscateBody`).

The unchanged code violates the cross-exposure clause (finding F16a: suffix rule) and does not
honour a whole-body exclusion in the prefixed notation (finding F16b).  The full statement is
therefore proved as `c16_holds_partial` / `no_cross_exposure_partial`, whose only additions are the
decidable hypotheses `suffixFree` and `rootNotDenoted`, next to the witnesses of the violations.
-/
namespace LunarVerif.C16

/-- Connection theorem (partial): on suffix-free inputs every model run satisfies the very
    predicate the judge evaluates on the implementation's output (`Spec.holds`): excluded subtrees
    verbatim, every other primitive hashed, keys / nesting / lengths unchanged. -/
theorem c16_holds_partial (H : Str → Str) (side : Side) (ex : List Str) (d : Json)
    (hwf : wellFormed d = true) (hsf : suffixFree side ex d = true) (hroot : rootNotDenoted side ex = true) :
    holds H side ex d (obfuscateBody H side ex d) = true := by
  have h := obf_conforms H (bodyExclusions side ex) d [] hwf
  rw [conforms_transfer H side ex hroot d _ [] hsf] at h
  exact h

/-- The same for ANY body (JSON or not) and the complete answer of the entry point: this is exactly
    the predicate `lvdriver_c16 judge` evaluates (`Spec.holdsOutcome`). -/
theorem c16_outcome_partial (H : Str → Str) (side : Side) (ex : List Str) (i : Input)
    (hsf : ∀ d, i = .json d → suffixFree side ex d = true) (hroot : rootNotDenoted side ex = true) :
    holdsOutcome H side ex i (run H side ex i) = true := by
  cases i with
  | json d =>
    simp only [run, holdsOutcome, Bool.or_eq_true, Bool.not_eq_true']
    cases hwf : wellFormed d with
    | false => exact Or.inl rfl
    | true => exact Or.inr (c16_holds_partial H side ex d hwf (hsf d rfl) hroot)
  | notJson e => cases side <;> cases e <;> rfl

/-- The full statement (without `suffixFree`) is FALSE for the unchanged code: F16a. -/
theorem c16_holds_violation_witness :
    ∃ (H : Str → Str) (side : Side) (ex : List Str) (d : Json),
      wellFormed d = true ∧ rootNotDenoted side ex = true ∧
      holds H side ex d (obfuscateBody H side ex d) = false :=
  ⟨fun _ => [], .req, ["$.request.body.user.name".toList],
    .obj [("name".toList, .str "top-secret".toList), ("user".toList, .obj [("name".toList, .str "bob".toList)])],
    by decide, by decide, by decide⟩

/-- Keys, nesting and array lengths are preserved — for every exclusion list, suffix-free or not. -/
theorem structure_preserved (H : Str → Str) (side : Side) (ex : List Str) (d : Json)
    (hwf : wellFormed d = true) : shape (obfuscateBody H side ex d) = shape d :=
  conforms_shape H _ d _ [] (obf_conforms H (bodyExclusions side ex) d [] hwf)

/-- A subtree on or under an explicitly excluded path is returned unchanged (the whole-body
    exclusion by prefix alone aside: F16b). -/
theorem excluded_verbatim (H : Str → Str) (side : Side) (ex : List Str) (d v : Json) (q : List Step)
    (hwf : wellFormed d = true) (hroot : rootNotDenoted side ex = true)
    (hget : getAt q d = some v) (hcov : covered side ex q = true) :
    getAt q (obfuscateBody H side ex d) = some v := by
  have h := obf_conforms H (bodyExclusions side ex) d [] hwf
  have hc : coveredFrom (modelExcl (bodyExclusions side ex)) [] q = true :=
    coveredFrom_mono _ _ (spec_imp_model side ex hroot) q [] hcov
  exact (conforms_getAt H _ q [] d _ v h hget).1 hc

/-- Every primitive whose position is not on or under a cursor the walk treats as excluded becomes
    the string `H(pre-image)` — for every exclusion list. -/
theorem non_excluded_hashed (H : Str → Str) (side : Side) (ex : List Str) (d v : Json) (q : List Step)
    (hwf : wellFormed d = true) (hget : getAt q d = some v) (hleaf : isLeaf v = true)
    (hnot : coveredBy (modelExcl (bodyExclusions side ex)) q = false) :
    getAt q (obfuscateBody H side ex d) = some (.str (H (leafPre v))) := by
  have h := obf_conforms H (bodyExclusions side ex) d [] hwf
  obtain ⟨o, ho, hc, he⟩ := (conforms_getAt H _ q [] d _ v h hget).2 hnot
  rw [← conforms_leaf H _ _ v o hleaf he hc]
  exact ho

/-- No cross exposure (partial): on suffix-free inputs a primitive is left in clear exactly when its
    own path or an ancestor's is explicitly excluded, and is hashed otherwise. -/
theorem no_cross_exposure_partial (H : Str → Str) (side : Side) (ex : List Str) (d v : Json) (q : List Step)
    (hwf : wellFormed d = true) (hsf : suffixFree side ex d = true) (hroot : rootNotDenoted side ex = true)
    (hget : getAt q d = some v) (hleaf : isLeaf v = true) :
    (covered side ex q = true → getAt q (obfuscateBody H side ex d) = some v) ∧
    (covered side ex q = false → getAt q (obfuscateBody H side ex d) = some (.str (H (leafPre v)))) := by
  have h := c16_holds_partial H side ex d hwf hsf hroot
  have hp := conforms_getAt H _ q [] d _ v h hget
  refine ⟨hp.1, fun hc => ?_⟩
  obtain ⟨o, ho, hcf, he⟩ := hp.2 hc
  rw [← conforms_leaf H _ _ v o hleaf he hcf]
  exact ho

/-- F16a: `{"name":"top-secret","user":{"name":"bob"}}` with the exclusion
    `$.request.body.user.name` leaves the TOP-LEVEL `name` in clear — whatever the hash — although
    neither `.name` nor an ancestor is excluded (`.name` is a string suffix of the exclusion). -/
theorem suffix_violation_witness :
    ∃ (side : Side) (ex : List Str) (d : Json) (q : List Step) (s : Str),
      wellFormed d = true ∧ rootNotDenoted side ex = true ∧
      getAt q d = some (.str s) ∧ covered side ex q = false ∧
      ∀ H : Str → Str, getAt q (obfuscateBody H side ex d) = some (.str s) :=
  ⟨.req, ["$.request.body.user.name".toList],
    .obj [("name".toList, .str "top-secret".toList), ("user".toList, .obj [("name".toList, .str "bob".toList)])],
    [.key "name".toList], "top-secret".toList,
    by decide, by decide, rfl, by decide, fun _ => rfl⟩

/-- F16b: in the flow-mode collector the exclusion `$.request.body` (the whole body) is not
    honoured: the body's values are hashed although their ancestor (the root) is excluded. -/
theorem root_exclusion_violation_witness :
    ∃ (side : Side) (ex : List Str) (d : Json) (q : List Step) (s : Str),
      wellFormed d = true ∧ suffixFree side ex d = true ∧
      getAt q d = some (.str s) ∧ covered side ex q = true ∧
      ∀ H : Str → Str, getAt q (obfuscateBody H side ex d) = some (.str (H s)) :=
  ⟨.req, ["$.request.body".toList], .obj [("a".toList, .str "x".toList)], [.key "a".toList], "x".toList,
    by decide, by decide, rfl, by decide, fun _ => rfl⟩

/-- With the proposed patch (`Model/C16Fix.lean`: strip the prefix in `filterBodyExclusions`, compare
    exactly in `isCursorInExcludedPath`) the FULL property holds: no `suffixFree`, no `rootNotDenoted`. -/
theorem c16_holds_after_fix (H : Str → Str) (side : Side) (ex : List Str) (d : Json)
    (hwf : wellFormed d = true) : holds H side ex d (obfuscateBodyFixed H side ex d) = true := by
  show conformsWith H (specExcluded side ex) [] d (obfWith H (fixedExcl (fixedExclusions side ex)) [] d) = true
  rw [fixedExcl_eq_spec]
  exact obfWith_conforms H (specExcluded side ex) d [] hwf

/-! ### Non-vacuity -/

/-- A non-trivial input meeting every hypothesis of `c16_holds_partial` /
    `no_cross_exposure_partial`: names repeated at two depths, an array of objects, an exclusion that
    keeps one value verbatim while the others are hashed. -/
def exDoc : Json :=
  .obj [("user".toList, .obj [("name".toList, .str "bob".toList), ("id".toList, .num "7".toList)]),
        ("items".toList, .arr [.obj [("id".toList, .num "10.999".toList)], .obj []]),
        ("ok".toList, .bool true)]

example : wellFormed exDoc = true ∧ suffixFree .req ["$.request.body.user.name".toList] exDoc = true ∧
    rootNotDenoted .req ["$.request.body.user.name".toList] = true := by decide

example : ∀ H : Str → Str,
    obfuscateBody H .req ["$.request.body.user.name".toList] exDoc =
      .obj [("user".toList, .obj [("name".toList, .str "bob".toList), ("id".toList, .str (H "7.00".toList))]),
            ("items".toList, .arr [.obj [("id".toList, .str (H "11.00".toList))], .obj []]),
            ("ok".toList, .str (H "true".toList))] := fun _ => rfl

/-- hypotheses of `excluded_verbatim` / `non_excluded_hashed` met at concrete positions -/
example : covered .raw [".items".toList] [.key "items".toList, .elem 0, .key "id".toList] = true ∧
    getAt [.key "items".toList, .elem 0, .key "id".toList] exDoc = some (.num "10.999".toList) := ⟨by decide, rfl⟩

example : coveredBy (modelExcl (bodyExclusions .raw [".items".toList])) [.key "user".toList, .key "id".toList] = false ∧
    isLeaf (.num "7".toList) = true := by decide

/-- the patched walk on the F16a witness: the top-level name is hashed, the excluded one kept -/
example : ∀ H : Str → Str,
    obfuscateBodyFixed H .req ["$.request.body.user.name".toList]
      (.obj [("name".toList, .str "top-secret".toList), ("user".toList, .obj [("name".toList, .str "bob".toList)])])
      = .obj [("name".toList, .str (H "top-secret".toList)), ("user".toList, .obj [("name".toList, .str "bob".toList)])] :=
  fun _ => rfl

/-- the exclusion written for the other side is filtered out: nothing is excluded -/
example : ∀ H : Str → Str,
    obfuscateBody H .resp ["$.request.body.a".toList] (.obj [("a".toList, .str "x".toList)])
      = .obj [("a".toList, .str (H "x".toList))] := fun _ => rfl

end LunarVerif.C16
