import LunarVerif.Proofs.C15
/-!
# C15 — Discovery statistics are independent of batching and lose no traffic

Property theorems only (helpers are in `Proofs/C15.lean`).  Model: `Model/C15.lean` (aggregation algebra,
persistence, the pipeline `step`/`runSegs` with the URL normaliser as a PARAMETER); vocabulary of the
statements: `Spec/C15.lean` (`sem`, `AggEq` = equality as maps, `Totals`, `Laws`, guards, classifier).
The model describes the code AFTER the repairs of F15a (a URL the tree refuses is skipped by `NormalizeTree`
instead of failing the batch) and F15b (persisted keys are split at the first `:::` only).

* Algebra (no assumption, all inputs): `extract_append`, `combine_assoc`, `combine_comm`,
  `count_eq_sum_status`, `mean_exact`, `rekey_conserves`, `persist_restore`.
* Pipeline: `restart_conserves_totals` (ANY normaliser, ANY URLs, restarts anywhere; only input
  well-formedness: no `:` in a method), `batch_invariant_partial` (normaliser laws L1–L3 as hypotheses — the
  excluded class of the open finding F15c) with `attribution_exact`, `judge_holds_on_model`;
  `batch_invariant_violation_witness` shows that the laws are needed.
* NOT proved here: that the real convergence tree (`Model/C15Tree.lean`, executable transcription) satisfies
  L1–L3 — it is only tested, and it does NOT in the class of finding F15c; float32 means (tested in the harness).
-/
namespace LunarVerif.C15

/-! ## Algebra -/

/-- Extraction is a homomorphism from concatenation of record lists to `Combine` (as maps: for every set of
    keys the counts, duration sums, per-status counts, min and max agree). -/
theorem extract_append (f : String → String) (xs ys : List Rec) :
    AggEq (extractAgg f (xs ++ ys)) ((extractAgg f xs).combine (extractAgg f ys)) :=
  (extractAgg_eq_bag f _).trans
    ((bagAgg_append f xs ys).trans (combine_congr (extractAgg_eq_bag f xs).symm (extractAgg_eq_bag f ys).symm))

/-- `Combine` is associative (as maps). -/
theorem combine_assoc (A B C : Agg) : AggEq ((A.combine B).combine C) (A.combine (B.combine C)) :=
  ⟨fun P => by simp [Agg.combine, sem_combineG, Sem.add_assoc],
   fun P => by simp [Agg.combine, sem_combineG, Sem.add_assoc],
   fun P => by simp [Agg.combine, isem_combineG, omax_assoc]⟩

/-- `Combine` is commutative (as maps). -/
theorem combine_comm (A B : Agg) : AggEq (A.combine B) (B.combine A) :=
  ⟨fun P => by simp [Agg.combine, sem_combineG, Sem.add_comm],
   fun P => by simp [Agg.combine, sem_combineG, Sem.add_comm],
   fun P => by simp [Agg.combine, isem_combineG, omax_comm]⟩

/-- Invariant: in every state of every run (any normaliser, any batches, restarts) every
    endpoint entry and every per-consumer entry has `count = Σ status-code counts` — in memory and in the file. -/
theorem count_eq_sum_status {τ : Type} (N : Normaliser τ) (T0 : τ) (segs : List Seg) :
    (∀ p ∈ (runSegs N T0 (St.init T0) segs).agg.endpoints, p.2.count = stTotal p.2.status) ∧
    (∀ p ∈ (runSegs N T0 (St.init T0) segs).agg.consumers, p.2.count = stTotal p.2.status) ∧
    (∀ p ∈ (restore (runSegs N T0 (St.init T0) segs).file).endpoints, p.2.count = stTotal p.2.status) ∧
    (∀ p ∈ (restore (runSegs N T0 (St.init T0) segs).file).consumers, p.2.count = stTotal p.2.status) := by
  have h := runSegs_aggOk N T0 segs (St.init T0) aggOk_empty (by
    simpa [St.init] using aggOk_restore_persist {} aggOk_empty)
  refine ⟨fun p hp => ?_, fun p hp => ?_, fun p hp => ?_, fun p hp => ?_⟩
  · simpa [countOk] using h.1.1 p hp
  · simpa [countOk] using h.1.2 p hp
  · simpa [countOk] using h.2.1 p hp
  · simpa [countOk] using h.2.2 p hp

/-- The exact sums kept for an endpoint are those of the records attributed to it, so `sumDur / count`
    (`AverageDuration`) and `sumTot / count` are the true means; the count is the number of attributed
    records and each status count the number of attributed records with that status. -/
theorem mean_exact (f : String → String) (rs : List Rec) (k : Key) :
    let s := sem (extractAgg f rs).endpoints (· == k)
    let mine := rs.filter fun r => keyOf f r == k
    s.cnt = mine.length ∧ s.sd = (mine.map (·.dur)).sum ∧ s.st = (mine.map (·.tot)).sum ∧
    ∀ c, s.stc c = (mine.filter (·.status == c)).length := by
  have h := (extractAgg_eq_bag f rs).1 (· == k)
  simp only [bagAgg] at h
  simp only [h]
  refine ⟨sem_bag_cnt _ _ _, sem_bag_sd _ _ _, sem_bag_st _ _ _, fun c => ?_⟩
  rw [sem_bag_stc, List.filter_filter]
  congr 1
  exact List.filter_congr fun r _ => by simp [Bool.and_comm]

/-- Re-keying by ANY function `g` on keys merges entries but conserves everything: the entries that end up
    in a key set `P` are exactly the entries whose image lies in `P`; in particular (`P` = everything) the
    total count, every per-status total, the duration sums, the min of mins and the max of maxes. -/
theorem rekey_conserves {κ : Type} [DecidableEq κ] (g : κ → κ) (M : List (κ × EAgg)) :
    (∀ P : κ → Bool, sem (rekeyAny g M) P = sem M (fun k => P (g k))) ∧
    sem (rekeyAny g M) (fun _ => true) = sem M (fun _ => true) :=
  ⟨fun P => sem_rekeyAny g M P, sem_rekeyAny g M _⟩

/-- Reading back what was written returns the same aggregation, under the explicit guards: unique map keys
    (true of every reachable state, see `restart_conserves_totals_partial`), endpoint keys that survive the
    `METHOD:::URL` split, whole-second timestamps.  Without the last guard the times are truncated to the second. -/
theorem persist_restore (A : Agg) (hn : NodupKeys A) (hk : KeysOK A) :
    restore (persist A) = floorAgg A ∧ (TimesAligned A → restore (persist A) = A) :=
  ⟨restore_persist_floor A hn hk, fun ht => by rw [restore_persist_floor A hn hk, floorAgg_of_aligned A ht]⟩

/-- The key guard of `persist_restore` holds whenever no method contains `:` — whatever the URLs
    (since the repair of F15b the key is split at the FIRST `:::` only). -/
theorem keysOK_of_clean (A : Agg) (he : ∀ p ∈ A.endpoints, cleanMethod p.1.1 = true)
    (hc : ∀ p ∈ A.consumers, cleanMethod p.1.2.1 = true) : KeysOK A :=
  ⟨fun p hp => restoreKey_dumpKey _ (he p hp), fun p hp => restoreKey_dumpKey _ (hc p hp)⟩

/-! ## Pipeline -/

/-- Totals are conserved by the whole pipeline for ANY normaliser (no law needed: merging URLs under inferred
    parameters can move traffic between URLs, never between methods or consumers, and never lose it), ANY URLs
    (refusable ones included), ANY placement of batch boundaries and restarts, and ANY pattern of flushes that
    fail to reach the disk: the in-memory aggregation always accounts for every record, and so does the state
    file whenever the last non-empty flush succeeded (`freshAfter`).  Hypotheses: input well-formedness (no
    method contains `:`) and `RestartsFresh` — the process is not killed while records exist only in memory. -/
theorem restart_conserves_totals {τ : Type} (N : Normaliser τ) (T0 : τ) (segs : List Seg)
    (hm : MethodsClean (recsOf segs)) (hrf : RestartsFresh true segs) :
    Totals (runSegs N T0 (St.init T0) segs).agg (external (recsOf segs)) ∧
    (freshAfter true segs = true →
      Totals (restore (runSegs N T0 (St.init T0) segs).file) (external (recsOf segs))) := by
  have h := runSegs_totals N T0 segs (St.init T0) [] true ((external (recsOf segs)).map (·.method))
    (by intro m hmem
        simp only [List.mem_map] at hmem
        obtain ⟨r, hr, rfl⟩ := hmem
        exact hm r hr)
    (methodsIn_empty _) (fun r hr => List.mem_map.mpr ⟨r, hr, rfl⟩)
    totals_empty nodupKeys_empty (fun _ => Or.inl rfl) hrf
  simpa using h

/-- Which flushes fail to persist does not influence the learnt tree or the in-memory aggregation: a
    restart-free run ends exactly like the same run with every flush succeeding (the aggregation is adopted in
    memory BEFORE it is written), ... -/
theorem dump_failures_do_not_matter {τ : Type} (N : Normaliser τ) (T0 : τ) (segs : List Seg)
    (hn : noRestart segs = true) :
    (runSegs N T0 (St.init T0) segs).tree = (runSegs N T0 (St.init T0) (clearFaults segs)).tree ∧
    (runSegs N T0 (St.init T0) segs).agg = (runSegs N T0 (St.init T0) (clearFaults segs)).agg :=
  runSegs_clearFaults N T0 segs _ _ hn rfl rfl

/-- ... and the state file is the dump of the in-memory aggregation after every flush that succeeded (until the
    next failed one): a batch whose dump failed is carried to the next successful write. -/
theorem file_is_dump_after_successful_flush {τ : Type} (N : Normaliser τ) (T0 : τ) (segs : List Seg)
    (hn : noRestart segs = true) (hend : freshAfter true segs = true) :
    (runSegs N T0 (St.init T0) segs).file = persist (runSegs N T0 (St.init T0) segs).agg :=
  runSegs_noRestart_file N T0 segs (St.init T0) true hn (fun _ => rfl) hend

/-- Batch independence: if the normaliser satisfies the laws (L1 factorisation, L2 learning is insensitive to
    batch boundaries, L3 no signal ⇒ no change) then two ways of cutting the same stream into batches — each
    batch with its own flush outcome (`true` = the dump fails) — end with the same tree and the same statistics
    (as maps).  The laws are the excluded class of the open finding F15c. -/
theorem batch_invariant_partial {τ : Type} (N : Normaliser τ) (T0 : τ) (L : Laws N T0)
    (fs₁ fs₂ : List (List Rec × Bool)) (hsame : (fs₁.map Prod.fst).flatten = (fs₂.map Prod.fst).flatten) :
    let s₁ := runSegs N T0 (St.init T0) (fs₁.map segOf)
    let s₂ := runSegs N T0 (St.init T0) (fs₂.map segOf)
    s₁.tree = s₂.tree ∧ AggEq s₁.agg s₂.agg := by
  have c₁ := dump_failures_do_not_matter N T0 (fs₁.map segOf) (noRestart_segOf fs₁)
  have c₂ := dump_failures_do_not_matter N T0 (fs₂.map segOf) (noRestart_segOf fs₂)
  rw [clearFaults_segOf] at c₁ c₂
  simp only [c₁.1, c₁.2, c₂.1, c₂.2]
  have h₁ := runBatches_inv N T0 L (fs₁.map Prod.fst) [] (T0, {}) (inv_init N T0 L)
  have h₂ := runBatches_inv N T0 L (fs₂.map Prod.fst) [] (T0, {}) (inv_init N T0 L)
  have e₁ : ((runSegs N T0 (St.init T0) ((fs₁.map Prod.fst).map Seg.batch)).tree,
             (runSegs N T0 (St.init T0) ((fs₁.map Prod.fst).map Seg.batch)).agg)
      = runBatches N (T0, {}) (fs₁.map Prod.fst) := runSegs_batches N T0 _ (St.init T0)
  have e₂ : ((runSegs N T0 (St.init T0) ((fs₂.map Prod.fst).map Seg.batch)).tree,
             (runSegs N T0 (St.init T0) ((fs₂.map Prod.fst).map Seg.batch)).agg)
      = runBatches N (T0, {}) (fs₂.map Prod.fst) := runSegs_batches N T0 _ (St.init T0)
  simp only [Inv, List.nil_append] at h₁ h₂
  rw [← e₁] at h₁
  rw [← e₂] at h₂
  simp only at h₁ h₂
  refine ⟨?_, ?_⟩
  · rw [h₁.1, h₂.1, hsame]
  · have ht : (runSegs N T0 (St.init T0) ((fs₁.map Prod.fst).map Seg.batch)).tree
        = (runSegs N T0 (St.init T0) ((fs₂.map Prod.fst).map Seg.batch)).tree := by rw [h₁.1, h₂.1, hsame]
    refine h₁.2.trans ?_
    rw [ht, hsame]
    exact h₂.2.symm

/-- ... and the common result is the reference attribution: every record is attributed to the normal form of
    its URL under the FINAL tree (so, with `mean_exact`/`sem_bag_*`, counts = number of attributed records). -/
theorem attribution_exact {τ : Type} (N : Normaliser τ) (T0 : τ) (L : Laws N T0) (bs : List (List Rec)) :
    let s := runSegs N T0 (St.init T0) (bs.map Seg.batch)
    s.tree = N.learn T0 (urlsOf bs.flatten) ∧
    AggEq s.agg (bagAgg (N.norm (N.learn T0 (urlsOf bs.flatten))) (external bs.flatten)) := by
  have h := runBatches_inv N T0 L bs [] (T0, {}) (inv_init N T0 L)
  have e : ((runSegs N T0 (St.init T0) (bs.map Seg.batch)).tree, (runSegs N T0 (St.init T0) (bs.map Seg.batch)).agg)
      = runBatches N (T0, {}) bs := runSegs_batches N T0 bs (St.init T0)
  simp only [Inv, List.nil_append] at h
  rw [← e] at h
  simp only at h
  exact ⟨h.1, by rw [← h.1]; exact h.2⟩

/-- THE CONNECTION: the predicate the judge evaluates on the implementation's state files (`Spec.C15.holds`:
    nothing rejected, totals conserved per method and per consumer, `count = Σ status`, interceptor times,
    and equal statistics for all restart-free splittings) is TRUE of the observations of the model, for every
    lawful normaliser, every stream with well-formed methods, every family `fulls` of splittings — each batch
    with its own flush outcome, the last non-empty flush succeeding — and every family `rests` of runs with
    restarts of that stream (restarts only on an up-to-date file, last flush succeeding).  So a judge failure on
    the implementation is a divergence from the proved model, or a failure of the laws (finding F15c). -/
theorem judge_holds_on_model {τ : Type} (N : Normaliser τ) (T0 : τ) (L : Laws N T0) (stream : List Rec)
    (hm : MethodsClean stream)
    (fulls : List (List (List Rec × Bool))) (hfull : ∀ fs ∈ fulls, (fs.map Prod.fst).flatten = stream)
    (hfullFresh : ∀ fs ∈ fulls, freshAfter true (fs.map segOf) = true)
    (rests : List (List Seg)) (hrest : ∀ segs ∈ rests, recsOf segs = stream)
    (hrestOK : ∀ segs ∈ rests, RestartsFresh true segs ∧ freshAfter true segs = true)
    (thr : Nat) (known : List String) :
    holds { thr := thr, known := known, recs := stream,
            runs := fulls.map (fun fs => observeRun N T0 true (fs.map segOf))
                    ++ rests.map (fun segs => observeRun N T0 false segs) } = true := by
  -- every single run conserves
  have hcons : ∀ (full : Bool) (segs : List Seg), recsOf segs = stream → RestartsFresh true segs →
      freshAfter true segs = true →
      ((observeRun N T0 full segs).nondet = false ∧ (observeRun N T0 full segs).fails = 0 ∧
        conserves stream (observeRun N T0 full segs) = true) := by
    intro full segs hr hrf hfr
    have ht := (restart_conserves_totals N T0 segs (hr ▸ hm) hrf).2 hfr
    have hagg := (runSegs_aggOk N T0 segs (St.init T0) aggOk_empty (by
      simpa [St.init] using aggOk_restore_persist {} aggOk_empty)).2
    rw [hr] at ht
    refine ⟨rfl, rfl, ?_⟩
    exact conserves_of_totals full _ stream ht hagg
  simp only [holds, Bool.and_eq_true, List.all_eq_true, List.mem_append, List.mem_map]
  refine ⟨?_, ?_⟩
  · intro o ho
    rcases ho with ⟨fs, hfs, rfl⟩ | ⟨segs, hs, rfl⟩
    · obtain ⟨h1, h2, h3⟩ := hcons true _ ((recsOf_segOf fs).trans (hfull fs hfs))
        (restartsFresh_of_noRestart _ _ (noRestart_segOf fs)) (hfullFresh fs hfs)
      simp [h1, h2, h3]
    · obtain ⟨h1, h2, h3⟩ := hcons false _ (hrest segs hs) (hrestOK segs hs).1 (hrestOK segs hs).2
      simp [h1, h2, h3]
  · -- batch independence among the restart-free runs
    apply batchInvariant_of_pairwise
    intro a ha b hb
    simp only [List.mem_filter, List.mem_append, List.mem_map] at ha hb
    have pick : ∀ o : RunObs, ((∃ fs, fs ∈ fulls ∧ observeRun N T0 true (fs.map segOf) = o) ∨
        (∃ segs, segs ∈ rests ∧ observeRun N T0 false segs = o)) → o.full = true →
        ∃ fs, fs ∈ fulls ∧ observeRun N T0 true (fs.map segOf) = o := by
      intro o h hf
      rcases h with h | ⟨segs, _, rfl⟩
      · exact h
      · simp [observeRun, observe] at hf
    obtain ⟨fs₁, h₁, rfl⟩ := pick a ha.1 ha.2
    obtain ⟨fs₂, h₂, rfl⟩ := pick b hb.1 hb.2
    have hinv := batch_invariant_partial N T0 L fs₁ fs₂ ((hfull _ h₁).trans (hfull _ h₂).symm)
    have f₁ := file_is_dump_after_successful_flush N T0 _ (noRestart_segOf fs₁) (hfullFresh _ h₁)
    have f₂ := file_is_dump_after_successful_flush N T0 _ (noRestart_segOf fs₂) (hfullFresh _ h₂)
    have n₁ := runSegs_nodup N T0 (fs₁.map segOf) (St.init T0) nodupKeys_empty
    have n₂ := runSegs_nodup N T0 (fs₂.map segOf) (St.init T0) nodupKeys_empty
    have hms : ∀ m ∈ (external stream).map (·.method), cleanMethod m = true := by
      intro m hmem
      simp only [List.mem_map] at hmem
      obtain ⟨r, hr, rfl⟩ := hmem
      exact hm r hr
    have keys : ∀ fs ∈ fulls, KeysOK (runSegs N T0 (St.init T0) (fs.map segOf)).agg := by
      intro fs hfs
      have c := (dump_failures_do_not_matter N T0 (fs.map segOf) (noRestart_segOf fs)).2
      rw [clearFaults_segOf] at c
      rw [c]
      exact keysOK_of_methodsIn _ _ (runSegs_batches_methodsIn N T0 (fs.map Prod.fst) (St.init T0)
        ((external stream).map (·.method)) (methodsIn_empty _)
        (fun r hr => List.mem_map.mpr ⟨r, (hfull _ hfs) ▸ hr, rfl⟩)) hms
    simp only [observeRun, f₁, f₂]
    exact sameStats_of_aggEq _ _ hinv.2 n₁ (keys _ h₁) n₂ (keys _ h₂)

/-! ## The laws are needed (open finding F15c) -/

/-- a toy normaliser over "number of URLs learnt": from the second URL on everything is merged into `m`;
    `signal` says whether `NormalizeTree` reports the convergence -/
def toyN (signal : Bool) : Normaliser Nat :=
  { learn := fun T xs => T + xs.length
    norm := fun T u => if 2 ≤ T then "m" else u
    conv := fun T xs => signal && decide (T < 2) && decide (2 ≤ T + xs.length) }

def rec1 (u : String) : Rec :=
  { ts := 1700000000123, dur := 7, tot := 9, status := 200, method := "GET", url := u,
    interceptor := "py/1", consumer := "", internal := false }

/-- The signalling toy normaliser satisfies all laws (so the hypotheses of `batch_invariant_partial` are
    satisfiable by a normaliser that really converges). -/
theorem toy_laws : Laws (toyN true) 0 where
  learn_nil := rfl
  learn_append := fun xs ys => by simp [toyN]
  norm_factor := fun xs ys u _ => by
    simp only [toyN, Nat.zero_add, List.length_append]
    by_cases h : 2 ≤ xs.length + ys.length
    · simp [h]
    · have h' : ¬ 2 ≤ xs.length := by omega
      simp [h, h']
  conv_sound := fun xs ys u _ hc => by
    simp only [toyN, Nat.zero_add, List.length_append, Bool.true_and, Bool.and_eq_false_iff,
      decide_eq_false_iff_not, Nat.not_lt, Nat.not_le] at hc ⊢
    by_cases h : 2 ≤ xs.length + ys.length <;> by_cases h' : 2 ≤ xs.length <;> simp [h, h'] <;> omega

/-- Without L3 (a convergence that is not signalled — the shape of finding F15c) batch independence fails:
    the same two records end as one endpoint with count 2 in one batch, as two endpoints in two batches. -/
theorem batch_invariant_violation_witness :
    ∃ (N : Normaliser Nat) (bs₁ bs₂ : List (List Rec)), bs₁.flatten = bs₂.flatten ∧
      ¬ AggEq (runSegs N 0 (St.init 0) (bs₁.map Seg.batch)).agg (runSegs N 0 (St.init 0) (bs₂.map Seg.batch)).agg := by
  refine ⟨toyN false, [[rec1 "a.com/x", rec1 "a.com/y"]], [[rec1 "a.com/x"], [rec1 "a.com/y"]], rfl, ?_⟩
  intro h
  have := congrArg Sem.cnt (h.1 (· == ("GET", "m")))
  revert this
  decide

/-! ## Non-vacuity -/

/-- `batch_invariant_partial` / `attribution_exact` on a run where convergence happens between batches:
    three records, the second batch triggers the (signalled) merge and the first key is re-keyed. -/
example :
    let s := runSegs (toyN true) 0 (St.init 0) ([[rec1 "a.com/x"], [rec1 "a.com/y", rec1 "a.com/z"]].map Seg.batch)
    s.tree = 3 ∧ s.agg.endpoints.map (fun p => (p.1, p.2.count)) = [(("GET", "m"), 3)] := by
  decide

/-- `restart_conserves_totals` on a run with restarts and URLs that used to be refused (`a.com//x`) or to be
    truncated on restart (`a.com/d:::1`, `a.com/d:::2`): all four records are still there at the end. -/
example :
    let segs := [Seg.batch [rec1 "a.com/d:::1", rec1 "a.com//x"], Seg.restart, Seg.batch [rec1 "a.com/d:::2"],
                 Seg.restart, Seg.batch [{ rec1 "a.com/other" with method := "POST" }]]
    (restore (runSegs (toyN true) 0 (St.init 0) segs).file).endpoints.map (fun p => (p.1, p.2.count))
      = [(("GET", "m"), 2), (("GET", "a.com/d:::2"), 1), (("POST", "a.com/other"), 1)] := by
  decide

/-- `judge_holds_on_model` on a concrete case (two splittings and a run with a restart of a three-record stream
    that converges): the judge's predicate evaluates to `true`. -/
example :
    let stream := [rec1 "a.com/x", rec1 "a.com/y", rec1 "a.com/z"]
    holds { recs := stream,
            runs := [observeRun (toyN true) 0 true ([stream].map Seg.batch),
                     observeRun (toyN true) 0 true ([[rec1 "a.com/x"], [rec1 "a.com/y", rec1 "a.com/z"]].map Seg.batch),
                     observeRun (toyN true) 0 false [Seg.batch [rec1 "a.com/x"], Seg.restart,
                                                     Seg.batch [rec1 "a.com/y", rec1 "a.com/z"]]] } = true := by
  decide

/-- A flush that fails in the middle (`batchNoDump`): its record is carried to the next successful write; the
    hypotheses of `file_is_dump_after_successful_flush` / `judge_holds_on_model` hold of this run. -/
example :
    let segs := [Seg.batchNoDump [rec1 "a.com/x"], Seg.batch [rec1 "a.com/y"]]
    noRestart segs = true ∧ freshAfter true segs = true ∧
    (restore (runSegs (toyN true) 0 (St.init 0) segs).file).endpoints.map (fun p => (p.1, p.2.count))
      = [(("GET", "m"), 2)] := by
  decide

/-- `persist_restore`'s guards hold of a non-trivial aggregation. -/
example : let A := extractAgg id [rec1 "a.com/x", { rec1 "a.com/y" with ts := 1700000005000 }]
    NodupKeys A ∧ KeysOK A ∧ (restore (persist A)).endpoints.map (fun p => (p.1, p.2.minT))
      = [(("GET", "a.com/x"), 1700000000000), (("GET", "a.com/y"), 1700000005000)] := by
  unfold NodupKeys KeysOK
  decide

end LunarVerif.C15
