import LunarVerif.Spec.C15
namespace LunarVerif.C15
end LunarVerif.C15
