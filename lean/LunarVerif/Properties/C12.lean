import LunarVerif.Proofs.C12Cache
import LunarVerif.Proofs.C12Abs
import LunarVerif.Proofs.C12Plugins
import LunarVerif.Proofs.C12Throttle
import LunarVerif.Proofs.C12Live
import LunarVerif.Proofs.C12Conc
import LunarVerif.Proofs.C12Shared
import LunarVerif.Proofs.C12SharedT
import LunarVerif.Proofs.C12Keys
import LunarVerif.Generated.C18Facts
/-!
# C12 — Stored responses are replayed only for the same key and only while fresh

Property theorems only (helpers live in `Proofs/C12*.lean`).  Models: `Model/C12.lean` (`utils.MemoryCache`:
map key ↦ (value, expiry), tracked size, one sleeper per `Set` that runs as a separate event at any instant
≥ its due time) and `Model/C12Plugins.lean` (caching remedy, response-based throttling remedy).
Every statement quantifies over ALL histories: any sequence of stores, reads, deletes, clock moves and
sleeper firings (`fire i` releases any pending sleeper that is due, so sleepers run arbitrarily late and in
any order; `adv` is "timers on time"), any keys, values, TTLs (also ≤ 0), any sizes and limits.

F12a (ambiguous cache key) and F12b (absolute Retry-After TTL from whole seconds) are repaired in /repo
(`fixes/F12a.patch`, `fixes/F12b.patch`); `caching_holds` and `throttle_holds` are stated at full strength for
all histories.  The old witnesses are regression cases (`corpus/C12/regress-F12a.ops`, `regress-F12b.ops`).
-/
set_option linter.unusedSectionVars false
namespace LunarVerif.C12

section
variable {κ ν : Type} [DecidableEq κ] [DecidableEq ν]

/-! ## raw cache -/

/-- Connection theorem: the judge predicate `Spec.holds` is true of every run of the cache model
    (hit ⇒ last successful store of that key has this value and is fresh; held ≤ tracked ≤ max). -/
theorem cache_holds (cfg : Cfg) (hmax : 0 ≤ cfg.max) (evs : List (Ev κ ν)) :
    holds cfg (run (cfg.init : Cache κ ν) evs) = true := by
  have := run_holdsRev cfg evs (cfg.init : Cache κ ν) [] (entInv_init cfg) (sizeInv_init cfg hmax)
    ⟨rfl, rfl⟩ (onTime_init cfg) rfl
  simpa [holds] using this

/-- `get k` at `t` returns `v` ⇒ the history before it contains a successful `set k v ttl` at `t₀` with
    `t ≤ t₀ + ttl`, and no successful `set k` / `del k` after that one. -/
theorem hit_only_same_key_and_fresh (cfg : Cfg) (hmax : 0 ≤ cfg.max) (evs : List (Ev κ ν))
    (pre post : List (Rec κ ν)) (r : Rec κ ν) (k : κ) (v : ν)
    (hsplit : run (cfg.init : Cache κ ν) evs = pre ++ r :: post)
    (hev : r.ev = .get k) (hout : r.out = .got (some v)) :
    ∃ t0 ttl, r.t ≤ t0 + ttl ∧
      ∃ newer s older sz, pre.reverse = newer ++ s :: older ∧ s.t = t0 ∧ s.ev = .set k v ttl sz ∧
        s.out = .setRes .ok ∧ ∀ x, x ∈ newer → touches k x = false := by
  have hr := recOk_of_split cfg _ pre post r (cache_holds cfg hmax evs) hsplit
  simp only [recOk, hev, hout] at hr
  cases hl : lastStore k pre.reverse with
  | none => simp [hl, freshStore] at hr
  | some x =>
    obtain ⟨v', t0, ttl⟩ := x
    simp only [hl, freshStore, Bool.and_eq_true, decide_eq_true_eq] at hr
    obtain ⟨⟨hv, hle⟩, _⟩ := hr
    subst hv
    exact ⟨t0, ttl, hle, lastStore_spec k _ v t0 ttl hl⟩

/-- Same for `Has`. -/
theorem has_only_fresh (cfg : Cfg) (hmax : 0 ≤ cfg.max) (evs : List (Ev κ ν))
    (pre post : List (Rec κ ν)) (r : Rec κ ν) (k : κ)
    (hsplit : run (cfg.init : Cache κ ν) evs = pre ++ r :: post)
    (hev : r.ev = .has k) (hout : r.out = .hasRes true) :
    ∃ v t0 ttl, lastStore k pre.reverse = some (v, t0, ttl) ∧ r.t ≤ t0 + ttl := by
  have hr := recOk_of_split cfg _ pre post r (cache_holds cfg hmax evs) hsplit
  simp only [recOk, hev, hout] at hr
  cases hl : lastStore k pre.reverse with
  | none => simp [hl, freshStore] at hr
  | some x =>
    obtain ⟨v', t0, ttl⟩ := x
    simp only [hl, freshStore, Bool.true_and, Bool.and_eq_true, decide_eq_true_eq] at hr
    exact ⟨v', t0, ttl, rfl, hr.1⟩

/-- After the expiry of the last store of `k` (or when `k` was never stored / was deleted) `get k` misses,
    whatever the sleepers did. -/
theorem miss_after_expiry (cfg : Cfg) (hmax : 0 ≤ cfg.max) (evs : List (Ev κ ν))
    (pre post : List (Rec κ ν)) (r : Rec κ ν) (k : κ)
    (hsplit : run (cfg.init : Cache κ ν) evs = pre ++ r :: post) (hev : r.ev = .get k)
    (hexp : ∀ v t0 ttl, lastStore k pre.reverse = some (v, t0, ttl) → r.t > t0 + ttl) :
    r.out = .got none := by
  have hm : r ∈ run (cfg.init : Cache κ ν) evs := by rw [hsplit]; simp
  rcases run_out_get hm hev with h | ⟨v, h⟩
  · exact h
  · obtain ⟨t0, ttl, hle, newer, s, older, sz, h1, h2, h3, h4, h5⟩ :=
      hit_only_same_key_and_fresh cfg hmax evs pre post r k v hsplit hev h
    have hl : lastStore k pre.reverse = some (v, t0, ttl) := by
      rw [h1]
      clear h1
      induction newer with
      | nil =>
        obtain ⟨st, sev, sout⟩ := s
        simp only at h2 h3 h4
        subst h2; subst h3; subst h4
        simp [lastStore]
      | cons x xs ih =>
        rw [List.cons_append, lastStore_cons_untouched k x _ (h5 x List.mem_cons_self)]
        exact ih fun y hy => h5 y (List.mem_cons_of_mem _ hy)
    have := hexp v t0 ttl hl
    omega

/-- A sleeper — however late, whatever is stored under its key by then — only deletes: every entry
    present afterwards was present before, unchanged; and the size invariant survives. -/
theorem stale_sleeper_only_deletes (c : Cache κ ν) (i : Nat) :
    (∀ k e, find? k (fire c i).1.entries = some e → find? k c.entries = some e) ∧
    (SizeInv c → SizeInv (fire c i).1) ∧
    ((fire c i).1.entries = c.entries ∨
      ∃ s, c.pending[i]? = some s ∧ s.due ≤ c.mono ∧ (fire c i).1.entries = erase s.key c.entries) := by
  refine ⟨fun k e h => find?_fire h, sizeInv_fire i, ?_⟩
  rcases fire_cases c i with h1 | h1 | ⟨s, hs, hd, h1⟩
  · left; rw [h1]
  · left; rw [h1]
  · right; exact ⟨s, hs, hd, by rw [h1]; rfl⟩

/-- Sequential size bound: after any history, what is really held ≤ tracked size ≤ configured maximum. -/
theorem size_le_max_sequential (cfg : Cfg) (hmax : 0 ≤ cfg.max) (hon : cfg.sizeOn = true)
    (evs : List (Ev κ ν)) :
    (heldSize (final (cfg.init : Cache κ ν) evs).entries : Int) ≤ (final (cfg.init : Cache κ ν) evs).tracked ∧
    (final (cfg.init : Cache κ ν) evs).tracked ≤ cfg.max := by
  have hs := final_sizeInv evs (cfg.init : Cache κ ν) (sizeInv_init cfg hmax)
  have h1 : (final (cfg.init : Cache κ ν) evs).sizeOn = true := by rw [final_sizeOn]; exact hon
  have h2 : (final (cfg.init : Cache κ ν) evs).max = cfg.max := by rw [final_max]; rfl
  have := hs h1
  rw [h2] at this
  exact this

/-- Refinement: under the abstraction `abs` (entries ↦ partial map key → (value, expiry)) every operation
    acts as its abstract counterpart (`put`, `del`, nothing) and `Get`/`Has` are the abstract fresh lookup. -/
theorem refines_abstract_map (c : Cache κ ν) (ev : Ev κ ν) :
    abs (step c ev).1 = astep c (abs c) ev ∧
    (∀ k, get c k = (abs c).lookup c.now k) ∧ (∀ k, has c k = ((abs c).lookup c.now k).isSome) :=
  ⟨abs_step c ev, abs_get c, abs_has c⟩

/-- Converse (no spurious miss): store `k ↦ v` with a positive TTL while no sleeper of `k` is pending; then,
    through ANY later operations that neither overwrite nor delete `k` (other keys, clock moves, sleepers of
    any key firing at any time ≥ their due time), `get k` returns `v` at every instant before the expiry.
    So an early loss of an entry can only come from a stale sleeper of the same key (or `Del`/overwrite). -/
theorem fresh_hit_without_stale_sleeper (c : Cache κ ν) (k : κ) (v : ν) (ttl : Int) (sz : Nat)
    (hok : (set c k v ttl sz).2 = .ok) (httl : ttl > 0) (hnostale : ∀ s, s ∈ c.pending → s.key ≠ k)
    (evs : List (Ev κ ν)) (hev : ∀ ev, ev ∈ evs → touchesKey k ev = false)
    (hfresh : (final (set c k v ttl sz).1 evs).mono < c.mono + ttl)
    (hwall : ¬ (final (set c k v ttl sz).1 evs).now > c.now + ttl) :
    get (final (set c k v ttl sz).1 evs) k = some v := by
  have hroom : ¬ (c.sizeOn = true ∧ c.tracked + (sz : Nat) > c.max) := by
    intro h; rw [set_eq_full k v ttl sz h] at hok; cases hok
  have hinit : Live k v (c.now + ttl) sz (c.mono + ttl) (set c k v ttl sz).1 := by
    rw [set_eq_pos k v ttl sz hroom httl]
    left
    refine ⟨by simp [find?], ?_⟩
    intro s hs hsk
    rcases mem_insertSleeper hs with h1 | h1
    · rw [h1]
    · exact absurd hsk (hnostale s h1)
  rcases live_final evs _ hinit hev with ⟨hf, _⟩ | hpast
  · simp only [get, hf]
    simp [hwall]
  · omega

/-- Freshness in ELAPSED time (the wall clock may be stepped, also backwards, at any point): in a history in
    which expiry timers run on time (time passes through `adv`, never `skip`), a `get k` that hits happens strictly
    before the elapsed deadline (elapsed clock at the store + ttl) of the last store of `k`. -/
theorem hit_fresh_in_elapsed_time (cfg : Cfg) (hmax : 0 ≤ cfg.max) (evs : List (Ev κ ν))
    (pre post : List (Rec κ ν)) (r : Rec κ ν) (k : κ) (v : ν)
    (hsplit : run (cfg.init : Cache κ ν) evs = pre ++ r :: post)
    (hev : r.ev = .get k) (hout : r.out = .got (some v)) (hot : timersOnTime pre.reverse = true) :
    ∃ d, storeDue k pre.reverse = some d ∧ r.m < d := by
  have hr := recOk_of_split cfg _ pre post r (cache_holds cfg hmax evs) hsplit
  simp only [recOk, hev, hout, Bool.and_eq_true, elapsedFresh, hot, Bool.not_true, Bool.false_or] at hr
  cases hd : storeDue k pre.reverse with
  | none => simp [hd] at hr
  | some d => simp only [hd, decide_eq_true_eq] at hr; exact ⟨d, rfl, hr.2⟩

/-- The association list standing for the Go map holds ONE pair per key in every reachable state (any history
    from the empty cache), so `entries.length` — the `n` a `probe` answers, compared with `len(cache)` of the
    implementation — is the number of stored keys and first-wins `find?` is the map lookup. -/
theorem one_entry_per_key (cfg : Cfg) (evs : List (Ev κ ν)) :
    (keys (final (cfg.init : Cache κ ν) evs).entries).Nodup :=
  final_keysNodup evs _ (init_keysNodup cfg)

/-- … and a key is among them exactly when the lookup answers. -/
theorem lookup_iff_stored (cfg : Cfg) (evs : List (Ev κ ν)) (k : κ) :
    (find? k (final (cfg.init : Cache κ ν) evs).entries).isSome = true ↔
      k ∈ keys (final (cfg.init : Cache κ ν) evs).entries :=
  find?_isSome_iff k _

/-- Two removals of one key equal one: whatever the order in which two overlapping `Del`s (or a `Del` and the
    key's sleeper) get the write lock, the second finds nothing to subtract and nothing to delete — so the accounted
    size drops by the entry's size ONCE.  (That removal is one section is `clearKey_is_one_critical_section`.) -/
theorem overlapping_removals_subtract_once (c : Cache κ ν) (k : κ) :
    clearKey (clearKey c k) k = clearKey c k :=
  clearKey_idem c k

/-- A successful store never grows the number of pairs by more than one, and a re-store of a held key keeps it:
    after `set k …` there is exactly one pair for `k` (none when the TTL is ≤ 0). -/
theorem set_leaves_at_most_one_pair (cfg : Cfg) (evs : List (Ev κ ν)) (k : κ) (v : ν) (ttl : Int) (sz : Nat) :
    ((keys (set (final (cfg.init : Cache κ ν) evs) k v ttl sz).1.entries).count k) ≤ 1 :=
  List.nodup_iff_count.mp (set_keysNodup _ k v ttl sz (final_keysNodup evs _ (init_keysNodup cfg))) k

end

/-! ### non-vacuity (raw cache): hits, boundary, stale sleeper, size refusal on concrete runs -/

/-- re-storing a held key and letting an old sleeper fire: still one pair per key, two keys held -/
example : (keys (final (Cache.init 0 true 10 : Cache Nat Nat)
    [.set 1 7 5 3, .set 2 9 5 1, .skip 6, .set 1 8 5 2, .fire 0, .set 1 8 5 2]).entries) = [1, 2] := by decide

/-- stored at 100 with ttl 5: hit at 105 (`now > expiry` is strict), miss at 106. -/
example : ((run (Cache.init 100 true 10 : Cache Nat Nat)
    [.set 1 7 5 3, .skip 5, .get 1, .skip 1, .get 1]).map fun r => (r.t, match r.out with | .got o => o | _ => none))
    = [(100, none), (100, none), (105, some 7), (105, none), (106, none)] := by decide

/-- re-store after expiry with the old sleeper still pending; the stale sleeper then deletes the NEW entry
    (a miss, never a wrong hit) and the tracked size keeps the overwritten 3 bytes. -/
example : (let c := final (Cache.init 0 true 10 : Cache Nat Nat) [.set 1 7 5 3, .skip 6, .set 1 8 5 2, .fire 0]
    (get c 1, c.tracked, heldSize c.entries, c.pending.length)) = (none, 3, 0, 1) := by decide

/-- hypotheses of `fresh_hit_without_stale_sleeper` met: other key stored and expired, its sleeper fired late,
    clock moved to one ns before the expiry — still a hit. -/
example : (let c0 : Cache Nat Nat := Cache.init 0 true 10
    let evs : List (Ev Nat Nat) := [.set 2 9 1 1, .skip 3, .fire 0, .skip 1]
    ((set c0 1 7 5 3).2, evs.all fun ev => !touchesKey 1 ev, (final (set c0 1 7 5 3).1 evs).mono,
      get (final (set c0 1 7 5 3).1 evs) 1)) = (.ok, true, 4, some 7) := by decide

/-- the wall clock stepped back by 100 after the store (ttl 5): timers on time ⇒ the entry is gone once 5 ns have
    ELAPSED, although `now > expiry` alone would call it fresh for 100 ns more. -/
example : ((run (Cache.init 100 false 0 : Cache Nat Nat)
    [.set 1 7 5 3, .wstep (-100), .adv 4, .get 1, .adv 1, .get 1]).map fun r =>
      (r.t, r.m, match r.out with | .got o => o | _ => none))
    = [(100, 0, none), (100, 0, none), (0, 0, none), (4, 4, some 7), (4, 4, none), (5, 5, none)] := by decide

/-- the size test refuses the store that would exceed the maximum. -/
example : ((run (Cache.init 0 true 4 : Cache Nat Nat) [.set 1 7 5 3, .set 2 8 5 2, .get 2]).map fun r =>
    match r.out with | .setRes .full => 1 | .got none => 2 | _ => 0) = [0, 1, 2] := by decide

/-! ## raw cache, concurrent callers: ALL schedules of the critical sections

`IState` (Model/C12Conc.lean): every call is a thread; `run j` executes thread `j`'s next critical section
(Set: pre-check | clock read | write-locked (re-check +) insert | sleeper start; Get/Has: read-locked lookup |
clock read; Del: locked delete); sleepers fire at any instant ≥ due; the clock moves between any two sections.
`recheck = true` is the repaired `Set` (fixes/F12c.patch), `false` the code before it. -/

section
variable {κ ν : Type} [DecidableEq κ] [DecidableEq ν]

/-- Replay correctness survives every interleaving, with or without the re-check: in the observable log of any
    schedule, a Get that returns `v` (a Has that returns true) read the clock at `tc ≤ stamp + ttl` of the most
    recent successful `Set` of that key that preceded its map lookup — and that Set stored `v`. -/
theorem hit_only_same_key_and_fresh_all_schedules (cfg : Cfg) (recheck : Bool) (sched : List (Sched κ ν)) :
    iholdsRev false cfg (iexec (IState.init (cfg.init : Cache κ ν) recheck) sched).hist = true :=
  (hinv_iexec cfg sched _ (hinv_init cfg recheck)).log

/-- The same, spelled out for one Get. -/
theorem hit_all_schedules_explicit (cfg : Cfg) (recheck : Bool) (sched : List (Sched κ ν))
    (newer older : List (IRec κ ν)) (k : κ) (v : ν) (tc : Int) (pos : Nat)
    (hsplit : (iexec (IState.init (cfg.init : Cache κ ν) recheck) sched).hist
      = newer ++ .ret k (some v) tc pos :: older) :
    pos ≤ older.length ∧ ∃ st ttl, lastIns k (oldest older pos) = some (v, st, ttl) ∧ tc ≤ st + ttl := by
  have h := hit_only_same_key_and_fresh_all_schedules cfg recheck sched
  rw [hsplit] at h
  have : ∀ (a b : List (IRec κ ν)), iholdsRev false cfg (a ++ b) = true → iholdsRev false cfg b = true := by
    intro a b
    induction a with
    | nil => intro x; simpa using x
    | cons y ys ih => intro x; simp only [List.cons_append, iholdsRev, Bool.and_eq_true] at x; exact ih x.2
  have h2 := this _ _ h
  simp only [iholdsRev, iRecOk, Bool.and_eq_true, decide_eq_true_eq] at h2
  obtain ⟨⟨hp, hf⟩, _⟩ := h2
  refine ⟨hp, ?_⟩
  cases hl : lastIns k (oldest older pos) with
  | none => simp [hl, freshIns] at hf
  | some x =>
    obtain ⟨v', st, ttl⟩ := x
    simp only [hl, freshIns, Bool.and_eq_true, decide_eq_true_eq] at hf
    exact ⟨st, ttl, by rw [hf.1], hf.2⟩

/-- Connection theorem for the repaired code, ALL schedules: the judge predicate (hits justified AND every probe
    sees held ≤ tracked ≤ max) is true of the observable log. -/
theorem conc_holds (cfg : Cfg) (hmax : 0 ≤ cfg.max) (sched : List (Sched κ ν)) :
    iholdsRev true cfg (iexec (IState.init (cfg.init : Cache κ ν) true) sched).hist = true := by
  have k := kinv_iexec cfg sched (IState.init (cfg.init : Cache κ ν) true)
    ⟨hinv_init cfg true, zinv_init cfg hmax true, rfl, rfl⟩
  exact (iholdsRev_true_iff cfg _).mpr ⟨k.h.log, k.p⟩

/-- "The cache never holds more than its configured size" for ALL schedules (repaired `Set`). -/
theorem size_le_max_all_schedules (cfg : Cfg) (hmax : 0 ≤ cfg.max) (hon : cfg.sizeOn = true)
    (sched : List (Sched κ ν)) :
    let s := iexec (IState.init (cfg.init : Cache κ ν) true) sched
    (heldSize s.c.entries : Int) ≤ s.c.tracked ∧ s.c.tracked ≤ cfg.max := by
  have z := zinv_iexec cfg sched (IState.init (cfg.init : Cache κ ν) true) (zinv_init cfg hmax true)
  have hr : (iexec (IState.init (cfg.init : Cache κ ν) true) sched).recheck = true :=
    (kinv_iexec cfg sched _ ⟨hinv_init cfg true, zinv_init cfg hmax true, rfl, rfl⟩).r
  exact ⟨z.held hon, z.strict hon hr⟩

/-- The tight bound that holds WITHOUT the re-check (the code before fixes/F12c.patch), all schedules:
    held ≤ tracked ≤ max + over, where the ghost counter `over` adds the size of every Set that inserted while
    another Set was between its pre-check and its insert (so k Sets that pass the pre-check together can
    overshoot by the sizes of k − 1 of them, and a schedule without such overlap keeps `over = 0`). -/
theorem size_bound_without_recheck (cfg : Cfg) (hmax : 0 ≤ cfg.max) (hon : cfg.sizeOn = true) (recheck : Bool)
    (sched : List (Sched κ ν)) :
    let s := iexec (IState.init (cfg.init : Cache κ ν) recheck) sched
    (heldSize s.c.entries : Int) ≤ s.c.tracked ∧ s.c.tracked ≤ cfg.max + (s.over : Nat) := by
  have z := zinv_iexec cfg sched (IState.init (cfg.init : Cache κ ν) recheck) (zinv_init cfg hmax recheck)
  exact ⟨z.held hon, z.bound hon⟩

/-- A `Set` call that runs alone acts on the shared state exactly as the sequential model's `set`. -/
theorem sequential_set_is_a_schedule (s : IState κ ν) (k : κ) (v : ν) (ttl : Int) (sz : Nat) :
    (callRun s (.set k v ttl sz)).c = (set s.c k v ttl sz).1 :=
  callRun_set_c s k v ttl sz

end

/-- Why the re-check is needed (regression witness for F12c, `corpus/C12/regress-F12c.ops`): WITHOUT it two Sets
    of 3 bytes that both pass the pre-check on the empty cache (max = 3) leave 6 bytes in the cache. -/
theorem size_violation_without_recheck_witness :
    ∃ (cfg : Cfg) (sched : List (Sched Nat Nat)), 0 ≤ cfg.max ∧ cfg.sizeOn = true ∧
      ¬ ((heldSize (iexec (IState.init (cfg.init : Cache Nat Nat) false) sched).c.entries : Int) ≤ cfg.max) :=
  ⟨⟨0, true, 3⟩,
   [.call (.set 1 7 5 3), .call (.set 2 8 5 3), .run 0, .run 1, .run 0, .run 0, .run 1, .run 1],
   by decide, rfl, by decide⟩

/-- … and WITH the re-check the same schedule refuses the second Set (non-vacuity of `conc_holds`). -/
example : (fun (s : IState Nat Nat) => (heldSize s.c.entries, s.c.tracked,
      s.threads.map fun pc => match pc with | .done .setOk => 1 | .done .setFull => 2 | _ => 0))
    (iexec (IState.init (Cache.init 0 true 3 : Cache Nat Nat) true)
      [.call (.set 1 7 5 3), .call (.set 2 8 5 3), .run 0, .run 1, .run 0, .run 0, .run 1, .run 1, .run 0, .run 1])
    = (3, 3, [1, 2]) := by decide

/-- a Get parked between lookup and clock read returns the value it saw although the key was overwritten, and
    misses when its clock read comes after the expiry (non-vacuity of the all-schedules hit theorem). -/
example : ((iexec (IState.init (Cache.init 0 false 0 : Cache Nat Nat) true)
      [.call (.set 1 7 5 1), .run 0, .run 0, .run 0, .run 0, .call (.get 1), .run 1, .call (.get 1), .run 2,
       .call (.set 1 8 50 1), .run 3, .run 3, .run 3, .run 3, .run 1, .skip 6, .run 2]).threads.map
      fun pc => match pc with | .done (.got _ (some v) tc) => (v, tc) | _ => (0, 0))
    = [(0, 0), (7, 0), (0, 0), (0, 0)] := by decide

section
variable {σ : Type} [DecidableEq σ]

/-! ## caching remedy -/

/-- Connection theorem, all histories: an early response for (method, URL, selected path-parameter values) is
    justified by an earlier storable response for the SAME method, URL and selected values, same
    status/body/headers, `t₀ ≤ t ≤ t₀ + TTL`; held ≤ tracked ≤ MaxCacheSize at every probe. -/
theorem caching_holds (cfg : CCfg) (hmax : 0 ≤ cfg.maxBytes) (t0 : Int) (ops : List (POp σ)) :
    cholds cfg (crun cfg (Cache.init t0 false 0) ops) = true := by
  have := crun_holdsRev cfg hmax ops (Cache.init t0 false 0) [] (cinv_init cfg t0) rfl
  simpa [cholds] using this

/-- Readable corollary: a replay at `t` for (m, u, sel) ⇒ an earlier response record for the same
    (m, u, sel) with a body within MaxRecordSizeBytes, the same status/body/headers, and `t₀ ≤ t ≤ t₀ + TTL`. -/
theorem caching_replay_only_same_key_and_fresh (cfg : CCfg) (hmax : 0 ≤ cfg.maxBytes) (t0 : Int)
    (ops : List (POp σ)) (pre post : List (PRec σ)) (r : PRec σ)
    (m u : σ) (sel : List (σ × σ)) (st : Nat) (body : σ) (tag ra : Option σ)
    (hsplit : crun cfg (Cache.init t0 false 0) ops = pre ++ r :: post)
    (hop : r.op = .req m u sel) (extra : Nat) (hout : r.out = .early st body tag (.raw ra) extra) :
    ∃ r0, r0 ∈ pre ∧ ∃ rr bl sz, r0.op = .resp m u sel rr bl sz ∧ bl ≤ cfg.maxRec ∧
      rr.status = st ∧ rr.body = body ∧ rr.tag = tag ∧ rr.ra = ra ∧ r0.t ≤ r.t ∧ r.t ≤ r0.t + cfg.ttl := by
  have h := caching_holds cfg hmax t0 ops
  rw [cholds, hsplit] at h
  simp only [List.reverse_append, List.reverse_cons, List.append_assoc, List.singleton_append] at h
  have hr : cRecOk cfg r pre.reverse = true := by
    have : ∀ (a b : List (PRec σ)), choldsRev cfg (a ++ b) = true → choldsRev cfg b = true := by
      intro a b
      induction a with
      | nil => intro x; simpa using x
      | cons y ys ih => intro x; simp only [List.cons_append, choldsRev, Bool.and_eq_true] at x; exact ih x.2
    have h2 := this _ _ h
    simp only [choldsRev, Bool.and_eq_true] at h2
    exact h2.1
  simp only [cRecOk, hop, hout, Bool.and_eq_true, List.any_eq_true] at hr
  obtain ⟨r0, hm, hj⟩ := hr.2
  refine ⟨r0, List.mem_reverse.mp hm, ?_⟩
  cases hop0 : r0.op with
  | resp m0 u0 sel0 rr bl sz =>
    simp only [cJustifies, hop0, Bool.and_eq_true, decide_eq_true_eq] at hj
    obtain ⟨⟨⟨⟨⟨⟨⟨⟨⟨a1, a2⟩, a3⟩, a4⟩, a5⟩, a6⟩, a7⟩, a8⟩, a9⟩, a10⟩ := hj
    subst a1; subst a2; subst a3
    exact ⟨rr, bl, sz, rfl, a4, a5, a6, a7, a8, a9, a10⟩
  | req _ _ _ => simp [cJustifies, hop0] at hj
  | fire _ => simp [cJustifies, hop0] at hj
  | skip _ => simp [cJustifies, hop0] at hj
  | adv _ => simp [cJustifies, hop0] at hj
  | probe => simp [cJustifies, hop0] at hj

end

/-- non-vacuity: a replay, an expiry, a refused oversize body; and the repaired F12a shape — the response
    stored for the selection [(10, 20)] is NOT replayed for [(10, 21), (11, 22)]. -/
example : ((crun ⟨1000, 100, 100000⟩ (Cache.init 0 false 0)
        ([.resp 1 2 [(10, 20)] ⟨5, 200, 6, none, none, none, true, none⟩ 3 120, .req 1 2 [(10, 20)],
      .req 1 2 [(10, 21), (11, 22)],
      .skip 1001, .req 1 2 [(10, 20)], .resp 1 2 [(10, 21)] ⟨5, 200, 6, none, none, none, true, none⟩ 101 120,
      .req 1 2 [(10, 21)]] : List (POp Nat))).map fun r => match r.out with | .early .. => 1 | _ => 0)
      = [0, 1, 0, 0, 0, 0, 0] := by decide

/-! ## several caching remedies on the ONE shared plugin cache

`Model/C12Shared.lean`: every operation names the remedy (its `CachingConfig` and number of configured paths) under
which plugin_runner.go calls the single `CachingPlugin`.  The key is (method, URL, number of configured paths,
selected (name, value) list) — the remedy's identity, TTL and limits are NOT part of it. -/

section
variable {σ : Type} [DecidableEq σ]

/-- Connection theorem, all histories over any number of remedies: an early response for a request handled under
    remedy B is justified by an earlier response that some remedy A could store (body ≤ A's record limit) for the
    same method, URL, selected path-parameter values (and the same number of configured paths), same
    status/body/headers, fresh by the STORING remedy's TTL (`t₀ ≤ t ≤ t₀ + TTL_A`); at every probe
    held ≤ tracked ≤ the largest size limit among the remedies that responded so far. -/
theorem shared_cache_holds (t0 : Int) (ops : List (SOp σ)) :
    sholds false (srun (Cache.init t0 false 0) ops) = true := by
  have := srun_holdsRev ops (Cache.init t0 false 0) [] (sinv_init t0) rfl
  simpa [sholds] using this

end

/-- What the shared cache does NOT give: isolation between remedies.  Remedy A (TTL 10) stores a response; a
    request handled under remedy B (TTL 1, same number of configured paths, same selected values) at t = 5 gets
    A's entry — older than B's own TTL allows.  (`corpus/C12/shared-not-isolated.ops` replays it on the real
    plugin.)  Both remedies apply to the same method and URL, so as long as both are configured A itself would
    answer this request the same way; the difference shows once A is removed or its TTL shortened by a policy
    update while its entries live on.  Observation O4 in notes/C12.md, not a contradiction of C12 as stated. -/
theorem shared_not_isolated_witness :
    ∃ (t0 : Int) (ops : List (SOp Nat)),
      sholds false (srun (Cache.init t0 false 0) ops) = true ∧
      sholds true (srun (Cache.init t0 false 0) ops) = false :=
  ⟨0, [.resp ⟨⟨10, 100, 1000⟩, 1⟩ 1 2 [(10, 20)] ⟨5, 200, 6, none, none, none, true, none⟩ 3 50, .skip 5,
       .req ⟨⟨1, 100, 1000⟩, 1⟩ 1 2 [(10, 20)]], by decide, by decide⟩

/-- non-vacuity of `shared_cache_holds`: a different NUMBER of configured paths isolates (keys differ), a shrunken
    size limit refuses the next store but keeps what is held (60 bytes under the new limit 50). -/
example : ((srun (Cache.init 0 false 0)
    ([.resp ⟨⟨10, 100, 1000⟩, 1⟩ 1 2 [(10, 20)] ⟨5, 200, 6, none, none, none, true, none⟩ 3 60,
      .req ⟨⟨10, 100, 1000⟩, 2⟩ 1 2 [(10, 20)], .req ⟨⟨1, 100, 50⟩, 1⟩ 1 2 [(10, 20)],
      .resp ⟨⟨10, 100, 50⟩, 1⟩ 1 3 [] ⟨5, 200, 6, none, none, none, true, none⟩ 3 10, .req ⟨⟨10, 100, 50⟩, 1⟩ 1 3 [],
      .probe] : List (SOp Nat))).map fun r =>
        match r.out with | .early .. => 1 | .probed t h _ _ => t + h | _ => 0)
    = [0, 0, 1, 0, 0, 120] := by decide

/-! ## several throttling configurations on the ONE shared plugin (endpoint + global remedies, before/after a reload) -/

section
variable {σ : Type} [DecidableEq σ]

/-- Connection theorem, all histories over any number of configurations (own header name, type, statuses), every
    clause for the configuration B that answers: an early response under B is justified by an earlier response for
    the same (method, URL) and payload which some configuration A could store and which is fresh by A's reading; if B
    is relative, B's header is readable in that response, `t − t₀ < value_B`, and the replay carries the stored
    headers with B's header replaced by `value_B − (t − t₀)`; otherwise the stored headers unchanged.
    (`num` = how a header value is read as seconds; `f` = the float64 absolute-TTL computation, `AbsTtlOk f`.) -/
theorem shared_throttle_holds (f : AbsTtl) (hf : AbsTtlOk f) (num : σ → Option Int) (t0 : Int)
    (ops : List (TSOp σ)) :
    tsholds num (tsrun f num (Cache.init t0 false 0) ops) = true := by
  have := tsrun_holdsRev f hf num ops (Cache.init t0 false 0) [] (tsinv_init f num t0) rfl
  simpa [tsholds] using this

end

/-- non-vacuity: headers 1 ("retry-after") and 2 ("x-ratelimit-reset"), values are ns already; configuration A reads
    header 2, B reads header 1 (both relative).  A stores a response carrying only header 2: a request under B finds
    the entry but cannot read ITS header ⇒ no replay; under A the replay carries 30 − 20 = 10. -/
example : ((tsrun absTtlExact (fun (v : Nat) => some (v : Int)) (Cache.init 0 false 0)
    ([.resp ⟨⟨.rel, [429]⟩, 2⟩ 7 8 ⟨5, 429, 6, [(2, 30)]⟩, .skip 20, .req ⟨⟨.rel, [429]⟩, 1⟩ 7 8,
      .req ⟨⟨.rel, [429]⟩, 2⟩ 7 8] : List (TSOp Nat))).map fun r =>
        match r.out with | .early _ _ [(2, .ns n)] => n | .early .. => -1 | _ => 0)
    = [0, 0, 0, 10] := by decide

section
variable {σ : Type} [DecidableEq σ]

/-! ## response-based throttling remedy -/

/-- Connection theorem, all histories, for every absolute-TTL function `f` with `AbsTtlOk f` (the float64
    computation of the code is such a function as far as it never rounds a positive TTL upwards — assumption,
    see notes; `absTtlExact` is one provably): an early response is justified by an earlier response for the
    same (method, URL) with a relevant status and usable Retry-After, same status/body/tag, stored at `t₀ ≤ t`;
    relative: `t − t₀ < value` and the replayed header is `value − (t − t₀)`; absolute: `t ≤ value`
    (the provider's instant) and the header is unchanged. -/
theorem throttle_holds (f : AbsTtl) (hf : AbsTtlOk f) (cfg : TCfg) (t0 : Int) (ops : List (POp σ)) :
    tholds cfg (trun f cfg (Cache.init t0 false 0) ops) = true := by
  have := trun_holdsRev f hf cfg ops (Cache.init t0 false 0) [] (tinv_init f cfg t0) rfl
  simpa [tholds] using this

/-- … in particular for exact arithmetic. -/
theorem throttle_holds_exact (cfg : TCfg) (t0 : Int) (ops : List (POp σ)) :
    tholds cfg (trun absTtlExact cfg (Cache.init t0 false 0) ops) = true :=
  throttle_holds absTtlExact absTtlExact_ok cfg t0 ops

/-- Relative Retry-After, all histories: a replay at `t` carries `original − elapsed` (> 0), where the original
    value `n` (`origNs`: the numeric Retry-After, or the distance from `t₀` to an HTTP-date) and the store instant
    `t₀` are those of an earlier relevant response for the same (method, URL);
    hence nothing is replayed once `elapsed ≥ original`. -/
theorem retry_after_decrement (f : AbsTtl) (cfg : TCfg) (hrel : cfg.type = .rel) (t0 : Int) (ops : List (POp σ))
    (pre post : List (PRec σ)) (r : PRec σ) (m u : σ) (sel : List (σ × σ))
    (st : Nat) (body : σ) (tag : Option σ) (ra : RaOut σ)
    (hsplit : trun f cfg (Cache.init t0 false 0) ops = pre ++ r :: post)
    (hop : r.op = .req m u sel) (extra : Nat) (hout : r.out = .early st body tag ra extra) :
    ∃ r0, r0 ∈ pre ∧ ∃ sel0 rr bl sz n, r0.op = .resp m u sel0 rr bl sz ∧
      cfg.statuses.contains rr.status = true ∧ rr.status = st ∧ rr.body = body ∧ rr.tag = tag ∧
      origNs rr r0.t = some n ∧ r0.t ≤ r.t ∧ r.t - r0.t < n ∧ ra = .ns (n - (r.t - r0.t)) := by
  -- the relative type never consults `f`: run the same history with exact arithmetic
  have hsame : ∀ (c : TCache σ) (op : POp σ), tstep f cfg c op = tstep absTtlExact cfg c op := by
    intro c op
    have httl : ∀ now, ttlOf f cfg now = ttlOf absTtlExact cfg now := by
      intro now; funext n; simp [ttlOf, hrel]
    cases op <;> simp [tstep, httl]
  have hrun : ∀ (ops : List (POp σ)) (c : TCache σ), trun f cfg c ops = trun absTtlExact cfg c ops := by
    intro ops
    induction ops with
    | nil => intro c; rfl
    | cons op ops ih => intro c; simp only [trun, hsame, ih]
  have h := throttle_holds_exact cfg t0 ops
  rw [← hrun, tholds, hsplit] at h
  simp only [List.reverse_append, List.reverse_cons, List.append_assoc, List.singleton_append] at h
  have hr : tRecOk cfg r pre.reverse = true := by
    have : ∀ (a b : List (PRec σ)), tholdsRev cfg (a ++ b) = true → tholdsRev cfg b = true := by
      intro a b
      induction a with
      | nil => intro x; simpa using x
      | cons y ys ih => intro x; simp only [List.cons_append, tholdsRev, Bool.and_eq_true] at x; exact ih x.2
    have h2 := this _ _ h
    simp only [tholdsRev, Bool.and_eq_true] at h2
    exact h2.1
  simp only [tRecOk, hop, hout, Bool.and_eq_true, List.any_eq_true] at hr
  obtain ⟨r0, hm, hj⟩ := hr.2
  refine ⟨r0, List.mem_reverse.mp hm, ?_⟩
  cases hop0 : r0.op with
  | resp m0 u0 sel0 rr bl sz =>
    cases hra : origNs rr r0.t with
    | none => simp [tJustifies, hop0, hrel, hra] at hj
    | some n =>
      simp only [tJustifies, hop0, hrel, hra, Bool.and_eq_true, decide_eq_true_eq] at hj
      obtain ⟨⟨⟨⟨⟨⟨⟨a1, a2⟩, a3⟩, a4⟩, a5⟩, a6⟩, a7⟩, a8, a9⟩ := hj
      subst a1; subst a2
      exact ⟨sel0, rr, bl, sz, n, rfl, a3, a4, a5, a6, hra, a7, a8, a9⟩
  | req _ _ _ => simp [tJustifies, hop0] at hj
  | fire _ => simp [tJustifies, hop0] at hj
  | skip _ => simp [tJustifies, hop0] at hj
  | adv _ => simp [tJustifies, hop0] at hj
  | probe => simp [tJustifies, hop0] at hj

end

/-- non-vacuity of `retry_after_decrement`: relative 2 s stored at 0.5 s; replay with 2 s, with 1 ns left one
    ns before the end, nothing at the end. -/
example : ((trun absTtlExact ⟨.rel, [429]⟩ (Cache.init 500000000 false 0)
      ([.resp 1 2 [] ⟨5, 429, 6, none, some 7, some 2000000000, true, none⟩ 0 0, .req 1 2 [], .skip 1999999999,
        .req 1 2 [], .skip 1, .req 1 2 []] : List (POp Nat))).map fun r =>
        match r.out with | .early _ _ _ (.ns n) _ => n | _ => 0)
      = [0, 2000000000, 0, 1, 0, 0] := by decide

/-- non-vacuity of `throttle_holds`, absolute type (the repaired F12b shape): instant 1 s, stored at 0.5 s:
    replayed at exactly 1 s, no longer at 1 s + 1 ns. -/
example : ((trun absTtlExact ⟨.abs, [429]⟩ (Cache.init 500000000 false 0)
      ([.resp 1 2 [] ⟨5, 429, 6, none, some 7, some 1000000000, true, none⟩ 0 0, .skip 500000000, .req 1 2 [],
        .skip 1, .req 1 2 []] : List (POp Nat))).map fun r =>
        match r.out with | .early .. => 1 | _ => 0)
      = [0, 0, 1, 0, 0] := by decide

end LunarVerif.C12

/-! ## Step granularity of the interleaving model, tied to the source

`Model/C12Conc.lean` takes `clearKey` (what `Del` and every TTL sleeper run), the insert of `Set` and the lookup
of `Get`/`Has` as ATOMIC sections.  `Generated/C18Facts.lean` is rewritten from /repo's working tree on every run
(`harness/go/cmd/extract`: per function, every access of a `MemoryCache` field with the locks held and the number
of the critical section it lies in), so these `decide`s re-check what `utils/cache.go` says now: a removal split
into "measure under the read lock, subtract under the write lock" (two removals of one key subtract twice and
`held ≤ tracked` — hence `held ≤ max` — is gone) no longer satisfies them. -/
namespace LunarVerif.C12
open LunarVerif.C18 in
/-- accesses of the map and of the accounted size inside function `fn` of `utils.MemoryCache` -/
def cacheAccesses (fn : String) : List LunarVerif.C18.Access :=
  LunarVerif.C18.Generated.facts.filter fun a =>
    a.struct == "utils.MemoryCache" && a.func == fn && !a.init && (a.field == "cache" || a.field == "currentCacheSize")

/-- `clearKey` touches both the map and the accounted size, everything inside ONE section under the write lock
    (exclusive): lookup, size subtraction and delete cannot be separated by another caller. -/
theorem clearKey_is_one_critical_section :
    ((cacheAccesses "clearKey").any (fun a => a.field == "cache" && a.write)
      && (cacheAccesses "clearKey").any (fun a => a.field == "currentCacheSize" && a.write)
      && (cacheAccesses "clearKey").any (fun a => a.field == "cache" && !a.write)
      && LunarVerif.C18.oneRegion (cacheAccesses "clearKey")
      && (cacheAccesses "clearKey").all (fun a => a.locks.any fun l => l.name == "mutex" && l.excl)) = true := by
  decide +kernel

/-- `Set` writes the map and the accounted size in ONE exclusive section, and that section also READS the
    accounted size (the re-check of the F12c repair happens under the same lock as the insert). -/
theorem set_insert_is_one_critical_section :
    (let ws := (cacheAccesses "Set").filter (·.write)
     ws.any (·.field == "cache") && ws.any (·.field == "currentCacheSize")
      && LunarVerif.C18.oneRegion ws
      && ws.all (fun a => a.locks.any fun l => l.name == "mutex" && l.excl)
      && (cacheAccesses "Set").any (fun a => a.field == "currentCacheSize" && !a.write
            && ws.all (fun w => w.region == a.region))) = true := by
  decide +kernel

/-- `Get` and `Has` look the key up in one section under (at least) the read lock. -/
theorem lookup_is_one_critical_section :
    (["Get", "Has"].all fun fn =>
      !(cacheAccesses fn).isEmpty && LunarVerif.C18.oneRegion (cacheAccesses fn)
        && (cacheAccesses fn).all (LunarVerif.C18.protectedBy "mutex")) = true := by
  decide +kernel

end LunarVerif.C12
