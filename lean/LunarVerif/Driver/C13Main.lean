import LunarVerif.Base.Proto
import LunarVerif.Spec.C13
/-! Driver for C13: `lvdriver_c13 run` (model outputs) / `lvdriver_c13 judge` (Spec on impl outputs).

Ops (one answer line each):
  L1 raw trie      t.ins d|u <url> <nat>     -> ok | err:empty | err:wildcard | err:param
                   t.look <url>              -> m=0 | m=1 v=<nat|nil> norm=<url> params=<k=v,...|->
  L2 policy tree   ep <method> <url> r=<name:type:0|1,...|-> d=<name:0|1,...|->   -> ok
                   glob r=<...> d=<...>      -> ok
                   build [perm=<i,j,...>]    -> ok | err:dup | err:empty | err:wildcard | err:param
  L4 production    load [perm=..] (= build, through policies.yaml and TxnPoliciesAccessor.ReloadFromFile)
                   revert free|last           -> ok   (RevertToDiagnosisFree / RevertToLastLoaded)
                   auth <method> <url>        -> keys=<authentication remedies whose credentials are sent|->
                   spoe <method> <url>        -> as disp (lunar-on-request through routing.Handler, policy mode)
                   disp <method> <url>       -> no-tree | unsupported | noop | early=<first remedy> n=<active on request leg> resp=<active on response leg>
                   req <method> <url>        -> no-tree | val=<0|1> pol=<url|-> rem=<names|-> grem=<..> diag=<..>
                                                gdiag=<..> sd=<0|1> norm=<url> params=<k=v,...|->
-/
open LunarVerif LunarVerif.Proto LunarVerif.UrlTree LunarVerif.C13

def enc2 (s : String) : String := ((pctEnc s).replace "," "%2C").replace "=" "%3D"

def fmtParams (ps : List (String × String)) : String :=
  if ps.isEmpty then "-" else
  let items := ps.map (fun (k, v) => enc2 k ++ "=" ++ enc2 v)
  String.intercalate "," (items.mergeSort (fun a b => a ≤ b))

def fmtNames (ns : List String) : String := if ns.isEmpty then "-" else String.intercalate "," ns

def fmtErr : InsertErr → String
  | .emptyPart => "err:empty"
  | .wildcardPos => "err:wildcard"
  | .paramName => "err:param"

def fmtLookup (r : LookupResult Nat) : String :=
  if !r.isMatch then "m=0" else
  let v := match r.value with | some n => toString n | none => "nil"
  s!"m=1 v={v} norm={pctEnc (renderParts r.norm)} params={fmtParams r.params}"

def parseRemedies (s : String) : Option (List Remedy) :=
  if s == "-" then some [] else
  (s.splitOn ",").mapM fun it => match it.splitOn ":" with
    | [n, t, e] => do
      let t ← t.toNat?
      pure ⟨n, t, e == "1"⟩
    | _ => none

def parseDiags (s : String) : Option (List Diag) :=
  if s == "-" then some [] else
  (s.splitOn ",").mapM fun it => match it.splitOn ":" with
    | [n, e] => some ⟨n, e == "1"⟩
    | _ => none

def parsePerm (s : String) : Option (List Nat) := (s.splitOn ",").mapM String.toNat?

def mkEndpoint (m url : String) (rs : List Remedy) (ds : List Diag) : Endpoint :=
  ⟨m, url, splitURL url, rs, ds⟩

/-- Endpoints in the order given by `perm` (indices into the declared list; out-of-range ignored). -/
def applyPerm (es : List Endpoint) (perm : List Nat) : List Endpoint := perm.filterMap (es[·]?)

structure RunSt where
  tree : Tree Nat := []
  eps : List Endpoint := []        -- as declared (oldest first)
  glob : Globals := ⟨[], []⟩
  pt : Option PTree := none
  declGlob : Globals := ⟨[], []⟩    -- globals as declared (`glob` is what is in force)
  loaded : List Endpoint := []      -- the endpoints of the last `load`/`build`, in their order
  onlyFix : Bool := true           -- every remedy declared so far is a fixed-response or retry one (7, 8)
  authOK : Bool := true            -- ... or an authentication one (9), at most one per remedies list

def fmtBuildErr : BuildErr → String
  | .duplicate => "err:dup"
  | .insert e => fmtErr e

def fmtReq (pt : PTree) (g : Globals) (m url : String) : String :=
  let us := splitURL url
  let s := select pt m us
  let (rem, grem) := getRemedies pt g m us
  let (dg, gdg) := getDiagnoses pt g m us
  let pol := match s.policy with | some p => pctEnc p.url | none => "-"
  let (norm, params) := if s.hasValue then (pctEnc (renderParts s.norm), fmtParams s.params) else ("%e", "-")
  s!"val={if s.hasValue then 1 else 0} pol={pol} rem={fmtNames rem} grem={fmtNames grem} diag={fmtNames dg} gdiag={fmtNames gdg} sd={if shouldDiagnose pt g m us then 1 else 0} norm={norm} params={params}"

def authListOk (rs : List Remedy) : Bool :=
  rs.all (fun r => r.type == 7 || r.type == 8 || r.type == 9) && (rs.filter (·.type == 9)).length ≤ 1

def runBuild (s : RunSt) (ws : List String) : RunSt × String :=
  let perm := match kv ws "perm" with
    | some p => parsePerm p
    | none => if ws.isEmpty then some (List.range s.eps.length) else none
  match perm with
  | none => (s, "bad-op")
  | some perm =>
    let es := applyPerm s.eps perm
    match build es with
    | .ok pt => ({ s with pt := some pt, loaded := es, glob := s.declGlob }, "ok")
    | .error e => ({ s with pt := none, loaded := es, glob := s.declGlob }, fmtBuildErr e)

/-- runner.DispatchOnRequest with fixed-response / retry remedies only: the first selected fixed-response
    remedy answers; the early answer then runs through the response leg (retry remedies act there). -/
def runDisp (s : RunSt) (m url : String) : RunSt × String :=
  match s.pt with
  | none => (s, "no-tree")
  | some pt =>
    if !s.onlyFix then (s, "unsupported") else
    let us := splitURL (pctDec url)
    match dispatchFirst pt s.glob (pctDec m) us with
    | none => (s, "noop")
    | some first =>
      (s, s!"early={first} n={dispatchActive pt s.glob (pctDec m) us} resp={dispatchRespActive pt s.glob (pctDec m) us}")

def runStep (s : RunSt) (line : String) : RunSt × String :=
  match words line with
  | ["case", id] => ({}, s!"case {id}")
  | ["t.ins", d, url, v] =>
    match v.toNat?, (if d == "d" then some true else if d == "u" then some false else none) with
    | some n, some decl =>
      match insert s.tree (pctDec url) n decl with
      | .ok t' => ({ s with tree := t' }, "ok")
      | .error e => (s, fmtErr e)
    | _, _ => (s, "bad-op")
  | ["t.look", url] => (s, fmtLookup (lookup s.tree (pctDec url)))
  | "ep" :: m :: url :: ws =>
    match (kv ws "r").bind parseRemedies, (kv ws "d").bind parseDiags with
    | some rs, some ds =>
      ({ s with eps := s.eps ++ [mkEndpoint (pctDec m) (pctDec url) rs ds],
                onlyFix := s.onlyFix && rs.all (fun r => r.type == 7 || r.type == 8),
                authOK := s.authOK && authListOk rs }, "ok")
    | _, _ => (s, "bad-op")
  | "glob" :: ws =>
    match (kv ws "r").bind parseRemedies, (kv ws "d").bind parseDiags with
    | some rs, some ds =>
      ({ s with glob := ⟨rs, ds⟩, declGlob := ⟨rs, ds⟩,
                onlyFix := s.onlyFix && rs.all (fun r => r.type == 7 || r.type == 8),
                authOK := s.authOK && authListOk rs }, "ok")
    | _, _ => (s, "bad-op")
  | "build" :: ws => runBuild s ws
  | "load" :: ws => runBuild s ws     -- the same declarations through the YAML loader: same outcome
  | ["revert", kind] =>
    -- TxnPoliciesAccessor.RevertToDiagnosisFree / RevertToLastLoaded: rebuild from the persisted copies
    match s.pt with
    | none => (s, "no-tree")
    | some _ =>
      if kind == "free" then
        match build (diagnosisFree s.loaded) with
        | .ok pt => ({ s with pt := some pt, glob := s.declGlob.diagnosisFree }, "ok")
        | .error e => ({ s with pt := none }, fmtBuildErr e)
      else if kind == "last" then
        match build s.loaded with
        | .ok pt => ({ s with pt := some pt, glob := s.declGlob }, "ok")
        | .error e => ({ s with pt := none }, fmtBuildErr e)
      else (s, "bad-op")
  | ["auth", m, url] =>
    -- a forwarded request: which authentication remedies' credentials leave the engine
    match s.pt with
    | none => (s, "no-tree")
    | some pt =>
      if !s.authOK then (s, "unsupported") else
      let ks := (authKeys pt s.glob (pctDec m) (splitURL (pctDec url))).mergeSort (fun a b => a ≤ b)
      (s, "keys=" ++ fmtNames ks)
  | ["spoe", m, url] => runDisp s m url   -- the same dispatch, entered through the SPOE handler
  | ["req", m, url] =>
    match s.pt with
    | none => (s, "no-tree")
    | some pt => (s, fmtReq pt s.glob (pctDec m) (pctDec url))
  | ["disp", m, url] => runDisp s m url
  | _ => (s, "bad-op")

/-! ### judge -/

def decList (s : String) : List String := if s == "-" then [] else (s.splitOn ",")

def parseParams (s : String) : Option (List (String × String)) :=
  if s == "-" then some [] else
  (s.splitOn ",").mapM fun it => match it.splitOn "=" with
    | [k, v] => some (pctDec k, pctDec v)
    | _ => none

def parseAnswer (ws : List String) : Option Answer := do
  let val ← kv ws "val"
  let pol ← kv ws "pol"
  let rem ← kv ws "rem"
  let diag ← kv ws "diag"
  let norm ← kv ws "norm"
  let params ← (kv ws "params").bind parseParams
  let grem ← kv ws "grem"
  let gdiag ← kv ws "gdiag"
  let sd ← kv ws "sd"
  pure { hasValue := val == "1", pol := if pol == "-" then none else some (pctDec pol),
         rem := decList rem, diag := decList diag, grem := decList grem, gdiag := decList gdiag,
         sd := sd == "1", norm := pctDec norm, normParts := splitURL (pctDec norm), params := params }

def parseLook (ws : List String) : Option LookAnswer :=
  match kv ws "m" with
  | some "0" => some { isMatch := false, value := none, norm := "", normParts := [], params := [] }
  | some "1" => do
    let v ← kv ws "v"
    let norm ← kv ws "norm"
    let params ← (kv ws "params").bind parseParams
    pure { isMatch := true, value := v.toNat?, norm := pctDec norm, normParts := splitURL (pctDec norm), params := params }
  | _ => none

structure JudgeSt where
  eps : List Endpoint := []
  glob : Globals := ⟨[], []⟩
  ins : List (List Part × Nat) := []              -- L1: successfully inserted (declared parts, value)
  insU : Bool := false                            -- L1: an undeclared `Insert` took place
  looks : List (List Part × LookAnswer) := []
  loaded : List Endpoint := []                    -- the endpoints of the last build/load, in their order
  cur : Option Round := none                      -- current build round
  rounds : List Round := []                       -- finished rounds, newest first
  bad : Option String := none

def JudgeSt.flush (s : JudgeSt) : JudgeSt :=
  match s.cur with
  | some r => { s with rounds := r :: s.rounds, cur := none }
  | none => s

def judgeBuild (s : JudgeSt) (ws : List String) (out : String) : JudgeSt :=
  let perm := match kv ws "perm" with
    | some p => parsePerm p
    | none => some (List.range s.eps.length)
  match perm with
  | none => { s with bad := some "unparsable-op" }
  | some perm =>
    let s := s.flush
    { s with loaded := applyPerm s.eps perm,
             cur := some { eps := applyPerm s.eps perm, built := out, reqs := [] } }

def judgeStep (s : JudgeSt) (op out : String) : JudgeSt :=
  if out.startsWith "panic" then { s with bad := some ("impl-panic:" ++ out) } else
  match words op with
  | ["t.ins", d, url, v] =>
    if out == "ok" then
      match v.toNat? with
      | some n => { s with ins := s.ins ++ [(splitURL (pctDec url), n)], insU := s.insU || d == "u" }
      | none => { s with bad := some "unparsable-op" }
    else s
  | ["t.look", url] =>
    match parseLook (words out) with
    | some a => { s with looks := s.looks ++ [(splitURL (pctDec url), a)] }
    | none => { s with bad := some ("unparsable-output:" ++ pctEnc out) }
  | "ep" :: m :: url :: ws =>
    match (kv ws "r").bind parseRemedies, (kv ws "d").bind parseDiags with
    | some rs, some ds => { s with eps := s.eps ++ [mkEndpoint (pctDec m) (pctDec url) rs ds] }
    | _, _ => { s with bad := some "unparsable-op" }
  | "glob" :: ws =>
    match (kv ws "r").bind parseRemedies, (kv ws "d").bind parseDiags with
    | some rs, some ds => { s with glob := ⟨rs, ds⟩ }
    | _, _ => { s with bad := some "unparsable-op" }
  | "build" :: ws => judgeBuild s ws out
  | "load" :: ws => judgeBuild s ws out
  | ["revert", kind] =>
    if out == "no-tree" then s else
    let s := s.flush
    if kind == "free" then
      { s with cur := some { eps := diagnosisFree s.loaded, built := out, reqs := [],
                             glob := some s.glob.diagnosisFree, mode := "free" } }
    else
      { s with cur := some { eps := s.loaded, built := out, reqs := [] } }
  | ["req", m, url] =>
    match s.cur with
    | none => s
    | some r =>
      if out == "no-tree" then s else
      match parseAnswer (words out) with
      | some a => { s with cur := some { r with reqs := r.reqs ++ [⟨pctDec m, pctDec url, splitURL (pctDec url), a⟩] } }
      | none => { s with bad := some ("unparsable-output:" ++ pctEnc out) }
  | ["auth", m, url] =>
    match s.cur, kv (words out) "keys" with
    | some r, some ks =>
      { s with cur := some { r with auths := r.auths ++ [⟨pctDec m, pctDec url, splitURL (pctDec url), decList ks⟩] } }
    | _, _ => s
  | [op, m, url] =>
    if op != "disp" && op != "spoe" then s else
    match s.cur, kv (words out) "early" with
    | some r, some first =>
      { s with cur := some { r with disps := r.disps ++
          [⟨pctDec m, pctDec url, splitURL (pctDec url), first, (kvNat (words out) "resp").getD 0⟩] } }
    | _, _ => s
  | _ => s

def judgeFinish (s : JudgeSt) : String :=
  match s.bad with
  | some b => s!"fail - {b}"
  | none =>
    let s := s.flush
    let vs := (if s.insU then [] else trieVerdicts s.ins s.looks) ++ caseVerdicts s.glob s.rounds.reverse
    -- an unclassified failure always wins; otherwise the first classified one
    match vs.find? (fun v => v.finding == "-") with
    | some v => s!"fail - {v.msg}"
    | none => match vs with
      | v :: _ => s!"fail {v.finding} {v.msg}"
      | [] => "ok"

def main (args : List String) : IO Unit :=
  match args with
  | ["run"] => runLoop runStep {}
  | ["judge"] => judgeLoop ({} : JudgeSt) judgeStep judgeFinish
  | _ => IO.eprintln "usage: lvdriver_c13 run|judge"
