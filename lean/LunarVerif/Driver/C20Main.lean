import LunarVerif.Base.Proto
import LunarVerif.Spec.C20
import LunarVerif.Spec.C20Wiring
/-! Driver for C20: `lvdriver_c20 run` (model outputs) / `lvdriver_c20 judge` (Spec on impl outputs). -/
open LunarVerif LunarVerif.Proto LunarVerif.C20

structure RunSt where
  cfg : Cfg := ⟨0, 0, 0, 0⟩
  w : W := W.init 0

def fmtEvent (e : Event) : String :=
  let r := match e.react with | none => "none" | some true => "healthy" | some false => "unhealthy"
  s!"t={e.t} r={r} rt={e.rt}"

def parseCfg (ws : List String) : Option (Cfg × Nat) := do
  let n ← kvInt ws "n"
  let p ← kvNat ws "period"
  let i ← kvNat ws "interval"
  let c ← kvNat ws "cooldown"
  let t0 ← kvNat ws "t0"
  pure (⟨n, p, i, c⟩, t0)

def runStep (s : RunSt) (line : String) : RunSt × String :=
  match words line with
  | ["case", id] => ({}, s!"case {id}")
  | "cfg" :: ws =>
    match parseCfg ws with
    | some (cfg, t0) => ({ cfg := cfg, w := W.init t0 }, "ok")
    | none => (s, "bad-op")
  | "obs" :: ws =>
    match kvNat ws "v", kvNat ws "lat" with
    | some v, some lat =>
      let (w', e) := step s.cfg s.w ⟨v != 0, lat⟩
      ({ s with w := w' }, fmtEvent e)
    | _, _ => (s, "bad-op")
  | _ => (s, "bad-op")

structure JudgeSt where
  cfg : Cfg := ⟨0, 0, 0, 0⟩
  hist : List Event := []   -- most recent first
  bad : Option String := none

def judgeStep (s : JudgeSt) (op out : String) : JudgeSt :=
  match words op with
  | "cfg" :: ws =>
    match parseCfg ws with
    | some (cfg, _) => { s with cfg := cfg }
    | none => { s with bad := some "unparsable-cfg" }
  | "obs" :: ws =>
    let ows := words out
    match kvNat ws "v", kvNat ows "t", kv ows "r", kvNat ows "rt" with
    | some v, some t, some r, some rt =>
      let react := if r == "none" then some none else if r == "healthy" then some (some true)
                   else if r == "unhealthy" then some (some false) else none
      match react with
      | some re => { s with hist := ⟨t, v != 0, re, rt⟩ :: s.hist }
      | none => { s with bad := some "unparsable-output" }
    | _, _, _, _ => { s with bad := some ("unparsable-output:" ++ pctEnc out) }
  | _ => s

def judgeFinish (s : JudgeSt) : String :=
  match s.bad with
  | some b => s!"fail - {b}"
  | none =>
    if holdsRev s.cfg s.hist then "ok"
    else
      -- locate the first (oldest) offending event for the message
      let rec find : List Event → Option Event
        | [] => none
        | e :: older => match find older with
          | some x => some x
          | none => if eventOk s.cfg e older then none else some e
      match find s.hist with
      | some e => s!"fail - spec-violated-at t={e.t} {fmtEvent e}"
      | none => "fail - spec-violated"


/-! ## Level 2: the wired fail-safe (`Model/C20Wiring.lean`, `Spec/C20Wiring.lean`) -/

structure WCfgLine where
  env : EnvCfg
  thr : Thr
  t0  : Nat
  p0  : Option Pol

def parsePol (s : String) : Option Pol :=
  match s.splitOn "." with
  | [k, g, e, r] =>
    let bit (x : String) : Option Bool := if x == "1" then some true else if x == "0" then some false else none
    match (if k.all Char.isDigit then k.toNat? else none), bit g, bit e, bit r with
    | some k, some g, some e, some r => if k == 0 then none else some ⟨k, g, e, r⟩   -- label 0 = the empty policies
    | _, _, _, _ => none
  | _ => none

def parseWCfg (ws : List String) : Option WCfgLine := do
  let i ← kv ws "interval"
  let n ← kv ws "n"
  let p ← kv ws "period"
  let c ← kv ws "cooldown"
  let r ← kv ws "rate"
  let m ← kv ws "max"
  let t0 ← kvNat ws "t0"
  let a ← kv ws "acc"
  let p0 ← if a == "none" then some none else (parsePol a).map some
  pure ⟨⟨pctDec i, pctDec n, pctDec p, pctDec c⟩, ⟨pctDec r, pctDec m⟩, t0, p0⟩

def fieldOk (s : String) : Bool := !s.toList.any fun c => c == ',' || c == '"' || c == '\r' || c == '\n'

def parseRowW (s : String) : Option Row :=
  match s.splitOn "|" with
  | [px, sv, rate, last, rg] =>
    let vs := [px, sv, rate, last].map pctDec
    if !vs.all fieldOk then none else
    match vs, (if rg == "0" then some 0 else if rg == "1" then some 1 else if rg == "2" then some 2 else none) with
    | [px, sv, rate, last], some rg => some ⟨px, sv, rate, last, rg⟩
    | _, _ => none
  | _ => none

def parseRowsW (s : String) : Option (List Row) :=
  if s.isEmpty then some [] else (s.splitOn ";").mapM parseRowW

def parseHdr (s : String) : Option Hdr :=
  match s.toList with
  | [a, b, c, d] =>
    if [a, b, c, d].all (fun x => x == '0' || x == '1') then some ⟨a == '1', b == '1', c == '1', d == '1'⟩ else none
  | _ => none

def parseHttp (ws : List String) : Option Http := do
  let h ← kv ws "http"
  if h == "err" then pure .transportErr
  else if h == "bodyerr" then pure .bodyErr
  else
    let code ← (if h.all Char.isDigit then h.toNat? else none)
    if code < 100 || code > 599 then none
    else match kv ws "junk" with
      | some j => if ["empty", "html", "quote", "nohdr"].contains j then pure (.status code .junk) else none
      | none =>
        let hdr ← (kv ws "hdr").bind parseHdr
        let lay ← kv ws "lay"
        if !["real", "min", "rev"].contains lay then none
        else
          let rows ← parseRowsW ((kv ws "rows").getD "")
          pure (.status code (.csv hdr rows))

def parseOpW (ws : List String) : Option Op :=
  match ws with
  | "obs" :: rest => do
    let lat ← kvNat rest "lat"
    let h ← parseHttp rest
    pure (.obs lat h)
  | "thr" :: rest => do
    let r ← kv rest "rate"
    let m ← kv rest "max"
    pure (.thr ⟨pctDec r, pctDec m⟩)
  | ["write", "bad"] => some (.write .bad)
  | ["write", "none"] => some (.write .none)
  | ["write", p] => (parsePol p).map fun p => .write (.good p)
  | ["reload"] => some .reload
  | ["revert", "free"] => some (.revert true)
  | ["revert", "last"] => some (.revert false)
  | ["admin", "ok"] => some (.admin false)
  | ["admin", "fail"] => some (.admin true)
  | _ => none

def b2n (b : Bool) : Nat := if b then 1 else 0

def fmtPol (p : Pol) : String := s!"ver={p.k} gd={b2n p.g} ed={b2n p.e} er={b2n p.r}"

def fmtCur : Option Pol → String
  | some p => fmtPol p
  | none => "ver=none"

def fmtAtoiErr : AtoiErr → String
  | .syntax => "syntax"
  | .range => "range"

def fmtCtor : Except CtorErr RawCfg → Option Pol → String
  | .ok r, cur => s!"ok n={r.n} period={r.period} interval={r.interval} cooldown={r.cooldown} {fmtCur cur}"
  | .error e, _ => s!"err:{fmtAtoiErr e.kind} num={pctEnc e.num}"

def fmtReact : Option Bool → String
  | none => "none"
  | some true => "healthy"
  | some false => "unhealthy"

def fmtAns : Ans → String
  | .obs e fetched cur => s!"t={e.t} healthy={b2n e.obs} fetched={b2n fetched} r={fmtReact e.react} rt={e.rt} {fmtCur cur}"
  | .done => "ok"
  | .upd ok cur => (if ok then "ok " else "err ") ++ fmtPol cur
  | .noAcc => "no-accessor"

def fmtCall : AdminCall → String
  | .bodyAll => "PUT/include_body_from_all"
  | .manageAll => "PUT/manage_all"
  | .unmanageGlobal => "DELETE/unmanage_global"
  | .putEp k => s!"PUT/managed_endpoint/p{k}"
  | .putBody k => s!"PUT/include_body_from/p{k}"
  | .delEp k => s!"DELETE/managed_endpoint/p{k}"
  | .delBody k => s!"DELETE/include_body_from/p{k}"
  | .delCapture k => s!"DELETE/capture_req_from/p{k}"

def fmtCalls (cs : List AdminCall) : String :=
  " adm=" ++ (if cs.isEmpty then "-" else ",".intercalate (cs.map fmtCall))

/-- State of a level-2 case in `run` mode. -/
structure WRun where
  bad : Bool := false            -- the wcfg line was malformed
  cfg : Option Cfg := none       -- none: construction failed, no watcher
  sys : Sys := Sys.init 0 ⟨"", ""⟩ none

def wRunStart (ws : List String) : WRun × String :=
  match parseWCfg ws with
  | none => ({ bad := true }, "bad-op")
  | some l =>
    let c := construct l.env
    let sys := Sys.init (l.t0 + (match c with | .ok r => r.initialWait | .error _ => 0)) l.thr l.p0
    let boot := match c, l.p0 with
      | .ok _, some p => fmtCalls (manageCalls false p)
      | .ok _, none => fmtCalls []
      | .error _, _ => ""
    ({ cfg := (match c with | .ok r => some r.toCfg | .error _ => none), sys := sys }, fmtCtor c l.p0 ++ boot)

/-- The defaults shipped in proxy/Dockerfile, as the model states them (`dockerEnv`, `dockerThr`). -/
def fmtDockerEnv : String :=
  s!"interval={pctEnc dockerEnv.interval} n={pctEnc dockerEnv.n} period={pctEnc dockerEnv.period} " ++
  s!"cooldown={pctEnc dockerEnv.cooldown} rate={pctEnc dockerThr.rate} max={pctEnc dockerThr.max}"

def wRunStep (s : WRun) (line : String) : WRun × String :=
  if s.bad then (s, "bad-op") else
  if words line == ["dockerenv"] then (s, fmtDockerEnv) else
  match parseOpW (words line) with
  | none => (s, "bad-op")
  | some op =>
    match s.cfg, op with
    | none, .obs _ _ => (s, "no-watcher")
    | cfg, op =>
      let (sys', a) := sysStep (cfg.getD ⟨0, 0, 0, 0⟩) s.sys op
      let adm := match a with
        | .obs _ _ _ | .upd _ _ => fmtCalls (sysCalls (cfg.getD ⟨0, 0, 0, 0⟩) s.sys op)
        | _ => ""
      ({ s with sys := sys' }, fmtAns a ++ adm)

/-- State of a level-2 case in `judge` mode. -/
structure WJudge where
  line : Option WCfgLine := none
  ctor : Option String := none       -- the implementation's answer to wcfg
  hist : Hist := []                  -- most recent first
  bad : Option String := none

def parseCur (ws : List String) : Option (Option Pol) :=
  match kv ws "ver" with
  | some "none" => some none
  | some k =>
    match (if k.all Char.isDigit then k.toNat? else none), kvNat ws "gd", kvNat ws "ed", kvNat ws "er" with
    | some k, some g, some e, some r => some (some ⟨k, g != 0, e != 0, r != 0⟩)
    | _, _, _, _ => none
  | none => none

/-- Only what the property talks about is required of an answer: instant, observed health, reaction
    and its instant of a health check.  Everything else (fetched flag, policies in force, answers of
    reloads / reverts) is left to the correspondence diff. -/
def parseAnsW (op : Op) (out : String) : Option Ans :=
  let ows := words out
  match op with
  | .obs _ _ =>
    match kvNat ows "t", kvNat ows "healthy", kv ows "r", kvNat ows "rt" with
    | some t, some hv, some r, some rt =>
      let react := if r == "none" then some none else if r == "healthy" then some (some true)
                   else if r == "unhealthy" then some (some false) else none
      react.map fun re => .obs ⟨t, hv != 0, re, rt⟩ ((kvNat ows "fetched").getD 0 != 0) ((parseCur ows).getD none)
    | _, _, _, _ => none
  | _ => some .done

def wJudgeStep (s : WJudge) (op out : String) : WJudge :=
  match s.line with
  | none => s
  | some _ =>
    match parseOpW (words op) with
    | none => s                                   -- malformed line: the diff compares the answers
    | some o =>
      if out == "no-watcher" || out.startsWith "stuck:" then s   -- no event (the diff compares the answers)
      else
        match parseAnsW o out with
        | some a => { s with hist := (o, a) :: s.hist }
        | none => { s with bad := some ("unparsable-output:" ++ pctEnc out) }

/-- The judge evaluates exactly property C20 (`wholds`): when the REAL watcher fired its reactions for the
    health the REAL predicate had to observe.  The constructed numbers, the `fetched` flag and the policies
    in force are compared by the correspondence diff only. -/
def wJudgeFinish (s : WJudge) : String :=
  match s.bad, s.line with
  | some b, _ => s!"fail - {b}"
  | none, some l =>
    match construct l.env with
    | .error _ => "ok"                    -- no configuration: the property states nothing
    | .ok raw =>
      let h := s.hist.reverse
      if wholds raw l.thr h then "ok"
      else if !predsOk l.thr h then "fail - observed-health-not-what-the-stats-and-thresholds-state"
      else "fail - reactions-not-as-the-property-states (alternation/stability/cool-down)"
  | none, none => "ok"

/-! ## Dispatch: a case whose FIRST op is `wcfg` is a level-2 case -/

structure RunSt2 where
  first : Bool := true
  l1 : RunSt := {}
  l2 : Option WRun := none

def runStep2 (s : RunSt2) (line : String) : RunSt2 × String :=
  match words line, s.first, s.l2 with
  | ["case", id], _, _ => ({}, s!"case {id}")
  | "wcfg" :: ws, true, _ => let (w, out) := wRunStart ws; ({ first := false, l2 := some w }, out)
  | _, _, some w => let (w', out) := wRunStep w line; ({ s with first := false, l2 := some w' }, out)
  | _, _, none => let (l1, out) := runStep s.l1 line; ({ s with first := false, l1 := l1 }, out)

structure JudgeSt2 where
  first : Bool := true
  l1 : JudgeSt := {}
  l2 : Option WJudge := none

def judgeStep2 (s : JudgeSt2) (op out : String) : JudgeSt2 :=
  match words op, s.first, s.l2 with
  | "wcfg" :: ws, true, _ =>
    { first := false, l2 := some { line := parseWCfg ws, ctor := some out } }
  | _, _, some w => { s with first := false, l2 := some (wJudgeStep w op out) }
  | _, _, none => { s with first := false, l1 := judgeStep s.l1 op out }

def judgeFinish2 (s : JudgeSt2) : String :=
  match s.l2 with
  | some w => wJudgeFinish w
  | none => judgeFinish s.l1

def main (args : List String) : IO Unit :=
  match args with
  | ["run"] => runLoop runStep2 {}
  | ["judge"] => judgeLoop ({} : JudgeSt2) judgeStep2 judgeFinish2
  | _ => IO.eprintln "usage: lvdriver_c20 run|judge"
