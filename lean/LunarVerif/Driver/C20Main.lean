import LunarVerif.Base.Proto
import LunarVerif.Spec.C20
/-! Driver for C20: `lvdriver_c20 run` (model outputs) / `lvdriver_c20 judge` (Spec on impl outputs). -/
open LunarVerif LunarVerif.Proto LunarVerif.C20

structure RunSt where
  cfg : Cfg := ⟨0, 0, 0, 0⟩
  w : W := W.init 0

def fmtEvent (e : Event) : String :=
  let r := match e.react with | none => "none" | some true => "healthy" | some false => "unhealthy"
  s!"t={e.t} r={r} rt={e.rt}"

def parseCfg (ws : List String) : Option (Cfg × Nat) := do
  let n ← kvInt ws "n"
  let p ← kvNat ws "period"
  let i ← kvNat ws "interval"
  let c ← kvNat ws "cooldown"
  let t0 ← kvNat ws "t0"
  pure (⟨n, p, i, c⟩, t0)

def runStep (s : RunSt) (line : String) : RunSt × String :=
  match words line with
  | ["case", id] => ({}, s!"case {id}")
  | "cfg" :: ws =>
    match parseCfg ws with
    | some (cfg, t0) => ({ cfg := cfg, w := W.init t0 }, "ok")
    | none => (s, "bad-op")
  | "obs" :: ws =>
    match kvNat ws "v", kvNat ws "lat" with
    | some v, some lat =>
      let (w', e) := step s.cfg s.w ⟨v != 0, lat⟩
      ({ s with w := w' }, fmtEvent e)
    | _, _ => (s, "bad-op")
  | _ => (s, "bad-op")

structure JudgeSt where
  cfg : Cfg := ⟨0, 0, 0, 0⟩
  hist : List Event := []   -- most recent first
  bad : Option String := none

def judgeStep (s : JudgeSt) (op out : String) : JudgeSt :=
  match words op with
  | "cfg" :: ws =>
    match parseCfg ws with
    | some (cfg, _) => { s with cfg := cfg }
    | none => { s with bad := some "unparsable-cfg" }
  | "obs" :: ws =>
    let ows := words out
    match kvNat ws "v", kvNat ows "t", kv ows "r", kvNat ows "rt" with
    | some v, some t, some r, some rt =>
      let react := if r == "none" then some none else if r == "healthy" then some (some true)
                   else if r == "unhealthy" then some (some false) else none
      match react with
      | some re => { s with hist := ⟨t, v != 0, re, rt⟩ :: s.hist }
      | none => { s with bad := some "unparsable-output" }
    | _, _, _, _ => { s with bad := some ("unparsable-output:" ++ pctEnc out) }
  | _ => s

def judgeFinish (s : JudgeSt) : String :=
  match s.bad with
  | some b => s!"fail - {b}"
  | none =>
    if holdsRev s.cfg s.hist then "ok"
    else
      -- locate the first (oldest) offending event for the message
      let rec find : List Event → Option Event
        | [] => none
        | e :: older => match find older with
          | some x => some x
          | none => if eventOk s.cfg e older then none else some e
      match find s.hist with
      | some e => s!"fail - spec-violated-at t={e.t} {fmtEvent e}"
      | none => "fail - spec-violated"

def main (args : List String) : IO Unit :=
  match args with
  | ["run"] => runLoop runStep {}
  | ["judge"] => judgeLoop ({} : JudgeSt) judgeStep judgeFinish
  | _ => IO.eprintln "usage: lvdriver_c20 run|judge"
