import LunarVerif.Base.Proto
import LunarVerif.Spec.C12
/-! Driver for C12: `lvdriver_c12 run` (model answers) / `lvdriver_c12 judge` (Spec on the implementation's answers).

Case layout (one `cfg` line, then operations):
  cfg cache    t0=<ns> max=<bytes|none>
  cfg caching  t0=<ns> ttl8=<int> maxrec=<bytes> maxb=<bytes> paths=<a,!b|%e>     (TTL = ttl8 × 125 ms; `!` = other payload type)
  cfg throttle t0=<ns> type=rel|abs|undef statuses=<429,503|%e> hdr=<name>
cache ops   : set k= v= ttl8=   | get k= | has k= | del k=
plugin ops  : resp m= u= pp=<a:1,b:2|%e> id= st= body= tag=<enc|%n> ra=<enc|%n>   | req m= u= pp=
clock ops   : adv d=<ns> (due sleepers run) | skip d=<ns> (nobody runs) | fire i=<index among pending> | probe
-/
open LunarVerif LunarVerif.Proto LunarVerif.C12

inductive Mode where
  | none
  | cache (cfg : Cfg) (c : Cache String String)
  | caching (cfg : CCfg) (paths : List (Bool × String)) (c : CCache String)
  | throttle (cfg : TCfg) (c : TCache String)

def ttlUnit : Int := 125000000

def optEnc : Option String → String
  | some s => pctEnc s
  | none => "%n"

def optDec (w : String) : Option String := if w == "%n" then none else some (pctDec w)

def kvS (ws : List String) (k : String) : Option String := (kv ws k).map pctDec

def parsePaths (w : String) : List (Bool × String) :=
  let s := pctDec w
  if s.isEmpty then [] else
  (s.splitOn ",").map fun p => if p.startsWith "!" then (false, (p.drop 1).toString) else (true, p)

def parsePP (w : String) : Option (List (String × String)) :=
  let s := pctDec w
  if s.isEmpty then some [] else
  (s.splitOn ",").mapM fun p =>
    match p.splitOn ":" with
    | [] => none
    | [_] => none
    | n :: rest => some (n, ":".intercalate rest)

def parseNatList (w : String) : Option (List Nat) :=
  let s := pctDec w
  if s.isEmpty then some [] else (s.splitOn ",").mapM String.toNat?

def parseCfg (ws : List String) : Option Mode :=
  match ws with
  | "cache" :: ws => do
    let t0 ← kvInt ws "t0"
    let mx ← kv ws "max"
    if mx == "none" then pure (.cache ⟨t0, false, 0⟩ (Cache.init t0 false 0))
    else
      let n ← mx.toNat?
      pure (.cache ⟨t0, true, n⟩ (Cache.init t0 true n))
  | "caching" :: ws => do
    let t0 ← kvInt ws "t0"
    let ttl8 ← kvInt ws "ttl8"
    let maxrec ← kvNat ws "maxrec"
    let maxb ← kvNat ws "maxb"
    let paths ← kv ws "paths"
    pure (.caching ⟨ttl8 * ttlUnit, maxrec, maxb⟩ (parsePaths paths) (Cache.init t0 false 0))
  | "throttle" :: ws => do
    let t0 ← kvInt ws "t0"
    let ty ← kv ws "type"
    let ty ← (if ty == "rel" then some RaType.rel else if ty == "abs" then some RaType.abs
              else if ty == "undef" then some RaType.undef else none)
    let sts ← (kv ws "statuses").bind parseNatList
    let _ ← kv ws "hdr"
    pure (.throttle ⟨ty, sts⟩ (Cache.init t0 false 0))
  | _ => none

/-- Clock operations shared by all modes. -/
inductive ClockOp where
  | fire (i : Nat)
  | skip (d : Nat)
  | adv (d : Nat)
  | probe

def parseClock : List String → Option ClockOp
  | ["fire", w] => (kvNat [w] "i").map .fire
  | ["skip", w] => (kvNat [w] "d").map .skip
  | ["adv", w] => (kvNat [w] "d").map .adv
  | ["probe"] => some .probe
  | _ => none

def parseEv (ws : List String) : Option (Ev String String) :=
  match parseClock ws with
  | some (.fire i) => some (.fire i)
  | some (.skip d) => some (.skip d)
  | some (.adv d) => some (.adv d)
  | some .probe => some .probe
  | none =>
    match ws with
    | "set" :: ws => do
      let k ← kvS ws "k"
      let v ← kvS ws "v"
      let ttl8 ← kvInt ws "ttl8"
      pure (.set k v (ttl8 * ttlUnit) (k.utf8ByteSize + v.utf8ByteSize))
    | ["get", w] => (kvS [w] "k").map .get
    | ["has", w] => (kvS [w] "k").map .has
    | ["del", w] => (kvS [w] "k").map .del
    | _ => none

/-- `hdrName`: the header under which `ra` travels (sizes only). -/
def parsePOp (paths : List (Bool × String)) (hdrName : String) (ws : List String) : Option (POp String) :=
  match parseClock ws with
  | some (.fire i) => some (.fire i)
  | some (.skip d) => some (.skip d)
  | some (.adv d) => some (.adv d)
  | some .probe => some .probe
  | none =>
    match ws with
    | "resp" :: ws => do
      let m ← kvS ws "m"
      let u ← kvS ws "u"
      let pp ← (kv ws "pp").bind parsePP
      let id ← kvS ws "id"
      let st ← kvNat ws "st"
      let body ← kvS ws "body"
      let tag ← (kv ws "tag").map optDec
      let ra ← (kv ws "ra").map optDec
      let hdrs := (match ra with | some v => [(hdrName, v)] | none => [])
                  ++ (match tag with | some v => [("X-Tag", v)] | none => [])
      pure (.resp m u (selectParams paths pp)
              { id := id, status := st, body := body, tag := tag, ra := ra, raNs := ra.bind parseDecNs }
              body.utf8ByteSize (calcSize m u id body hdrs))
    | "req" :: ws => do
      let m ← kvS ws "m"
      let u ← kvS ws "u"
      let pp ← (kv ws "pp").bind parsePP
      pure (.req m u (selectParams paths pp))
    | _ => none

def fmtFire : FireRes → String
  | .fired => "fired"
  | .notDue => "not-due"
  | .absent => "none"

def fmtProbe (tracked : Int) (held n pending : Nat) : String :=
  s!"tracked={tracked} held={held} n={n} pending={pending}"

def fmtOut : Out String → String
  | .unit => "ok"
  | .setRes .ok => "ok"
  | .setRes .full => "err:full"
  | .got (some v) => s!"hit v={pctEnc v}"
  | .got none => "miss"
  | .hasRes b => if b then "true" else "false"
  | .fired r => fmtFire r
  | .advd n => s!"ok fired={n}"
  | .probed t h n p => fmtProbe t h n p

def fmtPOut : POut String → String
  | .noop => "noop"
  | .early st body tag (.raw ra) => s!"early st={st} body={pctEnc body} tag={optEnc tag} ra={optEnc ra}"
  | .early st body tag (.ns n) => s!"early st={st} body={pctEnc body} tag={optEnc tag} ra-ns={n}"
  | .fired r => fmtFire r
  | .advd n => s!"ok fired={n}"
  | .unit => "ok"
  | .probed t h n p => fmtProbe t h n p

def runStep (s : Mode) (line : String) : Mode × String :=
  match words line with
  | ["case", id] => (.none, s!"case {id}")
  | "cfg" :: ws =>
    match s, parseCfg ws with
    | .none, some m => (m, "ok")
    | _, _ => (s, "bad-op")
  | ws =>
    match s with
    | .none => (s, "bad-op")
    | .cache cfg c =>
      match parseEv ws with
      | some ev => (.cache cfg (step c ev).1, fmtOut (step c ev).2)
      | none => (s, "bad-op")
    | .caching cfg paths c =>
      match parsePOp paths "Retry-After" ws with
      | some op => (.caching cfg paths (cstep cfg c op).1, fmtPOut (cstep cfg c op).2)
      | none => (s, "bad-op")
    | .throttle cfg c =>
      match parsePOp [] "" ws with
      | some op => (.throttle cfg (tstep absTtlFloat cfg c op).1, fmtPOut (tstep absTtlFloat cfg c op).2)
      | none => (s, "bad-op")

/-! ### judge -/

def parseFire (w : String) : Option FireRes :=
  if w == "fired" then some .fired else if w == "not-due" then some .notDue
  else if w == "none" then some .absent else none

def parseProbe (ws : List String) : Option (Int × Nat × Nat × Nat) := do
  let t ← kvInt ws "tracked"
  let h ← kvNat ws "held"
  let n ← kvNat ws "n"
  let p ← kvNat ws "pending"
  pure (t, h, n, p)

def parseOut (ev : Ev String String) (ows : List String) : Option (Out String) :=
  match ev, ows with
  | .set .., ["ok"] => some (.setRes .ok)
  | .set .., ["err:full"] => some (.setRes .full)
  | .get _, ["miss"] => some (.got none)
  | .get _, ["hit", w] => (kvS [w] "v").map fun v => .got (some v)
  | .has _, ["true"] => some (.hasRes true)
  | .has _, ["false"] => some (.hasRes false)
  | .del _, ["ok"] => some .unit
  | .fire _, [w] => (parseFire w).map .fired
  | .skip _, ["ok"] => some .unit
  | .adv _, ["ok", w] => (kvNat [w] "fired").map .advd
  | .probe, ws => (parseProbe ws).map fun (t, h, n, p) => .probed t h n p
  | _, _ => none

def parsePOut (op : POp String) (ows : List String) : Option (POut String) :=
  match op, ows with
  | .resp .., ["noop"] => some .noop
  | .req .., ["noop"] => some .noop
  | .req .., "early" :: ws => do
    let st ← kvNat ws "st"
    let body ← kvS ws "body"
    let tag ← (kv ws "tag").map optDec
    match kvInt ws "ra-ns", kv ws "ra" with
    | some n, _ => pure (.early st body tag (.ns n))
    | none, some w => pure (.early st body tag (.raw (optDec w)))
    | none, none => none
  | .fire _, [w] => (parseFire w).map .fired
  | .skip _, ["ok"] => some .unit
  | .adv _, ["ok", w] => (kvNat [w] "fired").map .advd
  | .probe, ws => (parseProbe ws).map fun (t, h, n, p) => .probed t h n p
  | _, _ => none

inductive JMode where
  | none
  | cache (cfg : Cfg) (hist : List (Rec String String))
  | caching (cfg : CCfg) (paths : List (Bool × String)) (hist : List (PRec String))
  | throttle (cfg : TCfg) (hist : List (PRec String))

structure JudgeSt where
  mode : JMode := .none
  now : Int := 0
  bad : Option String := none

def advanceOf : ClockOp → Nat
  | .skip d => d
  | .adv d => d
  | _ => 0

def judgeStep (s : JudgeSt) (op out : String) : JudgeSt :=
  if s.bad.isSome then s else
  let ows := words out
  match words op with
  | "cfg" :: ws =>
    match s.mode, parseCfg ws with
    | .none, some (.cache cfg c) => { s with mode := .cache cfg [], now := c.now }
    | .none, some (.caching cfg paths c) => { s with mode := .caching cfg paths [], now := c.now }
    | .none, some (.throttle cfg c) => { s with mode := .throttle cfg [], now := c.now }
    | _, _ => if out == "bad-op" then s else { s with bad := some "cfg-accepted-but-unparsable" }
  | ws =>
    let dt : Nat := match parseClock ws with | some c => advanceOf c | none => 0
    match s.mode with
    | .none => if out == "bad-op" then s else { s with bad := some "op-before-cfg-answered" }
    | .cache cfg hist =>
      match parseEv ws with
      | none => if out == "bad-op" then s else { s with bad := some "unparsable-op-answered" }
      | some ev =>
        match parseOut ev ows with
        | some o => { s with mode := .cache cfg (⟨s.now, ev, o⟩ :: hist), now := s.now + dt }
        | none => { s with bad := some ("unparsable-output:" ++ pctEnc out) }
    | .caching cfg paths hist =>
      match parsePOp paths "Retry-After" ws with
      | none => if out == "bad-op" then s else { s with bad := some "unparsable-op-answered" }
      | some pop =>
        match parsePOut pop ows with
        | some o => { s with mode := .caching cfg paths (⟨s.now, pop, o⟩ :: hist), now := s.now + dt }
        | none => { s with bad := some ("unparsable-output:" ++ pctEnc out) }
    | .throttle cfg hist =>
      match parsePOp [] "" ws with
      | none => if out == "bad-op" then s else { s with bad := some "unparsable-op-answered" }
      | some pop =>
        match parsePOut pop ows with
        | some o => { s with mode := .throttle cfg (⟨s.now, pop, o⟩ :: hist), now := s.now + dt }
        | none => { s with bad := some ("unparsable-output:" ++ pctEnc out) }

/-- index (from the oldest, 1-based) and instant of the oldest record violating `ok`. -/
def firstBad {ρ : Type} (ok : ρ → List ρ → Bool) (t : ρ → Int) : List ρ → Option (Nat × Int)
  | [] => none
  | r :: older =>
    match firstBad ok t older with
    | some x => some x
    | none => if ok r older then none else some (older.length + 1, t r)

def describe (x : Option (Nat × Int)) : String :=
  match x with
  | some (i, t) => s!"op#{i} t={t}"
  | none => "?"

def judgeFinish (s : JudgeSt) : String :=
  match s.bad with
  | some b => s!"fail - {b}"
  | none =>
    match s.mode with
    | .none => "ok"
    | .cache cfg hist =>
      if holdsRev cfg hist then "ok"
      else s!"fail - cache: hit-not-justified-by-last-fresh-store-or-size-clause at {describe (firstBad (recOk cfg) (·.t) hist)}"
    | .caching cfg _ hist =>
      if choldsRev cfg hist then "ok"
      else s!"fail - caching: replay-not-justified-or-size-clause at {describe (firstBad (cRecOk cfg) (·.t) hist)}"
    | .throttle cfg hist =>
      if tholdsRev cfg hist then "ok"
      else s!"fail - throttling: replay-not-justified-or-wrong-retry-after at {describe (firstBad (tRecOk cfg) (·.t) hist)}"

def main (args : List String) : IO Unit :=
  match args with
  | ["run"] => runLoop runStep .none
  | ["judge"] => judgeLoop ({} : JudgeSt) judgeStep judgeFinish
  | _ => IO.eprintln "usage: lvdriver_c12 run|judge"
