import LunarVerif.Base.Proto
import LunarVerif.Spec.C12
import LunarVerif.Spec.C12Conc
import LunarVerif.Spec.C12Shared
import LunarVerif.Spec.C12SharedT
/-! Driver for C12: `lvdriver_c12 run` (model answers) / `lvdriver_c12 judge` (Spec on the implementation's answers).

Case layout (one `cfg` line, then operations):
  cfg cache    t0=<ns> max=<bytes|none>
  cfg caching  t0=<ns> ttl8=<int> maxrec=<bytes> maxb=<bytes> paths=<a,!b|%e>     (TTL = ttl8 × 125 ms; `!` = other payload type)
  cfg throttle t0=<ns> type=rel|abs|undef statuses=<429,503|%e> hdr=<name> [src=struct|yaml|persisted]
               (yaml: the configuration goes through config.ReadPoliciesConfig; persisted: additionally through
                WritePoliciesConfig → ReadPoliciesConfig, the copy a revert reads.  Today's code writes the type as a
                number and refuses numbers when reading: `err:reload`, nothing is configured)
  cfg tshared  t0=<ns> r0=<rel|abs|undef>/<statuses>/<header> r1=…      (several throttling configurations, ONE plugin;
               ops: resp r=<i> m= u= id= st= body= h=<name:value,…  sorted by name> | req r=<i> m= u=)
  cfg shared   t0=<ns> r0=<ttl8>/<maxrec>/<maxb>/<paths> r1=…        (several caching remedies, ONE plugin; ops carry r=<index>)
cache ops   : set k= v= ttl8=   | get k= | has k= | del k=
gated ops   : cset id= k= v= ttl8= | cget id= k= | chas id= k=  (the call runs up to its clock read and parks there)
              crel id=  (the parked call reads the clock now and runs to its end)
plugin ops  : resp m= u= pp=<a:1,b:2|%e> id= st= body= tag=<enc|%n> ra=<enc|%n> [hn=<arriving header name>] [via=wire]   | req m= u= pp=
clock ops   : adv d=<ns> (due sleepers run) | skip d=<ns> (nobody runs) | fire i=<index among pending> | probe
              wstep d=<±ns> (raw cache only: the WALL clock is stepped, no time elapses)
resp extras : [edit=<name:value>] a later remedy of the chain writes this header into the transaction's header map after
              the plugin returned; [nil=1] the response arrives with a nil header map (no model effect: the plugins store a copy)
-/
open LunarVerif LunarVerif.Proto LunarVerif.C12

inductive Mode where
  | none
  | cache (cfg : Cfg) (s : IState String String) (ids : List (Nat × Nat))
  | caching (cfg : CCfg) (paths : List (Bool × String)) (c : CCache String)
  | throttle (cfg : TCfg) (hdr : String) (c : TCache String)
  | shared (rems : List (CCfg × List (Bool × String))) (c : SCache String)
  | tshared (rems : List (TRemedy String)) (c : TSCache String)

def ttlUnit : Int := 125000000

def optEnc : Option String → String
  | some s => pctEnc s
  | none => "%n"

def optDec (w : String) : Option String := if w == "%n" then none else some (pctDec w)

def kvS (ws : List String) (k : String) : Option String := (kv ws k).map pctDec

def parsePaths (w : String) : List (Bool × String) :=
  let s := pctDec w
  if s.isEmpty then [] else
  (s.splitOn ",").map fun p => if p.startsWith "!" then (false, (p.drop 1).toString) else (true, p)

def parsePP (w : String) : Option (List (String × String)) :=
  let s := pctDec w
  if s.isEmpty then some [] else
  (s.splitOn ",").mapM fun p =>
    match p.splitOn ":" with
    | [] => none
    | [_] => none
    | n :: rest => some (n, ":".intercalate rest)

def parseNatList (w : String) : Option (List Nat) :=
  let s := pctDec w
  if s.isEmpty then some [] else (s.splitOn ",").mapM String.toNat?

def parseRaType (ty : String) : Option RaType :=
  if ty == "rel" then some .rel else if ty == "abs" then some .abs else if ty == "undef" then some .undef else none

def parseTRemedy (w : String) : Option (TRemedy String) :=
  match w.splitOn "/" with
  | [a, b, c] => do
    let ty ← parseRaType a
    let sts ← parseNatList b
    pure ⟨⟨ty, sts⟩, pctDec c⟩
  | _ => none

/-- `name:value,name:value` (the whole word percent-encoded) -/
def parseHdrs (w : String) : Option (List (String × String)) := parsePP w

def parseRemedy (w : String) : Option (CCfg × List (Bool × String)) :=
  match w.splitOn "/" with
  | [a, b, c, d] => do
    let ttl8 ← a.toInt?
    let maxrec ← b.toNat?
    let maxb ← c.toNat?
    pure (⟨ttl8 * ttlUnit, maxrec, maxb⟩, parsePaths d)
  | _ => none

def parseCfg (ws : List String) : Option Mode :=
  match ws with
  | "cache" :: ws => do
    let t0 ← kvInt ws "t0"
    let mx ← kv ws "max"
    if mx == "none" then pure (.cache ⟨t0, false, 0⟩ (IState.init (Cache.init t0 false 0) true) [])
    else
      let n ← mx.toNat?
      pure (.cache ⟨t0, true, n⟩ (IState.init (Cache.init t0 true n) true) [])
  | "caching" :: ws => do
    let t0 ← kvInt ws "t0"
    let ttl8 ← kvInt ws "ttl8"
    let maxrec ← kvNat ws "maxrec"
    let maxb ← kvNat ws "maxb"
    let paths ← kv ws "paths"
    pure (.caching ⟨ttl8 * ttlUnit, maxrec, maxb⟩ (parsePaths paths) (Cache.init t0 false 0))
  | "tshared" :: ws => do
    let t0 ← kvInt ws "t0"
    let rems ← (["r0", "r1", "r2", "r3"].filterMap (kv ws)).mapM parseTRemedy
    if rems.isEmpty then none else pure (.tshared rems (Cache.init t0 false 0))
  | "shared" :: ws => do
    let t0 ← kvInt ws "t0"
    let rems ← (["r0", "r1", "r2", "r3"].filterMap (kv ws)).mapM parseRemedy
    if rems.isEmpty then none else pure (.shared rems (Cache.init t0 false 0))
  | "throttle" :: ws => do
    let t0 ← kvInt ws "t0"
    let ty ← kv ws "type"
    let ty ← (if ty == "rel" then some RaType.rel else if ty == "abs" then some RaType.abs
              else if ty == "undef" then some RaType.undef else none)
    let sts ← (kv ws "statuses").bind parseNatList
    let hdr ← kvS ws "hdr"
    pure (.throttle ⟨ty, sts⟩ hdr (Cache.init t0 false 0))
  | _ => none

/-- Clock operations shared by all modes. -/
inductive ClockOp where
  | fire (i : Nat)
  | skip (d : Nat)
  | adv (d : Nat)
  | probe

def parseClock : List String → Option ClockOp
  | ["fire", w] => (kvNat [w] "i").map .fire
  | ["skip", w] => (kvNat [w] "d").map .skip
  | ["adv", w] => (kvNat [w] "d").map .adv
  | ["probe"] => some .probe
  | _ => none

def parseEv (ws : List String) : Option (Ev String String) :=
  match parseClock ws with
  | some (.fire i) => some (.fire i)
  | some (.skip d) => some (.skip d)
  | some (.adv d) => some (.adv d)
  | some .probe => some .probe
  | none =>
    match ws with
    | "set" :: ws => do
      let k ← kvS ws "k"
      let v ← kvS ws "v"
      let ttl8 ← kvInt ws "ttl8"
      pure (.set k v (ttl8 * ttlUnit) (k.utf8ByteSize + v.utf8ByteSize))
    | ["get", w] => (kvS [w] "k").map .get
    | ["has", w] => (kvS [w] "k").map .has
    | ["del", w] => (kvS [w] "k").map .del
    -- two overlapping `Del`s of one key: removal is ONE section (`clearKey_is_one_critical_section`), so every
    -- schedule is one removal followed by a removal that finds nothing (`clearKey_idem`)
    | ["del2", w] => (kvS [w] "k").map .del
    | ["wstep", w] => (kvInt [w] "d").map .wstep
    | _ => none

/-- `hdrName`: the header under which `ra` travels (sizes only). -/
def parsePOp (paths : List (Bool × String)) (hdrName : String) (ws : List String) : Option (POp String) :=
  match parseClock ws with
  | some (.fire i) => some (.fire i)
  | some (.skip d) => some (.skip d)
  | some (.adv d) => some (.adv d)
  | some .probe => some .probe
  | none =>
    match ws with
    | "resp" :: ws => do
      let m ← kvS ws "m"
      let u ← kvS ws "u"
      let pp ← (kv ws "pp").bind parsePP
      let id ← kvS ws "id"
      let st ← kvNat ws "st"
      let body ← kvS ws "body"
      let tag ← (kv ws "tag").map optDec
      let ra ← (kv ws "ra").map optDec
      -- `hn=`: the name under which the header arrives (default: the configured one); `via=wire`: the header block
      -- goes through utils.ParseHeaders, which lower-cases names
      let hn := (kvS ws "hn").getD hdrName
      let arriving := if kv ws "via" == some "wire" then hn.toLower else hn
      let hdrs := (match ra with | some v => [(hdrName, v)] | none => [])
                  ++ (match tag with | some v => [("X-Tag", v)] | none => [])
      pure (.resp m u (selectParams paths pp)
              { id := id, status := st, body := body, tag := tag, ra := ra, raNs := ra.bind parseDecNs,
                raExact := arriving == hdrName, raDate := ra.bind parseHttpDate }
              body.utf8ByteSize (calcSize m u id body hdrs))
    | "req" :: ws => do
      let m ← kvS ws "m"
      let u ← kvS ws "u"
      let pp ← (kv ws "pp").bind parsePP
      pure (.req m u (selectParams paths pp))
    | _ => none

def parseSOp (rems : List (CCfg × List (Bool × String))) (ws : List String) : Option (SOp String) :=
  match parseClock ws with
  | some (.fire i) => some (.fire i)
  | some (.skip d) => some (.skip d)
  | some (.adv d) => some (.adv d)
  | some .probe => some .probe
  | none => do
    let idx ← kvNat ws "r"
    let (cfg, paths) ← rems[idx]?
    let rm : Remedy := ⟨cfg, paths.length⟩
    match ← parsePOp paths "Retry-After" ws with
    | .resp m u sel r bl sz => pure (.resp rm m u sel r bl sz)
    | .req m u sel => pure (.req rm m u sel)
    | _ => none

def parseTSOp (rems : List (TRemedy String)) (ws : List String) : Option (TSOp String) :=
  match parseClock ws with
  | some (.fire i) => some (.fire i)
  | some (.skip d) => some (.skip d)
  | some (.adv d) => some (.adv d)
  | some .probe => some .probe
  | none => do
    let idx ← kvNat ws "r"
    let rm ← rems[idx]?
    let m ← kvS ws "m"
    let u ← kvS ws "u"
    match ws with
    | "resp" :: _ => do
      let id ← kvS ws "id"
      let st ← kvNat ws "st"
      let body ← kvS ws "body"
      let hdrs ← (kv ws "h").bind parseHdrs
      pure (.resp rm m u ⟨id, st, body, hdrs⟩)
    | "req" :: _ => pure (.req rm m u)
    | _ => none

def fmtHVals (hs : List (String × HVal String)) : String :=
  pctEnc (",".intercalate (hs.map fun (k, v) => match v with
    | .raw x => k ++ ":" ++ x
    | .ns n => k ++ ":#" ++ toString n))

def fmtTSOut : TSOut String → String
  | .noop => "noop"
  | .early st body hs => s!"early st={st} body={pctEnc body} h={fmtHVals hs}"
  | .fired r => match r with | .fired => "fired" | .notDue => "not-due" | .absent => "none"
  | .advd n => s!"ok fired={n}"
  | .unit => "ok"
  | .probed t h n p => s!"tracked={t} held={h} n={n} pending={p}"

def fmtFire : FireRes → String
  | .fired => "fired"
  | .notDue => "not-due"
  | .absent => "none"

def fmtProbe (tracked : Int) (held n pending : Nat) : String :=
  s!"tracked={tracked} held={held} n={n} pending={pending}"

def fmtOut : Out String → String
  | .unit => "ok"
  | .setRes .ok => "ok"
  | .setRes .full => "err:full"
  | .got (some v) => s!"hit v={pctEnc v}"
  | .got none => "miss"
  | .hasRes b => if b then "true" else "false"
  | .fired r => fmtFire r
  | .advd n => s!"ok fired={n}"
  | .probed t h n p => fmtProbe t h n p

def fmtPOut : POut String → String
  | .noop => "noop"
  | .early st body tag (.raw ra) x => s!"early st={st} body={pctEnc body} tag={optEnc tag} ra={optEnc ra}" ++ (if x == 0 then "" else s!" extra-headers={x}")
  | .early st body tag (.ns n) x => s!"early st={st} body={pctEnc body} tag={optEnc tag} ra-ns={n}" ++ (if x == 0 then "" else s!" extra-headers={x}")
  | .fired r => fmtFire r
  | .advd n => s!"ok fired={n}"
  | .unit => "ok"
  | .probed t h n p => fmtProbe t h n p

/-- gated (concurrent) operations of the cache level -/
inductive Gated where
  | cset (id : Nat) (k v : String) (ttl : Int) (sz : Nat)
  | cget (id : Nat) (k : String)
  | chas (id : Nat) (k : String)
  | crel (id : Nat)

def parseGated : List String → Option Gated
  | "cset" :: ws => do
    let id ← kvNat ws "id"
    let k ← kvS ws "k"
    let v ← kvS ws "v"
    let ttl8 ← kvInt ws "ttl8"
    pure (.cset id k v (ttl8 * ttlUnit) (k.utf8ByteSize + v.utf8ByteSize))
  | ["cget", a, b] => do
    let id ← kvNat [a, b] "id"
    let k ← kvS [a, b] "k"
    pure (.cget id k)
  | ["chas", a, b] => do
    let id ← kvNat [a, b] "id"
    let k ← kvS [a, b] "k"
    pure (.chas id k)
  | ["crel", a] => (kvNat [a] "id").map .crel
  | _ => none

def fmtRes : Res String String → String
  | .setOk => "ok"
  | .setFull => "err:full"
  | .got _ (some v) _ => s!"hit v={pctEnc v}"
  | .got _ none _ => "miss"
  | .hasRes _ b _ => if b then "true" else "false"
  | .unit => "ok"

/-- a sequential operation = the call's sections back to back in the interleaving model -/
def runSeq (st : IState String String) (ev : Ev String String) : IState String String × String :=
  let viaCall (cl : Call String String) : IState String String × String :=
    let st' := callRun st cl
    (st', match resultOf st' st.threads.length with | some r => fmtRes r | none => "stuck")
  match ev with
  | .set k v ttl sz => viaCall (.set k v ttl sz)
  | .get k => viaCall (.get k)
  | .has k => viaCall (.has k)
  | .del k => viaCall (.del k)
  | .fire i => (istep st (.fire i), fmtFire (fire st.c i).2)
  | .skip d => (istep st (.skip d), "ok")
  | .wstep d => (istep st (.wstep d), "ok")
  | .adv d => (istep st (.adv d), s!"ok fired={(adv st.c d).2}")
  | .probe => (istep st .probe, fmtProbe st.c.tracked (heldSize st.c.entries) st.c.entries.length st.c.pending.length)

def runGated (st : IState String String) (ids : List (Nat × Nat)) :
    Gated → IState String String × List (Nat × Nat) × String
  | .cset id k v ttl sz =>
    if (ids.lookup id).isSome then (st, ids, "dup") else
    let j := st.threads.length
    let st' := runThread (istep st (.call (.set k v ttl sz))) j
    match resultOf st' j with
    | some r => (st', ids, fmtRes r)
    | none => (st', (id, j) :: ids, "gated")
  | .cget id k =>
    if (ids.lookup id).isSome then (st, ids, "dup") else
    let j := st.threads.length
    let st' := runThread (istep st (.call (.get k))) j
    match resultOf st' j with
    | some r => (st', ids, fmtRes r)
    | none => (st', (id, j) :: ids, "gated")
  | .chas id k =>
    if (ids.lookup id).isSome then (st, ids, "dup") else
    let j := st.threads.length
    let st' := runThread (istep st (.call (.has k))) j
    match resultOf st' j with
    | some r => (st', ids, fmtRes r)
    | none => (st', (id, j) :: ids, "gated")
  | .crel id =>
    match ids.lookup id with
    | none => (st, ids, "none")
    | some j =>
      let st' := runThread (runThread (runThread st j) j) j
      (st', ids.filter (·.1 != id), match resultOf st' j with | some r => fmtRes r | none => "stuck")

def runStep (s : Mode) (line : String) : Mode × String :=
  match words line with
  | ["case", id] => (.none, s!"case {id}")
  | "cfg" :: ws =>
    match s, parseCfg ws with
    | .none, some m =>
      match m, kv ws "src" with
      | .throttle .., some "persisted" => (s, "err:reload")
      | .throttle .., some "yaml" => (m, "ok")
      | .throttle .., some "struct" => (m, "ok")
      | _, some _ => (s, "bad-op")
      | _, none => (m, "ok")
    | _, _ => (s, "bad-op")
  | ws =>
    match s with
    | .none => (s, "bad-op")
    | .cache cfg st ids =>
      match parseGated ws with
      | some g =>
        let (st', ids', out) := runGated st ids g
        (.cache cfg st' ids', out)
      | none =>
        match parseEv ws with
        | some ev =>
          let (st', out) := runSeq st ev
          (.cache cfg st' ids, out)
        | none => (s, "bad-op")
    | .caching cfg paths c =>
      match parsePOp paths "Retry-After" ws with
      | some op => (.caching cfg paths (cstep cfg c op).1, fmtPOut (cstep cfg c op).2)
      | none => (s, "bad-op")
    | .throttle cfg hdr c =>
      match parsePOp [] hdr ws with
      | some op => (.throttle cfg hdr (tstep absTtlFloat cfg c op).1, fmtPOut (tstep absTtlFloat cfg c op).2)
      | none => (s, "bad-op")
    | .shared rems c =>
      match parseSOp rems ws with
      | some op => (.shared rems (sstep c op).1, fmtPOut (sstep c op).2)
      | none => (s, "bad-op")
    | .tshared rems c =>
      match parseTSOp rems ws with
      | some op =>
        (.tshared rems (tsstep absTtlFloat parseDecNs c op).1, fmtTSOut (tsstep absTtlFloat parseDecNs c op).2)
      | none => (s, "bad-op")

/-! ### judge -/

def parseFire (w : String) : Option FireRes :=
  if w == "fired" then some .fired else if w == "not-due" then some .notDue
  else if w == "none" then some .absent else none

def parseProbe (ws : List String) : Option (Int × Nat × Nat × Nat) := do
  let t ← kvInt ws "tracked"
  let h ← kvNat ws "held"
  let n ← kvNat ws "n"
  let p ← kvNat ws "pending"
  pure (t, h, n, p)

def parseOut (ev : Ev String String) (ows : List String) : Option (Out String) :=
  match ev, ows with
  | .set .., ["ok"] => some (.setRes .ok)
  | .set .., ["err:full"] => some (.setRes .full)
  | .get _, ["miss"] => some (.got none)
  | .get _, ["hit", w] => (kvS [w] "v").map fun v => .got (some v)
  | .has _, ["true"] => some (.hasRes true)
  | .has _, ["false"] => some (.hasRes false)
  | .del _, ["ok"] => some .unit
  | .fire _, [w] => (parseFire w).map .fired
  | .skip _, ["ok"] => some .unit
  | .wstep _, ["ok"] => some .unit
  | .adv _, ["ok", w] => (kvNat [w] "fired").map .advd
  | .probe, ws => (parseProbe ws).map fun (t, h, n, p) => .probed t h n p
  | _, _ => none

def parsePOut (op : POp String) (ows : List String) : Option (POut String) :=
  match op, ows with
  | .resp .., ["noop"] => some .noop
  | .req .., ["noop"] => some .noop
  | .req .., "early" :: ws => do
    let st ← kvNat ws "st"
    let body ← kvS ws "body"
    let tag ← (kv ws "tag").map optDec
    match kvInt ws "ra-ns", kv ws "ra" with
    | some n, _ => pure (.early st body tag (.ns n) ((kvNat ws "extra-headers").getD 0))
    | none, some w => pure (.early st body tag (.raw (optDec w)) ((kvNat ws "extra-headers").getD 0))
    | none, none => none
  | .fire _, [w] => (parseFire w).map .fired
  | .skip _, ["ok"] => some .unit
  | .adv _, ["ok", w] => (kvNat [w] "fired").map .advd
  | .probe, ws => (parseProbe ws).map fun (t, h, n, p) => .probed t h n p
  | _, _ => none

def parseHVals (w : String) : Option (List (String × HVal String)) :=
  (parsePP w).map fun l => l.map fun (k, v) =>
    if v.startsWith "#" then
      match (v.drop 1).toString.toInt? with
      | some n => (k, HVal.ns n)
      | none => (k, HVal.raw v)
    else (k, HVal.raw v)

def parseTSOut (op : TSOp String) (ows : List String) : Option (TSOut String) :=
  match op, ows with
  | .resp .., ["noop"] => some .noop
  | .req .., ["noop"] => some .noop
  | .req .., "early" :: ws => do
    let st ← kvNat ws "st"
    let body ← kvS ws "body"
    let hs ← (kv ws "h").bind parseHVals
    pure (.early st body hs)
  | .fire _, [w] => (parseFire w).map .fired
  | .skip _, ["ok"] => some .unit
  | .adv _, ["ok", w] => (kvNat [w] "fired").map .advd
  | .probe, ws => (parseProbe ws).map fun (t, h, n, p) => .probed t h n p
  | _, _ => none

inductive GInfo where
  | set (k v : String) (ttl : Int) (sz : Nat)
  | get (k : String) (pos : Nat)
  | has (k : String) (pos : Nat)

structure CacheJ where
  cfg : Cfg
  hist : List (Rec String String) := []       -- sequential reading (meaningful while no gated call was used)
  ihist : List (IRec String String) := []     -- observable log for the all-schedules Spec
  gated : List (Nat × GInfo) := []
  usedGated : Bool := false

inductive JMode where
  | none
  | cache (j : CacheJ)
  | caching (cfg : CCfg) (paths : List (Bool × String)) (hist : List (PRec String))
  | throttle (cfg : TCfg) (hdr : String) (hist : List (PRec String))
  | shared (rems : List (CCfg × List (Bool × String))) (hist : List (SRec String))
  | tshared (rems : List (TRemedy String)) (hist : List (TSRec String))

structure JudgeSt where
  mode : JMode := .none
  now : Int := 0      -- wall clock
  mono : Int := 0     -- elapsed time
  bad : Option String := none

def advanceOf : ClockOp → Nat
  | .skip d => d
  | .adv d => d
  | _ => 0

def judgeStep (s : JudgeSt) (op out : String) : JudgeSt :=
  if s.bad.isSome then s else
  let ows := words out
  match words op with
  | "cfg" :: ws =>
    -- the mode follows the IMPLEMENTATION's answer: a refused configuration configures nothing; an accepted one is
    -- judged against what the operator declared on the op line
    if out != "ok" then
      (if out == "bad-op" || out.startsWith "err:" then s else { s with bad := some ("unparsable-output:" ++ pctEnc out) })
    else
    match s.mode, parseCfg ws with
    | .none, some (.cache cfg st _) => { s with mode := .cache { cfg := cfg }, now := st.c.now }
    | .none, some (.caching cfg paths c) => { s with mode := .caching cfg paths [], now := c.now }
    | .none, some (.throttle cfg hdr c) => { s with mode := .throttle cfg hdr [], now := c.now }
    | .none, some (.shared rems c) => { s with mode := .shared rems [], now := c.now }
    | .none, some (.tshared rems c) => { s with mode := .tshared rems [], now := c.now }
    | _, _ => { s with bad := some "cfg-accepted-but-unparsable" }
  | ws =>
    let dt : Nat := match parseClock ws with | some c => advanceOf c | none => 0
    match s.mode with
    | .none => if out == "bad-op" then s else { s with bad := some "op-before-cfg-answered" }
    | .cache j =>
      match parseGated ws with
      | some g =>
        let j := { j with usedGated := true }
        let fail (m : String) : JudgeSt := { s with bad := some (m ++ ":" ++ pctEnc out) }
        let keep (j : CacheJ) : JudgeSt := { s with mode := .cache j }
        if out == "dup" then keep j else
        match g with
        | .cset id k v ttl sz =>
          if out == "gated" then keep { j with gated := (id, .set k v ttl sz) :: j.gated }
          else if out == "err:full" then keep j else fail "unparsable-output"
        | .cget id k =>
          if out == "gated" then keep { j with gated := (id, .get k j.ihist.length) :: j.gated }
          else if out == "miss" then keep { j with ihist := .ret k none s.now j.ihist.length :: j.ihist }
          else fail "unparsable-output"
        | .chas id k =>
          if out == "gated" then keep { j with gated := (id, .has k j.ihist.length) :: j.gated }
          else fail "unparsable-output"
        | .crel id =>
          match j.gated.lookup id with
          | none => if out == "none" then keep j else fail "release-of-unknown-call-answered"
          | some info =>
            let j := { j with gated := j.gated.filter (·.1 != id) }
            match info, ows with
            | .set k v ttl sz, ["ok"] => keep { j with ihist := .ins k v s.now ttl sz :: j.ihist }
            | .set .., ["err:full"] => keep j
            | .get k pos, ["miss"] => keep { j with ihist := .ret k none s.now pos :: j.ihist }
            | .get k pos, ["hit", w] =>
              match kvS [w] "v" with
              | some v => keep { j with ihist := .ret k (some v) s.now pos :: j.ihist }
              | none => fail "unparsable-output"
            | .has k pos, ["true"] => keep { j with ihist := .hasRet k true s.now pos :: j.ihist }
            | .has k pos, ["false"] => keep { j with ihist := .hasRet k false s.now pos :: j.ihist }
            | _, _ => fail "unparsable-output"
      | none =>
      match parseEv ws with
      | none => if out == "bad-op" then s else { s with bad := some "unparsable-op-answered" }
      | some ev =>
        match parseOut ev ows with
        | some o =>
          let pos := j.ihist.length
          let ih : List (IRec String String) := match ev, o with
            | .set k v ttl sz, .setRes .ok => .ins k v s.now ttl sz :: j.ihist
            | .get k, .got r => .ret k r s.now pos :: j.ihist
            | .has k, .hasRes b => .hasRet k b s.now pos :: j.ihist
            | .probe, .probed t h _ _ => .probe t h :: j.ihist
            | _, _ => j.ihist
          let wd : Int := match ev with | .wstep d => d | _ => 0
          { s with mode := .cache { j with hist := ⟨s.now, s.mono, ev, o⟩ :: j.hist, ihist := ih },
                   now := s.now + dt + wd, mono := s.mono + dt }
        | none => { s with bad := some ("unparsable-output:" ++ pctEnc out) }
    | .caching cfg paths hist =>
      match parsePOp paths "Retry-After" ws with
      | none => if out == "bad-op" then s else { s with bad := some "unparsable-op-answered" }
      | some pop =>
        match parsePOut pop ows with
        | some o => { s with mode := .caching cfg paths (⟨s.now, pop, o⟩ :: hist), now := s.now + dt }
        | none => { s with bad := some ("unparsable-output:" ++ pctEnc out) }
    | .throttle cfg hdr hist =>
      match parsePOp [] hdr ws with
      | none => if out == "bad-op" then s else { s with bad := some "unparsable-op-answered" }
      | some pop =>
        match parsePOut pop ows with
        | some o => { s with mode := .throttle cfg hdr (⟨s.now, pop, o⟩ :: hist), now := s.now + dt }
        | none => { s with bad := some ("unparsable-output:" ++ pctEnc out) }
    | .shared rems hist =>
      match parseSOp rems ws with
      | none => if out == "bad-op" then s else { s with bad := some "unparsable-op-answered" }
      | some sop =>
        let pop : POp String := match sop with
          | .resp _ m u sel r bl sz => .resp m u sel r bl sz
          | .req _ m u sel => .req m u sel
          | .fire i => .fire i
          | .skip d => .skip d
          | .adv d => .adv d
          | .probe => .probe
        match parsePOut pop ows with
        | some o => { s with mode := .shared rems (⟨s.now, sop, o⟩ :: hist), now := s.now + dt }
        | none => { s with bad := some ("unparsable-output:" ++ pctEnc out) }
    | .tshared rems hist =>
      match parseTSOp rems ws with
      | none => if out == "bad-op" then s else { s with bad := some "unparsable-op-answered" }
      | some op =>
        match parseTSOut op ows with
        | some o => { s with mode := .tshared rems (⟨s.now, op, o⟩ :: hist), now := s.now + dt }
        | none => { s with bad := some ("unparsable-output:" ++ pctEnc out) }

/-- index (from the oldest, 1-based) and instant of the oldest record violating `ok`. -/
def firstBad {ρ : Type} (ok : ρ → List ρ → Bool) (t : ρ → Int) : List ρ → Option (Nat × Int)
  | [] => none
  | r :: older =>
    match firstBad ok t older with
    | some x => some x
    | none => if ok r older then none else some (older.length + 1, t r)

def describe (x : Option (Nat × Int)) : String :=
  match x with
  | some (i, t) => s!"op#{i} t={t}"
  | none => "?"

def judgeFinish (s : JudgeSt) : String :=
  match s.bad with
  | some b => s!"fail - {b}"
  | none =>
    match s.mode with
    | .none => "ok"
    | .cache j =>
      if !iholdsRev true j.cfg j.ihist then
        s!"fail - cache(all-schedules reading): hit-not-justified-by-last-fresh-store-or-size-clause at log#{(firstBad (iRecOk true j.cfg) (fun _ => 0) j.ihist).map (·.1)}"
      else if !j.usedGated && !holdsRev j.cfg j.hist then
        s!"fail - cache: hit-not-justified-by-last-fresh-store-or-size-clause at {describe (firstBad (recOk j.cfg) (·.t) j.hist)}"
      else "ok"
    | .caching cfg _ hist =>
      if choldsRev cfg hist then "ok"
      else s!"fail - caching: replay-not-justified-or-size-clause at {describe (firstBad (cRecOk cfg) (·.t) hist)}"
    | .throttle cfg _ hist =>
      if tholdsRev cfg hist then "ok"
      else s!"fail - throttling: replay-not-justified-or-wrong-retry-after at {describe (firstBad (tRecOk cfg) (·.t) hist)}"
    | .shared _ hist =>
      if sholdsRev false hist then "ok"
      else s!"fail - shared caching: replay-not-justified-or-size-clause at {describe (firstBad (sRecOk false) (·.t) hist)}"
    | .tshared _ hist =>
      if tsholdsRev parseDecNs hist then "ok"
      else s!"fail - shared throttling: replay-not-justified-for-the-answering-configuration at {describe (firstBad (tsRecOk parseDecNs) (·.t) hist)}"

def main (args : List String) : IO Unit :=
  match args with
  | ["run"] => runLoop runStep .none
  | ["judge"] => judgeLoop ({} : JudgeSt) judgeStep judgeFinish
  | _ => IO.eprintln "usage: lvdriver_c12 run|judge"
