import LunarVerif.Base.Proto
import LunarVerif.Spec.C01
/-! Driver for C01: `lvdriver_c01 run` (model answers) / `lvdriver_c01 judge` (Spec on the
implementation's answers).

Op lines (numbers are decimal naturals, `-` = none):
  quota id=<n> parent=<n|-> max=<n> win=<ns> gh=<n|-> [cc=<n|->] [sp=<n>] [wu=second|minute|hour|day|month]
                                                            ids must be 0,1,2,… in order
  quota id=<n> parent=<n> pct=<1..100>                      allocation_percentage child
  start level=<1|2> t=<ns> [lim=<q,q,…>] [fv=<0..3>]
  inc|allowed|dec|req q=<n> r=<n> t=<ns> hdrs=<-|i:v,i:v,…> [costs=<-|i:enc,…>] [body=<0..6>]
                                                              v = d ("default") or a number ≥ 1; enc = text of x-c<i>
  counters q=<n> t=<ns> groups=<g,g,…>                         g = 0 ("default") or a number ≥ 1
-/
open LunarVerif LunarVerif.Proto LunarVerif.C01

def kvOptNat (ws : List String) (k : String) : Option (Option Nat) :=
  match kv ws k with
  | none => none
  | some "-" => some none
  | some s => s.toNat?.map some

/-- A `quota` line: `some (id, definition, valid)`.  Explicit: `id= parent= max= win= gh= [cc=]`; percentage
    child: `id= parent= pct=` — the definition is what the loader derives from the parent (`allocate`). -/
def parseQuota (qs : List QuotaCfg) (ws : List String) : Option (Nat × QuotaCfg × Bool) := do
  let id ← kvNat ws "id"
  let p ← kvOptNat ws "parent"
  match kv ws "pct" with
  | some _ =>
    let pct ← kvNat ws "pct"
    match p with
    | some pid =>
      match qs[pid]? with
      | some pc => pure (id, allocate pid pc pct, decide (1 ≤ pct ∧ pct ≤ 100))
      | none => pure (id, ⟨p, 0, 0, none, none⟩, false)
    | none => pure (id, ⟨p, 0, 0, none, none⟩, false)
  | none =>
    let mx ← kvNat ws "max"
    let win ← kvNat ws "win"
    let gh ← kvOptNat ws "gh"
    let cc ← (match kv ws "cc" with
              | some _ => kvOptNat ws "cc"
              | none => some none)
    -- `sp=<n>`: the quota declares the `spillover` block (inert in this code base, see Model)
    let _ ← (match kv ws "sp" with
             | some _ => (kvNat ws "sp").bind fun n => if n ≥ 1 then some n else none
             | none => some 0)
    -- `wu=<unit>`: the unit the harness writes the window with; it must divide the window
    let _ ← (match kv ws "wu" with
             | none => some ()
             | some u =>
               let ns : Option Nat :=
                 if u == "second" then some nsPerSec else if u == "minute" then some (60 * nsPerSec)
                 else if u == "hour" then some (3600 * nsPerSec) else if u == "day" then some (86400 * nsPerSec)
                 else if u == "month" then some (30 * 86400 * nsPerSec) else none
               ns.bind fun n => if win % n == 0 then some () else none)
    pure (id, ⟨p, mx, win, gh, cc⟩, decide (1 ≤ mx))

/-- `i:v,i:v`; later entries override earlier ones (a Go map literal filled in order). -/
def parseHdrs (s : String) : Option Hdrs :=
  if s == "-" then some [] else
  (s.splitOn ",").foldl (init := some []) fun acc item =>
    match acc, item.splitOn ":" with
    | some l, [i, v] =>
      match i.toNat?, (if v == "d" then some 0 else v.toNat?.bind fun n => if n ≥ 1 then some n else none) with
      | some i, some g => some ((i, g) :: l)
      | _, _ => none
    | _, _ => none

/-- Optional white space around a header value is dropped when the request comes in through HAProxy
    (`utils.ParseHeaders` = `textproto.ReadMIMEHeader`); the quota API gets the header map as it is. -/
def trimOWS (s : String) : String :=
  let isWs := fun (c : Char) => c == ' ' || c == '\t'
  String.ofList ((s.toList.dropWhile isWs).reverse.dropWhile isWs).reverse

/-- `costs=i:enc,…`: readings of the counter-value headers `x-c<i>` (enc = percent-encoded text);
    `viaProxy` = the request enters through the SPOE message (engine level). -/
def parseCosts (viaProxy : Bool) (s : String) : Option Hdrs :=
  if s == "-" then some [] else
  (s.splitOn ",").foldl (init := some []) fun acc item =>
    match acc, item.splitOn ":" with
    | some l, [i, v] =>
      match i.toNat? with
      | some i =>
        let text := if viaProxy then trimOWS (pctDec v) else pctDec v
        some ((costKey i, parseCost text) :: l)
      | none => none
    | _, _ => none

/-- All headers of an op line: group headers and (optional) counter-value headers. -/
def parseAllHdrs (viaProxy : Bool) (ws : List String) : Option Hdrs := do
  let h ← (kv ws "hdrs").bind parseHdrs
  match kv ws "costs" with
  | none => pure h
  | some cs => let c ← parseCosts viaProxy cs; pure (c ++ h)

/-- `lim=a,b,…` of the start line: the quotas named by a user flow; absent = every quota. -/
def parseLim (ws : List String) (n : Nat) : Option (List Nat) :=
  match kv ws "lim" with
  | none => some (List.range n)
  | some s =>
    (s.splitOn ",").foldr (init := some []) fun item acc =>
      match acc, item.toNat? with
      | some l, some q => if q < n then some (q :: l) else none
      | _, _ => none

def parseGroups (s : String) : Option (List Nat) :=
  (s.splitOn ",").foldr (init := some []) fun item acc =>
    match acc, item.toNat? with
    | some l, some g => some (g :: l)
    | _, _ => none

def parseKind (s : String) : Option Kind :=
  if s == "inc" then some .inc else if s == "allowed" then some .allowed
  else if s == "dec" then some .dec else if s == "req" then some .req else none

structure RunSt where
  quotas : List QuotaCfg := []
  level : Option Nat := none      -- `some l` once started
  badQuota : Bool := false        -- some quota line is not loadable (limit 0, percentage out of range, no parent)
  okCfg : Bool := false
  refs : List Nat := []           -- level 2: quotas named by a user flow
  st : St := St.init

def fmtAns (k : Kind) (a : Option Bool) : String :=
  match k, a with
  | .req, some true => "pass"
  | .req, some false => "refuse"
  | .allowed, some true => "true"
  | .allowed, some false => "false"
  | _, _ => "ok"

def runStep (s : RunSt) (line : String) : RunSt × String :=
  match words line with
  | ["case", id] => ({}, s!"case {id}")
  | "quota" :: ws =>
    match parseQuota s.quotas ws with
    | some (id, c, valid) =>
      if s.level.isSome || id != s.quotas.length then (s, "bad-op")
      else ({ s with quotas := s.quotas ++ [c], badQuota := s.badQuota || !valid }, "ok")
    | none => (s, "bad-op")
  | "start" :: ws =>
    match kvNat ws "level", kvNat ws "t" with
    | some l, some _ =>
      if s.level.isSome || (l != 1 && l != 2) then (s, "bad-op")
      else if !s.quotas.isEmpty && !s.badQuota && wellFormed ⟨s.quotas⟩ then
        -- `fv=<0..3>`: which request-rewriting processors surround the Limiter in the flows (no effect on verdicts)
        let fvOk := match kv ws "fv" with
          | none => true
          | some v => (match v.toNat? with | some n => n ≤ 3 | none => false)
        match parseLim ws s.quotas.length, fvOk with
        | some refs, true => ({ s with level := some l, okCfg := true, refs := refs }, "ok")
        | _, _ => (s, "bad-op")
      else ({ s with level := some l, okCfg := false }, "err:cfg")
    | _, _ => (s, "bad-op")
  | "counters" :: ws =>
    match kvNat ws "q", kvNat ws "t" with
    | some q, some _ =>
      if !(s.level.isSome && s.okCfg) then (s, "err:nostart")
      else if s.level != some 1 then (s, "err:level")
      else match s.quotas[q]? with
        | none => (s, "err:noquota")
        | some _ =>
          match (kv ws "groups").bind parseGroups with
          | none => (s, "bad-op")
          | some gs => (s, "c=" ++ ",".intercalate (gs.map fun g => toString (s.st.at (q, g)).shown))
    | _, _ => (s, "bad-op")
  | k :: ws =>
    match parseKind k with
    | none => (s, "bad-op")
    | some kind =>
      match kvNat ws "q", kvNat ws "t" with
      | some q, some t =>
        if !(s.level.isSome && s.okCfg) then (s, "err:nostart")
        else match kvNat ws "r", parseAllHdrs (s.level == some 2) ws with
          | some r, some h =>
            -- `body=<0..6>`: which body the request carries; what is counted never depends on it
            let bodyOk := match kv ws "body" with
              | none => true
              | some v => (match v.toNat? with | some n => n ≤ 6 | none => false)
            if s.quotas[q]?.isNone then (s, "err:noquota")
            else if !bodyOk then (s, "bad-op")
            else if s.level == some 2 && kind != .req then (s, "err:level")
            else if s.level == some 2 then
              let (st', b) := engineReq ⟨s.quotas⟩ s.refs s.st q r t h
              ({ s with st := st' }, fmtAns .req (some b))
            else
              let (st', a) := apiStep ⟨s.quotas⟩ s.st ⟨kind, q, r, t, h⟩
              ({ s with st := st' }, fmtAns kind a)
          | _, _ => (s, "bad-op")
      | _, _ => (s, "bad-op")
  | _ => (s, "bad-op")

structure JudgeSt where
  quotas : List QuotaCfg := []
  level : Nat := 1
  refs : List Nat := []
  hist : List Obs := []      -- most recent first
  bad : Option String := none

def judgeStep (s : JudgeSt) (op out : String) : JudgeSt :=
  match words op with
  | "quota" :: ws =>
    if out != "ok" then s else
    match parseQuota s.quotas ws with
    | some (_, c, _) => { s with quotas := s.quotas ++ [c] }
    | none => s
  | "start" :: ws =>
    if out != "ok" then s else
    match kvNat ws "level", parseLim ws s.quotas.length with
    | some l, some refs => { s with level := l, refs := refs }
    | _, _ => s
  | k :: ws =>
    match parseKind k with
    | none => s
    | some kind =>
      match kvNat ws "q", kvNat ws "t", kvNat ws "r", parseAllHdrs (s.level == 2) ws with
      | some q, some t, some r, some h =>
        if s.level == 2 then
          -- through the engine: the live system-flow increments happen first, then the limiter (if any)
          if out != "pass" && out != "refuse" then
            (if out.startsWith "err:" || out == "bad-op" then s
             else { s with bad := some ("unparsable-answer:" ++ pctEnc out) })
          else
            let cfg : Cfg := ⟨s.quotas⟩
            let incs := (liveOrder cfg s.refs).map (fun a => (⟨⟨.inc, a, r, t, h⟩, none⟩ : Obs))
            let lim : List Obs := if s.refs.contains q then [⟨⟨.req, q, r, t, h⟩, some (out == "pass")⟩] else []
            { s with hist := (incs ++ lim).reverse ++ s.hist }
        else
        let o : Op := ⟨kind, q, r, t, h⟩
        if out == "ok" && (kind == .inc || kind == .dec) then { s with hist := ⟨o, none⟩ :: s.hist }
        else if (out == "pass" && kind == .req) || (out == "true" && kind == .allowed) then
          { s with hist := ⟨o, some true⟩ :: s.hist }
        else if (out == "refuse" && kind == .req) || (out == "false" && kind == .allowed) then
          { s with hist := ⟨o, some false⟩ :: s.hist }
        else if out.startsWith "err:" || out == "bad-op" then s    -- refused by the API, not part of the history
        else { s with bad := some ("unparsable-answer:" ++ pctEnc out) }
      | _, _, _, _ => s
  | _ => s

/-- First refused limiter call that does not meet `full` (for the message). -/
def firstInexact (cfg : Cfg) (full : SSt → List (QId × QuotaCfg) → Nat → Hdrs → Bool) : SSt → History → Option Obs
  | _, [] => none
  | ss, o :: rest =>
    if o.op.kind == .req && o.ans == some false && !full ss (chain cfg o.op.q) o.op.t o.op.h then some o
    else firstInexact cfg full (sStep cfg ss o) rest

def judgeFinish (s : JudgeSt) : String :=
  match s.bad with
  | some b => s!"fail - {b}"
  | none =>
    let cfg : Cfg := ⟨s.quotas⟩
    let h := s.hist.reverse
    if holds cfg h && !(s.level == 2 && monotone h && !arrivalExactFrom cfg [] h) then "ok"
    else if holds cfg h then
      let rec firstBad : History → History → Option Obs
        | _, [] => none
        | before, o :: rest => if refusedWithRoom cfg before o then some o else firstBad (before ++ [o]) rest
      match firstBad [] h with
      | some o => s!"fail - refused-although-every-quota-of-the-chain-has-room-even-counting-every-arrival q={o.op.q} r={o.op.r} t={o.op.t}"
      | none => "fail - refused-with-room"
    else if !boundHolds cfg h then
      let ss := sRun cfg SSt.init h
      let bad := h.find? (fun o => !boundAt cfg ss o)
      match bad with
      | some o => s!"fail - bound-exceeded quota-chain-of=q{o.op.q} r={o.op.r} t={o.op.t}"
      | none => "fail - bound-exceeded"
    else if !spacedHolds cfg h then "fail - windows-not-spaced"
    else
      let where_ := match firstInexact cfg fullAdmitted SSt.init h with
        | some o => s!"q={o.op.q} r={o.op.r} t={o.op.t}"
        | none => "?"
      s!"fail - refused-although-no-quota-of-the-chain-let-max-through {where_}"

def main (args : List String) : IO Unit :=
  match args with
  | ["run"] => runLoop runStep {}
  | ["judge"] => judgeLoop ({} : JudgeSt) judgeStep judgeFinish
  | _ => IO.eprintln "usage: lvdriver_c01 run|judge"
