import LunarVerif.Base.Proto
import LunarVerif.Spec.C19
/-! Driver for C19: `lvdriver_c19 run` (model answers) / `lvdriver_c19 judge` (Spec on impl answers).

Op lines (strings percent-encoded; `%n` = unset):
  cfg max=<n> cool=<s> block=<str|%n> allow=<str|%n> t0=<ticks>
  dns <host> <outcome> [fail=<n>]   the first n lookups of the host fail transiently (EAI_AGAIN), then <outcome>
  dns <host> ip:<a.b.c.d> | real:<a.b.c.d> | gaierror | oserror:<emfile|enomem> | herror | timeout | unicode
                                                                     (only before the first call / decide)
  decide host=<str> hdr=<...>                                        (TrafficFilter.is_allowed alone)
  adv d=<ticks>                                                      (1 tick = 1/8 s)
  call [lib=<requests|aiohttp|tornado>] host=<str> hdr=<-|other|v:<str>|K:<str>> gw=<ok|connerr|connsub|errhdr|errhdr:<value>|errHDR:<value>|ERRHDR:<value>|appexc|exc:<lib>.<Class>> direct=<ok|exc>
       (errhdr = errhdr:2; errHDR / ERRHDR: the same header spelled X-Lunar-Error / X-LUNAR-ERROR)
  probe <str>
-/
open LunarVerif LunarVerif.Proto LunarVerif.C19

def optStr (w : String) : Option Str := if w == "%n" then none else some (pctDec w).toList

def encStr (s : Str) : String := pctEnc (String.ofList s)

def fmtList : Option (List Str) → String
  | none => "%n"
  | some [] => "%z"
  | some l => pctEnc (",".intercalate (l.map String.ofList))

def b2s (b : Bool) : String := if b then "1" else "0"

def parseIp (s : String) : Option IPv4 :=
  match (s.splitOn ".").map String.toNat? with
  | [some a, some b, some c, some d] =>
    if a < 256 && b < 256 && c < 256 && d < 256 then some ⟨a, b, c, d⟩ else none
  | _ => none

def parseRes (w : String) : Option Res :=
  if w == "gaierror" then some .gaierror
  else if w == "unicode" then some .unicodeErr
  else if w == "oserror:emfile" || w == "oserror:enomem" then some .oserror
  else if w == "herror" then some .herror
  else if w == "timeout" then some .timeout
  else if w.startsWith "ip:" then (parseIp (w.drop 3).toString).map .ip
  else if w.startsWith "real:" then (parseIp (w.drop 5).toString).map .ip
  else none

def parseCfg (ws : List String) : Option (Cfg × Nat) := do
  let m ← kvNat ws "max"
  let c ← kvNat ws "cool"
  let b ← kv ws "block"
  let a ← kv ws "allow"
  let t0 ← kvNat ws "t0"
  pure (⟨m, c, optStr b, optStr a, [], []⟩, t0)

def parseHdr (w : String) : Option Hdr :=
  if w == "-" || w == "other" then some .absent
  else if w.startsWith "v:" then some (.val (pctDec (w.drop 2).toString).toList)
  else if w.startsWith "K:" then some .absent      -- differently-cased key: not seen by the filter
  else none

/-- Exception classes of the three client libraries, by what the hooks register with the shared
    fail-safe today (`handle_on`): `true` = a gateway-side failure (the class or an ancestor of it is
    registered: counted, swallowed, direct fallback), `false` = not registered (propagates to the
    application, not counted).  requests: `ConnectionError` and descendants; aiohttp:
    `ClientConnectionError` and descendants; tornado: `HTTPClientError` and descendants, `gaierror`. -/
def excClasses : List (String × Bool) := [
  ("requests.ConnectionError", true), ("requests.ProxyError", true), ("requests.SSLError", true),
  ("requests.ConnectTimeout", true),
  ("requests.RequestException", false), ("requests.Timeout", false), ("requests.ReadTimeout", false),
  ("requests.HTTPError", false), ("requests.TooManyRedirects", false),
  ("requests.ChunkedEncodingError", false), ("requests.ContentDecodingError", false),
  ("requests.InvalidURL", false), ("requests.MissingSchema", false),
  ("aiohttp.ClientConnectionError", true), ("aiohttp.ClientOSError", true),
  ("aiohttp.ClientConnectorError", true), ("aiohttp.ClientProxyConnectionError", true),
  ("aiohttp.ClientSSLError", true), ("aiohttp.ClientConnectorSSLError", true),
  ("aiohttp.ClientConnectorCertificateError", true), ("aiohttp.ServerConnectionError", true),
  ("aiohttp.ServerDisconnectedError", true), ("aiohttp.ServerTimeoutError", true),
  ("aiohttp.ServerFingerprintMismatch", true),
  ("aiohttp.ClientError", false), ("aiohttp.ClientResponseError", false),
  ("aiohttp.ContentTypeError", false), ("aiohttp.ClientPayloadError", false),
  ("aiohttp.InvalidURL", false), ("aiohttp.TooManyRedirects", false), ("aiohttp.TimeoutError", false),
  ("tornado.HTTPClientError", true), ("tornado.HTTPTimeoutError", true),
  ("tornado.HTTPStreamClosedError", true), ("tornado.CurlError", true), ("tornado.gaierror", true),
  ("tornado.ValueError", false)]

def parseGw (lib : String) (w : String) : Option GwOut :=
  if w.startsWith "exc:" then
    let name := (w.drop 4).toString
    if !name.startsWith (lib ++ ".") then none else
    match excClasses.find? (fun p => p.1 == name) with
    | some (_, true) => some .connErr
    | some (_, false) => some .appExc
    | none => none
  else
  if w == "ok" then some .ok else if w == "connerr" || w == "connsub" then some .connErr
  else if w == "errhdr" then some (.errHdr ['2'])
  else if w.startsWith "errhdr:" || w.startsWith "errHDR:" || w.startsWith "ERRHDR:" then
    some (.errHdr (pctDec (w.drop 7).toString).toList)
  else if w == "appexc" then some .appExc else none

def parseDir (w : String) : Option DirOut :=
  if w == "ok" then some .ok else if w == "exc" then some .exc else none

def parseCall (ws : List String) : Option CallIn := do
  let lib := (kv ws "lib").getD "requests"
  if !(lib == "requests" || lib == "aiohttp" || lib == "tornado") then none
  let h ← kv ws "host"
  let hw ← kv ws "hdr"
  -- the tornado hook lower-cases the header keys before asking the filter
  let hd ← parseHdr (if lib == "tornado" && hw.startsWith "K:" then "v:" ++ (hw.drop 2).toString else hw)
  let g ← (kv ws "gw").bind (parseGw lib)
  let d ← (kv ws "direct").bind parseDir
  pure ⟨(pctDec h).toList, hd, g, d⟩

def fmtSent (l : List Target) : String :=
  if l.isEmpty then "-" else ",".intercalate (l.map fun | .gw => "gw" | .direct => "direct")

def fmtResult : Result → String
  | .respGw => "resp:gw"
  | .respDirect => "resp:direct"
  | .raiseGwApp => "raise:AppGw"
  | .raiseDirectApp => "raise:AppDirect"

def parseSent (w : String) : Option (List Target) :=
  if w == "-" then some []
  else (w.splitOn ",").mapM fun x => if x == "gw" then some Target.gw else if x == "direct" then some .direct else none

def parseResult (w : String) : Option Result :=
  [Result.respGw, .respDirect, .raiseGwApp, .raiseDirectApp].find?
    (fun r => fmtResult r == w)

def parseFail : List String → Option Nat
  | [] => some 0
  | [w] => kvNat [w] "fail"
  | _ => none

/-- A later line for the same host replaces the earlier one. -/
def addDns (cfg : Cfg) (host : Str) (res : Res) (n : Nat) : Cfg :=
  { cfg with dns := (host, res) :: cfg.dns.filter (fun p => p.1 != host),
             transient := (host, n) :: cfg.transient.filter (fun p => p.1 != host) }

structure RunSt where
  cfg : Cfg := ⟨0, 0, none, none, [], []⟩
  st : St := St.init 0
  hasCfg : Bool := false
  called : Bool := false

def runStep (s : RunSt) (line : String) : RunSt × String :=
  match words line with
  | ["case", id] => ({}, s!"case {id}")
  | "cfg" :: ws =>
    match parseCfg ws with
    | some (cfg, t0) =>
      if s.hasCfg then (s, "bad-op") else
      let f := mkFilter cfg
      ({ cfg := cfg, st := St.init t0, hasCfg := true },
       s!"ok valid={b2s f.valid} max={cfg.maxEff} cool={cfg.coolEff} allow={fmtList f.allow} block={fmtList f.block}")
    | none => (s, "bad-op")
  | "dns" :: h :: r :: rest =>
    match parseRes r, parseFail rest with
    | some res, some n =>
      if !s.hasCfg || s.called then (s, "bad-op")
      else ({ s with cfg := addDns s.cfg (pctDec h).toList res n }, "ok")
    | _, _ => (s, "bad-op")
  | ["adv", w] =>
    match kvNat [w] "d" with
    | some d => if !s.hasCfg then (s, "bad-op") else ({ s with st := (step s.cfg s.st (.adv d)).1 }, "ok")
    | none => (s, "bad-op")
  | "call" :: ws =>
    match parseCall ws with
    | some c =>
      if !s.hasCfg then (s, "bad-op") else
      let (st', o) := call s.cfg s.st c
      ({ s with st := st', called := true },
       s!"sent={fmtSent o.sent} res={fmtResult o.result} cnt={st'.cnt} ok={b2s st'.ok} flt={b2s (callFault s.cfg s.st c)}")
    | none => (s, "bad-op")
  | "decide" :: ws =>
    match kv ws "host", (kv ws "hdr").bind parseHdr with
    | some h, some hd =>
      if !s.hasCfg then (s, "bad-op") else
      let host := (pctDec h).toList
      let r := isAllowed s.cfg (mkFilter s.cfg) s.st.cache s.st.lookups host hd
      ({ s with st := (step s.cfg s.st (.decide host hd)).1, called := true },
       s!"allowed={b2s r.allowed} flt={b2s r.fault}")
    | _, _ => (s, "bad-op")
  | ["probe", w] =>
    let h := (pctDec w).toList
    (s, s!"host={b2s (validateHost h)} ip={b2s (validateIp h)}")
  | _ => (s, "bad-op")

structure JudgeSt where
  cfg : Cfg := ⟨0, 0, none, none, [], []⟩
  now : Nat := 0
  hist : List Obs := []     -- most recent first
  decs : List DecObs := []  -- most recent first
  bad : Option String := none

def judgeStep (s : JudgeSt) (op out : String) : JudgeSt :=
  match words op with
  | "cfg" :: ws =>
    match parseCfg ws with
    | some (cfg, t0) => { s with cfg := cfg, now := t0 }
    | none => { s with bad := some "unparsable-cfg" }
  | "dns" :: h :: r :: rest =>
    match parseRes r, parseFail rest with
    | some res, some n => { s with cfg := addDns s.cfg (pctDec h).toList res n }
    | _, _ => { s with bad := some "unparsable-dns" }
  | ["adv", w] =>
    match kvNat [w] "d" with
    | some d => { s with now := s.now + d }
    | none => { s with bad := some "unparsable-adv" }
  | "call" :: ws =>
    let ows := words out
    match parseCall ws, (kv ows "sent").bind parseSent, (kv ows "res").bind parseResult, kvNat ows "flt" with
    | some c, some sent, some res, some f => { s with hist := ⟨s.now, c, ⟨sent, res⟩, f != 0⟩ :: s.hist }
    | some _, _, _, _ => { s with bad := some ("unexpected-answer:" ++ pctEnc out) }
    | none, _, _, _ => { s with bad := some "unparsable-call" }
  | "decide" :: ws =>
    match kv ws "host", (kv ws "hdr").bind parseHdr with
    | some h, some hd =>
      match kvNat (words out) "allowed", kvNat (words out) "flt" with
      | some a, some f => { s with decs := ⟨(pctDec h).toList, hd, a != 0, f != 0⟩ :: s.decs }
      | _, _ =>
        -- `raised:<type>`: the decision raised instead of answering
        { s with bad := some ("decision-did-not-answer host=" ++ h ++ " answer=" ++ pctEnc out) }
    | _, _ => { s with bad := some "unparsable-decide" }
  | _ => s

def judgeFinish (s : JudgeSt) : String :=
  match s.bad with
  | some b => s!"fail - {b}"
  | none =>
    let h := s.hist.reverse
    match s.decs.reverse.find? (fun d => !(decisionsOk s.cfg [d])) with
    | some d =>
      s!"fail - decision-differs-from-routing-rule host={encStr d.host} allowed={b2s d.answer} rule={b2s (shouldRoute s.cfg d.host d.hdr)}"
    | none =>
    if holds s.cfg h then "ok"
    else
      match firstBad s.cfg Ref.init 0 h with
      | some (i, r) =>
        match h[i]? with
        | some o =>
          let why := if !noSwallow o then "result-or-legs-wrong"
            else if !cooldownRespected s.cfg r o then "gateway-contacted-during-cooldown"
            else if !filterRespected s.cfg o then "excluded-destination-routed"
            else "routable-destination-not-tried-through-gateway(no-resolver-fault-in-this-call)"
          s!"fail - {why} call#{i} t={o.t} host={encStr o.inp.host} sent={fmtSent o.out.sent} res={fmtResult o.out.result}"
        | none => s!"fail - spec-violated call#{i}"
      | none => "fail - spec-violated"

def main (args : List String) : IO Unit :=
  match args with
  | ["run"] => runLoop runStep {}
  | ["judge"] => judgeLoop ({} : JudgeSt) judgeStep judgeFinish
  | _ => IO.eprintln "usage: lvdriver_c19 run|judge"
