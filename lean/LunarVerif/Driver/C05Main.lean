import LunarVerif.Base.Proto
import LunarVerif.Spec.C05
/-! Driver for C05: `lvdriver_c05 run` (model answers) / `lvdriver_c05 judge` (Spec on impl answers). -/
open LunarVerif LunarVerif.Proto LunarVerif.FlowGraph LunarVerif.FlowExec LunarVerif.C05

/-! ### parsing of op lines (shared by run and judge) -/

def parseXEnd (w : String) : Option XEnd :=
  if w == "X" then some .nothing else
  match w.splitOn ":" with
  | ["S", n, a] => some (.stream (pctDec n) (pctDec a))
  | ["P", k, c] => some (.proc (pctDec k) (pctDec c))
  | ["F", n, a] => some (.flow (pctDec n) (pctDec a))
  | _ => none

def parseOutDef (w : String) : Option OutDef :=
  match (w.splitOn ":").reverse with
  | t :: rest@(_ :: _) =>
    if t == "any" || t == "req" || t == "res" then some ⟨pctDec (":".intercalate rest.reverse), t⟩ else none
  | _ => none

def parseDir : String → Option Dir
  | "req" => some .req
  | "res" => some .res
  | _ => none

def parseOutVal (v : String) : Option Out :=
  if v == "x" then some { err := true }
  else if v.startsWith "n:" then some { name := pctDec (v.drop 2).toString }
  else if v.startsWith "e:" then some { name := pctDec (v.drop 2).toString, early := true }
  else none

abbrev OTable := List ((String × String × Dir) × Out)

def parseOracle (s : String) : Option OTable :=
  if s == "-" || s == "" then some [] else
  (s.splitOn ",").mapM fun it =>
    match it.splitOn "=" with
    | [path, v] =>
      match path.splitOn "/", parseOutVal v with
      | [f, k, d], some o => (parseDir d).map fun dd => ((pctDec f, pctDec k, dd), o)
      | _, _ => none
    | _ => none

def OTable.toOracle (t : OTable) : Oracle :=
  let r := t.reverse
  fun f k d =>
  match r.find? (fun e => e.1 == (f, k, d)) with
  | some e => e.2
  | none => {}

def splitKV (w : String) : Option (String × String) :=
  match w.splitOn "=" with
  | k :: v :: rest => some (k, "=".intercalate (v :: rest))
  | _ => none

/-- update the LAST declared flow of that name -/
def updLast (name : String) (g : XFlow → XFlow) : List XFlow → Option (List XFlow)
  | [] => none
  | d :: ds =>
    match updLast name g ds with
    | some ds' => some (d :: ds')
    | none => if d.name == name then some (g d :: ds) else none

def updFlow (c : Cfg) (name : String) (g : XFlow → XFlow) : Option Cfg :=
  (updLast name g c.flows).map fun fl => { c with flows := fl }

def updLastPDef (name : String) (g : PDef → PDef) : List PDef → Option (List PDef)
  | [] => none
  | d :: ds =>
    match updLastPDef name g ds with
    | some ds' => some (d :: ds')
    | none => if d.name == name then some (g d :: ds) else none

def parseMr (v : String) : Option (Int × Int × Int × String) :=
  match v.splitOn ":" with
  | [d, h, m, tz] =>
    match d.toInt?, h.toInt?, m.toInt? with
    | some d, some h, some m => some (d, h, m, pctDec tz)
    | _, _, _ => none
  | _ => none

/-- strategy words of a `quota` / `ilimit` line -/
def parseStrat : List String → Strat → Option Strat
  | [], s => if ["fixed", "custom", "conc", "hdr", "none", "missing"].contains s.kind then some s else none
  | w :: ws, s =>
    match splitKV w with
    | none => none
    | some (k, v) =>
      let int? := v.toInt?
      if k == "s" then parseStrat ws { s with kind := v }
      else if k == "url" || k == "parent" then parseStrat ws s
      else if k == "unit" then parseStrat ws { s with unit := some (pctDec v) }
      else if k == "grp" then parseStrat ws { s with grp := some (pctDec v) }
      else if k == "path" then parseStrat ws { s with path := some (pctDec v) }
      else if k == "mr" then (parseMr v).bind fun m => parseStrat ws { s with mr := some m }
      else match int? with
        | none => none
        | some n =>
          if k == "max" then parseStrat ws { s with max := some n }
          else if k == "int" then parseStrat ws { s with int := some n }
          else if k == "spill" then parseStrat ws { s with spill := some n }
          else if k == "maxreq" then parseStrat ws { s with maxreq := some n }
          else if k == "exp" then parseStrat ws { s with exp := some n }
          else if k == "gc" then parseStrat ws { s with gc := some n }
          else if k == "alloc" then parseStrat ws { s with alloc := some n }
          else none

def optStr (v : String) : Option String := if v == "-" then none else some (pctDec v)

def lastFile (c : Cfg) (g : QFile → QFile) : Cfg :=
  match c.qfiles.reverse with
  | [] => { c with qfiles := [g {}] }
  | f :: rest => { c with qfiles := (g f :: rest).reverse }

/-- configuration op lines; `none` = not a configuration line or unparsable -/
def cfgStep (c : Cfg) (ws : List String) : Option Cfg :=
  match ws with
  | "ptype" :: n :: outs =>
    (outs.mapM parseOutDef).map fun os => { c with pdefs := c.pdefs ++ [⟨pctDec n, os, []⟩] }
  | ["preq", n, p] =>
    (updLastPDef (pctDec n) (fun d => { d with required := d.required ++ [pctDec p] }) c.pdefs).map
      fun ps => { c with pdefs := ps }
  | "flow" :: n :: opts =>
    let url? : Option (Option String) := match kv opts "url" with
      | some v => some (optStr v)
      | none => some (some "verif.test/x")
    let st? : Option (List Nat) := match kv opts "status" with
      | some v => (v.splitOn ",").mapM String.toNat?
      | none => some []
    if !opts.all (fun w => w.startsWith "url=" || w.startsWith "status=") then none else
    match url?, st? with
    | some u, some st => some { c with flows := c.flows ++ [{ name := pctDec n, url := u, status := st }] }
    | _, _ => none
  | "rflow" :: n :: tmpl :: opts =>
    -- a flow over REAL processors (harness template): each real processor is an abstract processor with one
    -- unnamed output; only transactions with arbitrary content (`rtxn`) are run against such flows
    let gS : XEnd := .stream "globalStream" "start"
    let gE : XEnd := .stream "globalStream" "end"
    let through : List XConn := [⟨gS, .proc "R" ""⟩, ⟨.proc "R" "", gE⟩]
    let body? : Option (List PInst × List XConn × List XConn) :=
      if tmpl == "transform-set" || tmpl == "transform-delete" then some ([⟨"R", "@real", []⟩], through, through)
      else if tmpl == "sanitize" then some ([⟨"R", "@real", []⟩], through, [⟨gS, gE⟩])
      else if tmpl == "queue" then
        some ([⟨"Q", "@queue", []⟩],
              [⟨gS, .proc "Q" ""⟩, ⟨.proc "Q" "allowed", gE⟩, ⟨.proc "Q" "blocked", gE⟩], [⟨gS, gE⟩])
      else if tmpl == "generate" then
        some ([⟨"T", "@real", []⟩, ⟨"R", "@real", []⟩], [⟨gS, .proc "T" ""⟩, ⟨.proc "T" "", .proc "R" ""⟩],
              [⟨.proc "R" "", gE⟩])
      else none
    let url? : Option String := match opts with
      | [] => some "verif.test/x"
      | [u] => (kv [u] "url").bind fun v => if v == "-" then none else some (pctDec v)
      | _ => none
    match body?, url? with
    | some (procs, rq, rs), some u =>
      some { c with pdefs := c.pdefs ++ [⟨"@real", [⟨"", "any"⟩], []⟩, ⟨"@queue", [⟨"allowed", "req"⟩, ⟨"blocked", "req"⟩], []⟩]
                    flows := c.flows ++ [{ name := pctDec n, url := some u, procs := procs, req := rq, res := rs }] }
    | _, _ => none
  | ["rawfile", dir, kind] =>
    -- a file given by its content kind: documents without content and their neighbours.  In the flows directory
    -- every such file is a flow without name; in the quotas directory a file without `quotas`; path-params files
    -- are only warned about; the gateway config must decode
    if !["comment", "dashes", "tilde", "null", "blank", "empty", "dashes-comment", "nullentry", "valid-pp", "valid-gw",
         "broken"].contains kind then none
    else if dir == "flows" then some { c with flows := c.flows ++ [{ name := "" }] }
    else if dir == "quotas" then some { c with rawQuota := true }
    else if dir == "path_params" then some c
    else if dir == "gateway" then
      some { c with gatewayBad := c.gatewayBad || kind == "comment" || kind == "blank" || kind == "broken" }
    else none
  | ["connnull", f, d] =>
    match parseDir d with
    | some .req => updFlow c (pctDec f) fun r => { r with req := r.req ++ [⟨.nothing, .nothing⟩] }
    | some .res => updFlow c (pctDec f) fun r => { r with res := r.res ++ [⟨.nothing, .nothing⟩] }
    | none => none
  | ["procnull", f, k] => updFlow c (pctDec f) fun r => { r with procs := r.procs ++ [⟨pctDec k, "", []⟩] }
  | "proc" :: f :: k :: pt :: params =>
    (params.mapM fun w => (splitKV w).map fun (a, b) => (pctDec a, pctDec b)).bind fun ps =>
      updFlow c (pctDec f) fun r => { r with procs := r.procs ++ [⟨pctDec k, pctDec pt, ps⟩] }
  | ["conn", f, d, a, b] =>
    match parseDir d, parseXEnd a, parseXEnd b with
    | some .req, some x, some y => updFlow c (pctDec f) fun r => { r with req := r.req ++ [⟨x, y⟩] }
    | some .res, some x, some y => updFlow c (pctDec f) fun r => { r with res := r.res ++ [⟨x, y⟩] }
    | _, _, _ => none
  | ["qfile"] => some { c with qfiles := c.qfiles ++ [{}] }
  | ["qnull", "quotas"] => some (lastFile c fun f => { f with quotas := f.quotas ++ [{ null := true }] })
  | ["qnull", "internal"] => some (lastFile c fun f => { f with internals := f.internals ++ [{ null := true }] })
  | "quota" :: id :: rest =>
    match kv rest "url", parseStrat rest {} with
    | some u, some s =>
      some (lastFile c fun f => { f with quotas := f.quotas ++ [{ id := pctDec id, url := optStr u, strat := s }] })
    | _, _ => none
  | "ilimit" :: id :: rest =>
    match kv rest "url", kv rest "parent", parseStrat rest {} with
    | some u, some p, some s =>
      some (lastFile c fun f => { f with internals := f.internals ++
        [{ id := pctDec id, url := optStr u, parent := optStr p, strat := s }] })
    | _, _, _ => none
  | _ => none

/-! ### rendering -/

/-- `withClass`: the op was `load class` (the generator knows that every failing flow of this
    configuration fails for the same reason, so Go's map iteration order cannot change the class) -/
def fmtLoad (c : Cfg) (withClass : Bool) : LoadRes → String
  | .accept _ => "accept live=ok"
  | .reject cls =>
    if withClass || cls == "quota" || cls == "url" || c.flows.length ≤ 1 then "reject:" ++ cls else "reject"
  | .crash => "crash:stack-overflow"
  | .hang => "timeout"

def fmtTxn (r : TxnRes) : String :=
  let n := toString (steps r.trace)
  match r.err with
  | none => "ok:" ++ n
  | some .proc => "err:proc:" ++ n
  | some .respNode => "err:respnode:" ++ n
  | some .missing => "err:missing:" ++ n
  | some .fuel => "crash:stack-overflow"

/-- self-check of the model: on a reference-free flow the builder with references (`buildFlowX`) must
    agree with the shared reference-free builder (`buildFlow`) -/
def buildersAgree (c : Cfg) : Bool :=
  c.flows.all fun f =>
    !(f.refFree && flowYamlOk f) ||
      (match buildFlow c.ptypes f.rep, buildFlowX c.ptypes c.flows f none with
       | .ok a, .ok (b, _) => a == b
       | .error e, .error (.build e') => e == e'
       | _, _ => false)

/-! ### run mode -/

structure RunSt where
  cfg : Cfg := {}
  loaded : Option (List Flow) := none

def runStep (s : RunSt) (line : String) : RunSt × String :=
  let ws := words line
  match ws with
  | ["case", id] => ({}, s!"case {id}")
  | "load" :: rest =>
    if rest != [] && rest != ["class"] then (s, "bad-op") else
    if !buildersAgree s.cfg then ({ s with loaded := none }, "model-inconsistent") else
    let r := load s.cfg
    let l := match r with
      | .accept fls => some fls
      | _ => none
    ({ s with loaded := l }, fmtLoad s.cfg (rest == ["class"]) r)
  | "txn" :: rest =>
    match (kv rest "dir").bind parseDir, (kv rest "o").bind parseOracle with
    | some d, some t =>
      match s.loaded with
      | none => (s, "not-loaded")
      | some fls => (s, fmtTxn (runTxn s.cfg fls t.toOracle d))
    | _, _ => (s, "bad-op")
  | "stress" :: rest =>
    -- transactions running while the engine's other goroutines run (metrics reader, processors' background
    -- loops): the only requirement is that the engine survives
    match kv rest "kind", kvNat rest "ms", kvNat rest "workers" with
    | some k, some ms, some w =>
      if !(k == "metrics" || k == "queue" || k == "all") || ms < 1 || ms > 2000 || w < 1 || w > 16 then (s, "bad-op")
      else match s.loaded with
        | none => (s, "not-loaded")
        | some _ => (s, "done")
    | _, _, _ => (s, "bad-op")
  | "rtxn" :: rest =>
    match (kv rest "dir").bind parseDir with
    | some _ =>
      match s.loaded with
      | none => (s, "not-loaded")
      | some _ => (s, "done")
    | none => (s, "bad-op")
  | _ =>
    match cfgStep s.cfg ws with
    | some c => ({ s with cfg := c }, "ok")
    | none => (s, "bad-op")

/-! ### judge mode: Spec on the implementation's answers -/

structure JudgeSt where
  cfg : Cfg := {}
  load : Option LoadObs := none
  txns : List TxnObs := []      -- most recent first
  bad : Option String := none

def lastNat (out : String) : Option Nat := ((out.splitOn ":").getLast?).bind String.toNat?

def parseLoadObs (out : String) : Option LoadObs :=
  if out == "accept live=ok" then some (.accept true)
  else if out.startsWith "accept live=fail" then some (.accept false)
  else if out == "reject" || out.startsWith "reject:" then some .reject
  else if out.startsWith "panic" then some .panic
  else if out.startsWith "crash:" then some .crash
  else if out == "timeout" then some .timeout
  else none

def parseTxnObs (out : String) : Option TxnObs :=
  if out.startsWith "ok:" then (lastNat out).map .ok
  else if out.startsWith "err:" then (lastNat out).map .err
  else if out == "done" then some .done
  else if out == "not-loaded" then some .notLoaded
  else if out.startsWith "panic" then some .panic
  else if out.startsWith "crash:" then some .crash
  else if out == "timeout" then some .timeout
  else none

def judgeStep (s : JudgeSt) (op out : String) : JudgeSt :=
  let ws := words op
  match ws with
  | "load" :: _ =>
    match parseLoadObs out with
    | some l => { s with load := some l, txns := [] }
    | none => { s with bad := some ("unparsable-load-answer:" ++ pctEnc out) }
  | "txn" :: _ =>
    match parseTxnObs out with
    | some t => { s with txns := t :: s.txns }
    | none => { s with bad := some ("unparsable-txn-answer:" ++ pctEnc out) }
  | "stress" :: _ =>
    match parseTxnObs out with
    | some t => { s with txns := t :: s.txns }
    | none => { s with bad := some ("unparsable-stress-answer:" ++ pctEnc out) }
  | "rtxn" :: _ =>
    match parseTxnObs out with
    | some t => { s with txns := t :: s.txns }
    | none => { s with bad := some ("unparsable-rtxn-answer:" ++ pctEnc out) }
  | _ =>
    match cfgStep s.cfg ws with
    | some c => { s with cfg := c }
    | none => s

def fmtLoadObs : LoadObs → String
  | .accept true => "accept"
  | .accept false => "accept-but-live-load-failed"
  | .reject => "reject"
  | .panic => "panic"
  | .crash => "crash"
  | .timeout => "timeout"

def fmtTxnObs : TxnObs → String
  | .ok n => s!"ok:{n}"
  | .err n => s!"err:{n}"
  | .done => "done"
  | .notLoaded => "not-loaded"
  | .panic => "panic"
  | .crash => "crash"
  | .timeout => "timeout"

def judgeFinish (s : JudgeSt) : String :=
  match s.bad with
  | some b => s!"fail - {b}"
  | none =>
    match s.load with
    | none => "ok"     -- nothing was loaded: nothing to judge
    | some l =>
      let o : Obs := ⟨l, s.txns.reverse⟩
      if holds s.cfg o then "ok"
      else
        let b := cfgBound s.cfg
        let firstBad := (o.txns.find? fun t => !txnOk b t).map fmtTxnObs
        let msg := "load=" ++ fmtLoadObs l ++ " bound=" ++ toString b ++
          (match firstBad with
           | some t => " first-bad-txn=" ++ t
           | none => "")
        s!"fail - {msg}"

def main (args : List String) : IO Unit :=
  match args with
  | ["run"] => runLoop runStep {}
  | ["judge"] => judgeLoop ({} : JudgeSt) judgeStep judgeFinish
  | _ => IO.eprintln "usage: lvdriver_c05 run|judge"
