import LunarVerif.Base.Proto
import LunarVerif.Spec.C18
import LunarVerif.Spec.C18Sharing
import LunarVerif.Spec.C18Expire
import LunarVerif.Spec.C18Vacuum
import LunarVerif.Model.C18Observe
import LunarVerif.Spec.C18Observe
/-! Driver for C18.
  `access s=<struct> f=<field> fn=<func> w=<0|1> locks=<name:x|r,...|-> atomic=<0|1> init=<0|1>`
     one extracted access fact (a case = all facts of one field); answer `ok`.
  judge: lockset discipline per field; a violating field is classified by `findingOf`. -/
open LunarVerif LunarVerif.Proto LunarVerif.C18

def parseLocks (s : String) : List Lock :=
  if s == "-" then [] else
  (s.splitOn ",").filterMap fun w =>
    match w.splitOn ":" with
    | [n, "x"] => some ⟨pctDec n, true⟩
    | [n, "r"] => some ⟨pctDec n, false⟩
    | _ => none

def parseAccess (ws : List String) : Option Access := do
  let s ← kv ws "s"
  let f ← kv ws "f"
  let fn ← kv ws "fn"
  let w ← kvNat ws "w"
  let l ← kv ws "locks"
  let a ← kvNat ws "atomic"
  let i ← kvNat ws "init"
  let r := (kvNat ws "region").getD 0
  pure ⟨pctDec s, pctDec f, pctDec fn, w != 0, parseLocks l, a != 0, i != 0, r⟩

def parseAct (s : String) : Option Act :=
  if s == "none" then some .none
  else if s == "get" then some .get
  else if s.startsWith "set:" then some (.set (pctDec (s.drop 4).toString))
  else if s.startsWith "nest:" then some (.nest (pctDec (s.drop 5).toString))
  else none

def parseScript (ws : List String) : Option (String × Script) := do
  let t ← kv ws "t"
  let a ← (kv ws "a").bind parseAct
  let b ← (kv ws "b").bind parseAct
  let c ← (kv ws "c").bind parseAct
  pure (pctDec t, ⟨a, b, c⟩)

def fmtObs (os : List Obs) : String :=
  if os.isEmpty then "-" else
  ";".intercalate (os.map fun o => s!"{pctEnc o.txn}.{o.slot}.{o.kind}={pctEnc o.res}")

def parseObs (s : String) : Option (List Obs) :=
  if s == "-" then some [] else
  (s.splitOn ";").mapM fun w =>
    match w.splitOn "=" with
    | [l, r] => match l.splitOn "." with
      | [t, slot, kind] => some ⟨pctDec t, slot, kind, pctDec r⟩
      | _ => none
    | _ => none

structure RunSt where
  scripts : Scripts := []
  tctx : TCtx := fresh
  ex : Expire.St := {}
  vx : Vacuum.St := {}
  ob : Option (Observe.Cfg × C01.Lvl) := none

/-- instant of an observe op: `t` ms after 1 700 000 000 s, in ns -/
def obsNs (ms : Nat) : Nat := (1700000000000 + ms) * 1000000

/-- `oinc r= t=` | `oallow r= t=` | `odec r= t=` | `oread t=` -/
def parseO (ws : List String) : Option Observe.Op :=
  match ws with
  | "oinc" :: r => do pure (.inc (← kvNat r "r") (obsNs (← kvNat r "t")))
  | "oallow" :: r => do let _ ← kvNat r "t"; pure (.allowed (← kvNat r "r"))
  | "odec" :: r => do let _ ← kvNat r "t"; pure (.dec (← kvNat r "r"))
  | "oread" :: r => do let _ ← kvNat r "t"; pure .read
  | _ => none

/-- `policy-seq n= tenants=`: transaction `k` leaves with the api key and the token of tenant `k mod tenants`
    (round robin), whatever the transactions before it did -/
def policySeq (n tenants : Nat) : String :=
  ",".intercalate ((List.range n).map fun k => "x-api-key+x-tenant-" ++ toString (k % tenants) ++ "-token")

def sortStrs (l : List String) : List String := (l.toArray.qsort (· < ·)).toList

/-- `vcfg ttl=<ms> tick=<ms>` | `vadd k=<key>` | `vpass adv=<ms> [add=<key>]` -/
def vStep (v : Vacuum.St) (ws : List String) : Option Vacuum.St :=
  match ws with
  | "vcfg" :: r => do pure { ttl := (← kvNat r "ttl"), tick := (← kvNat r "tick") }
  | "vadd" :: r => do pure (Vacuum.vadd v (pctDec (← kv r "k")))
  | "vpass" :: r => do
    let adv ← kvNat r "adv"
    pure (Vacuum.advance (adv + 1) v (v.now + adv) ((kv r "add").map pctDec))
  | _ => none

/-- `xadd k=<key> d=<ms>` | `xdiscard k=<key>` | `xsleep n=<ms>` | `xsweep keys=<k1,k2,...>` -/
def parseX (ws : List String) : Option Expire.Op :=
  match ws with
  | "xadd" :: r => do pure (.add (pctDec (← kv r "k")) (← kvNat r "d"))
  | "xdiscard" :: r => do pure (.discard (pctDec (← kv r "k")))
  | "xsleep" :: r => do pure (.sleep (← kvNat r "n"))
  | "xsweep" :: _ => some .sweep
  | _ => none

def xKeys (ws : List String) : List String :=
  match kv ws "keys" with
  | some s => if s == "-" then [] else (s.splitOn ",").map pctDec
  | none => []

def fmtKeys (ks : List String) : String :=
  if ks.isEmpty then "-" else ",".intercalate (ks.map pctEnc)

def runStep (s : RunSt) (line : String) : RunSt × String :=
  match words line with
  | ["case", id] => ({}, s!"case {id}")
  | "access" :: ws => match parseAccess ws with
    | some _ => (s, "ok")
    | none => (s, "bad-op")
  | "script" :: ws => match parseScript ws with
    | some sc => ({ s with scripts := s.scripts ++ [sc] }, "ok")
    | none => (s, "bad-op")
  | "xadd" :: _ | "xdiscard" :: _ | "xsleep" :: _ =>
    match parseX (words line) with
    | some op => ({ s with ex := Expire.step s.ex op }, "ok")
    | none => (s, "bad-op")
  | "xsweep" :: ws =>
    let ex := Expire.step s.ex .sweep
    ({ s with ex := ex }, "present=" ++ fmtKeys (Expire.present ex (xKeys ws)))
  | "vcfg" :: _ | "vadd" :: _ =>
    match vStep s.vx (words line) with
    | some v => ({ s with vx := v }, "ok")
    | none => (s, "bad-op")
  | "vpass" :: _ =>
    match vStep s.vx (words line) with
    | some v => ({ s with vx := v }, "map=" ++ fmtKeys (sortStrs v.map))
    | none => (s, "bad-op")
  | "ocfg" :: r =>
    match s.ob, kvNat r "max", kvNat r "win" with
    | none, some mx, some w =>
      if mx ≥ 1 ∧ w ≥ 1 then ({ s with ob := some (⟨mx, w * C01.nsPerSec⟩, C01.Lvl.init) }, "ok") else (s, "bad-op")
    | _, _, _ => (s, "bad-op")
  | "oinc" :: _ | "oallow" :: _ | "odec" :: _ | "oread" :: _ =>
    match s.ob, parseO (words line) with
    | some (c, l), some op =>
      let r := Observe.step c l op
      -- a transaction's call is answered `<with reads>/<without reads>`: by `metrics_reads_transparent` the two agree
      let a := if op.isRead then r.2.fmt else r.2.fmt ++ "/" ++ r.2.fmt
      ({ s with ob := some (c, r.1) }, a)
    | _, _ => (s, "bad-op")
  | "policy-seq" :: r =>
    match kvNat r "n", kvNat r "tenants" with
    | some n, some t => if 1 ≤ n ∧ n ≤ 64 ∧ 1 ≤ t ∧ t ≤ 8 then (s, policySeq n t) else (s, "bad-op")
    | _, _ => (s, "bad-op")
  | "retain" :: _ => (s, "stable")          -- a lookup's answer is a value: later lookups cannot change it
  | "retain-conc" :: _ => (s, "stable")
  | "overlap" :: _ => (s, "held=same inner=same")   -- a transaction's actions are a function of the transaction and the loaded flows
  | "stress-sadd" :: _ => (s, "ok")        -- every one-at-a-time order admits at most `max`
  | "stress-incwindow" :: _ => (s, "ok")
  | "stress-get-or-create" :: _ => (s, "ok")  -- every one-at-a-time order hands all callers the value of the first
  | "stress-queue-publish" :: _ => (s, "ok")   -- Properties.C18.no_request_lost: no schedule forgets a waiting request
  | "run" :: ws => match kv ws "t" with
    | some t =>
      let r := runTxn (s.scripts.length + 1) s.scripts s.tctx (pctDec t)
      ({ s with tctx := r.1 }, fmtObs r.2)
    | none => (s, "bad-op")
  | _ => (s, "bad-op")

structure JudgeSt where
  vx : Vacuum.St := {}
  ex : Expire.St := {}
  accs : List Access := []
  scripts : Scripts := []
  obs : List Obs := []
  bad : Option String := none
  ob : Option (Observe.Cfg × C01.Lvl) := none
  charged : List Nat := []        -- ghost: requests the quota counted within the limit and that have not asked since
  lost : Option String := none    -- F18i: a counted request refused after another request restarted the window

def judgeStep (s : JudgeSt) (op out : String) : JudgeSt :=
  match words op with
  | "access" :: ws =>
    match parseAccess ws with
    | some a => if out == "ok" then { s with accs := a :: s.accs } else { s with bad := some "impl-answer" }
    | none => { s with bad := some "unparsable-access" }
  | "script" :: ws => match parseScript ws with
    | some sc => { s with scripts := s.scripts ++ [sc] }
    | none => { s with bad := some "unparsable-script" }
  | "xadd" :: _ | "xdiscard" :: _ | "xsleep" :: _ =>
    match parseX (words op) with
    | some o => { s with ex := Expire.step s.ex o }     -- only `now` and the ghost table `want` are used below
    | none => { s with bad := some "unparsable-expire-op" }
  | "xsweep" :: _ =>
    let ex := { s.ex with now := s.ex.now }
    match (words out) with
    | [p] =>
      if p.startsWith "present=" then
        let ks := xKeys [("keys=" ++ (p.drop 8).toString)]
        if Expire.liveKept ex ks then s
        else { s with bad := some ("live-stored-request-removed-by-cleanup:" ++ pctEnc out) }
      else { s with bad := some ("unparsable-sweep-answer:" ++ pctEnc out) }
    | _ => { s with bad := some ("unparsable-sweep-answer:" ++ pctEnc out) }
  | "vcfg" :: _ | "vadd" :: _ =>
    match vStep s.vx (words op) with
    | some v => { s with vx := v }     -- only the clock bookkeeping and the ghost fields reg / lastPass are used below
    | none => { s with bad := some "unparsable-vacuum-op" }
  | "vpass" :: _ =>
    match vStep s.vx (words op) with
    | some v =>
      let s := { s with vx := v }
      if out.startsWith "map=" then
        let ks := xKeys [("keys=" ++ (out.drop 4).toString)]
        if Vacuum.holds v ks then s
        else { s with bad := some ("registered-key-never-vacuumed:" ++ pctEnc out) }
      else { s with bad := some ("unparsable-vacuum-answer:" ++ pctEnc out) }
    | none => { s with bad := some "unparsable-vacuum-op" }
  | "ocfg" :: r =>
    match kvNat r "max", kvNat r "win" with
    | some mx, some w => { s with ob := some (⟨mx, w * C01.nsPerSec⟩, C01.Lvl.init) }
    | _, _ => { s with bad := some "unparsable-observe-cfg" }
  | "oread" :: _ => s
  | "oinc" :: _ | "oallow" :: _ | "odec" :: _ =>
    if !Observe.agrees out then { s with bad := some ("metrics-read-changed-a-transactions-answer:" ++ pctEnc out) } else
    match s.ob, parseO (words op) with
    | some (c, l), some o =>
      -- the model state is used for the ghost list `charged` and to classify a refusal, never as the expected answer
      let s1 := { s with ob := some (c, (Observe.step c l o).1) }
      match o with
      | .inc r t => if Observe.counted c l r t then { s1 with charged := r :: s1.charged } else s1
      | .dec r => { s1 with charged := s1.charged.filter (· != r) }
      | .allowed r =>
        let s2 := { s1 with charged := s1.charged.filter (· != r) }
        if Observe.admittedWhenCounted s.charged r out then s2
        else if (Observe.step c l o).2 == .verdict false then
          { s2 with lost := some ("counted-transaction-refused-after-another-transactions-window-restart:r=" ++ toString r) }
        else { s2 with bad := some ("counted-transaction-refused:r=" ++ toString r ++ ":" ++ pctEnc out) }
      | .read => s1
    | _, _ => { s with bad := some "unparsable-observe-op" }
  | "policy-seq" :: r =>
    match kvNat r "n", kvNat r "tenants" with
    | some n, some t =>
      if out == policySeq n t then s
      else { s with bad := some ("transaction-left-with-what-another-transaction-wrote:" ++ pctEnc out) }
    | _, _ => s
  | "overlap" :: _ => if out == "held=same inner=same" then s else { s with bad := some ("transaction-left-with-another-transactions-actions:" ++ pctEnc out) }
  | "retain-conc" :: _ => if out == "stable" then s else { s with bad := some ("lookup-answer-changed-by-another-transaction:" ++ pctEnc out) }
  | "retain" :: _ => if out == "stable" then s else { s with bad := some ("lookup-answer-changed-by-another-transaction:" ++ pctEnc out) }
  | "stress-sadd" :: _ => if out == "ok" then s else { s with bad := some ("atomic-core-bound-exceeded:" ++ pctEnc out) }
  | "stress-incwindow" :: _ => if out == "ok" then s else { s with bad := some ("atomic-core-bound-exceeded:" ++ pctEnc out) }
  | "stress-get-or-create" :: _ => if out == "ok" then s else { s with bad := some ("get-or-create-handed-out-two-values:" ++ pctEnc out) }
  | "stress-queue-publish" :: _ => if out == "ok" then s else { s with bad := some ("queued-request-forgotten-by-loop:" ++ pctEnc out) }
  | "run" :: _ => match parseObs out with
    | some os => { s with obs := s.obs ++ os }
    | none => { s with bad := some ("unparsable-observations:" ++ pctEnc out) }
  | _ => s

def judgeFinish (s : JudgeSt) : String :=
  match s.bad with
  | some b => s!"fail - {b}"
  | none =>
    if let some m := s.lost then s!"fail F18i {m}" else
    if !isolated (s.obs.map (toEv s.scripts)) then
      "fail F18a transactional-context-not-private-to-the-transaction"
    else
    let bad := violating s.accs.reverse
    match bad.find? (fun sf => !exempt.contains sf) with
    | none =>
      -- the named read-modify-write cores of this field run inside ONE critical section under the named mutex
      let rows := requiredCoverage.filter fun r => s.accs.any (sameField r.1 r.2.1)
      (match rows.find? (fun r => !covered s.accs.reverse r) with
       | none => "ok"
       | some r => s!"fail - read-modify-write-not-in-one-critical-section {pctEnc r.1}.{pctEnc r.2.1}")
    | some (st, f) =>
      let fid := (findingOf st f).getD "-"
      s!"fail {fid} unsynchronised-shared-field {pctEnc st}.{pctEnc f}"

def main (args : List String) : IO Unit :=
  match args with
  | ["run"] => runLoop runStep {}
  | ["judge"] => judgeLoop ({} : JudgeSt) judgeStep judgeFinish
  | _ => IO.eprintln "usage: lvdriver_c18 run|judge"
