import LunarVerif.Base.Proto
import LunarVerif.Spec.C10
/-! Driver for C10: `lvdriver_c10 run` (model answers) / `lvdriver_c10 judge` (Spec on impl answers).

Ops (one schedule step each; the harness performs the same step on the real queue):
  cfg quota=Q win=W size=S t0=T      fresh queue at instant T
  tick d=D                           clock moves by D (no timer fires by itself)
  enq r=R p=P ttl=L                  request R (= number of earlier enq ops) runs Enqueue up to the unlock;
                                     answer `pass|full|push rel=<waiters it served>`
  park r=R                           R enters the select   (ttl = 0: the TTL case is taken at once;
                                     a hand-off already buffered: `released`, R returns true at once)
  roll                               the roll-over goroutine's timer fires (if due): `rel=<handed off>`;
                                     released parked waiters return
  expire r=R                         R's TTL timer fires (if parked and due); R returns false
Every answer ends with the observables ` tte=<windowEnd-now> c=<prio:count,...|->`.
-/
open LunarVerif LunarVerif.Proto LunarVerif.C10

def insertSorted (x : Nat) : List Nat → List Nat
  | [] => [x]
  | y :: ys => if x < y then x :: y :: ys else if x = y then y :: ys else y :: insertSorted x ys

def sortDedup (xs : List Nat) : List Nat := xs.foldl (fun acc x => insertSorted x acc) []

def fmtIds (xs : List Nat) : String :=
  if xs.isEmpty then "-" else ",".intercalate ((sortDedup xs).map toString)

def fmtCounts (reqs : List Req) : String :=
  let ps := sortDedup (reqs.map (·.prio))
  let items := ps.filterMap fun p => let n := countOf reqs p; if n = 0 then none else some s!"{p}:{n}"
  if items.isEmpty then "-" else ",".intercalate items

def obsSuffix (cfg : Cfg) (s : State) : String :=
  let tte : Int := ((s.widx + 1) * cfg.win : Nat) - (s.now : Int)
  s!" tte={tte} c={fmtCounts s.reqs}"

def parseCfg (ws : List String) : Option (Cfg × Nat) := do
  let q ← kvNat ws "quota"
  let w ← kvNat ws "win"
  let sz ← kvNat ws "size"
  let t0 ← kvNat ws "t0"
  if w = 0 then none else pure (⟨q, w, sz⟩, t0)

/-- apply labels in sequence (all must be enabled) -/
def applyAll (cfg : Cfg) (s : State) : List Label → Option State
  | [] => some s
  | l :: ls => match step cfg s l with
    | some (s', _) => applyAll cfg s' ls
    | none => none

/-! ### plugin level: one queue (one model state) per remedy key -/

structure KeyQ where
  key : Nat           -- full queue key: name index + 100 * quota + 10000 * window seconds
  cfg : Cfg           -- the strategy of this key (+ the case's queue size)
  s : State
  gids : List Nat     -- global request ids in arrival order (position = model request id)
  armed : Nat := 0    -- instant at which the roll-over timer was last armed (ties among equal due instants
                      -- fire in arming order, as registered on the harness clock)

structure PSt where
  cfg : Cfg := ⟨0, 1, 0⟩
  ttl : Nat := 0
  now : Nat := 0
  keys : List KeyQ := []       -- creation order
  arrivals : List Nat := []    -- global ids in arrival order
  mode : Nat := 0              -- 0 none, 1 burst, 2 sequential, 3 real clock
  file : Bool := false         -- policies-file case
  decls : List Decl := []
  loaded : Bool := false
  accepted : Bool := false

def gidOf (k : KeyQ) (r : Nat) : Nat := k.gids.getD r 0

def fmtDone (k : KeyQ) (rel : List Nat) (sep : String) : String :=
  let gs := sortDedup (rel.map (gidOf k))
  if gs.isEmpty then "-" else sep.intercalate (gs.map fun g => s!"{g}:noop")

def setKey (ks : List KeyQ) (k : KeyQ) : List KeyQ :=
  if ks.any (·.key == k.key) then ks.map (fun x => if x.key == k.key then k else x) else ks ++ [k]

def parsePCfg (ws : List String) : Option (Cfg × Nat × Nat) := do
  let q ← kvNat ws "quota"
  let w ← kvNat ws "winsec"
  let sz ← kvNat ws "size"
  let ttl ← kvNat ws "ttlsec"
  let t0 ← kvNat ws "t0"
  if w = 0 then none else pure (⟨q, w * 1000000000, sz⟩, ttl * 1000000000, t0)

/-- Full queue key of a `preq` op and its configuration (`q=`/`w=` default to the case's `pcfg`). -/
def keyOfReq (base : Cfg) (ws : List String) (key : Nat) : Option (Nat × Cfg) :=
  let q := (kvNat ws "q").getD base.quota
  let w := (kvNat ws "w").getD (base.win / 1000000000)
  if q ≥ 100 || w = 0 || w ≥ 100 || key ≥ 100 then none
  else some (key + 100 * q + 10000 * w, ⟨q, w * 1000000000, base.size⟩)

/-- `k` first requests at one instant on a fresh queue: (pass, wait, rej). -/
def burstModel (cfg : Cfg) (t0 ttl k : Nat) : Nat × Nat × Nat :=
  match run cfg (init cfg t0) (List.replicate k (.enq 0 ttl)) with
  | some (s, es) =>
    (passCount es, waitingCount s.reqs, s.reqs.countP (fun r => r.ph == .full))
  | none => (0, 0, 0)

/-- The next timer to fire at or before `target`: (due, key, none = roll-over | some r = TTL of r). -/
def nextTimer (p : PSt) (target : Nat) : Option (Nat × Nat × Option Nat) :=
  let better (a : Option (Nat × Nat × Option Nat)) (c : Nat × Nat × Option Nat) :=
    match a with
    | none => some c
    | some b => if c.1 < b.1 then some c else some b
  -- roll-over timers: earliest due first, among equal due instants the one armed first
  let rolls : Option (Nat × Nat × Nat) := p.keys.foldl (fun acc k =>
    if k.s.rollDue ≤ target then
      match acc with
      | none => some (k.s.rollDue, k.armed, k.key)
      | some b => if k.s.rollDue < b.1 || (k.s.rollDue == b.1 && k.armed < b.2.1) then some (k.s.rollDue, k.armed, k.key)
                  else some b
    else acc) none
  let rolls' : Option (Nat × Nat × Option Nat) := rolls.map fun r => (r.1, r.2.2, none)
  p.arrivals.foldl (fun acc g =>
    p.keys.foldl (fun acc k =>
      match k.gids.idxOf? g with
      | some r => match phaseOf k.s.reqs r with
        | .parked dl => if dl ≤ target then better acc (dl, k.key, some r) else acc
        | _ => acc
      | none => acc) acc) rolls'

def tickAll (p : PSt) (t : Nat) : PSt :=
  { p with now := t, keys := p.keys.map fun k => { k with s := { k.s with now := t } } }

def ptickLoop (p : PSt) (target : Nat) : Nat → PSt × List String → PSt × List String
  | 0, acc => acc
  | fuel + 1, (p, evs) =>
    match nextTimer p target with
    | none => (p, evs)
    | some (due, key, what) =>
      let p := if p.now < due then tickAll p due else p
      match p.keys.find? (·.key == key) with
      | none => (p, evs)
      | some k =>
        match what with
        | none =>
          match step k.cfg k.s .roll with
          | some (s', .roll rel) =>
            let s'' := (applyAll k.cfg s' ((rel.filter (fun x => (phaseOf k.s.reqs x).isParked)).map .finish)).getD s'
            let p' := { p with keys := setKey p.keys { k with s := s'', armed := p.now } }
            ptickLoop p' target fuel (p', evs ++ [s!"r{key}@{p.now}:{fmtDone k rel "+"}"])
          | _ => (p, evs ++ ["model-error"])
        | some r =>
          match applyAll k.cfg k.s [.expire r, .finish r] with
          | some s' =>
            let p' := { p with keys := setKey p.keys { k with s := s' } }
            ptickLoop p' target fuel (p', evs ++ [s!"x{gidOf k r}@{p.now}:early:429"])
          | none => (p, evs ++ ["model-error"])

/-- One request through the plugin for queue key `ck` configured as `kcfg` with TTL `ttl`. -/
def doReq (p : PSt) (id prio ck : Nat) (kcfg : Cfg) (ttl : Nat) : PSt × String :=
  let k : KeyQ := (p.keys.find? (·.key == ck)).getD ⟨ck, kcfg, init kcfg p.now, [], p.now⟩
  match step kcfg k.s (.enq prio ttl) with
  | some (s', .enq _ _ res rel) =>
    let r := k.s.reqs.length
    let k' : KeyQ := { k with gids := k.gids ++ [id] }
    let s1 := (applyAll kcfg s' ((rel.filter (fun x => (phaseOf k.s.reqs x).isParked)).map .finish)).getD s'
    let (s2, a) : State × String := match res with
      | .pass => (s1, "noop")
      | .full => (s1, "early:429")
      | .push =>
        if ttl = 0 then ((applyAll kcfg s1 [.park r, .expire r, .finish r]).getD s1, "early:429")
        else ((applyAll kcfg s1 [.park r]).getD s1, "waiting")
    let k'' := { k' with s := s2 }
    ({ p with mode := 2, keys := setKey p.keys k'', arrivals := p.arrivals ++ [id] },
     s!"{a} done={fmtDone k' rel ","} c={fmtCounts s2.reqs}")
  | _ => (p, "model-error")

def parseDecl (ws : List String) : Option Decl := do
  let ep ← kvNat ws "ep"
  let name ← kvNat ws "name"
  let q ← kvNat ws "quota"
  let w ← kvNat ws "winsec"
  let sz ← kvNat ws "size"
  let ttl ← kvNat ws "ttlsec"
  pure ⟨ep, name, q, w, sz, ttl⟩

def parsePrios (s : String) : Option (List Nat) := do
  let ps ← (s.splitOn ",").mapM String.toNat?
  if ps.length > 12 || ps.any (· > 7) then none else pure ps

/-- Model of a real-clock burst: distinct increasing timestamps (1 ns apart), quota 1 per window. -/
def realBurstModel (win : Nat) (prios : List Nat) : List Nat :=
  let cfg : Cfg := ⟨1, win, prios.length + 1⟩
  let ttl := 60000000000
  let arrive (s : State) (ip : Nat × Nat) : State :=
    (applyAll cfg s [.tick 1, .enq ip.2 ttl, .park (ip.1 + 1)]).getD s
  let s0 := (applyAll cfg (init cfg 0) [.enq 0 ttl]).getD (init cfg 0)
  let s1 := (List.zip (List.range prios.length) prios).foldl arrive s0
  let rec drain : Nat → State → List Nat → List Nat
    | 0, _, acc => acc
    | fuel + 1, s, acc =>
      match step cfg { s with now := s.rollDue } .roll with
      | some (s', .roll rel) => drain fuel s' (acc ++ rel.map (· - 1))
      | _ => acc
  drain prios.length s1 []

def fmtOrder (xs : List Nat) : String := ",".intercalate (xs.map toString)

def pStep (p : PSt) (line : String) : PSt × String :=
  match words line with
  | "pburst" :: ws =>
    match kvNat ws "k", kvNat ws "rounds" with
    | some k, some r =>
      if p.file || p.mode == 3 || p.mode == 2 || k == 0 || r == 0 || k > 64 || r > 1000 then (p, "bad-op") else
      let (pass, wait, rej) := burstModel p.cfg p.now p.ttl k
      ({ p with mode := 1 },
       s!"rounds={r} created=1..1 pass={pass}..{pass} wait={wait}..{wait} rej={rej}..{rej} other=0..0")
    | _, _ => (p, "bad-op")
  | "preq" :: ws =>
    match kvNat ws "id", kvNat ws "key", kvNat ws "p" with
    | some id, some key, some prio =>
      if p.file || p.mode == 1 || p.mode == 3 || prio ≥ 8 || p.arrivals.contains id then (p, "bad-op") else
      match keyOfReq p.cfg ws key with
      | none => (p, "bad-op")
      | some (ck, kcfg) => doReq p id prio ck kcfg p.ttl
    | _, _, _ => (p, "bad-op")
  | "ptick" :: ws =>
    match kvNat ws "d" with
    | some d =>
      if p.mode == 1 || p.mode == 3 then (p, "bad-op") else
      let target := p.now + d
      let fuel := (d / 1000000000 + 2) * (p.keys.length + 1) + p.arrivals.length + 2
      let (p', evs) := ptickLoop p target fuel (p, [])
      let p'' := tickAll p' target
      ({ p'' with mode := 2 }, s!"now={target} ev={if evs.isEmpty then "-" else ";".intercalate evs}")
    | none => (p, "bad-op")
  | "frem" :: ws =>
    match parseDecl ws with
    | some d =>
      if !p.file || p.loaded || d.ep > 20 || d.name > 50 || p.decls.length ≥ 20 then (p, "bad-op")
      else ({ p with decls := p.decls ++ [d] }, "ok")
    | none => (p, "bad-op")
  | ["fload"] =>
    if !p.file || p.loaded then (p, "bad-op") else
    match fileVerdict p.decls with
    | .accepted => ({ p with loaded := true, accepted := true }, s!"accepted remedies={p.decls.length}")
    | .duplicateNames => ({ p with loaded := true }, "refused:duplicate-names")
    | .other => ({ p with loaded := true }, "refused:other")
  | "freq" :: ws =>
    match kvNat ws "id", kvNat ws "rem", kvNat ws "p" with
    | some id, some j, some prio =>
      if !p.file || !p.accepted || prio ≥ 8 || p.arrivals.contains id then (p, "bad-op") else
      match p.decls[j]? with
      | none => (p, "bad-op")
      | some d => doReq p id prio j ⟨d.quota, d.winsec * 1000000000, d.size⟩ (d.ttlsec * 1000000000)
    | _, _, _ => (p, "bad-op")
  | "rclock" :: ws =>
    match kvNat ws "n" with
    | some n => if p.mode != 3 || n < 2 || n > 100000 then (p, "bad-op") else (p, "strictly-increasing")
    | none => (p, "bad-op")
  | "rafter" :: ws =>
    match kvInt ws "d" with
    | some d => if p.mode != 3 || d < -100000 || d > 50 then (p, "bad-op") else (p, "delivered")
    | none => (p, "bad-op")
  | ["rstep", w] =>
    match kvNat [w] "win" with
    | some ms =>
      if p.mode != 3 || ms < 5 || ms > 1000 then (p, "bad-op") else
      -- the clock steps one window ahead before the roll-over goroutine first looks at it: its timer is
      -- due at once (After(d <= 0)); then a request takes the slot, a second waits for the next window end
      let win := ms * 1000000
      let cfg : Cfg := ⟨1, win, 4⟩
      let ttl := 100 * win + 2000000000
      match applyAll cfg (init cfg 0) [.tick win, .roll, .enq 0 ttl, .tick 1, .enq 0 ttl, .park 1, .tick win, .roll] with
      | some s => (p, if phaseOf s.reqs 1 == .wokeDone then "waiter=released" else "waiter=expired")
      | none => (p, "model-error")
    | none => (p, "bad-op")
  | "rburst" :: ws =>
    match kvNat ws "win", (kv ws "prios").bind parsePrios with
    | some ms, some prios =>
      if p.mode != 3 || ms < 5 || ms > 1000 then (p, "bad-op")
      else (p, s!"order={fmtOrder (realBurstModel (ms * 1000000) prios)}")
    | _, _ => (p, "bad-op")
  | _ => (p, "bad-op")

structure RunSt where
  cfg : Cfg := ⟨0, 1, 0⟩
  s : State := init ⟨0, 1, 0⟩ 0
  ready : Bool := false
  plugin : Option PSt := none

def runStep (st : RunSt) (line : String) : RunSt × String :=
  let ans (s' : State) (a : String) : RunSt × String := ({ st with s := s' }, a ++ obsSuffix st.cfg s')
  match words line with
  | ["case", id] => ({}, s!"case {id}")
  | "cfg" :: ws =>
    if st.plugin.isSome then (st, "bad-op") else
    match parseCfg ws with
    | some (cfg, t0) => ({ cfg := cfg, s := init cfg t0, ready := true }, "ok")
    | none => (st, "bad-op")
  | "pcfg" :: ws =>
    if st.plugin.isSome || st.ready then (st, "bad-op") else
    match parsePCfg ws with
    | some (cfg, ttl, t0) => ({ st with plugin := some { cfg := cfg, ttl := ttl, now := t0 } }, "ok")
    | none => (st, "bad-op")
  | "fcfg" :: ws =>
    if st.plugin.isSome || st.ready then (st, "bad-op") else
    match kvNat ws "t0" with
    | some t0 => ({ st with plugin := some { now := t0, file := true } }, "ok")
    | none => (st, "bad-op")
  | ["rcfg"] =>
    if st.plugin.isSome || st.ready then (st, "bad-op") else
    ({ st with plugin := some { mode := 3 } }, "ok")
  | op :: ws =>
    if let some p := st.plugin then
      let (p', a) := pStep p line
      ({ st with plugin := some p' }, a)
    else
    if !st.ready then (st, "bad-op") else
    let s := st.s
    match op with
    | "tick" =>
      match kvNat ws "d" with
      | some d => match step st.cfg s (.tick d) with
        | some (s', _) => ans s' s!"now={s'.now}"
        | none => ans s "not-enabled"
      | none => (st, "bad-op")
    | "enq" =>
      match kvNat ws "r", kvNat ws "p", kvNat ws "ttl" with
      | some r, some p, some ttl =>
        if r ≠ s.reqs.length then (st, "bad-op") else
        match step st.cfg s (.enq p ttl) with
        | some (s', .enq _ _ res rel) =>
          let a := match res with | .pass => "pass" | .full => "full" | .push => "push"
          match applyAll st.cfg s' ((rel.filter (fun x => (phaseOf s.reqs x).isParked)).map .finish) with
          | some s'' => ans s'' s!"{a} rel={fmtIds rel}"
          | none => ans s' "model-error"
        | _ => ans s "not-enabled"
      | _, _, _ => (st, "bad-op")
    | "park" =>
      match kvNat ws "r" with
      | some r =>
        match step st.cfg s (.park r) with
        | some (s', _) =>
          if phaseOf s.reqs r = .gapDone then
            match applyAll st.cfg s' [.finish r] with
            | some s'' => ans s'' "released"
            | none => ans s' "model-error"
          else if (getReq s.reqs r).ttl = 0 then
            match applyAll st.cfg s' [.expire r, .finish r] with
            | some s'' => ans s'' "ttl0"
            | none => ans s' "model-error"
          else ans s' s!"parked dl={s.now + (getReq s.reqs r).ttl}"
        | none => ans s "not-enabled"
      | none => (st, "bad-op")
    | "roll" =>
      if !ws.isEmpty then (st, "bad-op") else
      match step st.cfg s .roll with
      | some (s', .roll rel) =>
        match applyAll st.cfg s' ((rel.filter (fun x => (phaseOf s.reqs x).isParked)).map .finish) with
        | some s'' => ans s'' s!"rel={fmtIds rel}"
        | none => ans s' "model-error"
      | _ => ans s "not-enabled"
    | "rollx" =>
      -- roll-over whose critical section overlaps r's TTL firing:  expire r ; roll ; finish r
      match kvNat ws "r", ws.length with
      | some r, 1 =>
        match step st.cfg s (.expire r) with
        | some (s1, _) =>
          match step st.cfg s1 .roll with
          | some (s2, .roll rel) =>
            let others := (rel.filter (fun x => (phaseOf s1.reqs x).isParked)).map Label.finish
            match applyAll st.cfg s2 (.finish r :: others) with
            | some s3 => ans s3 s!"rel={fmtIds rel} ret={rel.contains r}"
            | none => ans s2 "model-error"
          | _ => ans s "not-enabled"
        | none => ans s "not-enabled"
      | _, _ => (st, "bad-op")
    | "expire" =>
      match kvNat ws "r" with
      | some r =>
        match applyAll st.cfg s [.expire r, .finish r] with
        | some s' => ans s' "expired"
        | none => ans s "not-enabled"
      | none => (st, "bad-op")
    | _ => (st, "bad-op")
  | [] => (st, "bad-op")

/-! ### judge -/

structure JudgeSt where
  cfg : Cfg := ⟨0, 1, 0⟩
  t0 : Nat := 0
  o : Obs := Obs.init ⟨0, 1, 0⟩ 0
  evs : List Ev := []        -- most recent first
  bad : Option String := none

def parseIds (s : String) : Option (List Nat) :=
  if s == "-" then some [] else (s.splitOn ",").mapM String.toNat?

def JudgeSt.push (s : JudgeSt) (es : List Ev) : JudgeSt :=
  { s with o := es.foldl (obsStep s.cfg) s.o, evs := es.reverse ++ s.evs }

def judgeStep (s : JudgeSt) (op out : String) : JudgeSt :=
  if s.bad.isSome || out == "bad-op" then s else
  let ows := words out
  let fail (m : String) : JudgeSt := { s with bad := some (m ++ ":" ++ pctEnc op ++ ":" ++ pctEnc out) }
  /- the implementation's own count bookkeeping must agree with the observed phases -/
  let checkC (s' : JudgeSt) : JudgeSt :=
    match kv ows "c" with
    | some c => if c == fmtCounts s'.o.reqs then s' else
        { s' with bad := some ("counts-mismatch:" ++ pctEnc op ++ ":" ++ pctEnc out ++ ":expected=" ++ fmtCounts s'.o.reqs) }
    | none => { s' with bad := some ("no-counts:" ++ pctEnc out) }
  match words op with
  | "cfg" :: ws =>
    match parseCfg ws with
    | some (cfg, t0) => if out == "ok" then { s with cfg := cfg, t0 := t0, o := Obs.init cfg t0, evs := [] } else fail "cfg-refused"
    | none => fail "unparsable-cfg"
  | "tick" :: ws =>
    match kvNat ws "d", kvNat ows "now" with
    | some d, some n => if n = s.o.now + d then checkC (s.push [.tick d]) else fail "clock"
    | _, _ => fail "unparsable"
  | "enq" :: ws =>
    match kvNat ws "r", kvNat ws "p", kvNat ws "ttl", ows.head?, (kv ows "rel").bind parseIds with
    | some r, some p, some ttl, some a, some rel =>
      if r ≠ s.o.reqs.length then fail "bad-request-id" else
      let fin := (rel.filter (fun x => (phaseOf s.o.reqs x).isParked)).map (fun x => Ev.finish x true)
      if a == "pass" then checkC (s.push (.enq p ttl .pass rel :: fin))
      else if a == "full" then checkC (s.push (.enq p ttl .full rel :: fin))
      else if a == "push" then checkC (s.push (.enq p ttl .push rel :: fin))
      else fail "unparsable"
    | _, _, _, _, _ => fail "unparsable"
  | "park" :: ws =>
    match kvNat ws "r", ows.head? with
    | some r, some a =>
      if a == "not-enabled" then checkC s
      else if a == "released" then checkC (s.push [.park r, .finish r true])
      else if a == "ttl0" then
        if (getReq s.o.reqs r).ttl = 0 then checkC (s.push [.park r, .expire r, .finish r false]) else fail "ttl0-with-positive-ttl"
      else if a == "parked" then
        match kvNat ows "dl" with
        | some dl => if dl = s.o.now + (getReq s.o.reqs r).ttl then checkC (s.push [.park r]) else fail "deadline"
        | none => fail "unparsable"
      else fail "unparsable"
    | _, _ => fail "unparsable"
  | ["roll"] =>
    match ows.head? with
    | some a =>
      if a == "not-enabled" then checkC s else
      match (kv ows "rel").bind parseIds with
      | some rel => checkC (s.push (.roll rel ::
          (rel.filter (fun x => (phaseOf s.o.reqs x).isParked)).map (fun r => .finish r true)))
      | none => fail "unparsable"
    | none => fail "unparsable"
  | ["rollx", rw] =>
    match kvNat [rw] "r", ows.head?, (kv ows "rel").bind parseIds, kv ows "ret" with
    | some r, some a, rel?, ret? =>
      if a == "not-enabled" then checkC s else
      match rel?, ret? with
      | some rel, some ret =>
        let s1 := s.push [.expire r]
        let others := (rel.filter (fun x => x != r && (phaseOf s1.o.reqs x).isParked)).map (fun x => Ev.finish x true)
        checkC (s1.push (.roll rel :: .finish r (ret == "true") :: others))
      | _, _ => fail "unparsable"
    | _, _, _, _ => fail "unparsable"
  | "expire" :: ws =>
    match kvNat ws "r", ows.head? with
    | some r, some a =>
      if a == "not-enabled" then checkC s
      else if a == "expired" then checkC (s.push [.expire r, .finish r false])
      else fail "unparsable"
    | _, _ => fail "unparsable"
  | _ => fail "unknown-op"

def fmtEv : Ev → String
  | .tick d => s!"tick({d})"
  | .enq p ttl .pass rel => s!"enq(p={p},ttl={ttl})=pass,rel={fmtIds rel}"
  | .enq p ttl .full rel => s!"enq(p={p},ttl={ttl})=full,rel={fmtIds rel}"
  | .enq p ttl .push rel => s!"enq(p={p},ttl={ttl})=push,rel={fmtIds rel}"
  | .park r => s!"park({r})"
  | .roll rel => s!"roll(rel={fmtIds rel})"
  | .expire r => s!"expire({r})"
  | .finish r ok => s!"finish({r},{ok})"

/-! ### judge, plugin level: one observer per remedy key -/

structure KJ where
  key : Nat
  cfg : Cfg
  t0 : Nat
  o : Obs
  evs : List Ev := []      -- most recent first
  gids : List Nat := []

structure PJ where
  cfg : Cfg
  ttl : Nat
  now : Nat
  keys : List KJ := []
  arrivals : List Nat := []
  decls : List Decl := []
  accepted : Bool := false

def KJ.push (cfg : Cfg) (k : KJ) (es : List Ev) : KJ :=
  { k with o := es.foldl (obsStep cfg) k.o, evs := es.reverse ++ k.evs }

/-- bring the key's observer clock to instant `t` -/
def KJ.at (cfg : Cfg) (k : KJ) (t : Nat) : KJ :=
  if k.o.now < t then k.push cfg [.tick (t - k.o.now)] else k

def setKJ (ks : List KJ) (k : KJ) : List KJ :=
  if ks.any (·.key == k.key) then ks.map (fun x => if x.key == k.key then k else x) else ks ++ [k]

def parseSpan (s : String) : Option (Nat × Nat) :=
  match s.splitOn ".." with
  | [a, b] => do pure (← a.toNat?, ← b.toNat?)
  | _ => none

/-- `gid:noop` items → global ids -/
def parseDone (s : String) (sep : String) : Option (List Nat) :=
  if s == "-" then some [] else
  (s.splitOn sep).mapM fun it => match it.splitOn ":" with
    | [g, "noop"] => g.toNat?
    | _ => none

def finishEvs (k : KJ) (rel : List Nat) : List Ev :=
  (rel.filter (fun x => (phaseOf k.o.reqs x).isParked)).map (fun x => Ev.finish x true)

def jReq (p : PJ) (id prio ck : Nat) (kcfg : Cfg) (ttl : Nat) (a : String) (done : List Nat) (c out : String) :
    Except String PJ :=
  let k0 : KJ := (p.keys.find? (·.key == ck)).getD ⟨ck, kcfg, p.now, Obs.init kcfg p.now, [], []⟩
  let k := k0.at kcfg p.now
  match done.mapM (fun g => k.gids.idxOf? g) with
  | none => .error s!"released-request-of-another-queue-key:{pctEnc out}"
  | some rel =>
    let r := k.o.reqs.length
    let fin := finishEvs k rel
    let res : Option (List Ev) :=
      if a == "noop" then some (.enq prio ttl .pass rel :: fin)
      else if a == "early:429" then
        if ttl = 0 then some (.enq prio ttl .push rel :: fin ++ [.park r, .expire r, .finish r false])
        else some (.enq prio ttl .full rel :: fin)
      else if a == "waiting" then some (.enq prio ttl .push rel :: fin ++ [.park r])
      else none
    match res with
    | none => .error s!"unparsable:{pctEnc out}"
    | some es =>
      let k' := { (k.push kcfg es) with gids := k.gids ++ [id] }
      if c != fmtCounts k'.o.reqs then .error s!"counts-mismatch:{pctEnc out}:expected={fmtCounts k'.o.reqs}"
      else .ok { p with keys := setKJ p.keys k', arrivals := p.arrivals ++ [id] }

def pjStep (p : PJ) (op out : String) : Except String PJ :=
  let ows := words out
  match words op with
  | "pburst" :: ws =>
    if (kv ows "stuck-in-round").isSome then
      .error s!"queue-stopped-answering-requests-stranded-for-ever:{pctEnc out}" else
    match kvNat ws "k", (kv ows "created").bind parseSpan, (kv ows "pass").bind parseSpan,
          (kv ows "wait").bind parseSpan, (kv ows "rej").bind parseSpan, (kv ows "other").bind parseSpan with
    | some k, some c, some pa, some w, some r, some ot =>
      if c.2 > 1 || pa.2 > p.cfg.quota || w.2 > p.cfg.size then
        .error s!"burst-violates-one-queue-per-key-or-its-bounds:{pctEnc out}"
      else if c.1 ≠ c.2 || pa.1 ≠ pa.2 || w.1 ≠ w.2 || r.1 ≠ r.2 || ot ≠ (0, 0) then
        .error s!"burst-rounds-disagree:{pctEnc out}"
      else if burstOk p.cfg k c.1 pa.1 w.1 r.1 then .ok p
      else .error s!"burst-violates-one-queue-per-key-or-its-bounds:{pctEnc out}"
    | _, _, _, _, _, _ => .error s!"unparsable:{pctEnc out}"
  | "preq" :: ws =>
    match kvNat ws "id", kvNat ws "key", kvNat ws "p", ows.head?, (kv ows "done").bind (parseDone · ","), kv ows "c" with
    | some id, some key, some prio, some a, some done, some c =>
      match keyOfReq p.cfg ws key with
      | none => .error s!"unparsable:{pctEnc op}"
      | some (ck, kcfg) => jReq p id prio ck kcfg p.ttl a done c out
    | _, _, _, _, _, _ => .error s!"unparsable:{pctEnc out}"
  | "ptick" :: ws =>
    match kvNat ws "d", kvNat ows "now", kv ows "ev" with
    | some d, some n, some ev =>
      if n ≠ p.now + d then .error "clock" else
      let items := if ev == "-" then [] else ev.splitOn ";"
      let go (acc : Except String PJ) (it : String) : Except String PJ := do
        let p ← acc
        match it.splitOn "@" with
        | [hd, rest] =>
          match rest.splitOn ":" with
          | tstr :: tl =>
            let some t := tstr.toNat? | .error s!"unparsable:{pctEnc it}"
            let body := ":".intercalate tl
            if hd.startsWith "r" then
              let some key := (hd.drop 1).toString.toNat? | .error s!"unparsable:{pctEnc it}"
              let some k0 := p.keys.find? (·.key == key) | .error s!"roll-over-of-unknown-key:{pctEnc it}"
              let some done := parseDone body "+" | .error s!"unparsable:{pctEnc it}"
              let k := k0.at k0.cfg t
              let some rel := done.mapM (fun g => k.gids.idxOf? g) | .error s!"released-request-of-another-queue-key:{pctEnc it}"
              .ok { p with keys := setKJ p.keys (k.push k.cfg (.roll rel :: finishEvs k rel)) }
            else if hd.startsWith "x" then
              let some g := (hd.drop 1).toString.toNat? | .error s!"unparsable:{pctEnc it}"
              let some k0 := p.keys.find? (fun k => k.gids.contains g) | .error s!"expiry-of-unknown-request:{pctEnc it}"
              let some r := k0.gids.idxOf? g | .error "impossible"
              if body != "early:429" then .error s!"expired-request-not-refused:{pctEnc it}" else
              let k := k0.at k0.cfg t
              .ok { p with keys := setKJ p.keys (k.push k.cfg [.expire r, .finish r false]) }
            else .error s!"unparsable:{pctEnc it}"
          | [] => .error s!"unparsable:{pctEnc it}"
        | _ => .error s!"unparsable:{pctEnc it}"
      match items.foldl go (.ok p) with
      | .ok p' => .ok { p' with now := n }
      | .error e => .error e
    | _, _, _ => .error s!"unparsable:{pctEnc out}"
  | "frem" :: ws =>
    match parseDecl ws with
    | some d => if out == "ok" then .ok { p with decls := p.decls ++ [d] } else .error s!"unparsable:{pctEnc out}"
    | none => .error s!"unparsable:{pctEnc op}"
  | ["fload"] =>
    let dup := !(decide (p.decls.map (·.name)).Nodup)
    if ows.head? == some "accepted" then
      if dup then .error "policies-file-with-the-same-remedy-name-twice-was-accepted"
      else .ok { p with accepted := true }
    else if out == "refused:duplicate-names" then
      if dup then .ok p else .error "policies-file-refused-for-duplicate-names-it-does-not-have"
    else if out == "refused:other" then .ok p
    else .error s!"unparsable:{pctEnc out}"
  | "freq" :: ws =>
    match kvNat ws "id", kvNat ws "rem", kvNat ws "p", ows.head?, (kv ows "done").bind (parseDone · ","), kv ows "c" with
    | some id, some j, some prio, some a, some done, some c =>
      match p.decls[j]? with
      | none => .error s!"request-for-undeclared-remedy:{pctEnc op}"
      | some d => jReq p id prio j ⟨d.quota, d.winsec * 1000000000, d.size⟩ (d.ttlsec * 1000000000) a done c out
    | _, _, _, _, _, _ => .error s!"unparsable:{pctEnc out}"
  | "rclock" :: _ =>
    if out == "strictly-increasing" then .ok p
    else .error s!"production-clock-readings-tie:{pctEnc out}"
  | "rafter" :: _ =>
    if out == "delivered" then .ok p
    else .error s!"production-clock-After-did-not-deliver:{pctEnc out}"
  | "rstep" :: _ =>
    if out == "waiter=released" then .ok p
    else .error s!"waiter-whose-turn-came-was-not-released-after-a-clock-step:{pctEnc out}"
  | "rburst" :: ws =>
    match (kv ws "prios").bind parsePrios, (kv ows "order").bind (fun o => (o.splitOn ",").mapM String.toNat?) with
    | some prios, some order =>
      if burstOrderOk prios order then .ok p
      else .error s!"release-order-violated-under-the-production-clock:{pctEnc out}"
    | _, _ => .error s!"unparsable:{pctEnc out}"
  | _ => .error "unknown-op"

def pjFinish (p : PJ) : String :=
  match p.keys.find? (fun k => !(holds k.cfg k.t0 k.evs.reverse)) with
  | none => "ok"
  | some k =>
    let es := k.evs.reverse
    match firstFail k.cfg (Obs.init k.cfg k.t0) es 0 with
    | some (fid, i, what) =>
      let e := match es[i]? with | some e => fmtEv e | none => "?"
      s!"fail {fid} key-{k.key}:{what}-violated-at-event-{i}:{e}"
    | none => s!"fail - key-{k.key}:spec-violated"

def judgeFinish (s : JudgeSt) : String :=
  match s.bad with
  | some b => s!"fail - {b}"
  | none =>
    let es := s.evs.reverse
    if holds s.cfg s.t0 es then "ok" else
    match firstFail s.cfg (Obs.init s.cfg s.t0) es 0 with
    | some (fid, i, what) =>
      let e := match es[i]? with | some e => fmtEv e | none => "?"
      s!"fail {fid} {what}-violated-at-event-{i}:{e}"
    | none => "fail - spec-violated"

structure JTop where
  base : JudgeSt := {}
  pj : Option PJ := none
  bad : Option String := none

def jtopStep (s : JTop) (op out : String) : JTop :=
  if s.bad.isSome || out == "bad-op" then s else
  match words op with
  | "pcfg" :: ws =>
    match parsePCfg ws with
    | some (cfg, ttl, t0) =>
      if out == "ok" then { s with pj := some { cfg := cfg, ttl := ttl, now := t0 } }
      else { s with bad := some "cfg-refused" }
    | none => { s with bad := some "unparsable-cfg" }
  | "fcfg" :: ws =>
    match kvNat ws "t0" with
    | some t0 => if out == "ok" then { s with pj := some { cfg := ⟨1, 1, 1⟩, ttl := 0, now := t0 } }
                 else { s with bad := some "cfg-refused" }
    | none => { s with bad := some "unparsable-cfg" }
  | ["rcfg"] =>
    if out == "ok" then { s with pj := some { cfg := ⟨1, 1, 1⟩, ttl := 0, now := 0 } } else { s with bad := some "cfg-refused" }
  | _ =>
    match s.pj with
    | some p =>
      match pjStep p op out with
      | .ok p' => { s with pj := some p' }
      | .error e => { s with bad := some (e ++ ":" ++ pctEnc op) }
    | none => { s with base := judgeStep s.base op out }

def jtopFinish (s : JTop) : String :=
  match s.bad with
  | some b => s!"fail - {b}"
  | none =>
    match s.pj with
    | some p => pjFinish p
    | none => judgeFinish s.base

def main (args : List String) : IO Unit :=
  match args with
  | ["run"] => runLoop runStep {}
  | ["judge"] => judgeLoop ({} : JTop) jtopStep jtopFinish
  | _ => IO.eprintln "usage: lvdriver_c10 run|judge"
