import LunarVerif.Base.Proto
import LunarVerif.Spec.C10
/-! Driver for C10: `lvdriver_c10 run` (model answers) / `lvdriver_c10 judge` (Spec on impl answers).

Ops (one schedule step each; the harness performs the same step on the real queue):
  cfg quota=Q win=W size=S t0=T      fresh queue at instant T
  tick d=D                           clock moves by D (no timer fires by itself)
  enq r=R p=P ttl=L                  request R (= number of earlier enq ops) runs Enqueue up to the unlock
  park r=R                           R enters the select   (ttl = 0: the TTL case is taken at once)
  roll                               the roll-over goroutine's timer fires (if due); released waiters return
  expire r=R                         R's TTL timer fires (if parked and due); R returns false
Every answer ends with the observables ` tte=<windowEnd-now> c=<prio:count,...|->`.
-/
open LunarVerif LunarVerif.Proto LunarVerif.C10

def insertSorted (x : Nat) : List Nat → List Nat
  | [] => [x]
  | y :: ys => if x < y then x :: y :: ys else if x = y then y :: ys else y :: insertSorted x ys

def sortDedup (xs : List Nat) : List Nat := xs.foldl (fun acc x => insertSorted x acc) []

def fmtIds (xs : List Nat) : String :=
  if xs.isEmpty then "-" else ",".intercalate ((sortDedup xs).map toString)

def fmtCounts (reqs : List Req) : String :=
  let ps := sortDedup (reqs.map (·.prio))
  let items := ps.filterMap fun p => let n := countOf reqs p; if n = 0 then none else some s!"{p}:{n}"
  if items.isEmpty then "-" else ",".intercalate items

structure RunSt where
  cfg : Cfg := ⟨0, 1, 0⟩
  s : State := init ⟨0, 1, 0⟩ 0
  ready : Bool := false

def obsSuffix (cfg : Cfg) (s : State) : String :=
  let tte : Int := ((s.widx + 1) * cfg.win : Nat) - (s.now : Int)
  s!" tte={tte} c={fmtCounts s.reqs}"

def parseCfg (ws : List String) : Option (Cfg × Nat) := do
  let q ← kvNat ws "quota"
  let w ← kvNat ws "win"
  let sz ← kvNat ws "size"
  let t0 ← kvNat ws "t0"
  if w = 0 then none else pure (⟨q, w, sz⟩, t0)

/-- apply labels in sequence (all must be enabled) -/
def applyAll (cfg : Cfg) (s : State) : List Label → Option State
  | [] => some s
  | l :: ls => match step cfg s l with
    | some (s', _) => applyAll cfg s' ls
    | none => none

def runStep (st : RunSt) (line : String) : RunSt × String :=
  let ans (s' : State) (a : String) : RunSt × String := ({ st with s := s' }, a ++ obsSuffix st.cfg s')
  match words line with
  | ["case", id] => ({}, s!"case {id}")
  | "cfg" :: ws =>
    match parseCfg ws with
    | some (cfg, t0) => ({ cfg := cfg, s := init cfg t0, ready := true }, "ok")
    | none => (st, "bad-op")
  | op :: ws =>
    if !st.ready then (st, "bad-op") else
    let s := st.s
    match op with
    | "tick" =>
      match kvNat ws "d" with
      | some d => match step st.cfg s (.tick d) with
        | some (s', _) => ans s' s!"now={s'.now}"
        | none => ans s "not-enabled"
      | none => (st, "bad-op")
    | "enq" =>
      match kvNat ws "r", kvNat ws "p", kvNat ws "ttl" with
      | some r, some p, some ttl =>
        if r ≠ s.reqs.length then (st, "bad-op") else
        match step st.cfg s (.enq p ttl) with
        | some (s', .enq _ _ .pass) => ans s' "pass"
        | some (s', .enq _ _ .full) => ans s' "full"
        | some (s', .enq _ _ .push) => ans s' "push"
        | _ => ans s "not-enabled"
      | _, _, _ => (st, "bad-op")
    | "park" =>
      match kvNat ws "r" with
      | some r =>
        match step st.cfg s (.park r) with
        | some (s', _) =>
          if (getReq s.reqs r).ttl = 0 then
            match applyAll st.cfg s' [.expire r, .finish r] with
            | some s'' => ans s'' "ttl0"
            | none => ans s' "model-error"
          else ans s' s!"parked dl={s.now + (getReq s.reqs r).ttl}"
        | none => ans s "not-enabled"
      | none => (st, "bad-op")
    | "roll" =>
      if !ws.isEmpty then (st, "bad-op") else
      match step st.cfg s .roll with
      | some (s', .roll rel) =>
        match applyAll st.cfg s' (rel.map .finish) with
        | some s'' => ans s'' s!"rel={fmtIds rel}"
        | none => ans s' "model-error"
      | _ => ans s "not-enabled"
    | "expire" =>
      match kvNat ws "r" with
      | some r =>
        match applyAll st.cfg s [.expire r, .finish r] with
        | some s' => ans s' "expired"
        | none => ans s "not-enabled"
      | none => (st, "bad-op")
    | _ => (st, "bad-op")
  | [] => (st, "bad-op")

/-! ### judge -/

structure JudgeSt where
  cfg : Cfg := ⟨0, 1, 0⟩
  t0 : Nat := 0
  o : Obs := Obs.init ⟨0, 1, 0⟩ 0
  evs : List Ev := []        -- most recent first
  bad : Option String := none

def parseIds (s : String) : Option (List Nat) :=
  if s == "-" then some [] else (s.splitOn ",").mapM String.toNat?

def JudgeSt.push (s : JudgeSt) (es : List Ev) : JudgeSt :=
  { s with o := es.foldl (obsStep s.cfg) s.o, evs := es.reverse ++ s.evs }

def judgeStep (s : JudgeSt) (op out : String) : JudgeSt :=
  if s.bad.isSome || out == "bad-op" then s else
  let ows := words out
  let fail (m : String) : JudgeSt := { s with bad := some (m ++ ":" ++ pctEnc op ++ ":" ++ pctEnc out) }
  /- the implementation's own count bookkeeping must agree with the observed phases -/
  let checkC (s' : JudgeSt) : JudgeSt :=
    match kv ows "c" with
    | some c => if c == fmtCounts s'.o.reqs then s' else
        { s' with bad := some ("counts-mismatch:" ++ pctEnc op ++ ":" ++ pctEnc out ++ ":expected=" ++ fmtCounts s'.o.reqs) }
    | none => { s' with bad := some ("no-counts:" ++ pctEnc out) }
  match words op with
  | "cfg" :: ws =>
    match parseCfg ws with
    | some (cfg, t0) => if out == "ok" then { s with cfg := cfg, t0 := t0, o := Obs.init cfg t0, evs := [] } else fail "cfg-refused"
    | none => fail "unparsable-cfg"
  | "tick" :: ws =>
    match kvNat ws "d", kvNat ows "now" with
    | some d, some n => if n = s.o.now + d then checkC (s.push [.tick d]) else fail "clock"
    | _, _ => fail "unparsable"
  | "enq" :: ws =>
    match kvNat ws "r", kvNat ws "p", kvNat ws "ttl", ows.head? with
    | some r, some p, some ttl, some a =>
      if r ≠ s.o.reqs.length then fail "bad-request-id" else
      if a == "pass" then checkC (s.push [.enq p ttl .pass])
      else if a == "full" then checkC (s.push [.enq p ttl .full])
      else if a == "push" then checkC (s.push [.enq p ttl .push])
      else fail "unparsable"
    | _, _, _, _ => fail "unparsable"
  | "park" :: ws =>
    match kvNat ws "r", ows.head? with
    | some r, some a =>
      if a == "not-enabled" then checkC s
      else if a == "ttl0" then
        if (getReq s.o.reqs r).ttl = 0 then checkC (s.push [.park r, .expire r, .finish r false]) else fail "ttl0-with-positive-ttl"
      else if a == "parked" then
        match kvNat ows "dl" with
        | some dl => if dl = s.o.now + (getReq s.o.reqs r).ttl then checkC (s.push [.park r]) else fail "deadline"
        | none => fail "unparsable"
      else fail "unparsable"
    | _, _ => fail "unparsable"
  | ["roll"] =>
    match ows.head? with
    | some a =>
      if a == "not-enabled" then checkC s else
      match (kv ows "rel").bind parseIds with
      | some rel => checkC (s.push (.roll rel :: rel.map (fun r => .finish r true)))
      | none => fail "unparsable"
    | none => fail "unparsable"
  | "expire" :: ws =>
    match kvNat ws "r", ows.head? with
    | some r, some a =>
      if a == "not-enabled" then checkC s
      else if a == "expired" then checkC (s.push [.expire r, .finish r false])
      else fail "unparsable"
    | _, _ => fail "unparsable"
  | _ => fail "unknown-op"

def fmtEv : Ev → String
  | .tick d => s!"tick({d})"
  | .enq p ttl .pass => s!"enq(p={p},ttl={ttl})=pass"
  | .enq p ttl .full => s!"enq(p={p},ttl={ttl})=full"
  | .enq p ttl .push => s!"enq(p={p},ttl={ttl})=push"
  | .park r => s!"park({r})"
  | .roll rel => s!"roll(rel={fmtIds rel})"
  | .expire r => s!"expire({r})"
  | .finish r ok => s!"finish({r},{ok})"

def judgeFinish (s : JudgeSt) : String :=
  match s.bad with
  | some b => s!"fail - {b}"
  | none =>
    let es := s.evs.reverse
    if holds s.cfg s.t0 es then "ok" else
    match firstFail s.cfg (Obs.init s.cfg s.t0) es 0 false with
    | some (fid, i, what) =>
      let e := match es[i]? with | some e => fmtEv e | none => "?"
      s!"fail {fid} {what}-violated-at-event-{i}:{e}"
    | none => "fail - spec-violated"

def main (args : List String) : IO Unit :=
  match args with
  | ["run"] => runLoop runStep {}
  | ["judge"] => judgeLoop ({} : JudgeSt) judgeStep judgeFinish
  | _ => IO.eprintln "usage: lvdriver_c10 run|judge"
