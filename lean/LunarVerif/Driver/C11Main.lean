import LunarVerif.Base.Proto
import LunarVerif.Spec.C11
import LunarVerif.Spec.C11Glue
/-! Driver for C11: `lvdriver_c11 run` (model outputs) / `lvdriver_c11 judge` (Spec on impl outputs).

Op lines (answers):
  cfg pinttl=<ns> verttl=<ns> tick=<ns> d0=<label>   → ok
  lookup x=<txn>                                     → data=<label|none> t=<ns>
  lookupu x=<txn> d=<label>                          → data=<label|none> t=<ns> upd=<during|after>
      (a lookup with an applied update landing while the transaction is being anchored, else right after it)
  update d=<label> ok=<0|1>                          → ok t=<ns> | err:haproxy
  advance d=<ns>                                     → t=<ns>
  stat                                               → pins=<n> vers=<n> pinq=<n> verq=<n>
Level 2 (glue) cases start with `gcfg`:
  gcfg d0=<label>                                    → ok
  req id=<n> seq=<n>                                 → ver=<label|none>
  resp id=<n> seq=<n> status=<n>                     → retry=<seconds|none>
  reload d=<label> ok=<0|1>                          → ok | err:rejected
  revert kind=<last|free>                            → ok
  stall | unstall                                    → ok   (scheduling of the real worker only)
  diag                                               → diag=<id>:<label mod 10>,…|none  (records since the last diag, by id)
-/
open LunarVerif LunarVerif.Proto LunarVerif.C11

structure RunSt where
  ready : Bool := false
  cfg : Cfg := ⟨0, 0, 0⟩
  st : St := init ⟨0, 0, 0⟩ 0
  sch : Sched := { tick := 0 }
  g : Option GSt := none

def applyOps (cfg : Cfg) (s : St) (ops : List Op) : St := runSt cfg s ops

def fmtData : Option Nat → String
  | some d => toString d
  | none => "none"

/-- stable insertion sort of diagnosis records by transaction number -/
def insertSorted (recs : List (Nat × Option Nat)) : List (Nat × Option Nat) :=
  let ins (acc : List (Nat × Option Nat)) (x : Nat × Option Nat) : List (Nat × Option Nat) :=
    let (le, gt) := acc.span (fun y => y.1 ≤ x.1)
    le ++ x :: gt
  recs.foldl ins []

/-- `GetTxnPoliciesData(x)` with the harness schedule (a fresh pin calls VacuumKey; the first one starts
    the goroutine, which vacuums at once). -/
def doLookup (s : RunSt) (x : Nat) : RunSt × String × Bool :=
  let fresh := (mfind x s.st.pins).isNone
  let (st1, ev) := step s.cfg s.st (.lookup x)
  let (st2, sch2) :=
    if fresh && s.sch.pinWake.isNone then
      ((step s.cfg st1 .vacPins).1, { s.sch with pinWake := some (st1.now + s.sch.tick) })
    else (st1, s.sch)
  let out := match ev with
    | some (.lookup t _ r) => s!"data={fmtData r} t={t}"
    | _ => "internal-error"
  ({ s with st := st2, sch := sch2 }, out, fresh)

/-- An applied `UpdatePoliciesData(d)` with the harness schedule. -/
def doUpdate (s : RunSt) (d : Nat) : RunSt × String :=
  let (st1, _) := step s.cfg s.st (.update d true)
  let (st2, sch2) :=
    if s.sch.verWake.isNone then
      ((step s.cfg st1 .vacVers).1, { s.sch with verWake := some (st1.now + s.sch.tick) })
    else (st1, s.sch)
  ({ s with st := st2, sch := sch2 }, s!"ok t={st1.now}")

def runStep (s : RunSt) (line : String) : RunSt × String :=
  match words line with
  | ["lookupu", w1, w2] =>
    -- an update that completes while transaction x is being anchored (after the anchor is written and the
    -- lock released, before the lookup returns): linearised as the lookup followed by the update
    -- (Properties.C11.anchored_read_survives_reload: the anchored version's data is unaffected)
    match kvNat [w1] "x", kvNat [w2] "d" with
    | some x, some d =>
      if !s.ready then (s, "bad-op") else
      let (s1, out, fresh) := doLookup s x
      let (s2, _) := doUpdate s1 d
      (s2, out ++ (if fresh then " upd=during" else " upd=after"))
    | _, _ => (s, "bad-op")
  | ["case", id] => ({}, s!"case {id}")
  | "cfg" :: ws =>
    match kvNat ws "pinttl", kvNat ws "verttl", kvNat ws "tick", kvNat ws "d0" with
    | some p, some v, some tk, some d0 =>
      if tk == 0 then (s, "bad-op") else
      let cfg : Cfg := ⟨p, v, d0⟩
      ({ ready := true, cfg := cfg, st := init cfg 0, sch := { tick := tk } }, "ok")
    | _, _, _, _ => (s, "bad-op")
  | ["lookup", w] =>
    match kvNat [w] "x" with
    | some x =>
      if !s.ready then (s, "bad-op") else
      let (s1, out, _) := doLookup s x
      (s1, out)
    | none => (s, "bad-op")
  | ["update", w1, w2] =>
    match kvNat [w1] "d", kvNat [w2] "ok" with
    | some d, some okn =>
      if !s.ready || okn > 1 then (s, "bad-op") else
      if okn == 0 then (s, "err:haproxy") else
      doUpdate s d
    | _, _ => (s, "bad-op")
  | ["advance", w] =>
    match kvNat [w] "d" with
    | some d =>
      if !s.ready then (s, "bad-op") else
      let target := s.st.now + d
      let fuel := 2 * (d / s.sch.tick) + 4
      let (ops, pw, vw) := advanceOps s.sch.tick fuel s.st.now target s.sch.pinWake s.sch.verWake
      let st1 := applyOps s.cfg s.st ops
      ({ s with st := st1, sch := { s.sch with pinWake := pw, verWake := vw } }, s!"t={st1.now}")
    | none => (s, "bad-op")
  | ["stat"] =>
    if !s.ready then (s, "bad-op") else
    (s, s!"pins={s.st.pins.length} vers={s.st.versions.length} pinq={s.st.pinQ.length} verq={s.st.verQ.length}")
  | ["gcfg", w] =>
    match kvNat [w] "d0" with
    | some d0 =>
      if d0 ≥ 1000 then (s, "bad-op") else
      let cfg : Cfg := ⟨30000000000, 30000000000, d0⟩
      ({ ready := false, cfg := cfg, g := some (ginit cfg 0) }, "ok")
    | none => (s, "bad-op")
  | ["req", w1, w2] =>
    match s.g, kvNat [w1] "id", kvNat [w2] "seq" with
    | some g, some id, some seq =>
      let (g', ev) := gstep s.cfg g (.req id seq)
      let out := match ev with
        | [.req _ _ r] => s!"ver={fmtData r}"
        | _ => "internal-error"
      ({ s with g := some g' }, out)
    | _, _, _ => (s, "bad-op")
  | ["resp", w1, w2, w3] =>
    match s.g, kvNat [w1] "id", kvNat [w2] "seq", kvNat [w3] "status" with
    | some g, some id, some seq, some st =>
      if st ≥ 1000 then (s, "bad-op") else
      let (g', ev) := gstep s.cfg g (.resp id seq st)
      let out := match ev with
        | [.resp _ _ _ r] => s!"retry={fmtData r}"
        | _ => "internal-error"
      ({ s with g := some g' }, out)
    | _, _, _, _ => (s, "bad-op")
  | ["reload", w1, w2] =>
    match s.g, kvNat [w1] "d", kvNat [w2] "ok" with
    | some g, some d, some okn =>
      if okn > 1 || d ≥ 1000 then (s, "bad-op") else
      ({ s with g := some (gstep s.cfg g (.reload d (okn == 1))).1 }, if okn == 1 then "ok" else "err:rejected")
    | _, _, _ => (s, "bad-op")
  | ["revert", w] =>
    match s.g, kv [w] "kind" with
    | some g, some kind =>
      if kind == "last" || kind == "free" then
        ({ s with g := some (gstep s.cfg g (.revert (kind == "free"))).1 }, "ok")
      else (s, "bad-op")
    | _, _ => (s, "bad-op")
  | ["stall"] => if s.g.isSome then (s, "ok") else (s, "bad-op")
  | ["unstall"] => if s.g.isSome then (s, "ok") else (s, "bad-op")
  | ["diag"] =>
    match s.g with
    | some g =>
      let (g', evs) := gstep s.cfg g .diag
      let recs := evs.filterMap fun e => match e with
        | .diag id r => some (id, r)
        | _ => none
      let sorted := insertSorted recs
      let out := if sorted.isEmpty then "diag=none"
        else "diag=" ++ ",".intercalate (sorted.map fun (id, r) => s!"{id}:{fmtData r}")
      ({ s with g := some g' }, out)
    | none => (s, "bad-op")
  | _ => (s, "bad-op")

structure JudgeSt where
  cfg : Option Cfg := none
  hist : List Ev := []   -- most recent first
  bad : Option String := none
  gd0 : Option Nat := none
  gloaded : Nat := 0       -- label of the last applied reload (what a revert re-applies)
  ghist : List GEv := []   -- most recent first

def parseData (s : String) : Option (Option Nat) :=
  if s == "none" then some none else (s.toNat?).map some

def judgeStep (s : JudgeSt) (op out : String) : JudgeSt :=
  if out == "bad-op" then s else
  match words op with
  | "cfg" :: ws =>
    match kvNat ws "pinttl", kvNat ws "verttl", kvNat ws "d0" with
    | some p, some v, some d0 => { s with cfg := some ⟨p, v, d0⟩ }
    | _, _, _ => { s with bad := some "unparsable-cfg" }
  | ["lookup", w] =>
    let ows := words out
    match kvNat [w] "x", (kv ows "data").bind parseData, kvNat ows "t" with
    | some x, some r, some t => { s with hist := .lookup t x r :: s.hist }
    | _, _, _ => { s with bad := some ("unparsable-output:" ++ pctEnc out) }
  | ["lookupu", w1, w2] =>
    let ows := words out
    match kvNat [w1] "x", kvNat [w2] "d", (kv ows "data").bind parseData, kvNat ows "t" with
    | some x, some d, some r, some t => { s with hist := .update t d :: .lookup t x r :: s.hist }
    | _, _, _, _ => { s with bad := some ("unparsable-output:" ++ pctEnc out) }
  | ["update", w1, _] =>
    let ows := words out
    if out == "err:haproxy" then s else
    match kvNat [w1] "d", ows.head?, kvNat ows "t" with
    | some d, some "ok", some t => { s with hist := .update t d :: s.hist }
    | _, _, _ => { s with bad := some ("unparsable-output:" ++ pctEnc out) }
  | ["gcfg", w] =>
    match kvNat [w] "d0" with
    | some d0 => if out == "ok" then { s with gd0 := some d0, gloaded := d0 } else { s with bad := some ("gcfg-failed:" ++ pctEnc out) }
    | none => { s with bad := some "unparsable-gcfg" }
  | ["req", w1, w2] =>
    match kvNat [w1] "id", kvNat [w2] "seq", (kv (words out) "ver").bind parseData with
    | some id, some seq, some r => { s with ghist := .req id seq r :: s.ghist }
    | _, _, _ => { s with bad := some ("unparsable-output:" ++ pctEnc out) }
  | ["resp", w1, w2, w3] =>
    match kvNat [w1] "id", kvNat [w2] "seq", kvNat [w3] "status", (kv (words out) "retry").bind parseData with
    | some id, some seq, some st, some r => { s with ghist := .resp id seq st r :: s.ghist }
    | _, _, _, _ => { s with bad := some ("unparsable-output:" ++ pctEnc out) }
  | ["reload", w1, _] =>
    if out == "err:rejected" then s else
    match kvNat [w1] "d" with
    | some d => if out == "ok" then { s with ghist := .reload d :: s.ghist, gloaded := d }
                else { s with bad := some ("unparsable-output:" ++ pctEnc out) }
    | none => { s with bad := some "unparsable-reload" }
  | ["revert", w] =>
    if out != "ok" then { s with bad := some ("revert-failed:" ++ pctEnc out) } else
    match kv [w] "kind" with
    | some "last" => { s with ghist := .reload s.gloaded :: s.ghist }
    | some "free" => { s with ghist := .reload (s.gloaded + 1000) :: s.ghist }
    | _ => { s with bad := some "unparsable-revert" }
  | ["diag"] =>
    match kv (words out) "diag" with
    | some "none" => s
    | some lst =>
      let parsed := (lst.splitOn ",").map fun item =>
        match item.splitOn ":" with
        | [a, b] => match a.toNat?, parseData b with
          | some id, some r => some (GEv.diag id r)
          | _, _ => none
        | _ => none
      if parsed.all Option.isSome then { s with ghist := (parsed.filterMap id).reverse ++ s.ghist }
      else { s with bad := some ("unparsable-output:" ++ pctEnc out) }
    | none => { s with bad := some ("unparsable-output:" ++ pctEnc out) }
  | _ => s

def fmtGEv : GEv → String
  | .req id seq r => s!"req id={id} seq={seq} ver={fmtData r}"
  | .resp id seq st r => s!"resp id={id} seq={seq} status={st} retry={fmtData r}"
  | .reload k => s!"reload d={k}"
  | .diag id r => s!"diag id={id} label={fmtData r}"

def judgeGlue (d0 : Nat) (h : List GEv) : String :=
  if gHoldsRev d0 h then "ok"
  else
    let rec find : List GEv → Option (GEv × List GEv)
      | [] => none
      | e :: older => match find older with
        | some x => some x
        | none => if gEventOk d0 e older then none else some (e, older)
    match find h with
    | some (.req id seq r, older) =>
      s!"fail - glue-spec-violated-at {pctEnc (fmtGEv (.req id seq r))} request-must-see-policies={gLabel d0 older id} in-force-now={gCur d0 older}"
    | some (.resp id seq st r, older) =>
      let exp := (retryLens (gRetry d0 older) (gLabel d0 older id) id seq st).2
      s!"fail - glue-spec-violated-at {pctEnc (fmtGEv (.resp id seq st r))} response-must-be-processed-with-policies={gLabel d0 older id} expected-retry={fmtData exp} in-force-now={gCur d0 older}"
    | some (.diag id r, older) =>
      s!"fail - glue-spec-violated-at {pctEnc (fmtGEv (.diag id r))} diagnosis-must-use-policies={gLabel d0 older id}(mod10={diagLens (gLabel d0 older id)}) in-force-now={gCur d0 older}"
    | some (e, _) => s!"fail - glue-spec-violated-at {pctEnc (fmtGEv e)}"
    | none => "fail - glue-spec-violated"

def fmtEv : Ev → String
  | .lookup t x r => s!"lookup x={x} data={fmtData r} t={t}"
  | .update t d => s!"update d={d} t={t}"

def judgeFinish (s : JudgeSt) : String :=
  match s.bad with
  | some b => s!"fail - {b}"
  | none =>
    match s.gd0 with
    | some d0 => judgeGlue d0 s.ghist
    | none =>
    match s.cfg with
    | none => if s.hist.isEmpty && s.ghist.isEmpty then "ok" else "fail - events-without-cfg"
    | some cfg =>
      if holdsRev cfg.pinTTL cfg.d0 s.hist then "ok"
      else
        let rec find : List Ev → Option (Ev × List Ev)
          | [] => none
          | e :: older => match find older with
            | some x => some x
            | none => if eventOk cfg.pinTTL cfg.d0 e older then none else some (e, older)
        match find s.hist with
        | some (.lookup t x r, older) =>
          let exp := match firstLookup older x with
            | none => s!"fresh-txn-expected-current={curData cfg.d0 older}"
            | some (t1, r1) => s!"pinned-at={t1}-to={fmtData r1}"
          s!"fail - spec-violated-at {pctEnc (fmtEv (.lookup t x r))} {exp}"
        | some (e, _) => s!"fail - spec-violated-at {pctEnc (fmtEv e)}"
        | none => "fail - spec-violated"

def main (args : List String) : IO Unit :=
  match args with
  | ["run"] => runLoop runStep {}
  | ["judge"] => judgeLoop ({} : JudgeSt) judgeStep judgeFinish
  | _ => IO.eprintln "usage: lvdriver_c11 run|judge"
