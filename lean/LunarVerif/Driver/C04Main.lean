import LunarVerif.Base.Proto
import LunarVerif.Spec.C04
import LunarVerif.Spec.C04Ref
import LunarVerif.Spec.C04Sel
/-! Driver for C04: `lvdriver_c04 run` (model answers) / `lvdriver_c04 judge` (Spec on impl answers). -/
open LunarVerif LunarVerif.Proto LunarVerif.FlowGraph LunarVerif.FlowExec LunarVerif.C04

/-! ### parsing of op lines (shared by run and judge) -/

def parseEndp (w : String) : Option REnd :=
  match w.splitOn ":" with
  | ["S", n, a] => some (.stream (pctDec n) (pctDec a))
  | ["P", k, c] => some (.proc (pctDec k) (pctDec c))
  | ["F", n, a] => some (.flow (pctDec n) (pctDec a))
  | _ => none

def parseOutDef (w : String) : Option OutDef :=
  match (w.splitOn ":").reverse with
  | t :: rest@(_ :: _) => some ⟨pctDec (":".intercalate rest.reverse), t⟩
  | _ => none

def parseDir : String → Option Dir
  | "req" => some .req
  | "res" => some .res
  | _ => none

def parseOutVal (v : String) : Option Out :=
  if v == "x" then some { err := true }
  else if v.startsWith "n:" then some { name := pctDec (v.drop 2).toString }
  else if v.startsWith "e:" then some { name := pctDec (v.drop 2).toString, early := true }
  else none

/-- oracle table: (flow, key, dir) ↦ output; default = unnamed normal output -/
abbrev OTable := List ((String × String × Dir) × Out)

def parseOracle (s : String) : Option OTable :=
  if s == "-" || s == "" then some [] else
  (s.splitOn ",").mapM fun it =>
    match it.splitOn "=" with
    | [path, v] =>
      match path.splitOn "/", parseOutVal v with
      | [f, k, d], some o => (parseDir d).map fun dd => ((pctDec f, pctDec k, dd), o)
      | _, _ => none
    | _ => none

/-- a later assignment of the same (flow, key, direction) overrides an earlier one -/
def OTable.toOracle (t : OTable) : Oracle :=
  let r := t.reverse
  fun f k d =>
  -- a processor is addressed by its instance name: node `otherFlow.key` runs the processor `key`
  match r.find? (fun e => e.1 == (f, bareKey k, d)) with
  | some e => e.2
  | none => {}

/-- update the LAST declared flow of that name -/
def updLast (name : String) (g : RFlowRep → RFlowRep) : List FlowDeclR → Option (List FlowDeclR)
  | [] => none
  | d :: ds =>
    match updLast name g ds with
    | some ds' => some (d :: ds')
    | none => if d.rep.name == name then some ({ d with rep := g d.rep } :: ds) else none

def updFlow (c : CfgR) (name : String) (g : RFlowRep → RFlowRep) : Option CfgR :=
  (updLast name g c.flows).map fun fl => { c with flows := fl }

/-- configuration op lines; `none` = not a configuration line or unparsable -/
def cfgStep (c : CfgR) (ws : List String) : Option CfgR :=
  match ws with
  | "ptype" :: n :: outs =>
    (outs.mapM parseOutDef).map fun os => { c with ptypes := c.ptypes ++ [⟨pctDec n, os⟩] }
  | "flow" :: n :: "kind=user" :: _ =>
    some { c with flows := c.flows ++ [⟨.user, ⟨pctDec n, [], [], []⟩⟩] }
  | ["proc", f, k, pt] => updFlow c (pctDec f) fun r => { r with procs := r.procs ++ [(pctDec k, pctDec pt)] }
  | ["conn", f, d, a, b] =>
    match parseDir d, parseEndp a, parseEndp b with
    | some .req, some x, some y => updFlow c (pctDec f) fun r => { r with req := r.req ++ [⟨x, y⟩] }
    | some .res, some x, some y => updFlow c (pctDec f) fun r => { r with res := r.res ++ [⟨x, y⟩] }
    | _, _, _ => none
  | "quota" :: id :: k :: u :: more =>
    let conc := match kv [k] "kind" with
      | some "fixed" => some false
      | some "concurrent" => some true
      | _ => none
    let wild := match kv [u] "url" with
      | some "exact" => some false
      | some "wild" => some true
      | _ => none
    match conc, wild with
    | some cc, some w =>
      let ms := (((kv more "m").map fun s => if s == "" || s == "-" then [] else s.splitOn ",").getD []).map pctDec
      some { c with quotas := c.quotas ++ [⟨pctDec id, (pctDec id).replace "." "", cc, w, ms⟩] }
    | _, _ => none
  | _ => none

/-! ### flow filters and transaction attributes -/

def splitList (s : String) : List String := if s == "" || s == "-" then [] else s.splitOn ","

def parsePair (w : String) : String × Option String :=
  match w.splitOn ":" with
  | [k, v] => (pctDec k, some (pctDec v))
  | k :: _ => (pctDec k, none)
  | [] => ("", none)

/-- `flow <name> kind=user [m=GET,POST] [h=k:v,…] [st=200,…] [q=k:v,k,…]` -/
def parseUrl (ws : List String) : String :=
  match kv ws "u" with
  | some "wild" => "*"
  | some "y" => "y"
  | _ => "x"

def parseFilter (ws : List String) : Filter :=
  { url := parseUrl ws
    methods := ((kv ws "m").map splitList).getD [] |>.map pctDec
    headers := (((kv ws "h").map splitList).getD []).map fun w => let p := parsePair w; (p.1, p.2.getD "")
    status := (((kv ws "st").map splitList).getD []).filterMap String.toNat?
    query := (((kv ws "q").map splitList).getD []).map parsePair }

/-- `txn … [m=GET] [h=k:v,…] [q=k:v,…] [st=200] [rm=GET]` -/
def parseAttrs (ws : List String) : TxnAttrs :=
  { url := parseUrl ws
    method := ((kv ws "m").map pctDec).getD "GET"
    headers := (((kv ws "h").map splitList).getD []).map fun w => let p := parsePair w; (p.1, p.2.getD "")
    query := (((kv ws "q").map splitList).getD []).map fun w => let p := parsePair w; (p.1, p.2.getD "")
    status := ((kv ws "st").bind String.toNat?).getD 200
    respMethod := ((kv ws "rm").map pctDec).getD "GET" }

/-- the filters of the declared flows, one per `flow` op, in declaration order (parallel to `CfgR.flows`) -/
abbrev Filters := List (String × Filter)

def addFilter (fs : Filters) (ws : List String) : Filters :=
  match ws with
  | "flow" :: n :: "kind=user" :: rest => fs ++ [(pctDec n, parseFilter rest)]
  | _ => fs

/-- the filters of the flows that TAKE PART: a flow file skipped by the YAML-level validation contributes nothing
    (two declarations of one name: only a surviving one counts; if both survive the load is refused) -/
def effFilters (c : CfgR) (fs : Filters) : Filters :=
  ((c.flows.zip fs).filter fun p => yamlOkR p.1).map (·.2)

/-- filters of the system flows: those of their quotas (one system flow pair per filter group) -/
def sysFilters (c : CfgR) : Filters :=
  c.quotas.flatMap fun q =>
    let g := c.quotas.filter (·.fkey == q.fkey)
    match g with
    | q0 :: _ =>
      let u := if q.wild then "*" else "x"
      [("SystemFlow_" ++ q0.id ++ "_SYSTEM_FLOW_START", { url := u, methods := q.methods }),
       ("SystemFlow_" ++ q0.id ++ "_SYSTEM_FLOW_END", { url := u, methods := q.methods })]
    | [] => []

def parseOrder (ws : List String) : List String :=
  match kv ws "order" with
  | none => []
  | some s => if s == "-" || s == "" then [] else (s.splitOn ",").map pctDec

/-! ### canonical rendering -/

def insertStr (s : String) : List String → List String
  | [] => [s]
  | x :: xs => if s < x then s :: x :: xs else x :: insertStr s xs

def sortStr : List String → List String
  | [] => []
  | x :: xs => insertStr x (sortStr xs)

def fmtTarget : Target → String
  | .node k => "P." ++ pctEnc k
  | .stream n a => "S." ++ pctEnc n ++ "." ++ pctEnc a

/-- a node created for another flow (`flowGraphName` ≠ the direction's flow) is printed `key@flow` -/
def fmtNode (name : String) (owner : List (String × String)) (n : Node) : String :=
  let ow := match owner.find? (·.1 == n.key) with
    | some (_, f) => if f == name then "" else "@" ++ pctEnc f
    | none => ""
  pctEnc n.key ++ ow ++ "[" ++ ",".intercalate (n.edges.map fun e => pctEnc e.cond ++ ">" ++ fmtTarget e.target) ++ "]"

def fmtDirO (name : String) (d : Dir) (g : DirGraph) (owner : List (String × String)) : String :=
  let keys := sortStr (g.nodes.map (·.key))
  let nodes := keys.filterMap g.find
  pctEnc name ++ "." ++ d.str ++ "=" ++ (match g.root with | some r => pctEnc r | none => "-") ++ ":" ++
    "".intercalate (nodes.map (fmtNode name owner))

def fmtDir (name : String) (d : Dir) (g : DirGraph) : String := fmtDirO name d g []

def fmtDumpWordsR (l : LoadedR) : List String :=
  let names := sortStr (l.flows.map (·.2.flow.name))
  names.flatMap fun n =>
    match l.flows.find? (·.2.flow.name == n) with
    | none => []
    | some (_, f) => [fmtDirO n .req f.flow.req f.reqOwner, fmtDirO n .res f.flow.res f.resOwner]

def fmtDumpWords (l : Loaded) : List String :=
  let names := sortStr (l.flows.map (·.2.name))
  names.flatMap fun n =>
    match l.flows.find? (·.2.name == n) with
    | none => []
    | some (_, f) => [fmtDir n .req f.req, fmtDir n .res f.res]

def fmtDump (l : Loaded) : String := " ".intercalate (fmtDumpWords l)

def fmtOut (o : Out) : String :=
  if o.err then "x" else (if o.early then "e:" else "n:") ++ pctEnc o.name

/-- owners of the nodes of every built direction: (flow, direction) ↦ (node key ↦ `flowGraphName`) -/
abbrev Owners := List ((String × Dir) × List (String × String))

/-- the processor instance bound to node `k` of direction `d` of flow `f` in the MODEL, printed `<flow>.<key>`:
    the node was created while the connection list of its owner was processed (`instanceOf`) -/
def instModel (ow : Owners) (f : String) (d : Dir) (k : String) : String :=
  let owner := ((ow.find? (·.1 == (f, d))).bind fun e => (e.2.find? (·.1 == k)).map (·.2)).getD f
  match instanceOf owner k with
  | some (g, n) => g ++ "." ++ n
  | none => f ++ "." ++ k

/-- the instance the CONFIGURATION names by node key `k` in flow `f`: `other.key` ⇒ other's `key`; a plain key ⇒
    the processor of `f` if it declares one, else of the first flow that does (a node of a spliced flow) -/
def instSpec (c : CfgR) (f k : String) : String :=
  match keyParts k with
  | [g, n] => (if g == "" then f else g) ++ "." ++ n
  | _ =>
    let declares := fun (d : FlowDeclR) => d.rep.procs.any (·.1 == k)
    if c.flows.any (fun d => d.rep.name == f && declares d) then f ++ "." ++ k
    else match c.flows.find? declares with
      | some d => d.rep.name ++ "." ++ k
      | none => f ++ "." ++ k

def fmtEvent (ow : Owners) : Event → String
  | .enter f d => "F:" ++ pctEnc f ++ ":" ++ d.str
  | .exec f k d o => "P:" ++ pctEnc f ++ ":" ++ pctEnc (instModel ow f d k) ++ ":" ++ d.str ++ ":" ++ fmtOut o

def fmtErr : Option ExecErr → String
  | none => "ok"
  | some .proc => "err:proc"
  | some .respNode => "err:respnode"
  | some .fuel => "err:fuel"
  | some .missing => "err:missing"

def joinOr (xs : List String) : String := if xs.isEmpty then "-" else ",".intercalate xs

/-- early-response actions appended to `actions.Request.Actions`: one per executed early output
    (on the request stream), in execution order. -/
def earlyActs (t : List Event) : List String :=
  t.filterMap fun
    | .exec f k .req o => if o.early && !o.err then some (pctEnc (f ++ "/" ++ bareKey k)) else none
    | _ => none

/-- processors of system flows are the real QuotaProcessorInc/Dec: their executions are not observable -/
def visible (users : List String) : Event → Bool
  | .enter _ _ => true
  | .exec f _ _ _ => users.contains f

def fmtTxn (users : List String) (ow : Owners) (r : TxnRes) : String :=
  let t := r.trace.filter (visible users)
  fmtErr r.err ++ " ev=" ++ joinOr (t.map (fmtEvent ow)) ++ " acts=" ++ joinOr (earlyActs t)

def ownersOf (l : LoadedR) : Owners :=
  l.flows.flatMap fun p => [((p.2.flow.name, Dir.req), p.2.reqOwner), ((p.2.flow.name, Dir.res), p.2.resOwner)]

def userNames (c : CfgR) : List String := (c.flows.filter (·.kind == .user)).map (·.rep.name)

/-! ### run mode -/

structure RunSt where
  cfg : CfgR := {}
  loaded : Option Loaded := none
  owners : Owners := []
  filters : Filters := []

def allNamed (c : CfgR) (order : List String) : Bool := c.flows.all fun d => order.contains d.rep.name

def runStep (s : RunSt) (line : String) : RunSt × String :=
  let ws := words line
  match ws with
  | ["case", id] => ({}, s!"case {id}")
  | "load" :: rest =>
    let order := parseOrder rest
    if !allNamed s.cfg order then ({ s with loaded := none }, "bad-op") else
    let single := s.cfg.flows.length == 1 && s.cfg.quotas.isEmpty
    match (if s.cfg.flows.any (·.rep.borrows) then none else s.cfg.base?) with
    | some c =>
      -- reference-free: the loader of `Model/C04.lean`
      match load c order with
      | .error e => ({ s with loaded := none }, if single then "reject:" ++ e.str else "reject")
      | .ok l => ({ s with loaded := some l, owners := [] }, "accept " ++ fmtDump l)
    | none =>
      -- flow references: `Model/C04Ref.lean`; mutually referencing flows are not loaded by the harness
      if refCycle s.cfg.reps then ({ s with loaded := none }, "unsafe-refcycle") else
      match loadR s.cfg order with
      | .error e => ({ s with loaded := none }, if single then "reject:" ++ e.str else "reject")
      | .ok l => ({ s with loaded := some l.toLoaded, owners := ownersOf l }, "accept " ++ " ".intercalate (fmtDumpWordsR l))
  | "txn" :: rest =>
    match (kv rest "dir").bind parseDir, (kv rest "o").bind parseOracle with
    | some d, some t =>
      match s.loaded with
      | none => (s, "not-loaded")
      | some l =>
        if l.unsafeCycle then (s, "unsafe-cycle")
        else (s, fmtTxn (userNames s.cfg) s.owners
          (transactionSel (effFilters s.cfg s.filters ++ sysFilters s.cfg) (parseAttrs rest) l.selected t.toOracle (fuelFor l.selected) d))
    | _, _ => (s, "bad-op")
  | "pair" :: rest =>
    -- two request transactions overlapping in time: what runs for each must be what runs for it alone
    match (kv rest "o1").bind parseOracle, (kv rest "o2").bind parseOracle with
    | some t1, some t2 =>
      match s.loaded with
      | none => (s, "not-loaded")
      | some l =>
        if l.unsafeCycle then (s, "unsafe-cycle") else
        let run := fun (u : String) (t : OTable) =>
          fmtTxn (userNames s.cfg) s.owners
            (transactionSel (effFilters s.cfg s.filters ++ sysFilters s.cfg) { url := u } l.selected t.toOracle (fuelFor l.selected) .req)
        (s, run (parseUrl [((kv rest "u1").map ("u=" ++ ·)).getD ""]) t1 ++ " " ++
            run (parseUrl [((kv rest "u2").map ("u=" ++ ·)).getD ""]) t2)
    | _, _ => (s, "bad-op")
  | _ =>
    match cfgStep s.cfg ws with
    | some c => ({ s with cfg := c, filters := addFilter s.filters ws }, "ok")
    | none => (s, "bad-op")

/-! ### judge mode: Spec on the implementation's answers -/

structure JudgeSt where
  cfg : CfgR := {}
  filters : Filters := []
  order : List String := []
  accepted : Bool := false
  bad : Option String := none
  fail : Option (String × String) := none   -- first failure in the class of a known finding: (id, message)
  failUnk : Option String := none           -- first failure outside every known class

def parseEvent (w : String) : Option Event :=
  match w.splitOn ":" with
  | ["F", f, d] => (parseDir d).map fun dd => .enter (pctDec f) dd
  | ["P", f, k, d, "x"] => (parseDir d).map fun dd => .exec (pctDec f) (pctDec k) dd { err := true }
  | ["P", f, k, d, "n", n] => (parseDir d).map fun dd => .exec (pctDec f) (pctDec k) dd { name := pctDec n }
  | ["P", f, k, d, "e", n] => (parseDir d).map fun dd => .exec (pctDec f) (pctDec k) dd { name := pctDec n, early := true }
  | _ => none

def parseErr : String → Option (Option ExecErr)
  | "ok" => some none
  | "err:proc" => some (some .proc)
  | "err:respnode" => some (some .respNode)
  | "err:fuel" => some (some .fuel)
  | "err:missing" => some (some .missing)
  | _ => none

/-- judge one executed transaction: observed outcome word `res`, observed events word `ev` -/
def judgeOne (s : JudgeSt) (op : String) (attrs : TxnAttrs) (d : Dir) (t : OTable) (res ev : String) : JudgeSt :=
  match parseErr res, kv [ev] "ev" with
  | some err, some evs =>
    let events := if evs == "-" then some [] else (evs.splitOn ",").mapM parseEvent
    match events with
    | none => { s with bad := some ("unparsable-events:" ++ pctEnc ev) }
    | some tr =>
      let (sc, asym) := match (if s.cfg.flows.any (·.rep.borrows) then none else s.cfg.base?) with
        | some c => (specCfg c s.order, false)
        | none => (specCfgR s.cfg s.order, refDiverges s.cfg)
      match judgeTxnSel (effFilters s.cfg s.filters ++ sysFilters s.cfg) attrs sc (userNames s.cfg) (instSpec s.cfg) t.toOracle d tr err with
      | none => s
      | some (fid0, msg) =>
        let fid := if fid0 == "-" && asym then "F04f" else fid0
        let m := msg ++ " txn=" ++ pctEnc op
        if fid == "-" then { s with failUnk := s.failUnk <|> some m } else { s with fail := s.fail <|> some (fid, m) }
  | _, _ => { s with bad := some ("unparsable-txn:" ++ pctEnc (res ++ " " ++ ev)) }

def judgeStep (s : JudgeSt) (op out : String) : JudgeSt :=
  let ws := words op
  match ws with
  | "load" :: rest =>
    let s := { s with order := parseOrder rest, accepted := (words out).head? == some "accept" }
    if !s.accepted then s else
    -- system flows of quotas: every processor of a filter group must be wired in sequence
    match buildAll sysPTypes (sysDecls chainConns s.cfg.quotas) with
    | .error _ => { s with bad := some "reference-system-flows-do-not-build" }
    | .ok fs =>
      let expected := fmtDumpWords ⟨fs⟩
      let got := words out
      match expected.find? (fun w => !got.contains w) with
      | none => s
      | some w =>
        { s with failUnk := s.failUnk <|> some ("system-flow-not-wired-as-chain expected=" ++ pctEnc w) }
  | "txn" :: rest =>
    if s.failUnk.isSome || s.bad.isSome then s else
    match words out with
    | [res, ev, _acts] =>
      match (kv rest "dir").bind parseDir, (kv rest "o").bind parseOracle with
      | some d, some t => judgeOne s op (parseAttrs rest) d t res ev
      | _, _ => { s with bad := some ("unparsable-txn:" ++ pctEnc out) }
    | _ => s   -- not-loaded / unsafe-cycle / bad-op: nothing was executed
  | "pair" :: rest =>
    if s.failUnk.isSome || s.bad.isSome then s else
    match words out with
    | [res1, ev1, _, res2, ev2, _] =>
      match (kv rest "o1").bind parseOracle, (kv rest "o2").bind parseOracle with
      | some t1, some t2 =>
        let u := fun (k : String) => parseUrl [((kv rest k).map ("u=" ++ ·)).getD ""]
        let s1 := judgeOne s (op ++ " [first]") { url := u "u1" } .req t1 res1 ev1
        judgeOne s1 (op ++ " [second]") { url := u "u2" } .req t2 res2 ev2
      | _, _ => { s with bad := some ("unparsable-pair:" ++ pctEnc out) }
    | _ => s
  | _ =>
    match cfgStep s.cfg ws with
    | some c => { s with cfg := c, filters := addFilter s.filters ws }
    | none => s

def judgeFinish (s : JudgeSt) : String :=
  match s.bad with
  | some b => s!"fail - {b}"
  | none =>
    match s.failUnk, s.fail with
    | some msg, _ => s!"fail - {msg}"
    | none, some (fid, msg) => s!"fail {fid} {msg}"
    | none, none => "ok"

def main (args : List String) : IO Unit :=
  match args with
  | ["run"] => runLoop runStep {}
  | ["judge"] => judgeLoop ({} : JudgeSt) judgeStep judgeFinish
  | _ => IO.eprintln "usage: lvdriver_c04 run|judge"
