import LunarVerif.Base.Proto
import LunarVerif.Spec.C17
/-! Driver for C17: `lvdriver_c17 run` (model answers) / `lvdriver_c17 judge` (Spec on impl answers). -/
open LunarVerif LunarVerif.Proto LunarVerif.C17

def counterKey (proc seq : String) : String := proc ++ "::retry_counter::" ++ seq

def b2s (b : Bool) : String := if b then "1" else "0"

structure FlowsSt where
  engine  : Bool
  engine2 : Bool := false                 -- two overlapping flows, each with its own flow context
  specs2  : AMap (String × Nat) := []     -- flow letter ↦ (processor key, attempts)
  built   : Bool := false
  same    : Bool := false                 -- engine2: flow B sits on the same url pattern as flow A
  sa      : List Int := []                -- engine2: flow-filter status_code list of flow A ([] = none)
  sb      : List Int := []
  overlap : Bool := false                 -- direct mode on a manual clock: transactions overlap in the cool-down
  parked  : List (String × Key) := []     -- overlap: (transaction id, counter key) parked in their cool-down
  timeout : Option Int
  lo : Int := 0
  hi : Int := 0
  procs : AMap PCfg := []
  ctr : AMap Nat := []
  keys : List Key := []

structure RunSt where
  fl : Option FlowsSt := none
  pcfg : Option RCfg := none
  ps : PState := PState.init 0
  early : Option Int := none   -- dispatcher family: status of the gateway-made early answer
  dkind : String := "fixed"    -- early-answering remedy: fixed | strategy | concurrency | replay | cache
  order : String := "sr"       -- endpoint r: sr = storing/early-answering remedy listed first, rs = retry remedy first
  -- replay/cache kinds: endpoint ↦ (status, x-lunar-retry-after value kept inside) of the stored response
  stored : AMap (Int × Option Nat) := []

def parseRanges (s : String) : Option (List (Int × Int)) :=
  if s == "-" then some [] else
  (s.splitOn ",").mapM fun part =>
    match part.splitOn "-" with
    | [a, b] => do
      let x ← a.toInt?
      let y ← b.toInt?
      pure (x, y)
    | _ => none

/-- `500,502` → [500, 502]; `-` or absent → [] (canonical decimal integers only) -/
def parseStatusList (ws : List String) (k : String) : Option (List Int) :=
  match kv ws k with
  | none => some []
  | some v =>
    if v == "-" then some [] else
    (v.splitOn ",").mapM fun part =>
      match part.toInt? with
      | some n => if toString n == part then some n else none
      | none => none

def statusOk (l : List Int) (status : Int) : Bool := l.isEmpty || l.contains status

def parseMode (ws : List String) : Option FlowsSt := do
  let mode ← kv ws "mode"
  let tmo ← kv ws "timeout"
  let t : Option Int ← if tmo == "unset" then some none else (tmo.toInt?).map some
  if mode == "direct" then
    pure { engine := false, timeout := t }
  else if mode == "overlap" then
    pure { engine := false, overlap := true, timeout := t }
  else if mode == "engine" || mode == "engine2" then
    let lo ← kvInt ws "lo"
    let hi ← kvInt ws "hi"
    -- `fm=GET`: the status Filter carries a second criterion (method); the range is a numeric filter either way
    let fmOk := match kv ws "fm" with
      | none => true
      | some m => mode == "engine" && m == "GET"
    if t.isNone || !fmOk then none
    else if mode == "engine" then pure { engine := true, timeout := t, lo := lo, hi := hi }
    else
      let same ← match kv ws "url2" with
        | none => some false
        | some u => if u == "same" then some true else if u == "items" then some false else none
      let sa ← parseStatusList ws "sa"
      let sb ← parseStatusList ws "sb"
      pure { engine := false, engine2 := true, timeout := t, lo := lo, hi := hi, same := same, sa := sa, sb := sb }
  else none

def initResStr : InitRes → String
  | .ok => "ok" | .errAttempts => "err:attempts" | .errCooldown => "err:cooldown"
  | .errMult => "err:mult" | .errEnv => "err:env" | .errTimeout => "err:timeout"

def fmtFOut (o : FOut) (ctr : Bool) : String :=
  match o with
  | .retry w => s!"retry wait={w * 1000000000} act=1 ctr={b2s ctr}"
  | .failed => s!"failed wait=0 act=0 ctr={b2s ctr}"

def addKey (k : Key) (l : List Key) : List Key := if l.contains k then l else l ++ [k]

def flowsStep (s : RunSt) (ws : List String) : RunSt × String :=
  match ws with
  | "fmode" :: r =>
    match s.fl, parseMode r with
    | none, some f => ({ s with fl := some f }, "ok")
    | _, _ => (s, "bad-op")
  | "fproc" :: r =>
    match s.fl, kv r "name", kvInt r "attempts", kvInt r "cooldown", kvInt r "mult4" with
    | some f, some nameE, some att, some cd, some k4 =>
      let name := pctDec nameE
      if f.engine2 then
        match kv r "flow" with
        | some letter =>
          if (letter != "A" && letter != "B") || f.built || cd != 0 || k4 != 0 || att < 1
              || (name != "R" && name != "Q") || (lookup letter f.specs2).isSome then (s, "bad-op")
          else ({ s with fl := some { f with specs2 := insert letter (name, att.toNat) f.specs2 } }, "ok")
        | none => (s, "bad-op")
      else
      if f.engine && (!f.procs.isEmpty || name != "R") then (s, "bad-op") else
      let res := initProc att cd k4 f.timeout
      if res == .ok then
        ({ s with fl := some { f with procs := insert name ⟨att.toNat, cd.toNat, k4.toNat⟩ f.procs } }, "ok")
      else (s, initResStr res)
    | _, _, _, _, _ => (s, "bad-op")
  | "fx" :: r =>
    match s.fl, kv r "p", kv r "seq" with
    | some f, some pE, some sE =>
      let pn := pctDec pE
      let key := counterKey pn (pctDec sE)
      match lookup pn f.procs with
      | none => (s, "bad-op")
      | some p =>
        if f.overlap then (s, "bad-op") else
        if f.engine then
          match kvInt r "status" with
          | none => (s, "bad-op")
          | some status =>
            let keys := addKey key f.keys
            if status >= f.lo && status <= f.hi then
              let (m', o) := fstep p f.ctr key
              ({ s with fl := some { f with ctr := m', keys := keys } }, fmtFOut o (lookup key m').isSome)
            else
              ({ s with fl := some { f with keys := keys } },
               s!"skip wait=0 act=0 ctr={b2s (lookup key f.ctr).isSome}")
        else
          let (m', o) := fstep p f.ctr key
          ({ s with fl := some { f with ctr := m', keys := addKey key f.keys } }, fmtFOut o (lookup key m').isSome)
    | _, _, _ => (s, "bad-op")
  | "fxb" :: r =>
    -- the transaction reads, increments and stores the counter and decides BEFORE it waits out its cool-down
    match s.fl, kv r "p", kv r "seq", kv r "id" with
    | some f, some pE, some sE, some idE =>
      if !f.overlap then (s, "bad-op") else
      let pn := pctDec pE
      let txn := pctDec idE
      match lookup pn f.procs with
      | none => (s, "bad-op")
      | some p =>
        if f.parked.any (·.1 == txn) then (s, "bad-op") else
        let key := counterKey pn (pctDec sE)
        let (m', o) := fstep p f.ctr key
        let f' := { f with ctr := m', keys := addKey key f.keys }
        let c := b2s (lookup key m').isSome
        match o with
        | .failed => ({ s with fl := some f' }, s!"failed act=0 wait=0 ctr={c}")
        | .retry 0 => ({ s with fl := some f' }, s!"retry act=1 wait=0 ctr={c}")
        | .retry w =>
          ({ s with fl := some { f' with parked := f'.parked ++ [(txn, key)] } }, s!"parked wait={w * 1000000000} ctr={c}")
    | _, _, _, _ => (s, "bad-op")
  | "fxe" :: r =>
    match s.fl, kv r "id" with
    | some f, some idE =>
      if !f.overlap then (s, "bad-op") else
      let txn := pctDec idE
      match f.parked.find? (·.1 == txn) with
      | none => (s, "bad-op")
      | some (_, key) =>
        ({ s with fl := some { f with parked := f.parked.filter (·.1 != txn) } },
         s!"retry act=1 ctr={b2s (lookup key f.ctr).isSome}")
    | _, _ => (s, "bad-op")
  | ["fbuild"] =>
    match s.fl with
    | some f =>
      if !f.engine2 || f.built || f.specs2.isEmpty then (s, "bad-op") else
      let errs := ["A", "B"].filterMap fun l =>
        match lookup l f.specs2 with
        | some (_, att) => let r := initProc att 0 0 f.timeout; if r == .ok then none else some r
        | none => none
      match errs with
      | e :: _ => (s, initResStr e)
      | [] => ({ s with fl := some { f with built := true } }, "ok")
    | none => (s, "bad-op")
  | "fx2" :: r =>
    match s.fl, kv r "seq", kvNat r "both", kvInt r "status" with
    | some f, some sE, some both, some status =>
      if !f.built || both > 1 then (s, "bad-op") else
      let seq := pctDec sE
      let inR := status >= f.lo && status <= f.hi
      -- each flow has its own context: disjoint key spaces `<flow>/<counter key>`
      let runFlow (m : AMap Nat) (l : String) (matches_ : Bool) : AMap Nat × String × Bool :=
        match lookup l f.specs2 with
        | some (key, att) =>
          if !matches_ then (m, "-", false)
          else if inR then
            let (m', o) := fstep ⟨att, 0, 0⟩ m (l ++ "/" ++ counterKey key seq)
            match o with
            | .retry _ => (m', "retry", true)
            | .failed => (m', "failed", false)
          else (m, "skip", false)
        | none => (m, "-", false)
      -- a flow runs when its url pattern matches and the status is in its own status_code list (if it has one)
      let (m1, ta, ra) := runFlow f.ctr "A" (statusOk f.sa status)
      let (m2, tb, rb) := runFlow m1 "B" ((f.same || both == 1) && statusOk f.sb status)
      let ctrOf (l : String) : Bool :=
        match lookup l f.specs2 with
        | some (key, _) => (lookup (l ++ "/" ++ counterKey key seq) m2).isSome
        | none => false
      ({ s with fl := some { f with ctr := m2 } },
       s!"A={ta} B={tb} wait=0 act={b2s (ra || rb)} ctrA={b2s (ctrOf "A")} ctrB={b2s (ctrOf "B")}")
    | _, _, _, _ => (s, "bad-op")
  | "fq" :: r =>
    match s.fl, kv r "p", kv r "seq" with
    | some f, some pE, some sE =>
      if f.engine2 then (s, "bad-op") else
      if f.engine && f.procs.isEmpty then (s, "bad-op") else
      (s, s!"ctr={b2s (lookup (counterKey (pctDec pE) (pctDec sE)) f.ctr).isSome}")
    | _, _, _ => (s, "bad-op")
  | ["fleak"] =>
    match s.fl with
    | some f =>
      if f.engine2 then (s, "bad-op") else
      if f.engine && f.procs.isEmpty then (s, "bad-op") else
      (s, s!"leaked={(f.keys.filter fun k => (lookup k f.ctr).isSome).length}")
    | none => (s, "bad-op")
  | _ => (s, "bad-op")

def parsePcfg (ws : List String) : Option (RCfg × Nat) := do
  let att ← kvInt ws "attempts"
  let cd ← kvNat ws "cooldown"
  let mu ← kvNat ws "mult"
  let rs ← kv ws "ranges"
  let t0 ← kvNat ws "t0"
  let ranges ← parseRanges rs
  pure (⟨att, cd, mu, ranges⟩, t0)

def fmtPOut : POut → String
  | .noop => "noop"
  | .retry a => s!"retry after={a}"

/-- which remedy answers early (default fixed response) -/
def parseKind (ws : List String) : Option String :=
  match kv ws "kind" with
  | none => some "fixed"
  | some k =>
    if k == "fixed" || k == "strategy" || k == "concurrency" || k == "replay" || k == "cache" then some k else none

/-- kinds whose early answer is a stored provider response replayed to later requests -/
def replays (k : String) : Bool := k == "replay" || k == "cache"

/-- endpoint letter: `r` carries a retry remedy, `n` does not (default `r`) -/
def parseEp (ws : List String) : Option String :=
  match kv ws "ep" with
  | none => some "r"
  | some e => if e == "r" || e == "n" then some e else none

/-- order of the retry remedy and the other remedy on endpoint r (`rs` only for the storing kinds) -/
def parseOrder (ws : List String) (kind : String) : Option String :=
  match kv ws "order" with
  | none => some "sr"
  | some o => if o == "sr" || (o == "rs" && replays kind) then some o else none

def parseEarly (ws : List String) : Option Int :=
  match kvInt ws "early" with
  | some e => if e < 100 || e > 599 then none else some e
  | none => none

/-- `n` fresh sequences `<prefix>-<i>`, one first response each; returns (#retry, #noop). -/
def bulkRun (cfg : RCfg) (pre : String) (status : Int) : Nat → Nat → PState → Nat → Nat → PState × Nat × Nat
  | 0, _, s, r, n => (s, r, n)
  | fuel + 1, i, s, r, n =>
    let (s', o) := presp cfg s (pre ++ "-" ++ toString i) true status
    match o with
    | .noop => bulkRun cfg pre status fuel (i + 1) s' r (n + 1)
    | .retry _ => bulkRun cfg pre status fuel (i + 1) s' (r + 1) n

def policyStep (s : RunSt) (ws : List String) : RunSt × String :=
  match ws with
  | "dcfg" :: r =>
    match parseEarly r, parseKind r, s.pcfg, parsePcfg r with
    | some e, some k, none, some (cfg, t0) =>
      match parseOrder r k with
      | some o => ({ s with pcfg := some cfg, ps := PState.init t0, early := some e, dkind := k, order := o }, "ok")
      | none => (s, "bad-op")
    | _, _, _, _ => (s, "bad-op")
  | "dreq" :: r =>
    match s.pcfg, s.early, kv r "id", kv r "seq", kvNat r "early" with
    | some cfg, some st, some idE, some sE, some e =>
      match parseEp r with
      | none => (s, "bad-op")
      | some ep =>
        if e > 1 || (s.dkind != "fixed" && e == 0) then (s, "bad-op")
        else if e == 0 then (s, "pass")
        else
          -- status of the answer the gateway makes by itself (none: the request passes)
          let answered : Option (Int × Option Nat) :=
            if replays s.dkind then lookup ep s.stored else some (st, none)
          match answered with
          | none => (s, "pass")
          | some (st, stale) =>
            if ep == "n" then
              -- no retry remedy on this endpoint: the early answer leaves the gateway as it is
              (s, s!"early status={st} noop")
            else
              let (ps', o) := presp cfg s.ps (pctDec sE) (pctDec idE == pctDec sE) st
              -- what leaves: the retry remedy's header, else whatever the stored response carries
              let hdr : Option Nat := match o with | .retry m => some m | .noop => stale
              let txt := match hdr with | some m => s!"retry after={m}" | none => "noop"
              -- a stored response whose status was blanked (F17c) leaves without a status code
              if st == 0 then ({ s with ps := ps' }, if hdr.isSome then "pass-with-retry-header" else "pass")
              else ({ s with ps := ps' }, s!"early status={st} {txt}")
    | _, _, _, _, _ => (s, "bad-op")
  | "dresp" :: r =>
    match s.pcfg, s.early, kv r "id", kv r "seq", kvInt r "status" with
    | some cfg, some _, some idE, some sE, some status =>
      match parseEp r with
      | none => (s, "bad-op")
      | some ep =>
        -- replay kinds: the storing remedy keeps the first storable response (a snapshot of the headers, F17b);
        -- response-based throttling needs a relevant status and the Retry-After header, caching takes anything
        let hdr0 := kvInt r "hdr" == some 0
        let free := (lookup ep s.stored).isNone
        let storable (st : Int) : Bool :=
          free && (s.dkind == "cache" || (s.dkind == "replay" && some st == s.early && !hdr0))
        if ep == "n" then
          ((if storable status then { s with stored := insert ep (status, none) s.stored } else s), "noop")
        else if s.order == "sr" then
          let s := if storable status then { s with stored := insert ep (status, none) s.stored } else s
          let (ps', o) := presp cfg s.ps (pctDec sE) (pctDec idE == pctDec sE) status
          ({ s with ps := ps' }, fmtPOut o)
        else
          -- retry remedy first: its header-only ModifyResponseAction blanks status and body for the remedies after
          -- it (EnsureResponseIsUpdated) and its header is already in the map the storing remedy copies
          let (ps', o) := presp cfg s.ps (pctDec sE) (pctDec idE == pctDec sE) status
          let seen : Int × Option Nat := match o with | .retry m => (0, some m) | .noop => (status, none)
          let s := { s with ps := ps' }
          let s := if replays s.dkind && storable seen.1 then { s with stored := insert ep seen s.stored } else s
          (s, fmtPOut o)
    | _, _, _, _, _ => (s, "bad-op")
  | "pbulk" :: r =>
    match s.pcfg, kvNat r "n", kv r "prefix", kvInt r "status" with
    | some cfg, some n, some preE, some status =>
      if n > 100000 then (s, "bad-op") else
      let (ps', nr, nn) := bulkRun cfg (pctDec preE) status n 0 s.ps 0 0
      ({ s with ps := ps' }, s!"bulk retry={nr} noop={nn}")
    | _, _, _, _ => (s, "bad-op")
  | "pcfg" :: r =>
    match s.pcfg, parsePcfg r with
    | none, some (cfg, t0) => ({ s with pcfg := some cfg, ps := PState.init t0 }, "ok")
    | _, _ => (s, "bad-op")
  | "presp" :: r =>
    match s.pcfg, kv r "id", kv r "seq", kvInt r "status" with
    | some cfg, some idE, some sE, some status =>
      let (ps', o) := presp cfg s.ps (pctDec sE) (pctDec idE == pctDec sE) status
      ({ s with ps := ps' }, fmtPOut o)
    | _, _, _, _ => (s, "bad-op")
  | "adv" :: r =>
    match s.pcfg, kvNat r "ns" with
    | some _, some d => ({ s with ps := adv s.ps d }, "ok")
    | _, _ => (s, "bad-op")
  | "jump" :: r =>
    match s.pcfg, kvNat r "ns" with
    | some _, some d => ({ s with ps := jump s.ps d }, "ok")
    | _, _ => (s, "bad-op")
  | _ => (s, "bad-op")

def runStep (s : RunSt) (line : String) : RunSt × String :=
  match words line with
  | ["case", id] => ({}, s!"case {id}")
  | w :: r =>
    if w == "fmode" || w == "fproc" || w == "fx" || w == "fq" || w == "fleak" || w == "fbuild" || w == "fx2"
        || w == "fxb" || w == "fxe" then
      flowsStep s (w :: r)
    else if w == "pcfg" || w == "presp" || w == "adv" || w == "jump" || w == "pbulk"
        || w == "dcfg" || w == "dreq" || w == "dresp" then policyStep s (w :: r)
    else (s, "bad-op")
  | [] => (s, "bad-op")

/-! ### judge: rebuild the observable history from the implementation's answers -/

structure JudgeSt where
  engine : Bool := false
  lo : Int := 0
  hi : Int := 0
  procs : AMap PCfg := []
  specs2 : AMap (String × Nat) := []
  same : Bool := false
  sa : List Int := []
  sb : List Int := []
  fev : List FEvent := []        -- most recent first
  pcfg : Option RCfg := none
  pev : List PEvent := []        -- most recent first (reversed at the end)
  early : Option Int := none
  dkind : String := "fixed"
  order : String := "sr"
  f17c : Bool := false
  bad : Option String := none

def setBad (s : JudgeSt) (m : String) : JudgeSt :=
  match s.bad with
  | some _ => s
  | none => { s with bad := some m }

def judgeStep (s : JudgeSt) (op out : String) : JudgeSt :=
  if out == "bad-op" then s else
  let ows := words out
  match words op with
  | "fmode" :: r =>
    match parseMode r with
    | some f => { s with engine := f.engine, lo := f.lo, hi := f.hi, same := f.same, sa := f.sa, sb := f.sb }
    | none => s
  | "fproc" :: r =>
    match kv r "name", kvInt r "attempts", kvInt r "cooldown", kvInt r "mult4" with
    | some nameE, some att, some cd, some k4 =>
      if out == "ok" then
        -- a processor that accepts fewer than one attempt is outside its own contract
        if att < 1 then setBad s "processor-accepted-attempts-below-1"
        else if (kv r "flow").isSome then
          { s with specs2 := insert ((kv r "flow").getD "") (pctDec nameE, att.toNat) s.specs2 }
        else { s with procs := insert (pctDec nameE) ⟨att.toNat, cd.toNat, k4.toNat⟩ s.procs }
      else s
    | _, _, _, _ => s
  | "fxb" :: r =>
    -- a transaction that begins: its answer (parked = retry after the cool-down, retry at once, failed) counts for its
    -- sequence from this moment on, also while it is still parked
    match kv r "p", kv r "seq", ows.head?, kvNat ows "wait", kvNat ows "ctr" with
    | some pE, some sE, some tag, some wait, some ctr =>
      match lookup (pctDec pE) s.procs with
      | none => setBad s "answer-from-unconfigured-processor"
      | some p =>
        let key := counterKey (pctDec pE) (pctDec sE)
        if !(tag == "parked" || tag == "retry" || tag == "failed") then setBad s ("unknown-answer:" ++ pctEnc out)
        else if wait % 1000000000 != 0 then setBad s "cool-down-not-whole-seconds"
        else if tag == "failed" && ctr != 0 then setBad s s!"counter-kept-after-failed key={pctEnc key}"
        else if tag == "parked" && wait == 0 then setBad s "parked-without-cool-down"
        else
          let o : FOut := if tag == "failed" then .failed else .retry (wait / 1000000000)
          { s with fev := ⟨p, key, o⟩ :: s.fev }
    | _, _, _, _, _ => setBad s ("unparsable-answer:" ++ pctEnc out)
  | "fxe" :: _ =>
    if ows.head? == some "retry" && kvNat ows "act" == some 1 then s
    else setBad s ("parked-transaction-did-not-end-as-retry:" ++ pctEnc out)
  | "fx2" :: r =>
    -- two overlapping flows: each flow that matches the call must count the sequence on its own
    match kv r "seq", kvNat r "both", kvInt r "status", kv ows "A", kv ows "B", kvNat ows "act",
          kvNat ows "ctrA", kvNat ows "ctrB" with
    | some sE, some both, some status, some ta, some tb, some act, some ca, some cb =>
      let seq := pctDec sE
      let inR := decide (status >= s.lo) && decide (status <= s.hi)
      let one (st : JudgeSt × Bool) (l tag : String) (matches_ : Bool) (ctr : Nat) : JudgeSt × Bool :=
        let (s, anyRetry) := st
        match lookup l s.specs2 with
        | none => if tag == "-" then (s, anyRetry) else (setBad s s!"unconfigured-flow-{l}-ran", anyRetry)
        | some (key, att) =>
          if !matches_ then
            (if tag == "-" then (s, anyRetry) else (setBad s s!"flow-{l}-ran-outside-its-filter", anyRetry))
          else if tag == "-" then (setBad s s!"flow-{l}-did-not-run", anyRetry)
          else if !(tag == "skip" || tag == "retry" || tag == "failed") then
            (setBad s ("unknown-answer:" ++ pctEnc tag), anyRetry)
          else if inR == (tag == "skip") then
            (setBad s s!"gate-violated flow={l} in-range={b2s inR} answer={tag}", anyRetry)
          else if tag == "skip" then (s, anyRetry)
          else if tag == "failed" && ctr != 0 then (setBad s s!"counter-kept-after-failed flow={l}", anyRetry)
          else
            let o : FOut := if tag == "retry" then .retry 0 else .failed
            ({ s with fev := ⟨⟨att, 0, 0⟩, l ++ "/" ++ counterKey key seq, o⟩ :: s.fev },
             anyRetry || tag == "retry")
      let (s1, r1) := one (s, false) "A" ta (statusOk s.sa status) ca
      let (s2, r2) := one (s1, r1) "B" tb ((s.same || both == 1) && statusOk s.sb status) cb
      if (act != 0) != r2 then setBad s2 s!"retry-action-present={act}-but-some-processor-asked-retry={b2s r2}"
      else s2
    | _, _, _, _, _, _, _, _ => setBad s ("unparsable-answer:" ++ pctEnc out)
  | "fx" :: r =>
    match kv r "p", kv r "seq", ows.head?, kvNat ows "wait", kvNat ows "act", kvNat ows "ctr" with
    | some pE, some sE, some tag, some wait, some act, some ctr =>
      match lookup (pctDec pE) s.procs with
      | none => setBad s "answer-from-unconfigured-processor"
      | some p =>
        let key := counterKey (pctDec pE) (pctDec sE)
        let inR := if s.engine then
            match kvInt r "status" with
            | some st => decide (st >= s.lo) && decide (st <= s.hi)
            | none => true
          else true
        let skipped := tag == "skip"
        let isRetry := tag == "retry"
        if !(skipped || isRetry || tag == "failed") then setBad s ("unknown-answer:" ++ pctEnc out)
        else if !gateOk inR skipped (act != 0) isRetry then
          setBad s s!"gate-violated key={pctEnc key} in-range={b2s inR} answer={tag} act={act}"
        else if skipped then s
        else if wait % 1000000000 != 0 then setBad s "cool-down-not-whole-seconds"
        else if tag == "failed" && ctr != 0 then setBad s s!"counter-kept-after-failed key={pctEnc key}"
        else
          let o : FOut := if isRetry then .retry (wait / 1000000000) else .failed
          { s with fev := ⟨p, key, o⟩ :: s.fev }
    | _, _, _, _, _, _ => setBad s ("unparsable-answer:" ++ pctEnc out)
  | "pcfg" :: r =>
    match parsePcfg r with
    | some (cfg, _) => { s with pcfg := some cfg }
    | none => s
  | "dcfg" :: r =>
    match parsePcfg r, parseEarly r, parseKind r with
    | some (cfg, _), some e, some k =>
      { s with pcfg := some cfg, early := some e, dkind := k, order := (parseOrder r k).getD "sr" }
    | _, _, _ => s
  | "dreq" :: r =>
    -- a gateway-made early answer is a response of the sequence like any other
    match s.pcfg, s.early, kv r "id", kv r "seq", kvNat r "early" with
    | some cfg, some st, some idE, some sE, some e =>
      if out == "pass-with-retry-header" && s.dkind == "cache" && s.order == "rs" then
        -- class of finding F17c: retry listed before caching, the blanked response was cached with the retry header
        { s with f17c := true }
      else if e == 0 || (replays s.dkind && out == "pass") then
        (if out == "pass" then s else setBad s ("request-not-passed:" ++ pctEnc out))
      else
        let o : Option POut :=
          match ows with
          | ["early", _, "noop"] => some .noop
          | ["early", _, "retry", _] => (kvNat ows "after").map POut.retry
          | _ => none
        match o, kvInt ows "status" with
        | some o, some got =>
          let st := if replays s.dkind then got else st
          if got != st then setBad s s!"early-answer-status={got}-configured={st}"
          else if parseEp r == some "n" then
            (if o == .noop then s
             else setBad s s!"retry-asked-on-endpoint-without-retry-remedy seq={pctEnc (pctDec sE)}")
          else { s with pev := ⟨pctDec sE, pctDec idE == pctDec sE, inRange cfg st, o⟩ :: s.pev }
        | _, _ => setBad s ("unparsable-answer:" ++ pctEnc out)
    | _, _, _, _, _ => s
  | "pbulk" :: r =>
    match s.pcfg, kvNat r "n", kv r "prefix", kvInt r "status", ows.head?, kvNat ows "retry", kvNat ows "noop" with
    | some cfg, some n, some preE, some status, some "bulk", some nr, some nn =>
      if nr + nn != n then setBad s "bulk-count-mismatch"
      else
        let inR := inRange cfg status
        let evs := (List.range n).map fun i =>
          (⟨pctDec preE ++ "-" ++ toString i, true, inR, if i < nr then .retry 0 else .noop⟩ : PEvent)
        { s with pev := evs.reverse ++ s.pev }
    | _, _, _, _, _, _, _ => setBad s ("unparsable-answer:" ++ pctEnc out)
  | "dresp" :: r =>
    match s.pcfg, kv r "id", kv r "seq", kvInt r "status" with
    | some cfg, some idE, some sE, some status =>
      let o : Option POut :=
        if out == "noop" then some .noop
        else match ows with
          | ["retry", _] => (kvNat ows "after").map POut.retry
          | _ => none
      match o with
      | some o =>
        if parseEp r == some "n" then
          (if o == .noop then s
           else setBad s s!"retry-asked-on-endpoint-without-retry-remedy seq={pctEnc (pctDec sE)}")
        else { s with pev := ⟨pctDec sE, pctDec idE == pctDec sE, inRange cfg status, o⟩ :: s.pev }
      | none => setBad s ("unparsable-answer:" ++ pctEnc out)
    | _, _, _, _ => s
  | "presp" :: r =>
    match s.pcfg, kv r "id", kv r "seq", kvInt r "status" with
    | some cfg, some idE, some sE, some status =>
      let o : Option POut :=
        if out == "noop" then some .noop
        else match ows with
          | ["retry", _] => (kvNat ows "after").map POut.retry
          | _ => none
      match o with
      | some o => { s with pev := ⟨pctDec sE, pctDec idE == pctDec sE, inRange cfg status, o⟩ :: s.pev }
      | none => setBad s ("unparsable-answer:" ++ pctEnc out)
    | _, _, _, _ => s
  | _ => s

/-- oldest offending flows event, for the message -/
def findBadF : List FEvent → Option (FEvent × Nat)
  | [] => none
  | e :: older =>
    match findBadF older with
    | some x => some x
    | none => if fEventOk e older then none else some (e, retriesSince e.key older)

/-- first event the budget monitor refuses (index, event) -/
def findBadP (A : Int) : AMap Nat → Nat → List PEvent → Option (Nat × PEvent)
  | _, _, [] => none
  | b, i, e :: es =>
    match pmon A b e with
    | none => some (i, e)
    | some b' => findBadP A b' (i + 1) es

def judgeFinish (s : JudgeSt) : String :=
  match s.bad with
  | some b => s!"fail - {b}"
  | none =>
    if s.f17c then "fail F17c cached-blank-response-replayed-with-retry-header(retry-listed-before-caching)" else
    if !fholdsRev s.fev then
      match findBadF s.fev with
      | some (e, n) =>
        let o := match e.out with | .failed => "failed" | .retry w => s!"retry/{w}s"
        s!"fail - flows-bound-violated key={pctEnc e.key} attempts={e.cfg.attempts} retries-since-failed={n} answer={o}"
      | none => "fail - flows-bound-violated"
    else
      match s.pcfg with
      | none => "ok"
      | some cfg =>
        let h := s.pev.reverse
        if pholds cfg.attempts h then "ok"
        else
          match findBadP cfg.attempts [] 0 h with
          | some (i, e) =>
            let what := match e.out with
              | .noop => "first-response-of-a-sequence-refused-its-retries"
              | .retry _ => if e.inRange then "retry-asked-beyond-the-budget" else "retry-asked-outside-the-conditions"
            s!"fail - policy-budget-violated {what} attempts={cfg.attempts} seq={pctEnc e.seq} first={b2s e.first} event={i}/{h.length}"
          | none => s!"fail - policy-budget-violated attempts={cfg.attempts} events={h.length}"

def main (args : List String) : IO Unit :=
  match args with
  | ["run"] => runLoop runStep {}
  | ["judge"] => judgeLoop ({} : JudgeSt) judgeStep judgeFinish
  | _ => IO.eprintln "usage: lvdriver_c17 run|judge"
