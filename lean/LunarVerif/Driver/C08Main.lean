import LunarVerif.Base.Proto
import LunarVerif.Spec.C08
/-!
Driver for C08: `lvdriver_c08 run` (model answers) / `lvdriver_c08 judge` (Spec on impl answers).

Op lines (one case = `init`, then any number of `ls` / `probe` / `put`):

  init <logical>=<tok> ...                      → ok | err:load
  ls                                            → <logical>=<tok> ... (sorted by logical path) | %e
  probe a,b,c                                   → a=s401,b=pass,c=pass
  put ep=configuration|apply_flows m=PUT|GET|POST body=items|badjson|null items=<l>:<tok>,... |%e
      fault=none|backup|save:<l>|sunlink:<l>|rread|rstore:<l>|runlink:<l>|haproxy:<r>|hacall:<managed|body|capture>:<l>|clean:<g|um> gate=0|1 corder=g,um|um,g
      [rpos=first|last] probes=a,b              → status=<n> phase=<p> mid=<vec>;<vec> | mid=%e

  hold <put words>                              → parked | (the put's answer, if it ended before its Backup)
  release                                       → (the held put's answer) | none
`hold` starts a push and parks it at the first read of its `Backup()` (inside the critical section);
while it is parked every other push (`put`, must be fault=none gate=0) is answered 226 / phase busy;
`release` lets it finish. Names may carry up to two directory levels (`f/team/x/a.yaml`).

  tick                                          → ok      (the 30 s un-manage delay elapses on the engine's clock)
  managed                                       → f/a.yaml,q/qa.yaml | %e | n/a
`managed` lists the configuration files whose endpoints the (stub) HAProxy currently hands to the engine;
`n/a` once a HAProxy admin call was made to fail in the case (which calls got through then depends on Go's
map order). After a `tick` it must be exactly the endpoints of the serving configuration.

Policies mode (a case that starts with `pinit`; run by a second engine process with LUNAR_STREAMS_ENABLED unset):
  pinit k=<0-9>                                 → ok
  pstate                                        → disk=<label> run=s40<label>
  ppush k=<0-9>|invalid|badyaml fault=none|ha   → status=200|422    (ha: the proxy refuses every admin call)
  prevert to=last|diag fault=none|ha            → status=200|422

`rpos` (default first) says where Go's map iteration puts the path of an `rstore:` fault among the
files `Restore()` writes back: first (nothing else restored) or last (everything else restored).
The judge evaluates the Spec only for fault plans without a fault inside the restore
(`Step.inRestore`): after such a request the rest of the case is outside the theorems' hypotheses.

Logical paths: f/<name> q/<name> p/<name> (name = up to three components [a-z0-9.]+, hidden names included), g, um, dm.
Tokens: flows v<k> / w<k> (same flow, longer file) / b<k> (needs the body) / d<k> (all named alike: at most one may be loaded) valid, quotas q<k> valid, path params anything, gateway g<k>|empty valid,
metrics m<k> loadable; everything else is rejected by the dry run / the metrics loader.
An item token `@` is a value that is not base64.
-/
open LunarVerif LunarVerif.Proto LunarVerif.C08

/-- One path component: `[a-z0-9.]+` but neither `.` nor `..` (hidden names such as `.gitkeep`, `..data`,
    `.hidden` are ordinary components). -/
def okSeg (t : String) : Bool :=
  !t.isEmpty && t != "." && t != ".." &&
  (t.toList.all fun c => c.isDigit || ('a' ≤ c && c ≤ 'z') || c == '.')

/-- `[dir/[dir/]]name`: up to two directory levels; the name need not end in `.yaml` (the loaders ignore
    such files, clean-up / backup / restore do not). -/
def okName (n : String) : Bool :=
  let parts := n.splitOn "/"
  parts.length ≤ 3 && parts.all okSeg

def nested (n : String) : Bool := (n.splitOn "/").length > 1

/-- What the flows loader (`Glob(dir/*.yaml)`, dot names included) and the quota loader (`*.yaml` of the
    directory itself) read: everything else in the directories is only stored, backed up and cleaned. -/
def loaded (n : String) : Bool := !nested n && n.endsWith ".yaml"

def parsePath (s : String) : Option Path :=
  if s == "g" then some .gateway
  else if s == "um" then some .userMetrics
  else if s == "dm" then some .defaultMetrics
  else if s.startsWith "f/" && okName (s.drop 2).toString then some (.flow (s.drop 2).toString)
  else if s.startsWith "q/" && okName (s.drop 2).toString then some (.quota (s.drop 2).toString)
  else if s.startsWith "p/" && okName (s.drop 2).toString then some (.pparam (s.drop 2).toString)
  else none

def fmtPath : Path → String
  | .flow n => "f/" ++ n
  | .quota n => "q/" ++ n
  | .pparam n => "p/" ++ n
  | .gateway => "g"
  | .userMetrics => "um"
  | .defaultMetrics => "dm"

def tokIs (pre : Char) (t : String) : Bool :=
  match t.toList with
  | c :: rest => c == pre && !rest.isEmpty && rest.all Char.isDigit
  | [] => false

def fileValid : Path × Bytes → Bool
  | (.flow n, t) => !loaded n || tokIs 'v' t || tokIs 'w' t || tokIs 'b' t || tokIs 'd' t   -- the flows loader globs `*.yaml` of the directory itself only
  | (.quota n, t) => !loaded n || tokIs 'q' t  -- the quota loader skips sub-directories too
  | (.gateway, t) => tokIs 'g' t || t == "empty"
  | _ => true

/-- Flow tokens d<k> all carry the SAME flow name: the loader refuses two loaded files with one name
    ("duplicate flow name"). -/
def dupNamed (d : Disk) : Nat :=
  (d.filter fun e => match e.1 with | .flow n => loaded n && tokIs 'd' e.2 | _ => false).length

def envValidates (d : Disk) : Bool := d.all fileValid && dupNamed d ≤ 1

def envMetricsOk (d : Disk) : Bool :=
  match d.get .userMetrics with
  | some t => tokIs 'm' t || tokIs 'n' t
  | none => match d.get .defaultMetrics with
    | some t => tokIs 'm' t || tokIs 'n' t
    | none => false

def envHasEndpoints (d : Disk) : Bool :=
  d.any fun e => match e.1 with | .flow n => loaded n | .quota n => loaded n | _ => false

/-- Map order of `Restore()`: the faulted path first or last, the others in list order. -/
def restoreOrderOf (fault : Option Step) (first : Bool) (L : List Path) : List Path :=
  match fault with
  | some (.restoreStore x) =>
    if first then L.filter (· == x) ++ L.filter (· != x) else L.filter (· != x) ++ L.filter (· == x)
  | _ => L

/-- Is the refused admin call made at all when the engine switches to `d`? `managed_endpoint` for every loaded
    flow / quota file, `include_body_from` only for flows with a processor that needs the body (token b<k>),
    `capture_req_from` for none of the flows of this harness. -/
def haCallMade (hc : String × Path) (d : Disk) : Bool :=
  match d.get hc.2 with
  | none => false
  | some t =>
    let isLoaded := match hc.2 with | .flow n => loaded n | .quota n => loaded n | _ => false
    isLoaded && (hc.1 == "managed" || (hc.1 == "body" && tokIs 'b' t))

def mkEnv (fault : Option Step) (corder : List Path) (rfirst : Bool := true) (backupBroken : Bool := false)
    (haCall : Option (String × Path) := none) : Env :=
  { plan := fun s => (backupBroken && decide (s = .backupRead)) ||
      (match fault with | some f => decide (s = f) | none => false),
    validates := envValidates, metricsOk := envMetricsOk,
    hasEndpoints := (match haCall with | some hc => haCallMade hc | none => envHasEndpoints),
    cleanOrder := corder, restoreOrder := restoreOrderOf fault rfirst }

def fmtDisk (d : Disk) : String :=
  let ws := (d.map fun e => (fmtPath e.1, e.2)).toArray.qsort (fun a b => a.1 < b.1)
  if ws.isEmpty then "%e" else " ".intercalate (ws.toList.map fun e => e.1 ++ "=" ++ e.2)

def verdict (o : Option Bytes) : String :=
  match o with
  | none => "pass"
  | some t =>
    if tokIs 'v' t || tokIs 'w' t || tokIs 'b' t || tokIs 'd' t then
      match (t.drop 1).toString.toNat? with
      | some k => "s" ++ toString (400 + k)
      | none => "s?"
    else "s?" ++ t

def probeNames (s : String) : List String := if s == "%e" then [] else s.splitOn ","

def fmtProbe (names : List String) (e : Engine) : String :=
  if names.isEmpty then "%e" else
  ",".intercalate (names.map fun n => n ++ "=" ++ verdict (e.probe (.flow (n ++ ".yaml"))))

def fmtPhase : Phase → String
  | .busy => "busy" | .method => "method" | .decode => "decode" | .nodata => "nodata" | .backup => "backup" | .parse => "parse"
  | .cleanup => "cleanup" | .save => "save" | .reload => "reload" | .ok => "ok"

def parsePhase (s : String) : Option Phase :=
  [Phase.busy, .method, .decode, .nodata, .backup, .parse, .cleanup, .save, .reload, .ok].find? (fun p => fmtPhase p == s)

def rank : Path → Nat
  | .flow _ => 0 | .quota _ => 1 | .pparam _ => 2 | .gateway => 3 | .userMetrics => 4 | .defaultMetrics => 5

def nondecreasing : List Nat → Bool
  | a :: b :: rest => decide (a ≤ b) && nondecreasing (b :: rest)
  | _ => true

def nodupPaths : List Path → Bool
  | [] => true
  | p :: rest => !rest.contains p && nodupPaths rest

def parseItems (s : String) : Option (List Item) :=
  if s == "%e" then some [] else
  let r := (s.splitOn ",").mapM fun w =>
    match w.splitOn ":" with
    | [l, t] =>
      match parsePath l with
      | some p => if t.isEmpty then none else some (Item.mk p (if t == "@" then none else some t))
      | none => none
    | _ => none
  match r with
  | some items =>
    let ps := items.map (·.path)
    if nondecreasing (ps.map rank) && nodupPaths ps && !ps.contains .defaultMetrics then
      -- base64 of zero bytes is the empty string, which `isGatewayConfigSpecified` /
      -- `isMetricsConfigSpecified` read as "field absent"
      some (items.filter fun i =>
        !((i.path == .gateway || i.path == .userMetrics) && i.content == some "empty"))
    else none
  | none => none

/-- `hacall:<managed|body|capture>:<logical>`: in reload round 1 the stub HAProxy refuses that one admin call
    for the endpoints of that file (a `Step.haproxy 1` that only exists if the call is made). -/
def parseHaCall (s : String) : Option (String × Path) :=
  match s.splitOn ":" with
  | ["hacall", call, l] =>
    if call == "managed" || call == "body" || call == "capture" then (parsePath l).map fun p => (call, p) else none
  | _ => none

def parseFault (s : String) : Option (Option Step) :=
  if (parseHaCall s).isSome then some (some (.haproxy 1)) else
  if s == "none" then some none
  else if s == "backup" then some (some .backupRead)
  else if s == "rread" then some (some .restoreRead)
  else match s.splitOn ":" with
    | ["save", l] => (parsePath l).map fun p => some (.save p)
    | ["rstore", l] => (parsePath l).map fun p => some (.restoreStore p)
    | ["sunlink", l] => (parsePath l).map fun p => some (.saveUnlink p)
    | ["runlink", l] => (parsePath l).map fun p => some (.restoreUnlink p)
    | ["haproxy", r] => match r.toNat? with
      | some n => if n == 1 || n == 2 then some (some (.haproxy n)) else none
      | none => none
    | ["clean", l] => if l == "g" then some (some (.cleanRemove .gateway))
                      else if l == "um" then some (some (.cleanRemove .userMetrics)) else none
    | _ => none

structure Put where
  req : Req
  haCall : Option (String × Path) := none   -- hacall:<call>:<file>: the one admin call the stub refuses (round 1)
  fault : Option Step
  corder : List Path
  rfirst : Bool
  probes : List String

def parsePut (ws : List String) : Option Put := do
  let ep ← match kv ws "ep" with
    | some "configuration" => some Endpoint.configuration
    | some "apply_flows" => some Endpoint.applyFlows
    | _ => none
  let m ← kv ws "m"
  if !(m == "PUT" || m == "GET" || m == "POST") then none
  let b ← kv ws "body"
  let itemsS ← kv ws "items"
  let items ← parseItems itemsS
  let body ← if b == "items" then some (Body.payload items)
             else if b == "badjson" then some Body.badJson
             else if b == "null" then some Body.null else none
  let fault ← (kv ws "fault").bind parseFault
  let haCall := (kv ws "fault").bind parseHaCall
  let gate ← match kv ws "gate" with | some "0" => some false | some "1" => some true | _ => none
  let corder ← match kv ws "corder" with
    | some "g,um" => some [Path.gateway, Path.userMetrics]
    | some "um,g" => some [Path.userMetrics, Path.gateway]
    | _ => none
  let rfirst ← match kv ws "rpos" with
    | none => some true
    | some "first" => some true
    | some "last" => some false
    | _ => none
  let probes ← kv ws "probes"
  pure { req := { ep := ep, methodPut := m == "PUT", body := body, gate := gate },
         haCall := haCall, fault := fault, corder := corder, rfirst := rfirst, probes := probeNames probes }

def parseEntries (ws : List String) : Option Disk :=
  ws.foldlM (init := ([] : Disk)) fun d w =>
    match w.splitOn "=" with
    | [l, t] =>
      match parsePath l with
      | some p => if t.isEmpty || (d.get p).isSome then none else some (d.write p t)
      | none => none
    | _ => none

/-- `init` entries. Besides `<logical>=<tok>` (a regular file):
      `<logical>=<tok>~out`   a symbolic link to a file outside the configuration directories holding <tok>
      `<logical>=<tok>~in`    a symbolic link to `<dir>/lnk/<name>` (which must be listed, with the same token)
      `<logical>=~dangling`   a symbolic link to nothing
      `<logical>=~dir`        a symbolic link to a directory
    (links only in f/ q/ p/). What the code does with them today — `filepath.Walk` uses Lstat, so a link is a
    non-directory entry; `backupFile` Stats/opens/reads THROUGH it — is mirrored as: a link to a file IS a
    file with the content read through it (backed up, cleaned, restored as a regular file with that
    content: the observers of the property — loaders, engine, `ls` — read through the path); a dangling
    link is absent (Stat says "not exist": skipped by the backup, removed by clean-up, never restored); a
    link to a directory makes every `Backup()` fail (`ReadAll` on a directory), so every push is answered
    500 in phase backup and changes nothing. Returns the tree and that flag. -/
def parseInit (ws : List String) : Option (Disk × Bool) := do
  let step (acc : Disk × Bool × List Path × List (Path × Bytes)) (w : String) :
      Option (Disk × Bool × List Path × List (Path × Bytes)) :=
    let (d, dirl, seen, ins) := acc
    match w.splitOn "=" with
    | [l, v] =>
      match parsePath l with
      | none => none
      | some p =>
        if seen.contains p || v.isEmpty then none else
        let isDirFile := match p with | .flow _ | .quota _ | .pparam _ => true | _ => false
        match v.splitOn "~" with
        | [t] => some (d.write p t, dirl, p :: seen, ins)
        | [t, kind] =>
          if !isDirFile then none
          else if t.isEmpty && kind == "dangling" then some (d, dirl, p :: seen, ins)
          else if t.isEmpty && kind == "dir" then some (d, true, p :: seen, ins)
          else if !t.isEmpty && kind == "out" then some (d.write p t, dirl, p :: seen, ins)
          else if !t.isEmpty && kind == "in" then some (d.write p t, dirl, p :: seen, (p, t) :: ins)
          else none
        | _ => none
    | _ => none
  let (d, dirl, _, ins) ← ws.foldlM step (([] : Disk), false, [], [])
  -- every `~in` link needs its target `<dir>/lnk/<name>` in the tree, holding the same token
  let okIn := ins.all fun (p, t) =>
    match p with
    | .flow n => !nested n && d.get (.flow ("lnk/" ++ n)) == some t
    | .quota n => !nested n && d.get (.quota ("lnk/" ++ n)) == some t
    | .pparam n => !nested n && d.get (.pparam ("lnk/" ++ n)) == some t
    | _ => false
  if okIn then pure (d, dirl) else none

/-- Endpoints an engine asks HAProxy to manage: one per loaded flow / quota file. -/
def endpointsOfDisk (d : Disk) : List Path :=
  (d.filter fun e => match e.1 with | .flow n => loaded n | .quota n => loaded n | _ => false).map (·.1)

def endpointsOf : Engine → List Path
  | .ready d => endpointsOfDisk d
  | .uninit => []

def fmtEndpoints (eps : List Path) : String :=
  let ws := (eps.map fmtPath).toArray.qsort (· < ·)
  if ws.isEmpty then "%e" else ",".intercalate ws.toList

structure RunSt where
  pst : Option PState := none   -- policies mode
  reg : Registry := Registry.empty
  regNA : Bool := false     -- the roll-back's HAProxy update was made to fail: the managed set is not predicted
  regFuzzy : Bool := false  -- a HAProxy update failed half-way: not predicted until the next `tick`
  dirLink : Bool := false   -- a link to a directory sits in the tree: every Backup() fails
  st : State := ⟨[], .uninit⟩
  live : Bool := false
  held : Option Put := none

def fmtMid (names : List String) (mid : List Engine) : String :=
  if mid.isEmpty then "%e" else ";".intercalate (mid.map (fmtProbe names))

/-- The engine switches of a request, as (engine before, engine after) pairs: every switch is preceded by
    the yield point, so a run with the gate on lists the engines before each switch, and the engine after
    a switch is the one before the next (or the final one). -/
def switchesOf (env : Env) (st : State) (req : Req) : List (Engine × Engine) :=
  let rg := handle env st { req with gate := true }
  match rg.mid with
  | [] => []
  | _ :: tl => rg.mid.zip (tl ++ [rg.engine])

def advanceReg (s : RunSt) (p : Put) : RunSt :=
  let env := mkEnv p.fault p.corder p.rfirst s.dirLink p.haCall
  let r := handle env s.st p.req
  let sws := switchesOf env s.st p.req
  -- reload round of each switch: a 200 switched in round 1; a rolled-back push switches in round 2, and in
  -- round 1 too if it failed only after the switch
  let rounds : List Nat := if sws.length == 2 then [1, 2] else if r.status == 200 then [1] else [2]
  let reg := (sws.zip rounds).foldl
    (fun (rg : Registry) (x : (Engine × Engine) × Nat) =>
      let target := match x.1.2 with | .ready d => d | .uninit => []
      -- the HAProxy update of this switch fails: the request serial is consumed, nothing is scheduled
      -- (which of its calls got through before depends on Go's map order: `managed` answers n/a until the
      -- un-manage delay has removed whatever that was)
      if env.plan (.haproxy x.2) && env.hasEndpoints target then { rg with serial := rg.serial + 1 }
      else rg.switch (endpointsOf x.1.1) (endpointsOf x.1.2)) s.reg
  let fuzzy := match p.fault with | some (.haproxy 1) => true | _ => false
  let na := match p.fault with | some (.haproxy 2) => true | _ => false
  { s with reg := reg, regNA := s.regNA || na, regFuzzy := s.regFuzzy || fuzzy }

def runStep (s : RunSt) (line : String) : RunSt × String :=
  match words line with
  | ["case", id] => ({}, s!"case {id}")
  | "init" :: ws =>
    match parseInit ws with
    | none => ({ s with live := false }, "bad-op")
    | some (d, dirl) =>
      let r := reload (mkEnv none []) 1 false d .uninit []
      if r.ok then
        ({ s with st := ⟨d, r.engine⟩, live := true, dirLink := dirl, regNA := false, regFuzzy := false,
                  reg := Registry.empty.manage (endpointsOfDisk d) }, "ok")
      else ({ s with live := false }, "err:load")
  | ["ls"] => if s.live then (s, fmtDisk s.st.disk) else (s, "skip")
  | ["probe", names] => if s.live then (s, fmtProbe (probeNames names) s.st.engine) else (s, "skip")
  | "put" :: ws =>
    match parsePut ws with
    | none => (s, "bad-op")
    | some p =>
      if !s.live then (s, "skip") else
      if s.held.isSome && (p.fault.isSome || p.req.gate) then (s, "bad-op") else
      let r := handleLocked (mkEnv p.fault p.corder p.rfirst s.dirLink p.haCall) s.st s.held.isSome p.req
      let s := if s.held.isSome then s else advanceReg s p
      ({ s with st := r.state },
       s!"status={r.status} phase={fmtPhase r.phase} mid={fmtMid p.probes r.mid}")
  | ["pinit", w] =>
    match kvNat [w] "k" with
    | some k => if k ≤ 9 then ({ s with pst := some ⟨k, k⟩ }, "ok") else ({ s with pst := none }, "bad-op")
    | none => ({ s with pst := none }, "bad-op")
  | ["pstate"] =>
    match s.pst with
    | some st => (s, s!"disk={st.disk} run=s{400 + st.run}")
    | none => (s, "skip")
  | ["ppush", a, b] =>
    let ws := [a, b]
    let payload : Option PPayload := match kv ws "k" with
      | some "invalid" => some .invalid
      | some "badyaml" => some .invalid
      | some l => match l.toNat? with
        | some k => if l.length == 1 then some (.label k) else none
        | none => none
      | none => none
    let refuses : Option Bool := match kv ws "fault" with
      | some "none" => some false | some "ha" => some true | _ => none
    match payload, refuses with
    | some pl, some rf =>
      match s.pst with
      | some st => let r := applyPolicies rf st pl; ({ s with pst := some r.2 }, s!"status={r.1}")
      | none => (s, "skip")
    | _, _ => (s, "bad-op")
  | ["prevert", a, b] =>
    let ws := [a, b]
    let okTo := match kv ws "to" with | some "last" => true | some "diag" => true | _ => false
    let refuses : Option Bool := match kv ws "fault" with
      | some "none" => some false | some "ha" => some true | _ => none
    match okTo, refuses with
    | true, some rf =>
      match s.pst with
      | some st => let r := revertPolicies rf st; ({ s with pst := some r.2 }, s!"status={r.1}")
      | none => (s, "skip")
    | _, _ => (s, "bad-op")
  | ["tick"] => if s.live then ({ s with reg := s.reg.tick, regFuzzy := false }, "ok") else (s, "skip")
  -- recorded by the harness: the delayed un-manage jobs of this tick did not finish in time; the managed
  -- set is not compared (nor judged) from here on
  | ["tick", "unsettled"] =>
    if s.live then ({ s with reg := s.reg.tick, regFuzzy := false, regNA := true }, "ok") else (s, "skip")
  | ["managed"] =>
    if !s.live then (s, "skip") else
    if s.regNA || s.regFuzzy then (s, "n/a") else (s, fmtEndpoints s.reg.managed)
  | "hold" :: ws =>
    match parsePut ws with
    | none => (s, "bad-op")
    | some p =>
      if !s.live then (s, "skip") else
      if s.held.isSome then (s, "bad-op") else
      -- everything before `Backup()` (method check, JSON decode) happens before the parking point
      let r := handle (mkEnv p.fault p.corder p.rfirst s.dirLink p.haCall) s.st p.req
      if r.phase == .method || r.phase == .decode || r.phase == .nodata then
        (s, s!"status={r.status} phase={fmtPhase r.phase} mid={fmtMid p.probes r.mid}")
      else ({ s with held := some p }, "parked")
  | ["release"] =>
    if !s.live then (s, "skip") else
    match s.held with
    | none => (s, "none")
    | some p =>
      let r := handle (mkEnv p.fault p.corder p.rfirst s.dirLink p.haCall) s.st p.req
      let s := advanceReg s p
      ({ s with st := r.state, held := none },
       s!"status={r.status} phase={fmtPhase r.phase} mid={fmtMid p.probes r.mid}")
  | _ => (s, "bad-op")

/-! ### judge -/

structure Pending where
  put : Put
  before : Disk
  probesBefore : String
  status : Nat
  phase : Phase
  mid : List String
  after : Option Disk := none

structure JudgeSt where
  lastLs : Option Disk := none
  lastProbe : Option String := none
  pending : Option Pending := none
  bad : Option String := none
  fail : Option String := none
  dead : Bool := false
  held : Option Put := none
  ticked : Bool := false
  lastP : Option String := none           -- policies mode: last `pstate`
  pendingP : Option (String × String × String) := none  -- op, status, pstate before

def parseListing (out : String) : Option Disk :=
  if out == "%e" then some [] else parseEntries (words out)

def whichConjunct (o : Obs String) : String :=
  if o.status ≠ 200 then
    (if sameDisk o.after o.before then "" else "disk-changed ") ++
    (if o.probesAfter = o.probesBefore then "" else "verdicts-changed ") ++
    (if o.mid.all (fun m => decide (m = o.probesBefore)) then "" else "mid-verdicts-differ")
  else
    (if o.mid.all (fun m => decide (m = o.probesBefore) || decide (m = o.probesAfter)) then ""
     else "served-by-neither-old-nor-new ") ++
    (if successDisk o then "" else "disk-is-not-the-payload")

def evalPending (s : JudgeSt) (p : Pending) (after : Disk) (probesAfter : String) (names : String := "") : JudgeSt :=
  let o : Obs String :=
    { ep := p.put.req.ep, methodPut := p.put.req.methodPut, items := bodyItems p.put.req.body,
      gate := p.put.req.gate, status := p.status, phase := p.phase, before := p.before,
      after := after, probesBefore := p.probesBefore, probesAfter := probesAfter, mid := p.mid }
  let s := { s with pending := none, lastLs := some after, lastProbe := some probesAfter }
  -- an accepted push: the flows that answer are the flows of the tree (every loaded flow file is served)
  let expected := fmtProbe (probeNames names) (.ready after)
  if holds o && p.status == 200 && !names.isEmpty && probesAfter != expected && s.fail.isNone then
    { s with fail := some s!"- status=200 serving-configuration-differs-from-tree verdicts={probesAfter} tree-implies={expected}" }
  else
  if holds o then s
  else if s.fail.isSome then s
  else
    let fid := match finding o with | some f => f | none => "-"
    { s with fail := some s!"{fid} status={o.status} phase={fmtPhase o.phase} {whichConjunct o}" }

def judgePut (s0 : JudgeSt) (p : Put) (out : String) : JudgeSt :=
  let s := { s0 with ticked := false }
  -- a fault inside the restore: outside the hypotheses (double fault); nothing to judge from here on
  if (match p.fault with | some f => f.inRestore | none => false) then { s with dead := true, pending := none } else
  let ows := words out
  match kvNat ows "status", (kv ows "phase").bind parsePhase, kv ows "mid", s.lastLs, s.lastProbe with
  | some st, some ph, some mid, some b, some pb =>
    { s with pending := some { put := p, before := b, probesBefore := pb, status := st, phase := ph,
                               mid := if mid == "%e" then [] else mid.splitOn ";" } }
  | some _, some _, some _, _, _ => { s with pending := none }
  | _, _, _, _, _ => { s with bad := some ("unparsable-output:" ++ pctEnc out) }

def judgeStep (s : JudgeSt) (op out : String) : JudgeSt :=
  if s.dead || out == "skip" then s else
  -- the request killed the handler / the engine process: certainly not all-or-nothing
  if out.startsWith "child-died" || (out.splitOn "transport-error").length > 1 then
    { s with dead := true,
             fail := match s.fail with
               | some f => some f
               | none => some ("- the-request-killed-the-handler " ++ pctEnc out) } else
  match words op with
  | "init" :: _ => if out == "ok" then s else { s with dead := true }
  | ["ls"] =>
    match parseListing out with
    | none => { s with bad := some ("unparsable-listing:" ++ pctEnc out) }
    | some d =>
      match s.pending with
      | some p => if p.after.isNone then { s with pending := some { p with after := some d } }
                  else { s with lastLs := some d }
      | none => { s with lastLs := some d }
  | ["probe", names] =>
    match s.pending with
    | some p =>
      match p.after with
      | some a => evalPending s p a out names
      | none => { s with pending := none, lastProbe := some out }
    | none => { s with lastProbe := some out }
  | "put" :: ws =>
    if out == "bad-op" then s else
    match parsePut ws with
    | none => { s with bad := some "unparsable-put" }
    | some p => judgePut s p out
  | ["pstate"] =>
    let s' := { s with lastP := some out, pendingP := none }
    match s.pendingP with
    | none => s'
    | some (pop, status, before) =>
      if s.fail.isSome then s' else
      if status != "status=200" then
        -- refused / failed: policies.yaml and the policies serving new transactions as before
        if out == before then s'
        else { s' with fail := some s!"- policies-push-refused-but-state-changed {pctEnc pop} {status} before={pctEnc before} after={pctEnc out}" }
      else
        match (words pop), kv (words pop) "k" with
        | "ppush" :: _, some l =>
          let expected := s!"disk={l} run=s{400 + l.toNat?.getD 0}"
          if out == expected then s'
          else { s' with fail := some s!"- accepted-policies-push-not-in-force expected={pctEnc expected} after={pctEnc out}" }
        | _, _ => if out == before then s' else
          { s' with fail := some s!"- revert-changed-state before={pctEnc before} after={pctEnc out}" }
  | "ppush" :: _ =>
    match s.lastP with
    | some b => { s with pendingP := some (op, out, b) }
    | none => s
  | "prevert" :: _ =>
    match s.lastP with
    | some b => { s with pendingP := some (op, out, b) }
    | none => s
  | ["tick"] => { s with ticked := true }
  | ["tick", "unsettled"] => { s with ticked := false }
  | ["managed"] =>
    -- once the un-manage delay has elapsed HAProxy must hand the engine exactly the endpoints of the
    -- serving configuration (= of the tree on disk): a rolled-back push must not cost the running flows
    -- their traffic, an accepted one must not keep the old ones
    if out == "n/a" || !s.ticked then s else
    match s.lastLs with
    | none => s
    | some d =>
      let expected := fmtEndpoints (endpointsOfDisk d)
      if out == expected || s.fail.isSome then { s with ticked := false }
      else { s with ticked := false,
                    fail := some s!"- managed-endpoints-differ-from-serving-configuration managed={out} serving={expected}" }
  | "hold" :: ws =>
    if out == "bad-op" then s else
    match parsePut ws with
    | none => { s with bad := some "unparsable-put" }
    | some p => if out == "parked" then { s with held := some p } else judgePut s p out
  | ["release"] =>
    match s.held with
    | some p => if out == "none" then { s with bad := some "release-lost-the-held-push" }
                else judgePut { s with held := none } p out
    | none => s
  | _ => s

def judgeFinish (s : JudgeSt) : String :=
  match s.bad with
  | some b => s!"fail - {b}"
  | none => match s.fail with
    | some f => s!"fail {f}"
    | none => "ok"

def main (args : List String) : IO Unit :=
  match args with
  | ["run"] => runLoop runStep {}
  | ["judge"] => judgeLoop ({} : JudgeSt) judgeStep judgeFinish
  | _ => IO.eprintln "usage: lvdriver_c08 run|judge"
