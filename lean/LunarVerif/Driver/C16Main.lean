import LunarVerif.Base.Proto
import LunarVerif.Spec.C16
/-!
Driver for C16: `lvdriver_c16 run` (model outputs) / `lvdriver_c16 judge` (Spec on impl outputs).

op     : `txn ex=<pct(JSON array of strings)> req=<pct(text)> resp=<pct(text)>`  one transaction through the
         flow-mode collector (request body then response body, one obfuscator);
         answer `req=<o> resp=<o>` with `<o>` = `ok:<pct(compact JSON)>` | `whole` | `empty` | `other`
op     : `pol n=<k> f0=<e|g><0|1><0|1> q0=<pct ex> s0=<pct ex> f1=… req=<pct text> resp=<pct text>`  one transaction in
         policy mode (`runner.RunTask`) with k HAR-exporter diagnoses: scope (endpoint / global), diagnosis
         enabled, obfuscation enabled, request_body_paths, response_body_paths;
         answer `n=<m> r0.req=<o> r0.resp=<o> r1.req=…` one record per export, `<o>` as for `txn` or `clear`
         (`txn` and `pol` may carry `gzreq= gzresp= padreq= padresp=`: the harness sends the body gzip-encoded /
         preceded by that many spaces — transfer details the model does not see)
op     : `multi mode=<nest|conc> k=<n> n=<count> e0=<pct ex> d0=<pct text> e1=… d1=…`  `count` overlapping
         `ObfuscateJSON` calls: `nest` = call i+1 runs from inside the hasher of call i at its k-th hashed
         value (after it when there are fewer), `conc` = concurrent goroutines on one P;
         answer `o0=<o> o1=<o> …` with `<o>` as for `txn` (or `err:parse`)
op     : `obf side=<raw|req|resp> ex=<pct(JSON array of strings)> doc=<pct(JSON text)>`
answer : `ok <pct(compact JSON)>`   the obfuscated document; a hashed leaf is the JSON string
                                    U+0001 `H(` pre-image `)` (the harness maps MD5 values back through
                                    a table built from the document's leaves)
         `err:parse`                `ObfuscateJSON` returned an error (side raw)
         `whole`                    the HAR collector replaced the unparsable body by `H(body)`
         `empty`                    the HAR collector returned the empty body unchanged

The JSON reader below covers the subset the generator emits: objects, arrays, strings (values keep
their LEXEME — every escape as written; names are decoded by the model's `unescape`), numbers `-?int(.frac)?` with at most 15
digits (lexeme kept), `true`/`false`/`null`.
-/
open LunarVerif LunarVerif.Proto LunarVerif.C16

namespace C16Drv

def isWs (c : Char) : Bool := c == ' ' || c == '\t' || c == '\n' || c == '\r'

def skipWs : List Char → List Char
  | c :: r => if isWs c then skipWs r else c :: r
  | [] => []

/-- after the opening quote: the LEXEME up to the closing quote (a quote preceded by a backslash escape
    does not close), escapes untouched -/
def scanLexeme (acc : List Char) : List Char → Option (Str × List Char)
  | [] => none
  | '"' :: r => some (acc.reverse, r)
  | '\\' :: e :: r => scanLexeme (e :: '\\' :: acc) r
  | c :: r => scanLexeme (c :: acc) r

/-- a field name: decoded -/
def parseStr (_ : List Char) (s : List Char) : Option (Str × List Char) :=
  (scanLexeme [] s).map fun (lx, r) => (unescape lx, r)

def isDigit (c : Char) : Bool := '0' ≤ c && c ≤ '9'

/-- strict JSON number without exponent; returns lexeme -/
def parseNum (s : List Char) : Option (Str × List Char) :=
  let (sign, s1) := match s with
    | '-' :: r => (['-'], r)
    | _ => ([], s)
  let ip := s1.takeWhile isDigit
  let s2 := s1.dropWhile isDigit
  if ip.isEmpty || (ip.length > 1 && ip.head? == some '0') then none else
  match s2 with
  | '.' :: r =>
    let fp := r.takeWhile isDigit
    if fp.isEmpty || ip.length + fp.length > 15 then none
    else some (sign ++ ip ++ '.' :: fp, r.dropWhile isDigit)
  | _ => if ip.length > 15 then none else some (sign ++ ip, s2)

mutual
partial def parseVal (s : List Char) : Option (Json × List Char) :=
  match skipWs s with
  | '{' :: r =>
    match skipWs r with
    | '}' :: r' => some (.obj [], r')
    | r' => parseFields [] r'
  | '[' :: r =>
    match skipWs r with
    | ']' :: r' => some (.arr [], r')
    | r' => parseElems [] r'
  | '"' :: r => (scanLexeme [] r).map fun (x, r') => (.str x, r')
  | 't' :: 'r' :: 'u' :: 'e' :: r => some (.bool true, r)
  | 'f' :: 'a' :: 'l' :: 's' :: 'e' :: r => some (.bool false, r)
  | 'n' :: 'u' :: 'l' :: 'l' :: r => some (.null, r)
  | c :: r => if c == '-' || isDigit c then (parseNum (c :: r)).map fun (x, r') => (.num x, r') else none
  | [] => none
partial def parseElems (acc : List Json) (s : List Char) : Option (Json × List Char) :=
  match parseVal s with
  | none => none
  | some (v, r) =>
    match skipWs r with
    | ',' :: r' => parseElems (v :: acc) r'
    | ']' :: r' => some (.arr (v :: acc).reverse, r')
    | _ => none
partial def parseFields (acc : List (Str × Json)) (s : List Char) : Option (Json × List Char) :=
  match skipWs s with
  | '"' :: r =>
    match parseStr [] r with
    | none => none
    | some (k, r1) =>
      match skipWs r1 with
      | ':' :: r2 =>
        match parseVal r2 with
        | none => none
        | some (v, r3) =>
          match skipWs r3 with
          | ',' :: r4 => parseFields ((k, v) :: acc) r4
          | '}' :: r4 => some (.obj ((k, v) :: acc).reverse, r4)
          | _ => none
      | _ => none
  | _ => none
end

def parseJson (s : String) : Option Json :=
  match parseVal s.toList with
  | some (v, r) => if (skipWs r).isEmpty then some v else none
  | none => none

def escStr (s : Str) : String :=
  s.foldl (init := "\"") (fun acc c =>
    if c == '"' then acc ++ "\\\""
    else if c == '\\' then acc ++ "\\\\"
    else if c.toNat < 32 then
      acc ++ "\\u00" ++ String.singleton (hexDigit (c.toNat / 16)).toLower ++ String.singleton (hexDigit (c.toNat % 16)).toLower
    else acc.push c) ++ "\""

mutual
partial def printJson : Json → String
  | .null => "null"
  | .bool true => "true"
  | .bool false => "false"
  | .num l => String.ofList l
  | .str lexeme => "\"" ++ String.ofList lexeme ++ "\""
  | .arr xs => "[" ++ ",".intercalate (xs.map printJson) ++ "]"
  | .obj kvs => "{" ++ ",".intercalate (kvs.map fun (k, v) => escStr k ++ ":" ++ printJson v) ++ "}"
end

/-- canonical escaping of a decoded string into a lexeme (same rules as `escStr`, without the quotes) -/
def lexEsc (s : Str) : Str := ((escStr s).toList.drop 1).dropLast

/-- The hash as the driver sees it: the LEXEME `\\u0001H(` canonical-escaping of the pre-image `)`. -/
def Hm (s : Str) : Str := "\\u0001H(".toList ++ lexEsc s ++ [')']

def parseSide (s : String) : Option Side :=
  if s == "raw" then some .raw else if s == "req" then some .req else if s == "resp" then some .resp else none

def parseEx (s : String) : Option (List Str) :=
  match parseJson s with
  | some (.arr xs) => xs.mapM fun x => match x with | .str e => some (unescape e) | _ => none
  | _ => none

structure Op where
  side : Side
  ex : List Str
  docText : String
  doc : Option Json

def parseOp (ws : List String) : Option Op := do
  let side ← (kv ws "side").bind parseSide
  let ex ← (kv ws "ex").bind (fun s => parseEx (pctDec s))
  let dt ← (kv ws "doc").map pctDec
  pure ⟨side, ex, dt, parseJson dt⟩

def input (o : Op) : Input :=
  match o.doc with
  | some d => .json d
  | none => .notJson o.docText.isEmpty

def fmtOutcome : Outcome → String
  | .doc out => "ok " ++ pctEnc (printJson out)
  | .parseError => "err:parse"
  | .whole => "whole"
  | .empty => "empty"
  | .clear => "clear"
  | .other => "other"

structure TxnOp where
  ex : List Str
  reqText : String
  respText : String
  padReq : Nat := 0     -- leading spaces the harness sends before the body (an all-space body is not empty)
  padResp : Nat := 0

def parseTxn (ws : List String) : Option TxnOp := do
  let ex ← (kv ws "ex").bind (fun s => parseEx (pctDec s))
  let rq ← (kv ws "req").map pctDec
  let rs ← (kv ws "resp").map pctDec
  pure ⟨ex, rq, rs, (kvNat ws "padreq").getD 0, (kvNat ws "padresp").getD 0⟩

def inputOfPad (text : String) (pad : Nat) : Input :=
  match parseJson text with
  | some d => .json d
  | none => .notJson (text.isEmpty && pad == 0)

def inputOf (text : String) : Input := inputOfPad text 0

def fmtTok : Outcome → String
  | .doc out => "ok:" ++ pctEnc (printJson out)
  | .parseError => "err:parse"
  | .whole => "whole"
  | .empty => "empty"
  | .clear => "clear"
  | .other => "other"

def parseTok (t : String) : Outcome :=
  if t.startsWith "ok:" then
    match parseJson (pctDec (t.drop 3).toString) with
    | some o => .doc o
    | none => .other
  else if t == "whole" then .whole
  else if t == "empty" then .empty
  else if t == "clear" then .clear
  else if t == "err:parse" then .parseError
  else .other

def answerTxn (t : TxnOp) : String :=
  let (a, b) := runTxn Hm t.ex (inputOfPad t.reqText t.padReq) (inputOfPad t.respText t.padResp)
  "req=" ++ fmtTok a ++ " resp=" ++ fmtTok b

def parseMulti (ws : List String) : Option (List (List Str × String)) := do
  let n ← kvNat ws "n"
  (List.range n).mapM fun i => do
    let e ← (kv ws s!"e{i}").bind (fun s => parseEx (pctDec s))
    let d ← (kv ws s!"d{i}").map pctDec
    pure (e, d)

def multiCalls (cs : List (List Str × String)) : List (List Str × Input) := cs.map fun c => (c.1, inputOf c.2)

def answerMulti (cs : List (List Str × String)) : String :=
  let outs := runMany Hm (multiCalls cs)
  " ".intercalate ((List.range outs.length).zip outs |>.map fun (i, o) => s!"o{i}=" ++ fmtTok o)

structure PolOp where
  diags : List Diag
  reqText : String
  respText : String

def parseDiag (ws : List String) (i : Nat) : Option Diag := do
  let f ← kv ws s!"f{i}"
  let q ← (kv ws s!"q{i}").bind (fun s => parseEx (pctDec s))
  let r ← (kv ws s!"s{i}").bind (fun s => parseEx (pctDec s))
  match f.toList with
  | [sc, en, ob] =>
    if (sc == 'e' || sc == 'g') && (en == '0' || en == '1') && (ob == '0' || ob == '1') then
      some ⟨sc == 'e', en == '1', ob == '1', q, r⟩
    else none
  | _ => none

def parsePol (ws : List String) : Option PolOp := do
  let n ← kvNat ws "n"
  let ds ← (List.range n).mapM (parseDiag ws)
  let rq ← (kv ws "req").map pctDec
  let rs ← (kv ws "resp").map pctDec
  pure ⟨ds, rq, rs⟩

def fmtRecords (rs : List (Outcome × Outcome)) : String :=
  " ".intercalate (s!"n={rs.length}" :: ((List.range rs.length).zip rs).map fun (i, a, b) =>
    s!"r{i}.req=" ++ fmtTok a ++ s!" r{i}.resp=" ++ fmtTok b)

def answerPol (p : PolOp) : String :=
  fmtRecords (runPolicy Hm p.diags (inputOf p.reqText) (inputOf p.respText))

def answer (o : Op) : String := fmtOutcome (run Hm o.side o.ex (input o))

def runStep (_ : Unit) (line : String) : Unit × String :=
  match words line with
  | ["case", id] => ((), s!"case {id}")
  | "obf" :: ws =>
    match parseOp ws with
    | some o => ((), answer o)
    | none => ((), "bad-op")
  | "txn" :: ws =>
    match parseTxn ws with
    | some t => ((), answerTxn t)
    | none => ((), "bad-op")
  | "multi" :: ws =>
    match parseMulti ws with
    | some cs => ((), answerMulti cs)
    | none => ((), "bad-op")
  | "pol" :: ws =>
    match parsePol ws with
    | some p => ((), answerPol p)
    | none => ((), "bad-op")
  | _ => ((), "bad-op")

structure JudgeSt where
  known : Option String := none     -- first failure that falls in the class of a listed finding
  unknown : Option String := none   -- first failure outside every listed class (reported with priority)

def short (s : String) : String := if s.length > 160 then (s.take 160).toString ++ "..." else s

def parseOutcome (out : String) : Outcome :=
  match words out with
  | ["ok", enc] => match parseJson (pctDec enc) with
    | some o => .doc o
    | none => .other
  | ["err:parse"] => .parseError
  | ["whole"] => .whole
  | ["empty"] => .empty
  | _ => .other

def sideName (s : Side) : String := match s with | .raw => "raw" | .req => "req" | .resp => "resp"

/-- `none` = the property holds on this op; `some "<finding|-> <message>"` otherwise. -/
def judgeOp (o : Op) (out : String) : Option String :=
  let oc := parseOutcome out
  if holdsOutcome Hm o.side o.ex (input o) oc then none
  else
    match o.doc, oc with
    | some d, .doc o' =>
      let fid := (finding o.side o.ex d).getD "-"
      some (fid ++ " spec-violated side=" ++ sideName o.side
        ++ " ex=" ++ pctEnc (printJson (.arr (o.ex.map fun e => .str (lexEsc e)))) ++ " doc=" ++ pctEnc (short (printJson d))
        ++ " out=" ++ pctEnc (short (printJson o')))
    | some _, _ => some ("- no-obfuscated-document-for-a-json-body side=" ++ sideName o.side ++ " answer=" ++ pctEnc (short out))
    | none, _ => some ("- non-json-body-not-hidden side=" ++ sideName o.side ++ " answer=" ++ pctEnc (short out))

/-- a transaction: each body against its own side (`Spec.holdsTxn`) -/
def judgeTxn (t : TxnOp) (out : String) : Option String :=
  let ws := words out
  let a := ((kv ws "req").map parseTok).getD .other
  let b := ((kv ws "resp").map parseTok).getD .other
  if holdsTxn Hm t.ex (inputOfPad t.reqText t.padReq) (inputOfPad t.respText t.padResp) (a, b) then none
  else
    let bad := if holdsOutcome Hm .req t.ex (inputOfPad t.reqText t.padReq) a then "response" else "request"
    some ("- spec-violated-in-transaction body=" ++ bad ++ " ex=" ++ pctEnc (printJson (.arr (t.ex.map fun e => .str (lexEsc e))))
      ++ " req=" ++ pctEnc (short t.reqText) ++ " resp=" ++ pctEnc (short t.respText) ++ " answer=" ++ pctEnc (short out))

/-- overlapping calls: each answer against its own call (`Spec.holdsMany`) -/
def judgeMulti (cs : List (List Str × String)) (out : String) : Option String :=
  let ws := words out
  let outs := (List.range cs.length).map fun i => ((kv ws s!"o{i}").map parseTok).getD .other
  if holdsMany Hm (multiCalls cs) outs then none
  else
    let bad := ((List.range cs.length).zip ((multiCalls cs).zip outs)).find? fun (_, c, o) => !(holdsOutcome Hm .raw c.1 c.2 o)
    let which := match bad with | some (i, _, _) => toString i | none => "?"
    some ("- spec-violated-in-overlapping-calls call=" ++ which ++ " answer=" ++ pctEnc (short out))

/-- policy mode: one record per enabled diagnosis, each under its own settings (`Spec.holdsPolicy`) -/
def judgePol (p : PolOp) (out : String) : Option String :=
  let ws := words out
  let m := (kvNat ws "n").getD 0
  let recs := (List.range m).map fun i =>
    (((kv ws s!"r{i}.req").map parseTok).getD .other, ((kv ws s!"r{i}.resp").map parseTok).getD .other)
  if (kvNat ws "n").isSome && holdsPolicy Hm p.diags (inputOf p.reqText) (inputOf p.respText) recs then none
  else some ("- spec-violated-in-policy-mode diagnoses=" ++
    " ".intercalate (p.diags.map fun d => (if d.endpoint then "e" else "g") ++ (if d.enabled then "1" else "0") ++ (if d.obfuscate then "1" else "0"))
      |>.replace " " "," |> fun t => t ++ " answer=" ++ pctEnc (short out))

def record (s : JudgeSt) (r : Option String) : JudgeSt :=
  match r with
  | none => s
  | some v =>
    if v.startsWith "- " then (if s.unknown.isSome then s else { s with unknown := some v })
    else (if s.known.isSome then s else { s with known := some v })

def judgeStep (s : JudgeSt) (op out : String) : JudgeSt :=
  match words op with
  | "txn" :: ws =>
    match parseTxn ws with
    | some t => record s (judgeTxn t out)
    | none => s
  | "multi" :: ws =>
    match parseMulti ws with
    | some cs => record s (judgeMulti cs out)
    | none => s
  | "pol" :: ws =>
    match parsePol ws with
    | some p => record s (judgePol p out)
    | none => s
  | "obf" :: ws =>
    match parseOp ws with
    | some o =>
      match judgeOp o out with
      | none => s
      | some v =>
        if v.startsWith "- " then (if s.unknown.isSome then s else { s with unknown := some v })
        else (if s.known.isSome then s else { s with known := some v })
    | none => s     -- a malformed op line claims nothing
  | _ => s

def judgeFinish (s : JudgeSt) : String :=
  match s.unknown, s.known with
  | some v, _ => "fail " ++ v
  | none, some v => "fail " ++ v
  | none, none => "ok"

end C16Drv

def main (args : List String) : IO Unit :=
  match args with
  | ["run"] => runLoop C16Drv.runStep ()
  | ["judge"] => judgeLoop ({} : C16Drv.JudgeSt) C16Drv.judgeStep C16Drv.judgeFinish
  | _ => IO.eprintln "usage: lvdriver_c16 run|judge"
