import LunarVerif.Base.Proto
import LunarVerif.Model.C15Tree
import LunarVerif.Spec.C15
/-! Driver for C15: `lvdriver_c15 run` (model answers) / `lvdriver_c15 judge` (Spec on the implementation's answers).

ops:  cfg thr=<n> | known u=<enc> | rec ts= dur= tot= st= m= u= i= c= int= | run cuts=<i,j,..|-> restarts=<i,..|-> [faildumps=<i,..|->] [ticks=<i,..|->] [reloads=<i,..|->]
answer of `run`:  full=<0|1> fail=<k> avg=ok  ep <key> <count> <minS> <maxS> <st> ...  ce <tag> <key> ... it <type> <ver> <tsS> ...
-/
open LunarVerif LunarVerif.Proto LunarVerif.C15

def parseList (s : String) : Option (List Nat) :=
  if s == "-" then some [] else (s.splitOn ",").mapM String.toNat?

def parseRec (ws : List String) : Option Rec := do
  let ts ← kvNat ws "ts"
  let dur ← kvInt ws "dur"
  let tot ← kvInt ws "tot"
  let st ← kvNat ws "st"
  let m ← kv ws "m"
  let u ← kv ws "u"
  let i ← kv ws "i"
  let c ← kv ws "c"
  let int ← kvNat ws "int"
  pure { ts := ts, dur := dur, tot := tot, status := st, method := pctDec m, url := pctDec u,
         interceptor := pctDec i, consumer := pctDec c, internal := int != 0 }

/-- cut the stream into batches / restarts; `cuts` non-decreasing positions in 0..n; the flush of the batch that
    ends at a position listed in `faildumps` fails -/
def segsOf (recs : List Rec) (cuts restarts faildumps reloads : List Nat) : List Seg :=
  let rec go (prev : Nat) (cuts restarts faildumps reloads : List Nat) : List Seg :=
    match cuts with
    | [] => [Seg.batch (recs.drop prev)]
    | c :: cs =>
      let rs := (recs.drop prev).take (c - prev)
      let b := if faildumps.contains c then Seg.batchNoDump rs else Seg.batch rs
      let fd := faildumps.erase c
      -- a refresh tick that found the policies file CHANGED: the tree is rebuilt from the known endpoints
      let rl := if reloads.contains c then [Seg.treeReset] else []
      let rls := reloads.erase c
      if restarts.contains c then b :: Seg.restart :: rl ++ go c cs (restarts.erase c) fd rls
      else b :: rl ++ go c cs restarts fd rls
  go 0 cuts restarts faildumps reloads

def sortS (l : List String) : List String := l.mergeSort (fun a b => decide (a ≤ b))

def fmtStatus (s : List (Nat × Nat)) : String :=
  if s.isEmpty then "-" else
  let sorted := s.mergeSort (fun a b => decide (a.1 ≤ b.1))
  ",".intercalate (sorted.map fun p => s!"{p.1}:{p.2}")

def fmtAgg (a : EAgg) : String := s!"{a.count} {a.minT} {a.maxT} {fmtStatus a.status}"

/-- split a persisted key at the FIRST `:::` (what the harness and the judge do to recover the method) -/
def splitFirst (s : String) : Key :=
  match s.splitOn ":::" with
  | m :: rest => (m, ":::".intercalate rest)
  | [] => (s, "")

def fmtObs (full : Bool) (fails : Nat) (p : Persisted) (tail : String) : String :=
  let eps := if full then p.endpoints
    else rekeyAny (fun k => (splitFirst k).1 ++ ":::*") p.endpoints
  let ces := if full then p.consumers
    else rekeyAny (fun k : String × String => (k.1, (splitFirst k.2).1 ++ ":::*")) p.consumers
  let e := sortS (eps.map fun x => s!"ep {pctEnc x.1} {fmtAgg x.2}")
  let c := sortS (ces.map fun x => s!"ce {pctEnc x.1.1} {pctEnc x.1.2} {fmtAgg x.2}")
  let i := sortS (p.interceptors.map fun x => s!"it {pctEnc x.1.1} {pctEnc x.1.2} {x.2}")
  " ".intercalate ([s!"full={if full then 1 else 0} fail={fails} avg=ok"] ++ e ++ c ++ i) ++ tail

structure RunSt where
  thr : Nat := 50
  known : List String := []
  recs : List Rec := []     -- reversed

/-- threaded (Go-order) model: (state file, nondeterminism diagnostic) -/
def runThreaded (t0 : Tree) (segs : List Seg) : Persisted × Bool :=
  let r := segs.foldl (fun (s : (Tree × Agg) × Persisted) seg =>
    match seg with
    | Seg.batch rs =>
      if rs.isEmpty then s else
      let (t, a) := stepT s.1.1 s.1.2 rs
      ((t, a), persist a)
    | Seg.batchNoDump rs =>
      if rs.isEmpty then s else
      let (t, a) := stepT s.1.1 s.1.2 rs
      ((t, a), s.2)
    | Seg.restart => (({ t0 with nondet := s.1.1.nondet }, restore s.2), s.2)
    | Seg.treeReset => (({ t0 with nondet := s.1.1.nondet }, s.1.2), s.2))
    ((t0, ({} : Agg)), persist {})
  (r.2, r.1.1.nondet)

/-- law instances L1/L3 on the URLs seen so far, for one step of the pure lineage -/
def lawCheck (t : Tree) (seen urls : List String) : List String :=
  let N := treeNormaliser
  let t' := N.learn t urls
  let l1 := seen.all fun u => N.norm t' (N.norm t u) == N.norm t' u
  let l3 := N.conv t urls || seen.all fun u => N.norm t' u == N.norm t u
  (if l1 then [] else ["L1"]) ++ (if l3 then [] else ["L3"])

/-- pure model (`Model.C15.runSegs` with `treeNormaliser`) + law tests -/
def runPure (t0 : Tree) (segs : List Seg) : Persisted × List String :=
  let r := segs.foldl (fun (s : St Tree × List String × List String) seg =>
    match seg with
    | Seg.batch rs =>
      let urls := (external rs).map (·.url)
      let bad := if rs.isEmpty then [] else lawCheck s.1.tree s.2.1 urls
      (stepS treeNormaliser s.1 rs, s.2.1 ++ urls, s.2.2 ++ bad)
    | Seg.batchNoDump rs =>
      let urls := (external rs).map (·.url)
      let bad := if rs.isEmpty then [] else lawCheck s.1.tree s.2.1 urls
      (stepNoDump treeNormaliser s.1 rs, s.2.1 ++ urls, s.2.2 ++ bad)
    | Seg.restart => ({ tree := t0, agg := restore s.1.file, file := s.1.file }, [], s.2.2)
    | Seg.treeReset => ({ s.1 with tree := t0 }, [], s.2.2)) (St.init t0, [], [])
  -- L2 (observational): the lineage tree and the one-shot tree normalise every seen URL alike
  let l2 := match r.2.1 with
    | [] => true
    | seen => if segs.any (fun s => match s with | Seg.restart => true | Seg.treeReset => true | _ => false) then true
              else let one := treeNormaliser.learn t0 seen
                   seen.all fun u => treeNormaliser.norm one u == treeNormaliser.norm r.1.tree u
  (r.1.file, r.2.2 ++ (if l2 then [] else ["L2"]))

def runStep (s : RunSt) (line : String) : RunSt × String :=
  match words line with
  | ["case", id] => ({}, s!"case {id}")
  | "cfg" :: ws =>
    match kvNat ws "thr" with
    | some t => ({ s with thr := t }, "ok")
    | none => (s, "bad-op")
  | "known" :: ws =>
    match kv ws "u" with
    | some u => ({ s with known := s.known ++ [pctDec u] }, "ok")
    | none => (s, "bad-op")
  | "rec" :: ws =>
    match parseRec ws with
    | some r => ({ s with recs := r :: s.recs }, "ok")
    | none => (s, "bad-op")
  | "runmem" :: ws =>
    match (kv ws "cuts").bind parseList with
    | some cuts =>
      match buildTree s.thr s.known with
      | none => (s, "err:build")
      | some t0 =>
        let segs := segsOf s.recs.reverse cuts [] [] []
        let r := segs.foldl (fun (st : Tree × Agg) seg =>
          match seg with
          | Seg.batch rs => stepT st.1 st.2 rs
          | _ => st) (t0, ({} : Agg))
        let a := r.2
        let e := sortS (a.endpoints.map fun x => s!"ep {pctEnc (dumpKey x.1)} {fmtAgg x.2}")
        let c := sortS (a.consumers.map fun x => s!"ce {pctEnc x.1.1} {pctEnc (dumpKey x.1.2)} {fmtAgg x.2}")
        let i := sortS (a.interceptors.map fun x => s!"it {pctEnc x.1.1} {pctEnc x.1.2} {x.2}")
        (s, " ".intercalate (["mem"] ++ e ++ c ++ i))
    | none => (s, "bad-op")
  | "run" :: ws =>
    match (kv ws "cuts").bind parseList, (kv ws "restarts").bind parseList,
          ((kv ws "faildumps").getD "-" |> parseList), ((kv ws "reloads").getD "-" |> parseList) with
    | some cuts, some restarts, some faildumps, some reloads =>
      match buildTree s.thr s.known with
      | none => (s, "err:build")
      | some t0 =>
        let recs := s.recs.reverse
        let segs := segsOf recs cuts restarts faildumps reloads
        -- `ticks=` (refresh ticks that find the policies file untouched) change nothing and are ignored here
        let full := restarts.isEmpty && reloads.isEmpty
        let (file, nondet) := runThreaded t0 segs
        let (filep, laws) := runPure t0 segs
        -- `Run` has no error path left in the model (a refused URL is skipped): fail=0
        let main := fmtObs full 0 file ""
        let pure := fmtObs full 0 filep ""
        -- the law / purity diagnostics are part of the answer only OUTSIDE the class where the laws are known
        -- to fail on the real tree (finding F15c); there the harness never prints them, so they show as a diff
        let inClass := deepFanout s.thr s.known ((external recs).map (·.url))
        let tail := if inClass then "" else (if main == pure then "" else " PURE-DIFF") ++
          (if laws.isEmpty then "" else " LAW-FAIL:" ++ ",".intercalate (dedupS laws))
        -- with restarts only the per-method totals are reported; those never depend on map order
        (s, if nondet && full then "nondet" else main ++ tail)
    | _, _, _, _ => (s, "bad-op")
  | _ => (s, "bad-op")

/-! ### judge -/

structure JudgeSt where
  thr : Nat := 50
  known : List String := []
  recs : List Rec := []       -- reversed
  runs : List RunObs := []    -- reversed
  mems : List MemObs := []
  bad : Option String := none

def parseStatus (s : String) : Option (List (Nat × Nat)) :=
  if s == "-" then some [] else
  (s.splitOn ",").mapM fun w => match w.splitOn ":" with
    | [a, b] => do pure ((← a.toNat?), (← b.toNat?))
    | _ => none

def mkAgg (c mn mx st : String) : Option EAgg := do
  pure { count := (← c.toNat?), minT := (← mn.toNat?), maxT := (← mx.toNat?), sumDur := 0, sumTot := 0,
         status := (← parseStatus st) }

partial def parseEntries (o : RunObs) : List String → Option RunObs
  | [] => some o
  | "ep" :: k :: c :: mn :: mx :: st :: rest => do
    let a ← mkAgg c mn mx st
    parseEntries { o with eps := o.eps ++ [(splitFirst (pctDec k), a)] } rest
  | "ce" :: t :: k :: c :: mn :: mx :: st :: rest => do
    let a ← mkAgg c mn mx st
    parseEntries { o with ces := o.ces ++ [((pctDec t, splitFirst (pctDec k)), a)] } rest
  | "it" :: ty :: v :: ts :: rest => do
    parseEntries { o with its := o.its ++ [((pctDec ty, pctDec v), (← ts.toNat?))] } rest
  | _ => none

def parseRunObs (out : String) : Option RunObs :=
  match words out with
  | f :: fl :: av :: rest => do
    let full ← kvNat [f] "full"
    let fails ← kvNat [fl] "fail"
    let avg ← kv [av] "avg"
    parseEntries { full := full != 0, fails := fails, eps := [], ces := [], its := [], avgOk := avg == "ok" } rest
  | _ => none

def judgeStep (s : JudgeSt) (op out : String) : JudgeSt :=
  match words op with
  | "cfg" :: ws => { s with thr := (kvNat ws "thr").getD 50 }
  | "known" :: ws => { s with known := s.known ++ [pctDec ((kv ws "u").getD "")] }
  | "rec" :: ws =>
    match parseRec ws with
    | some r => { s with recs := r :: s.recs }
    | none => { s with bad := some "unparsable-rec" }
  | "runmem" :: _ =>
    if out == "err:build" then s
    else match words out with
      | "mem" :: rest =>
        match parseEntries { full := true, fails := 0, eps := [], ces := [], its := [], avgOk := true } rest with
        | some o => { s with mems := { eps := o.eps, ces := o.ces, its := o.its } :: s.mems }
        | none => { s with bad := some ("unparsable-output:" ++ (pctEnc out).take 120) }
      | _ => { s with bad := some ("unparsable-output:" ++ (pctEnc out).take 120) }
  | "run" :: _ =>
    if out == "err:build" then s   -- the declared endpoints were refused by BuildTree: nothing ran
    else if out == "nondet" then
      { s with runs := { full := true, nondet := true, fails := 0, eps := [], ces := [], its := [], avgOk := true } :: s.runs }
    else
    match parseRunObs out with
    | some o => { s with runs := o :: s.runs }
    | none => { s with bad := some ("unparsable-output:" ++ (pctEnc out).take 120) }
  | _ => s

def judgeFinish (s : JudgeSt) : String :=
  match s.bad with
  | some b => s!"fail - {b}"
  | none =>
    let c : CaseObs := { thr := s.thr, known := s.known, recs := s.recs.reverse, runs := s.runs.reverse }
    if !(s.mems.all fun m => memConserves c.recs m) then
      "fail - in-memory-aggregation-does-not-account-for-the-records-exactly (count / status / min / max timestamps)"
    else if holds c then "ok"
    else
      let fid := (finding c).getD "-"
      let why :=
        if c.runs.any (fun o => o.nondet) then "outcome-depends-on-map-iteration-order"
        else if c.runs.any (fun o => o.fails != 0) then "batch-rejected-traffic-lost"
        else if c.runs.any (fun o => !conserves c.recs { o with avgOk := true }) then "totals-not-conserved"
        else if c.runs.any (fun o => !o.avgOk) then "float-mean-outside-tolerance"
        else "batch-dependent-statistics"
      let idx := (c.runs.zipIdx.filter (fun p => !(p.1.fails == 0 && conserves c.recs p.1))).map (·.2)
      s!"fail {fid} {why} runs={idx}".replace ", " ","

def main (args : List String) : IO Unit :=
  match args with
  | ["run"] => runLoop runStep {}
  | ["judge"] => judgeLoop ({} : JudgeSt) judgeStep judgeFinish
  | _ => IO.eprintln "usage: lvdriver_c15 run|judge"
