import LunarVerif.Base.Proto
import LunarVerif.Spec.C07
/-! Driver for C07: `lvdriver_c07 run` (model answers) / `lvdriver_c07 judge` (Spec on impl answers).

Op lines (strings percent-encoded; `<hdrs>` = `_` or `k|v;k|v…`; `<list>` = `_` or `a;b…`):
  obj <name> noop | early status=<int> body=<s> h=<hdrs> | modhdr h=<hdrs>
           | modreq h=<hdrs> host=<s> path=<s> query=<s> body=<s> | genreq h=<hdrs> rm=<list> body=<s>
           | modresp h=<hdrs> body=<s> status=<int> | retry h=<hdrs>          → ok
  reqstart / respstart          accumulator := fresh NoOp                      → ok
  rq <name> / rs <name>         accumulator := accumulator.Prioritize(object)  → act <action> spoe <n> <var>…
  show <name>                   current state of the object                    → obj <action>
  reqsite <name>… / respsite <name>…   the real fold site on these objects     → spoe <n> <var>…
  reqpolicy <name>… / resppolicy <name>…  policy-mode fold site, one real remedy per object that
                                produces an equal (fresh) action                → spoe <n> <var>…
  legacyreq h=<hdrs> <remedy>…  runner.DispatchOnRequest, request headers h, real remedies → spoe <n> <var>…
  legacyresp status=<int> [body=<s>] [rh=<hdrs>] <remedy>…  runner.DispatchOnResponse  → spoe <n> <var>…
      <remedy> = fixed=<int> | acct=<hdrs> | apikey=<hdrs> | oauth=<s> | retry=<n>,<lo>,<hi> | throttle=<int> | cache=on
      all legacy ops of one case run against the SAME plugin objects (state carries over)
  reqflow req=<json> procs=<json> p=<action>… / respflow resp=<json> procs=<json> p=<action>…
      flows mode: real processors in sequence over one API stream, folded by the real fold site; the p= words are
      what each processor produced WHEN it produced it (the processor configurations are opaque to the model) → spoe …
  hreq ctx=<live|draining> url=… hdrs=… body=… p=<action>… / hresp ctx=<live|draining> url=… status=… hdrs=… body=… p=<action>…
      the real message handler (routing.Handler) on a real stream; p= = the actions the loaded flows produce for the
      message; draining = the context manager's context is cancelled.  A response message leaves with its own fold
      whatever the context; a request message while draining leaves with the shutdown early response (not judged)
-/
open LunarVerif LunarVerif.Proto LunarVerif.C07

/-! ### bytes on the wire ↔ model strings

Header names and values, bodies, paths … are BYTE strings (Go strings need not be UTF-8).  A model
`String` stands for a byte string: the character with code `b < 256` stands for the byte `b`
(`Proofs/C07.lean`, section "bytes").  Percent-encoding transports the bytes. -/

def decB (s : String) : String :=
  if s == "%e" then "" else
  String.ofList ((pctDecBytes s.toList ByteArray.empty).toList.map fun b => Char.ofNat b.toNat)

def encB (s : String) : String :=
  if s.isEmpty then "%e" else
  s.toList.foldl (init := "") fun acc ch =>
    let b := ch.toNat % 256
    let c := Char.ofNat b
    if b < 128 && (c.isAlphanum || "._~:/{}*,=+@$-".contains c) then acc.push c
    else acc ++ "%" ++ String.singleton (hexDigit (b / 16)) ++ String.singleton (hexDigit (b % 16))

/-! ### canonical text -/

def insertBy {α} (lt : α → α → Bool) (x : α) : List α → List α
  | [] => [x]
  | y :: ys => if lt y x then y :: insertBy lt x ys else x :: y :: ys

def sortBy {α} (lt : α → α → Bool) (l : List α) : List α := l.foldr (insertBy lt) []

def fmtHdrs (h : Hdrs) : String :=
  if h.isEmpty then "_" else
  ";".intercalate ((sortBy (fun a b => decide (a.1 < b.1)) h).map fun kv => encB kv.1 ++ "|" ++ encB kv.2)

def fmtList (l : List String) : String :=
  if l.isEmpty then "_" else ";".intercalate (l.map encB)

def fmtReq : ReqAct → String
  | .noop => "noop"
  | .early s b h => s!"early status={s} body={encB b} h={fmtHdrs h}"
  | .modHdr h => s!"modhdr h={fmtHdrs h}"
  | .modReq h host path q b =>
    s!"modreq h={fmtHdrs h} host={encB host} path={encB path} query={encB q} body={encB b}"
  | .genReq h rm b => s!"genreq h={fmtHdrs h} rm={fmtList rm} body={encB b}"

def fmtResp : RespAct → String
  | .noop => "noop"
  | .modResp h b s => s!"modresp h={fmtHdrs h} body={encB b} status={s}"
  | .retry h => s!"retry h={fmtHdrs h}"

def isDumpVar (name : String) : Bool :=
  name == "response_headers" || name == "request_headers" || name == "retry_headers"

/-- Go map iteration order is random: a header dump is compared with its lines sorted. -/
def canonDump (d : String) : String :=
  let ps := d.splitOn "\n"
  let ps := if ps.getLast? == some "" then ps.dropLast else ps
  "\n".intercalate (sortBy (fun a b => decide (a < b)) ps) ++ "\n"

def fmtVar (v : SVar) : String :=
  let sc := match v.scope with | .txn => "txn" | .req => "req" | .res => "res"
  let val := match v.val with
    | .bool b => "b:" ++ (if b then "true" else "false")
    | .int i => s!"i:{i}"
    | .bytes s => "y:" ++ encB s
    | .str s => "s:" ++ encB (if isDumpVar v.name then canonDump s else s)
  s!"{sc}:{v.name}={val}"

def fmtEnc (vs : List SVar) : String :=
  s!"spoe {vs.length}" ++ String.join (vs.map fun v => " " ++ fmtVar v)

/-! ### parsing -/

def splitFirst (s : String) (sep : Char) : Option (String × String) :=
  match s.splitOn (String.singleton sep) with
  | a :: b :: rest => some (a, (String.singleton sep).intercalate (b :: rest))
  | _ => none

def parseHdrs (s : String) : Option Hdrs :=
  if s == "_" then some [] else
  (s.splitOn ";").foldl (init := some []) fun acc item =>
    match acc, item.splitOn "|" with
    | some h, [k, v] =>
      let k := decB k
      -- a Go map: a later binding of the same key replaces the earlier one
      some (h.filter (fun p => p.1 != k) ++ [(k, decB v)])
    | _, _ => none

def parseList (s : String) : Option (List String) :=
  if s == "_" then some [] else some ((s.splitOn ";").map decB)

def parseReqWords : List String → Option ReqAct
  | ["noop"] => some .noop
  | "early" :: ws => do
    let s ← kvInt ws "status"; let b ← kv ws "body"; let h ← (kv ws "h").bind parseHdrs
    pure (.early s (decB b) h)
  | "modhdr" :: ws => do
    let h ← (kv ws "h").bind parseHdrs
    pure (.modHdr h)
  | "modreq" :: ws => do
    let h ← (kv ws "h").bind parseHdrs
    let host ← kv ws "host"; let path ← kv ws "path"; let q ← kv ws "query"; let b ← kv ws "body"
    pure (.modReq h (decB host) (decB path) (decB q) (decB b))
  | "genreq" :: ws => do
    let h ← (kv ws "h").bind parseHdrs
    let rm ← (kv ws "rm").bind parseList; let b ← kv ws "body"
    pure (.genReq h rm (decB b))
  | _ => none

def parseRespWords : List String → Option RespAct
  | ["noop"] => some .noop
  | "modresp" :: ws => do
    let h ← (kv ws "h").bind parseHdrs
    let b ← kv ws "body"; let s ← kvInt ws "status"
    pure (.modResp h (decB b) s)
  | "retry" :: ws => do
    let h ← (kv ws "h").bind parseHdrs
    pure (.retry h)
  | _ => none

def parseObj (ws : List String) : Option Obj :=
  match ws with
  | ["noop"] => some .noop
  | _ => match parseReqWords ws with
    | some a => some (.req a)
    | none => (parseRespWords ws).map .resp

def parseVar (w : String) : Option SVar := do
  let (lhs, rhs) ← splitFirst w '='
  let (sc, name) ← splitFirst lhs ':'
  let (ty, val) ← splitFirst rhs ':'
  let scope ← match sc with | "txn" => some Scope.txn | "req" => some .req | "res" => some .res | _ => none
  let v ← match ty with
    | "b" => if val == "true" then some (SVal.bool true) else if val == "false" then some (.bool false) else none
    | "i" => val.toInt?.map .int
    | "y" => some (.bytes (decB val))
    | "s" => some (.str (decB val))
    | _ => none
  pure ⟨scope, name, v⟩

/-- Split an answer `act <action words…> spoe <n> <vars…>`. -/
def splitAnswer (ws : List String) : Option (List String × List SVar) :=
  match ws with
  | "act" :: rest =>
    let actWs := rest.takeWhile (· != "spoe")
    match rest.dropWhile (· != "spoe") with
    | "spoe" :: n :: vars =>
      match n.toNat?, vars.mapM parseVar with
      | some k, some vs => if k == vs.length then some (actWs, vs) else none
      | _, _ => none
    | _ => none
  | _ => none

/-- Parse an answer `spoe <n> <vars…>`. -/
def parseSpoe (ws : List String) : Option (List SVar) :=
  match ws with
  | "spoe" :: n :: vars =>
    match n.toNat?, vars.mapM parseVar with
    | some k, some vs => if k == vs.length then some vs else none
    | _, _ => none
  | _ => none

def parseRemedy (w : String) : Option Remedy := do
  let (k, v) ← splitFirst w '='
  match k with
  | "fixed" => v.toInt?.map .fixed
  | "throttle" => v.toInt?.map .throttle
  | "cache" => if v == "on" then some .cache else none
  | "acct" => (parseHdrs v).map .acct
  | "apikey" => (parseHdrs v).map .apikey
  | "oauth" =>
    let sec := decB v
    if sec.toList.all Char.isAlphanum then some (.oauth sec) else none
  | "retry" =>
    match v.splitOn "," with
    | [n, lo, hi] => do
      let n ← n.toNat?; let lo ← lo.toInt?; let hi ← hi.toInt?
      pure (.retry n lo hi)
    | _ => none
  | _ => none

/-- `legacyresp` arguments after `status=`: optional `body=`, optional `rh=` (response headers), remedies. -/
def parseRespArgs (ws : List String) : Option (String × Hdrs × List Remedy) :=
  let (body, ws) := match ws with
    | w :: rest => if w.startsWith "body=" then (some (decB (w.drop 5).toString), rest) else (none, ws)
    | [] => (none, ws)
  let (rh, ws) := match ws with
    | w :: rest => if w.startsWith "rh=" then (some (parseHdrs (w.drop 3).toString), rest) else (none, ws)
    | [] => (none, ws)
  match rh, ws.mapM parseRemedy with
  | some none, _ => none
  | some (some h), some rs => some (body.getD "", h, rs)
  | none, some rs => some (body.getD "", [], rs)
  | _, none => none

/-- The `p=` words of a flow op: the produced actions, in order; `none` when the line is malformed. -/
def parseFlow {α} (parseAct : List String → Option α) (key : String) (ws : List String) : Option (List α) :=
  let hasKey := ws.any (·.startsWith key)
  let hasProcs := ws.any (·.startsWith "procs=")
  let wellFormed := ws.all fun w => w.startsWith key || w.startsWith "procs=" || w.startsWith "p="
  if !(hasKey && hasProcs && wellFormed) then none
  else (ws.filter (·.startsWith "p=")).mapM fun w => parseAct (words (decB (w.drop 2).toString))

/-- `hreq` / `hresp` words: the context state and the produced actions; everything else is opaque. -/
def parseHandler {α} (parseAct : List String → Option α) (ws : List String) : Option (Bool × List α) :=
  let known := ws.all fun w => w == "ctx=live" || w == "ctx=draining" || w.startsWith "url=" || w.startsWith "status=" ||
    w.startsWith "hdrs=" || w.startsWith "body=" || w.startsWith "p="
  let statusOk := ws.all fun w => !w.startsWith "status=" || ((w.drop 7).toString.toInt?).isSome
  let hdrsOk := ws.all fun w => !w.startsWith "hdrs=" || (parseHdrs (w.drop 5).toString).isSome
  if !(known && statusOk && hdrsOk) then none
  else if !(ws.contains "ctx=live" || ws.contains "ctx=draining") then none
  else
    match (ws.filter (·.startsWith "p=")).mapM fun w => parseAct (words (decB (w.drop 2).toString)) with
    | some acts => some (ws.contains "ctx=draining", acts)
    | none => none

/-- `getShutdownActions`: what a request message leaves with while the gateway is draining. -/
def shutdownReply : ReqAct := .early 503 "Lunar Gateway is shutting down" []

/-! ### which actions the harness can obtain from a real remedy (see harness/go/cmd/c07/policy.go) -/

def reqExpressible : ReqAct → Bool
  | .noop => true
  | .early _ b h => b == "{\"message\": \"GO Lunar\"}" && h.length == 1 &&
      h.lookup "powered-by" == some "Lunar Interventions Inc."
  | .modReq h host path q b => !h.isEmpty && host == "" && path == "" && q == "" && b == ""
  | _ => false

def respExpressible : RespAct → Bool
  | .noop => true
  | .modResp h b s =>
    h.length == 1 && b == "" && s == 0 &&
    (match h.lookup "x-lunar-retry-after" with
     | some v => (match v.toNat? with | some n => toString n == v | none => false)
     | none => false)
  | _ => false

/-! ### run -/

structure RunSt where
  store : Store := []
  acc : Acc := .val .noop
  racc : RespAct := .noop
  caches : ReqEnv := { hdrs := [] }     -- what the authentication plugins cached in earlier transactions of the case

def runStep (s : RunSt) (line : String) : RunSt × String :=
  match words line with
  | ["case", id] => ({}, s!"case {id}")
  | "obj" :: name :: ws =>
    match parseObj ws with
    | some o =>
      if (s.store.lookup name).isSome then (s, "err:duplicate-name")
      else ({ s with store := s.store.set name o }, "ok")
    | none => (s, "bad-op")
  | ["reqstart"] => ({ s with acc := .val .noop }, "ok")
  | ["respstart"] => ({ s with racc := .noop }, "ok")
  | ["rq", name] =>
    match s.store.lookup name with
    | none => (s, "err:unknown-object")
    | some _ =>
      match reqStepH s.store s.acc name with
      | none => (s, "err:not-request-action")
      | some acc =>
        match acc.get s.store with
        | some a => ({ s with acc := acc }, s!"act {fmtReq a} {fmtEnc (encodeReq a)}")
        | none => (s, "err:model-dangling-accumulator")
  | ["rs", name] =>
    match s.store.lookup name with
    | none => (s, "err:unknown-object")
    | some o =>
      match o.asResp with
      | none => (s, "err:not-response-action")
      | some a =>
        let r := respPrio s.racc a
        ({ s with racc := r }, s!"act {fmtResp r} {fmtEnc (encodeResp r)}")
  | "reqsite" :: names =>
    match names.findSome? (fun n => match s.store.lookup n with
        | none => some "err:unknown-object"
        | some o => if o.asReq.isNone then some "err:not-request-action" else none) with
    | some e => (s, e)
    | none =>
      match foldReqH s.store (.val .noop) names with
      | some acc =>
        match acc.get s.store with
        | some a => (s, fmtEnc (encodeReq a))
        | none => (s, "err:model-dangling-accumulator")
      | none => (s, "err:model-fold-failed")
  | "respsite" :: names =>
    match names.findSome? (fun n => match s.store.lookup n with
        | none => some "err:unknown-object"
        | some o => if o.asResp.isNone then some "err:not-response-action" else none) with
    | some e => (s, e)
    | none =>
      let vals := names.filterMap fun n => (s.store.lookup n).bind Obj.asResp
      (s, fmtEnc (encodeResp (foldResp vals)))
  | "hreq" :: ws =>
    match parseHandler parseReqWords ws with
    | some (draining, vals) =>
      (s, fmtEnc (encodeReq (if draining then shutdownReply else foldReq vals)))
    | none => (s, "bad-op")
  | "hresp" :: ws =>
    match parseHandler parseRespWords ws with
    | some (_, vals) => (s, fmtEnc (encodeResp (foldResp vals)))     -- whatever the context
    | none => (s, "bad-op")
  | "reqflow" :: ws =>
    match parseFlow parseReqWords "req=" ws with
    | some vals => (s, fmtEnc (encodeReq (foldReq vals)))
    | none => (s, "bad-op")
  | "respflow" :: ws =>
    match parseFlow parseRespWords "resp=" ws with
    | some vals => (s, fmtEnc (encodeResp (foldResp vals)))
    | none => (s, "bad-op")
  | "legacyreq" :: h :: rems =>
    match (if h.startsWith "h=" then parseHdrs (h.drop 2).toString else none), rems.mapM parseRemedy with
    | some H0, some rs =>
      let env : ReqEnv := { s.caches with hdrs := H0 }
      ({ s with caches := envAfter env rs }, fmtEnc (encodeReq (legacyReq env rs)))
    | _, _ => (s, "bad-op")
  | "legacyresp" :: st :: rems =>
    match kvInt [st] "status", parseRespArgs rems with
    | some status, some (body, rh, rs) =>
      ({ s with caches := envAfterResp s.caches status body rh rs }, fmtEnc (encodeResp (legacyResp status rs)))
    | _, _ => (s, "bad-op")
  | "reqpolicy" :: names =>
    match names.findSome? (fun n => match s.store.lookup n with
        | none => some "err:unknown-object"
        | some o => if o.asReq.isNone then some "err:not-request-action" else none) with
    | some e => (s, e)
    | none =>
      let vals := names.filterMap fun n => (s.store.lookup n).bind Obj.asReq
      if vals.all reqExpressible then (s, fmtEnc (encodeReq (foldReq vals)))
      else (s, "err:not-expressible-as-remedy")
  | "resppolicy" :: names =>
    match names.findSome? (fun n => match s.store.lookup n with
        | none => some "err:unknown-object"
        | some o => if o.asResp.isNone then some "err:not-response-action" else none) with
    | some e => (s, e)
    | none =>
      let vals := names.filterMap fun n => (s.store.lookup n).bind Obj.asResp
      if vals.all respExpressible then (s, fmtEnc (encodeResp (foldResp vals)))
      else (s, "err:not-expressible-as-remedy")
  | ["show", name] =>
    match s.store.lookup name with
    | none => (s, "err:unknown-object")
    | some .noop => (s, "obj noop")
    | some (.req a) => (s, s!"obj {fmtReq a}")
    | some (.resp a) => (s, s!"obj {fmtResp a}")
  | _ => (s, "bad-op")

/-! ### judge -/

structure JudgeSt where
  defs : List (String × Obj) := []        -- objects as DEFINED (inputs of the case)
  names : List String := []               -- names handed to request folds so far (all folds)
  rins : List ReqAct := []                -- current request fold: inputs so far
  sins : List RespAct := []               -- current response fold: inputs so far
  prev : RespAct := .noop                 -- current response fold: last observed result
  obs : List (Obs × List String) := []    -- most recent first
  bad : Option String := none
  caches : ReqEnv := { hdrs := [] }

def judgeStep (s : JudgeSt) (op out : String) : JudgeSt :=
  if s.bad.isSome then s else
  match words op with
  | "obj" :: name :: ws =>
    if out != "ok" then s else
    match parseObj ws with
    | some o => { s with defs := s.defs ++ [(name, o)] }
    | none => { s with bad := some "unparsable-obj" }
  | ["reqstart"] => { s with rins := [] }
  | ["respstart"] => { s with sins := [], prev := .noop }
  | ["rq", name] =>
    if out.startsWith "err:" then s else
    match (s.defs.lookup name).bind Obj.asReq, splitAnswer (words out) with
    | some a, some (actWs, vs) =>
      match parseReqWords actWs with
      | some o =>
        let ins := s.rins ++ [a]
        let names := s.names ++ [name]
        { s with rins := ins, names := names, obs := (.req ins o vs, names) :: s.obs }
      | none => { s with bad := some ("unparsable-action:" ++ encB out) }
    | _, _ => { s with bad := some ("unparsable-answer:" ++ encB out) }
  | ["rs", name] =>
    if out.startsWith "err:" then s else
    match (s.defs.lookup name).bind Obj.asResp, splitAnswer (words out) with
    | some a, some (actWs, vs) =>
      match parseRespWords actWs with
      | some o =>
        let ins := s.sins ++ [a]
        { s with sins := ins, prev := o, obs := (.resp ins s.prev o vs, s.names) :: s.obs }
      | none => { s with bad := some ("unparsable-action:" ++ encB out) }
    | _, _ => { s with bad := some ("unparsable-answer:" ++ encB out) }
  | "reqsite" :: names =>
    if out.startsWith "err:" then s else
    match names.mapM (fun n => (s.defs.lookup n).bind Obj.asReq), parseSpoe (words out) with
    | some ins, some vs =>
      let all := s.names ++ names
      { s with names := all, obs := (.reqSite ins vs, all) :: s.obs }
    | _, _ => { s with bad := some ("unparsable-answer:" ++ encB out) }
  | "hreq" :: ws =>
    if out.startsWith "err:" || out == "bad-op" then s else
    match parseHandler parseReqWords ws, parseSpoe (words out) with
    | some (false, ins), some vs => { s with obs := (.reqSite ins vs, s.names) :: s.obs }
    | some (true, _), some _ => s          -- the request-side shutdown reply is modelled, not judged
    | _, _ => { s with bad := some ("unparsable-answer:" ++ encB out) }
  | "hresp" :: ws =>
    if out.startsWith "err:" || out == "bad-op" then s else
    match parseHandler parseRespWords ws, parseSpoe (words out) with
    | some (_, ins), some vs => { s with obs := (.respSite ins vs, s.names) :: s.obs }
    | _, _ => { s with bad := some ("unparsable-answer:" ++ encB out) }
  | "reqflow" :: ws =>
    if out.startsWith "err:" || out == "bad-op" then s else
    match parseFlow parseReqWords "req=" ws, parseSpoe (words out) with
    | some ins, some vs => { s with obs := (.reqSite ins vs, s.names) :: s.obs }
    | _, _ => { s with bad := some ("unparsable-answer:" ++ encB out) }
  | "respflow" :: ws =>
    if out.startsWith "err:" || out == "bad-op" then s else
    match parseFlow parseRespWords "resp=" ws, parseSpoe (words out) with
    | some ins, some vs => { s with obs := (.respSite ins vs, s.names) :: s.obs }
    | _, _ => { s with bad := some ("unparsable-answer:" ++ encB out) }
  | "legacyreq" :: h :: rems =>
    if out.startsWith "err:" || out == "bad-op" then s else
    match (if h.startsWith "h=" then parseHdrs (h.drop 2).toString else none), rems.mapM parseRemedy,
          parseSpoe (words out) with
    | some H0, some rs, some vs =>
      let env : ReqEnv := { s.caches with hdrs := H0 }
      { s with caches := envAfter env rs, obs := (.legacyReq env rs vs, s.names) :: s.obs }
    | _, _, _ => { s with bad := some ("unparsable-answer:" ++ encB out) }
  | "legacyresp" :: st :: rems =>
    if out.startsWith "err:" || out == "bad-op" then s else
    match kvInt [st] "status", parseRespArgs rems, parseSpoe (words out) with
    | some status, some (body, rh, rs), some vs =>
      { s with caches := envAfterResp s.caches status body rh rs, obs := (.legacyResp status rs vs, s.names) :: s.obs }
    | _, _, _ => { s with bad := some ("unparsable-answer:" ++ encB out) }
  | "reqpolicy" :: names =>
    if out.startsWith "err:" then s else
    match names.mapM (fun n => (s.defs.lookup n).bind Obj.asReq), parseSpoe (words out) with
    | some ins, some vs => { s with obs := (.reqSite ins vs, s.names) :: s.obs }
    | _, _ => { s with bad := some ("unparsable-answer:" ++ encB out) }
  | "resppolicy" :: names =>
    if out.startsWith "err:" then s else
    match names.mapM (fun n => (s.defs.lookup n).bind Obj.asResp), parseSpoe (words out) with
    | some ins, some vs => { s with obs := (.respSite ins vs, s.names) :: s.obs }
    | _, _ => { s with bad := some ("unparsable-answer:" ++ encB out) }
  | "respsite" :: names =>
    if out.startsWith "err:" then s else
    match names.mapM (fun n => (s.defs.lookup n).bind Obj.asResp), parseSpoe (words out) with
    | some ins, some vs => { s with obs := (.respSite ins vs, s.names) :: s.obs }
    | _, _ => { s with bad := some ("unparsable-answer:" ++ encB out) }
  | _ => s

def explain : Obs × List String → Option String
  | (.req ins out enc, _) =>
    if !reqFoldOk ins out then
      some s!"- request-fold-rule-violated step={ins.length} out={encB (fmtReq out)}"
    else if !reqEncOk out enc then
      some s!"- request-encoding-does-not-carry-the-action step={ins.length} out={encB (fmtReq out)}"
    else none
  | (.resp ins prev out enc, _) =>
    if !respFoldOk ins prev out then
      some s!"- response-fold-rule-violated step={ins.length} out={encB (fmtResp out)}"
    else if !respEncOk out enc then
      some s!"- response-encoding-does-not-carry-the-action step={ins.length} out={encB (fmtResp out)}"
    else none
  | (.reqSite ins enc, _) =>
    if reqSiteHolds ins enc then none
    else
      some s!"- request-fold-site-variables-violate-the-rule n={ins.length} enc={encB (fmtEnc enc)}"
  | (.respSite ins enc, _) =>
    if respSiteHolds ins enc then none
    else
      some s!"- response-fold-site-variables-violate-the-rule n={ins.length} enc={encB (fmtEnc enc)}"

  | (.legacyReq env rs enc, _) =>
    if legacyReqHolds env rs enc then none
    else some s!"- legacy-request-dispatch-violates-the-rule remedies={rs.length} enc={encB (fmtEnc enc)}"
  | (.legacyResp st rs enc, _) =>
    if legacyRespHolds st rs enc then none
    else some s!"- legacy-response-dispatch-violates-the-rule remedies={rs.length} enc={encB (fmtEnc enc)}"

def judgeFinish (s : JudgeSt) : String :=
  match s.bad with
  | some b => s!"fail - {b}"
  | none =>
    let hist := s.obs.reverse
    if holds (hist.map (·.1)) then "ok"
    else match hist.findSome? explain with
      | some m => "fail " ++ m
      | none => "fail - spec-violated"

def main (args : List String) : IO Unit :=
  match args with
  | ["run"] => runLoop runStep {}
  | ["judge"] => judgeLoop ({} : JudgeSt) judgeStep judgeFinish
  | _ => IO.eprintln "usage: lvdriver_c07 run|judge"
