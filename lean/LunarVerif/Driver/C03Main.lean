import LunarVerif.Base.Proto
import LunarVerif.Spec.C03
/-! Driver for C03: `lvdriver_c03 run` (model outputs) / `lvdriver_c03 judge` (Spec on impl outputs).

Ops (one answer line each); strings are `pctEnc`-oded, inside lists `,` and `:` are escaped too:
  L1 raw trie     t.ins <url> <nat>                 -> ok | err:empty | err:wildcard | err:param
                  t.trav <url>                      -> v=<nat,nat,...|->             (in order, with repeats)
  L2 filter tree  flow <name> <u|s|e> <url> m=<M,..|-> h=<k:v,..|-> q=<k:v|k,..|-> s=<code,..|->   -> ok
                  load perm=<i,j,...>               -> r=<ok|err:…|panic>,...        (fresh tree; one result per flow,
                                                       in load order; a failing AddFlow is skipped)
                  req <method> <url> h=<k:v,..|-> q=<k:v,..|-> [rq=<raw query>]   -> no-tree | found=<0|1> u=<names|-> s=<..> e=<..>
                  res <method> <url> st=<code>                     -> no-tree | found=<0|1> u=<names|-> s=<..> e=<..>
  L3 engine       eng req <method> <url> h=.. q=.. | eng res <method> <url> st=..     -> model: the set of answers over all load orders
                                                                      (see `engAnswers`); impl: the engine's answer
-/
open LunarVerif LunarVerif.Proto LunarVerif.UrlTree LunarVerif.C03

def enc2 (s : String) : String := ((pctEnc s).replace "," "%2C").replace ":" "%3A"

def fmtList (l : List String) : String := if l.isEmpty then "-" else String.intercalate "," (l.map enc2)

def splitList (s : String) : List String := if s == "-" then [] else s.splitOn ","

def fmtErr : InsertErr → String
  | .emptyPart => "err:empty"
  | .wildcardPos => "err:wildcard"
  | .paramName => "err:param"

def fmtAddErr : AddErr → String
  | .insert e => fmtErr e

def parseKind : String → Option Kind
  | "u" => some .user
  | "s" => some .sysStart
  | "e" => some .sysEnd
  | _ => none

def parsePairs (s : String) : Option (List (String × String)) :=
  (splitList s).mapM fun it => match it.splitOn ":" with
    | [k, v] => some (pctDec k, pctDec v)
    | _ => none

def parseOptPairs (s : String) : Option (List (String × Option String)) :=
  (splitList s).mapM fun it => match it.splitOn ":" with
    | [k, v] => some (pctDec k, some (pctDec v))
    | [k] => some (pctDec k, none)
    | _ => none

def parseNats (s : String) : Option (List Nat) := (splitList s).mapM String.toNat?

def mkFlow (name : String) (k : Kind) (url : String) (ms : List String) (hs : List (String × String))
    (qs : List (String × Option String)) (ss : List Nat) : Flow :=
  let parts := splitURL url
  { name := name, kind := k, url := url, parts := parts, key := trimURL url,
    methods := ms, headers := hs, query := qs, statuses := ss }

def parseFlow (ws : List String) : Option Flow :=
  match ws with
  | name :: k :: url :: rest => do
    let k ← parseKind k
    let ms ← kv rest "m"
    let hs ← (kv rest "h").bind parsePairs
    let qs ← (kv rest "q").bind parseOptPairs
    let ss ← (kv rest "s").bind parseNats
    pure (mkFlow (pctDec name) k (pctDec url) ((splitList ms).map pctDec) hs qs ss)
  | _ => none

def parseReq (isResp : Bool) (ws : List String) : Option Txn :=
  match ws with
  | m :: url :: rest =>
    if isResp then do
      let st ← kvNat rest "st"
      pure ⟨true, pctDec m, splitURL (pctDec url), [], [], st, true⟩
    else do
      let hs ← (kv rest "h").bind parsePairs
      -- `rq=<raw query string>` wins over the well-formed list `q=k:v,...`
      let qs ← match kv rest "rq" with
        | some raw => some (parseQuery (pctDec raw))
        | none => (kv rest "q").bind parsePairs
      pure ⟨false, pctDec m, splitURL (pctDec url), hs, qs, 0, true⟩
  | _ => none

def applyPerm (fs : List Flow) (perm : List Nat) : List Flow := perm.filterMap (fs[·]?)

def fmtAnswer (a : Answer) : String :=
  s!"found={if a.found then 1 else 0} u={fmtList a.user} s={fmtList a.sysStart} e={fmtList a.sysEnd}"

/-- sorted, de-duplicated names -/
def selKey (names : List String) : String :=
  fmtList ((names.mergeSort (fun a b => a ≤ b)).eraseDups)

/-- selections over all load orders (`!` = the load failed), sorted and de-duplicated -/
def possible (fs : List Flow) (t : Txn) : List String :=
  (((perms fs).map fun cfg => match build cfg with
      | .ok ft => selKey (observe ft t).user
      | .error _ => "!").mergeSort (fun a b => a ≤ b)).eraseDups

/-- `quota <id> <url> m= h= q= s=`: a quota with its filter (as a flow record named by the quota id) -/
def parseQuota (ws : List String) : Option Flow :=
  match ws with
  | id :: rest => parseFlow (id :: "s" :: rest)
  | _ => none

def fmtGroups (qs : List Flow) : String :=
  String.intercalate "|" (((groupQuotas qs).map fun g =>
    String.intercalate "+" (g.members.mergeSort (fun a b => a ≤ b))).mergeSort (fun a b => a ≤ b))

def fmtRun (ids : List String) : String := "run=" ++ fmtList ((ids.mergeSort (fun a b => a ≤ b)).eraseDups)

/-- the flow the harness adds for `eng early`: matches everything, its request direction answers the request -/
def earlyFlow : Flow := mkFlow "zzearly" .user "*" [] [] [] []

structure RunSt where
  tree : Tree Nat := []
  quotas : List Flow := []
  qloaded : Bool := false
  flows : List Flow := []          -- as declared
  ft : Option FTree := none

def runStep (s : RunSt) (line : String) : RunSt × String :=
  match words line with
  | ["case", id] => ({}, s!"case {id}")
  | ["t.ins", url, v] =>
    match v.toNat? with
    | some n =>
      match insert s.tree (pctDec url) n true with
      | .ok t' => ({ s with tree := t' }, "ok")
      | .error e => (s, fmtErr e)
    | none => (s, "bad-op")
  | ["t.trav", url] =>
    let vals := lookupFlow s.tree (splitURL (pctDec url))
    (s, "v=" ++ (if vals.isEmpty then "-" else String.intercalate "," (vals.map toString)))
  | "flow" :: ws =>
    match parseFlow ws with
    | some f => ({ s with flows := s.flows ++ [f] }, "ok")
    | none => (s, "bad-op")
  | ["load", p] =>
    match (kv [p] "perm").bind (fun x => (x.splitOn ",").mapM String.toNat?) with
    | some perm =>
      let (ft, rs) := loadSkip .empty (applyPerm s.flows perm)
      ({ s with ft := some ft },
        "r=" ++ String.intercalate "," (rs.map fun r => match r with | none => "ok" | some e => fmtAddErr e))
    | none => (s, "bad-op")
  | "quota" :: ws =>
    match parseQuota ws with
    | some q => ({ s with quotas := s.quotas ++ [q] }, "ok")
    | none => (s, "bad-op")
  | ["qload"] =>
    match build ((quotaSysFlows s.quotas).map (·.1)) with
    | .ok _ => ({ s with qloaded := true }, "ok g=" ++ fmtGroups s.quotas)
    | .error e => ({ s with qloaded := false }, "err:add:" ++ fmtAddErr e)
  | "qreq" :: ws | "qres" :: ws =>
    match parseReq ((words line).head? == some "qres") ws with
    | none => (s, "bad-op")
    | some t =>
      if !s.qloaded then (s, "no-quotas") else
      match quotasRun s.quotas t with
      | .ok ids => (s, fmtRun ids)
      | .error _ => (s, "no-quotas")
  | "early" :: ws =>
    -- L2: the filter tree as `executeReq` asks it after a short circuit (request stream switched to the
    -- response type, no response object)
    match parseReq false ws, s.ft with
    | some t, some ft => (s, fmtAnswer (observe ft t.early))
    | some _, none => (s, "no-tree")
    | none, _ => (s, "bad-op")
  | "eng" :: "early" :: ws =>
    -- L3: the user flows plus the match-all flow `zzearly` whose request direction answers the request; the
    -- flows whose RESPONSE direction runs on that early response, over all load orders
    match parseReq false ws with
    | none => (s, "bad-op")
    | some t =>
      let fs := s.flows.filter (fun f => f.kind == .user && f.url != "")
      if fs.length > 3 || fs.any (fun f => f.name == "zzearly") then (s, "unsupported") else
      (s, s!"poss={String.intercalate "|" (possible (fs ++ [earlyFlow]) t.early)} eng=in n=ok")
  | "eng" :: rr :: ws =>
    if rr != "req" && rr != "res" then (s, "bad-op") else
    match parseReq (rr == "res") ws with
    | none => (s, "bad-op")
    | some t =>
      -- the YAML loader skips a flow without filter URL
      let fs := s.flows.filter (fun f => f.kind == .user && f.url != "")
      if fs.isEmpty || fs.length > 4 then (s, "unsupported") else
      (s, s!"poss={String.intercalate "|" (possible fs t)} eng=in n=ok")
  | "req" :: ws =>
    match parseReq false ws, s.ft with
    | some t, some ft => (s, fmtAnswer (observe ft t))
    | some _, none => (s, "no-tree")
    | none, _ => (s, "bad-op")
  | "res" :: ws =>
    match parseReq true ws, s.ft with
    | some t, some ft => (s, fmtAnswer (observe ft t))
    | some _, none => (s, "no-tree")
    | none, _ => (s, "bad-op")
  | _ => (s, "bad-op")

/-! ### judge -/

def parseAnswer (ws : List String) : Option Answer := do
  let f ← kv ws "found"
  let u ← kv ws "u"
  let s ← kv ws "s"
  let e ← kv ws "e"
  pure ⟨f == "1", (splitList u).map pctDec, (splitList s).map pctDec, (splitList e).map pctDec⟩

structure JudgeSt where
  flows : List Flow := []
  ins : List (List Part × Nat) := []
  looks : List (String × List Part × List Nat) := []
  engs : List EngObs := []
  quotas : List Flow := []
  qround : Option Round := none
  cur : Option Round := none
  rounds : List Round := []                       -- finished rounds, newest first
  bad : Option String := none

def JudgeSt.flush (s : JudgeSt) : JudgeSt :=
  match s.cur with
  | some r => { s with rounds := r :: s.rounds, cur := none }
  | none => s

def judgeStep (s : JudgeSt) (op out : String) : JudgeSt :=
  match words op with
  | ["t.ins", url, v] =>
    if out == "ok" then
      match v.toNat? with
      | some n => { s with ins := s.ins ++ [(splitURL (pctDec url), n)] }
      | none => { s with bad := some "unparsable-op" }
    else s
  | ["t.trav", url] =>
    match (kv (words out) "v").bind parseNats with
    | some vals => { s with looks := s.looks ++ [(op, splitURL (pctDec url), vals)] }
    | none => { s with bad := some ("unparsable-output:" ++ pctEnc out) }
  | "flow" :: ws =>
    match parseFlow ws with
    | some f => { s with flows := s.flows ++ [f] }
    | none => s
  | ["load", p] =>
    match (kv [p] "perm").bind (fun x => (x.splitOn ",").mapM String.toNat?), kv (words out) "r" with
    | some perm, some r =>
      let s := s.flush
      let fs := applyPerm s.flows perm
      let rs := if r == "" then [] else r.splitOn ","
      if rs.length != fs.length then { s with bad := some ("load-answer-length:" ++ pctEnc out) } else
      -- the observable configuration: the flows the implementation accepted, in load order
      let cfg := (fs.zip rs).filterMap fun (f, r) => if r == "ok" then some f else none
      { s with cur := some { cfg := cfg, reqs := [] } }
    | _, _ => if out == "bad-op" then s else { s with bad := some ("unparsable-output:" ++ pctEnc out) }
  | "quota" :: ws =>
    match parseQuota ws with
    | some q => { s with quotas := s.quotas ++ [q] }
    | none => s
  | ["qload"] =>
    -- the configuration the property speaks about: every quota with its OWN filter, as a system flow named
    -- by the quota id
    let s := match s.qround with
      | some r => { s with rounds := r :: s.rounds, qround := none }
      | none => s
    if out.startsWith "ok" then
      { s with qround := some { cfg := s.quotas.map fun q => { q with kind := .sysStart }, reqs := [] } }
    else s
  | "qreq" :: ws | "qres" :: ws =>
    match s.qround, parseReq ((words op).head? == some "qres") ws, kv (words out) "run" with
    | some r, some t, some run =>
      let ids := (splitList run).map pctDec
      { s with qround := some { r with reqs := r.reqs ++ [⟨op, t, ⟨!ids.isEmpty, [], ids, []⟩⟩] } }
    | some _, some _, none =>
      if out == "no-quotas" then s else { s with bad := some ("unparsable-output:" ++ pctEnc out) }
    | _, _, _ => s
  | "eng" :: "early" :: ws =>
    if out == "unsupported" then s else
    match parseReq false ws, kv (words out) "poss", kv (words out) "eng", kv (words out) "n" with
    | some t, some poss, some e, some n =>
      { s with engs := s.engs ++ [⟨op, s.flows.filter (fun f => f.kind == .user && f.url != "") ++ [earlyFlow],
          t.early, poss.splitOn "|", e == "in", n == "ok"⟩] }
    | _, _, _, _ => if out == "bad-op" then s else { s with bad := some ("unparsable-output:" ++ pctEnc out) }
  | "eng" :: rr :: ws =>
    if out == "unsupported" then s else
    match parseReq (rr == "res") ws, kv (words out) "poss", kv (words out) "eng", kv (words out) "n" with
    | some t, some poss, some e, some n =>
      { s with engs := s.engs ++ [⟨op, s.flows.filter (fun f => f.kind == .user && f.url != ""), t, poss.splitOn "|", e == "in", n == "ok"⟩] }
    | _, _, _, _ => if out == "bad-op" then s else { s with bad := some ("unparsable-output:" ++ pctEnc out) }
  | "req" :: ws | "res" :: ws | "early" :: ws =>
    let isResp := (words op).head? == some "res"
    match s.cur, (parseReq isResp ws).map (fun t => if (words op).head? == some "early" then t.early else t) with
    | some r, some t =>
      if out.startsWith "panic" then { s with bad := some ("impl-panic:" ++ pctEnc out) } else
      match parseAnswer (words out) with
      | some a => { s with cur := some { r with reqs := r.reqs ++ [⟨op, t, a⟩] } }
      | none => { s with bad := some ("unparsable-output:" ++ pctEnc out) }
    | _, _ => s
  | _ => s

def judgeFinish (s : JudgeSt) : String :=
  match s.bad with
  | some b => s!"fail - {b}"
  | none =>
    let s := s.flush
    let s := match s.qround with
      | some r => { s with rounds := r :: s.rounds, qround := none }
      | none => s
    let vs := trieVerdicts s.ins s.looks ++ caseVerdicts s.rounds.reverse ++ engVerdicts s.engs
    -- an unclassified failure always wins; otherwise the first classified one
    match vs.find? (fun v => v.finding == "-") with
    | some v => s!"fail - {v.msg}"
    | none => match vs with
      | v :: _ => s!"fail {v.finding} {v.msg}"
      | [] => "ok"

def main (args : List String) : IO Unit :=
  match args with
  | ["run"] => runLoop runStep {}
  | ["judge"] => judgeLoop ({} : JudgeSt) judgeStep judgeFinish
  | _ => IO.eprintln "usage: lvdriver_c03 run|judge"
