import LunarVerif.Base.Proto
import LunarVerif.Spec.C14
import LunarVerif.Spec.C14Reload
/-! Driver for C14: `lvdriver_c14 run` (model outputs) / `lvdriver_c14 judge` (Spec on impl outputs).

Ops (one answer line each; strings percent-encoded):
  L1  fmt m=<method> url=<url>                      -> <expression>            (HaproxyEndpointFormat)
  L2  re e=<expression> s=<subject>                 -> match | nomatch | err:syntax | unsupported
  L3  mode flows|policy                             -> ok
      flow name=<n> url=<url> methods=<a,b|-> [expr=1] -> ok | err | dead                 (FilterTree.AddFlow)
      policy name=<n> m=<method> url=<url> (on=<0|1> | r=<0|1,…|-> d=<0|1,…|->) -> ok   (remedies / diagnoses)
      global on=<0|1>                               -> ok
      build                                         -> ma=<0|1> n=<k> eps=<e1;e2;…|-> | err | dead
      req m=<method> url=<url>                      -> sel=<names|-> managed=<0|1|?>   (| no-build)
  L4  mode reload                                   -> ok        (lifetime: a sequence of policy reloads)
      reload g=<0|1> eps=<M@url[@rflags@dflags];…|-> [now=1]  -> ma=<0|1> n=<k> eps=<e1;e2;…|-> | err | err:manage
                                                       (now=1: unmanageImmediately, the fail-safe reverts)
      fail put=<k> del=<j>                          -> ok        (the admin server refuses the next k PUTs / j DELETEs)
      txn id=<t>                                    -> ok        (a request leg reaches the engine: anchored)
      txn? id=<t>                                   -> expired | all=<0|1> n=<k> set=<…> tma=<0|1> teps=<…>
                                                       (the proxy's map; the request of the version the engine still
                                                        serves the transaction from)
      advance ms=<n>                                -> ok        (mock clock; due un-manage jobs fire)
      managed?                                      -> all=<0|1> n=<k> set=<e1;…|-> fma=<0|1> feps=<e1;…|->
                                                       (the proxy's map; the request of the policies IN FORCE)
-/
open LunarVerif LunarVerif.Proto LunarVerif.UrlTree LunarVerif.Regex LunarVerif.C14

def ofChars (cs : List Char) : String := String.ofList cs

def fmtNames (ns : List String) : String := if ns.isEmpty then "-" else String.intercalate "," ns

def parseMethods (s : String) : List String := if s == "-" then [] else (s.splitOn ",").map pctDec

def parseFlags (s : String) : List Bool := if s == "-" then [] else (s.splitOn ",").map (· == "1")

/-- plugins of a `policy` op: `on=<0|1>` (one diagnosis) or `r=<flags> d=<flags>`. -/
def parsePlugins (ws : List String) : Option (List Bool × List Bool) :=
  match kv ws "on", kv ws "r", kv ws "d" with
  | some on, none, none => some ([], [on == "1"])
  | none, some r, some d => some (parseFlags r, parseFlags d)
  | _, _, _ => none

def reAnswer (e s : String) : String :=
  if !inSubset e.toList then "unsupported"
  else match parseRe e.toList with
    | none => "err:syntax"
    | some r => if reSearch r s.toList then "match" else "nomatch"

structure Built where
  cfg : Cfg
  pt : Option C13.PTree := none
  supported : Bool := true         -- every registered expression is inside the regex subset

def parseReloadEps (s : String) : Option (List Policy) :=
  if s == "-" then some [] else
  (s.splitOn ";").zipIdx.mapM fun (it, i) => match it.splitOn "@" with
    | [m, u] => some ⟨s!"p{i + 1}", pctDec m, pctDec u, [], [true]⟩
    | [m, u, r, d] => some ⟨s!"p{i + 1}", pctDec m, pctDec u, parseFlags r, parseFlags d⟩
    | _ => none

def fmtSet (es : List String) : String :=
  let es := (es.map pctEnc).mergeSort (fun a b => decide (a ≤ b))
  let es := es.eraseDups
  s!"n={es.length} set={if es.isEmpty then "-" else String.intercalate ";" es}"

def parseSet (s : String) : List String := if s == "-" then [] else (s.splitOn ";").map pctDec

structure RunSt where
  rmode : Reload.Mode := Reload.codeMode
  rl : Reload.St := {}
  mode : Nat := 0                  -- 1 flows, 2 policy, 3 reload
  flows : List Flow := []
  ft : FTree := {}
  dead : Bool := false
  pols : List Policy := []
  glob : Bool := false
  built : Option Built := none

def fmtBuild (cfg : Cfg) : String :=
  let eps := (registered cfg).map fun e => pctEnc (ofChars e)
  let eps := eps.mergeSort (fun a b => decide (a ≤ b))
  s!"ma={if manageAll cfg then 1 else 0} n={eps.length} eps={if eps.isEmpty then "-" else String.intercalate ";" eps}"

def allSupported (cfg : Cfg) : Bool := (registered cfg).all inSubset

def runStep (s : RunSt) (line : String) : RunSt × String :=
  match words line with
  | ["case", id] => ({ rmode := s.rmode }, s!"case {id}")
  | "fmt" :: ws =>
    match kv ws "m", kv ws "url" with
    | some m, some u => (s, pctEnc (ofChars (formatEndpoint (pctDec m).toList (pctDec u).toList)))
    | _, _ => (s, "bad-op")
  | "re" :: ws =>
    match kv ws "e", kv ws "s" with
    | some e, some subj => (s, reAnswer (pctDec e) (pctDec subj))
    | _, _ => (s, "bad-op")
  | ["mode", "flows"] => ({ s with mode := 1 }, "ok")
  | ["mode", "policy"] => ({ s with mode := 2 }, "ok")
  | ["mode", "reload"] => ({ s with mode := 3 }, "ok")
  | "reload" :: ws =>
    match kv ws "g", (kv ws "eps").bind parseReloadEps with
    | some g, some pols =>
      if s.mode != 3 then (s, "bad-op")
      else match buildPolicies pols with
        | .error _ => (s, "err")
        | .ok _ =>
          let cfg := Cfg.policies pols (g == "1")
          let req : Reload.Req := ⟨manageAll cfg, (registered cfg).map ofChars⟩
          let ok := Reload.reloadOK s.rl req
          let rl' := if kv ws "now" == some "1" then Reload.reloadNow s.rmode s.rl req
                     else Reload.reload s.rmode s.rl req
          ({ s with rl := rl' }, if ok then fmtBuild cfg else "err:manage")
    | _, _ => (s, "bad-op")
  | ["txn", w1] =>
    match kv [w1] "id" with
    | some id => if s.mode != 3 then (s, "bad-op") else ({ s with rl := Reload.anchorTxn s.rl id }, "ok")
    | none => (s, "bad-op")
  | ["txn?", w1] =>
    match kv [w1] "id" with
    | some id =>
      if s.mode != 3 then (s, "bad-op")
      else match Reload.txnView s.rl id with
        | none => (s, "expired")
        | some req =>
          let te := (req.eps.map pctEnc).mergeSort (fun a b => decide (a ≤ b))
          (s, s!"all={if s.rl.all then 1 else 0} {fmtSet s.rl.managed} tma={if req.ma then 1 else 0} teps={if te.isEmpty then "-" else String.intercalate ";" te}")
    | none => (s, "bad-op")
  | "fail" :: ws =>
    match kvNat ws "put", kvNat ws "del" with
    | some p, some d =>
      if s.mode != 3 then (s, "bad-op") else ({ s with rl := { s.rl with failPut := p, failDel := d } }, "ok")
    | _, _ => (s, "bad-op")
  | "advance" :: ws =>
    match kvNat ws "ms" with
    | some d => if s.mode != 3 then (s, "bad-op") else ({ s with rl := Reload.advance s.rmode s.rl d }, "ok")
    | none => (s, "bad-op")
  | ["managed?"] =>
    if s.mode != 3 then (s, "bad-op")
    else
      let fe := (s.rl.cur.eps.map pctEnc).mergeSort (fun a b => decide (a ≤ b))
      (s, s!"all={if s.rl.all then 1 else 0} {fmtSet s.rl.managed} fma={if s.rl.cur.ma then 1 else 0} feps={if fe.isEmpty then "-" else String.intercalate ";" fe}")
  | "flow" :: ws =>
    match kv ws "name", kv ws "url", kv ws "methods" with
    | some n, some u, some ms =>
      if s.mode != 1 then (s, "bad-op")
      else if s.dead then (s, "dead")
      else
        let f : Flow := ⟨n, pctDec u, parseMethods ms, kv ws "expr" == some "1"⟩
        match addFlow s.ft f with
        | .ok ft => ({ s with ft := ft, flows := s.flows ++ [f] }, "ok")
        | .err => ({ s with dead := true }, "err")
    | _, _, _ => (s, "bad-op")
  | "policy" :: ws =>
    match kv ws "name", kv ws "m", kv ws "url", parsePlugins ws with
    | some n, some m, some u, some (r, d) =>
      if s.mode != 2 then (s, "bad-op")
      else ({ s with pols := s.pols ++ [⟨n, pctDec m, pctDec u, r, d⟩] }, "ok")
    | _, _, _, _ => (s, "bad-op")
  | "global" :: ws =>
    match kv ws "on" with
    | some on => if s.mode != 2 then (s, "bad-op") else ({ s with glob := on == "1" }, "ok")
    | none => (s, "bad-op")
  | ["build"] =>
    if s.mode == 1 then
      if s.dead then (s, "dead")
      else
        let cfg := Cfg.flows s.flows
        ({ s with built := some { cfg := cfg, supported := allSupported cfg } }, fmtBuild cfg)
    else if s.mode == 2 then
      match buildPolicies s.pols with
      | .error _ => ({ s with dead := true }, "err")
      | .ok pt =>
        let cfg := Cfg.policies s.pols s.glob
        ({ s with built := some { cfg := cfg, pt := some pt, supported := allSupported cfg } }, fmtBuild cfg)
    else (s, "bad-op")
  | "req" :: ws =>
    match kv ws "m", kv ws "url" with
    | some m, some u =>
      let m := pctDec m
      let u := pctDec u
      if s.dead then (s, "sel=- managed=0")
      else match s.built with
        | none => (s, "no-build")
        | some b =>
          let sel := match b.pt with
            | some pt => selectPolicies pt m u
            | none => getFlow s.ft m u
          let managed := if manageAll b.cfg then "1"
            else if !b.supported then "?"
            else if managedB b.cfg m u then "1" else "0"
          (s, s!"sel={fmtNames sel} managed={managed}")
    | _, _ => (s, "bad-op")
  | _ => (s, "bad-op")

/-! ### judge: the Spec on the implementation's answers -/

structure JudgeSt where
  rmode : Reload.Mode := Reload.codeMode
  hist : Reload.Hist := {}
  decls : List Decl := []
  worst : Option String := none     -- first violation
  known : Option String := none     -- first known-finding verdict
  bad : Option String := none

def judgeStep (s : JudgeSt) (op out : String) : JudgeSt :=
  if out == "bad-op" then s else
  match words op with
  | "flow" :: ws =>
    match kv ws "name", kv ws "url", kv ws "methods" with
    | some n, some u, some ms =>
      -- a flow the engine refused to load is not a loaded filter
      if out == "ok" then { s with decls := s.decls ++ [⟨n, pctDec u, parseMethods ms, true⟩] } else s
    | _, _, _ => { s with bad := some "unparsable-flow" }
  | "policy" :: ws =>
    match kv ws "name", kv ws "m", kv ws "url", parsePlugins ws with
    | some n, some m, some u, some (r, d) =>
      { s with decls := s.decls ++ [⟨n, pctDec u, [pctDec m], r.any id || d.any id⟩] }
    | _, _, _, _ => { s with bad := some "unparsable-policy" }
  | "reload" :: ws =>
    let ows := words out
    let _ := ws
    let h := { s.hist with last := some s.hist.now }
    match kv ows "ma", kv ows "eps" with
    | some ma, some eps => { s with hist := { h with reqs := (s.hist.now, ⟨ma == "1", parseSet eps⟩) :: h.reqs } }
    | _, _ => if out == "err" then s else { s with hist := h }   -- rejected config: nothing happened; refused manage request: an attempt
  | "advance" :: ws =>
    match kvNat ws "ms" with
    | some d => if out == "ok" then { s with hist := { s.hist with now := s.hist.now + d } }
                else { s with bad := some ("advance:" ++ pctEnc out) }
    | none => s
  | ["txn?", _] =>
    if out == "expired" then s else
    let ows := words out
    match kv ows "all", kv ows "set", kv ows "tma", kv ows "teps" with
    | some all, some set, some tma, some teps =>
      let req : Reload.Req := ⟨tma == "1", parseSet teps⟩
      match Reload.observeTxn (some req) (all == "1") (parseSet set) with
      | .violated why =>
        if s.worst.isSome then s
        else { s with worst := some s!"- {why} t={s.hist.now} missing={String.intercalate ";" ((Reload.missing req (all == "1") (parseSet set)).map pctEnc)}" }
      | _ => s
    | _, _, _, _ => { s with bad := some ("unparsable-output:" ++ pctEnc out) }
  | ["managed?"] =>
    let ows := words out
    match kv ows "all", kv ows "set", kv ows "fma", kv ows "feps" with
    | some all, some set, some fma, some feps =>
      let force : Reload.Req := ⟨fma == "1", parseSet feps⟩
      match Reload.observe s.rmode s.hist force (all == "1") (parseSet set) with
      | .ok => s
      | .known id =>
        if s.known.isSome then s
        else { s with known := some s!"{id} required-not-managed-after-reload-settled t={s.hist.now} missing={String.intercalate ";" ((Reload.missing force (all == "1") (parseSet set)).map pctEnc)}" }
      | .violated why =>
        if s.worst.isSome then s
        else { s with worst := some s!"- {why} t={s.hist.now} missing={String.intercalate ";" ((Reload.missing force (all == "1") (parseSet set)).map pctEnc)}" }
    | _, _, _, _ => { s with bad := some ("unparsable-output:" ++ pctEnc out) }
  | "req" :: ws =>
    let ows := words out
    match kv ws "m", kv ws "url", kv ows "sel", kv ows "managed" with
    | some m, some u, some sel, some managed =>
      if managed == "?" then s
      else
        let names := if sel == "-" then [] else sel.splitOn ","
        match reqVerdict s.decls (pctDec m) (pctDec u) names (managed == "1") with
        | .ok => s
        | .known c =>
          if s.known.isSome then s
          else { s with known := some s!"{c.id} not-managed m={m} url={u} sel={sel}" }
        | .violated why =>
          if s.worst.isSome then s
          else { s with worst := some s!"- {why} m={m} url={u} sel={sel}" }
    | _, _, _, _ => if out == "no-build" then s else { s with bad := some ("unparsable-output:" ++ pctEnc out) }
  | _ => s

def judgeFinish (s : JudgeSt) : String :=
  match s.bad, s.worst, s.known with
  | some b, _, _ => s!"fail - {b}"
  | none, some w, _ => s!"fail {w}"
  | none, none, some k => s!"fail {k}"
  | none, none, none => "ok"

/-- `VERIF_C14_RELOAD_MODE=byString|stamped` makes the driver describe the code AFTER F14g.patch / F14g+F14h.patch
    (used to validate the staged repairs; unset = `Reload.codeMode`, the code as it is). -/
def reloadMode : IO Reload.Mode := do
  match (← IO.getEnv "VERIF_C14_RELOAD_MODE") with
  | some "ptr" => pure .ptr
  | some "byString" => pure .byString
  | some "stamped" => pure .stamped
  | _ => pure Reload.codeMode

def main (args : List String) : IO Unit := do
  let m ← reloadMode
  match args with
  | ["run"] => runLoop runStep { rmode := m }
  | ["judge"] => judgeLoop ({ rmode := m } : JudgeSt) judgeStep judgeFinish
  | _ => IO.eprintln "usage: lvdriver_c14 run|judge"
