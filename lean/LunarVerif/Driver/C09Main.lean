import LunarVerif.Base.Proto
import LunarVerif.Spec.C09
import LunarVerif.Model.C09Dispatch
/-!
Driver for C09: `lvdriver_c09 run` (model answers) / `lvdriver_c09 judge` (Spec on impl answers).

ops:
  wiring hasher=identity|md5      (first op of a case only; default identity = production)        → ok
  remedy id=<n> name=<enc> allowed=<int> win=<sec> status=<int> spill=<0|1> renew=<int>
         [hdr=<enc> | nohdr] [default=<enc>] [dpct=<n>/<d>] [g=<encval>&<n>/<d>]...     → ok
  req id=<n> t=<ns> [tick=<ns>] [h=<encname>&<encval>]...  → noop | early <status> | err:<class> | panic  [reads=<k>]
         (tick: the clock advances by that much on EVERY reading during the call; t = first reading)
  burst id=<n> t=<ns> n=<count> par=<goroutines> [h=..]... [alt=<encname>&<encval>]...
                                                            → passed=<k> blocked=<m> other=<o> status=<s|-> [pa=.. ba=..]
         (count concurrent OnRequest calls at one instant; the model answers for any sequential order)
  counters t=<ns>                                           → n=<k> <key>=<counter>... (sorted)   (read-only since fix F09d)
-/
open LunarVerif LunarVerif.Proto LunarVerif.C09

def splitAmp (s : String) : Option (String × String) :=
  match s.splitOn "&" with
  | [a, b] => some (a, b)
  | _ => none

def parseFrac (s : String) : Option (Nat × Nat) :=
  match s.splitOn "/" with
  | [a, b] => do
    let n ← a.toNat?
    let d ← b.toNat?
    if d == 0 then none else pure (n, d)
  | _ => none

/-- all values of repeated `k=v` words -/
def kvAll (ws : List String) (k : String) : List String :=
  ws.filterMap fun w => if w.startsWith (k ++ "=") then some ((w.drop (k.length + 1)).toString) else none

def parseGroups : List String → Option (List (String × Nat × Nat))
  | [] => some []
  | g :: rest => do
    let (v, f) ← splitAmp g
    let (n, d) ← parseFrac f
    let tl ← parseGroups rest
    pure ((pctDec v, n, d) :: tl)

def parseHdrs : List String → Option (List (String × String))
  | [] => some []
  | h :: rest => do
    let (n, v) ← splitAmp h
    let tl ← parseHdrs rest
    pure ((pctDec n, pctDec v) :: tl)

def parseRemedy (ws : List String) : Option (Nat × Remedy) := do
  let id ← kvNat ws "id"
  let name ← kv ws "name"
  let allowed ← kvInt ws "allowed"
  let win ← kvNat ws "win"
  let status ← kvInt ws "status"
  let spill ← kvNat ws "spill"
  let renew ← kvInt ws "renew"
  let hasAlloc := ws.contains "nohdr" || (kv ws "hdr").isSome
  let alloc ← if hasAlloc then do
      let groups ← parseGroups (kvAll ws "g")
      let (dn, dd) ← match kv ws "dpct" with
        | some f => parseFrac f
        | none => some (0, 1)
      let dflt := match kv ws "default" with | some d => pctDec d | none => ""
      let gb := if ws.contains "nohdr" then none else (kv ws "hdr").map pctDec
      pure (some ({ groupBy := gb, groups := groups, default := dflt, dnum := dn, dden := dd } : Alloc))
    else pure none
  pure (id, { name := pctDec name, allowed := allowed, winSec := win, status := status,
              spillOn := spill != 0, renewDay := renew, alloc := alloc })

/-- `dpol scope=g|e [url= method=] name= enabled= kind=throttle <remedy fields> | kind=retry attempts= cooldown= mult= lo= hi=` -/
def parseDPol (ws : List String) : Option DPol := do
  let scope ← kv ws "scope"
  let name ← kv ws "name"
  let enabled ← kvNat ws "enabled"
  let kind ← kv ws "kind"
  let ep ← if scope == "g" then some none
           else if scope == "e" then do
             let u ← kv ws "url"
             let m ← kv ws "method"
             pure (some (pctDec u, m))
           else none
  let k ← if kind == "throttle" then do
            let (_, r) ← parseRemedy ("id=0" :: ws)
            if ws.contains "nohdr" then none else pure (DKind.throttle r)
          else if kind == "retry" then do
            let att ← kvInt ws "attempts"
            let _ ← kvInt ws "cooldown"
            let _ ← kvInt ws "mult"
            let lo ← kvInt ws "lo"
            let hi ← kvInt ws "hi"
            pure (DKind.retry att lo hi)
          else if kind == "oauth" then pure DKind.oauth
          else if kind == "basic" then pure DKind.other
          else if kind == "acct" then
            match kv ws "hname" with
            | none => pure (DKind.acct "x-acct-token" ["t1"])
            | some hn => do
              let hv ← kv ws "hvals"
              pure (DKind.acct (pctDec hn) ((hv.splitOn ",").map pctDec))
          else if kind == "apikey" then
            match kv ws "hname" with
            | none => pure (DKind.apikey "x-api-key" "k1")
            | some hn => do
              let hv ← kv ws "hvalue"
              pure (DKind.apikey (pctDec hn) (pctDec hv))
          else if kind == "fixed" then do
            let st ← kvInt ws "status"
            pure (DKind.fixed st)
          else if kind == "cache" then do
            let _ ← kvNat ws "ttl"      -- (longer than any case: entries never expire in the model)
            let mr ← kvNat ws "maxrec"
            if scope == "e" then pure (DKind.cache mr) else none
          else none
  pure { ep := ep, name := pctDec name, enabled := enabled != 0, kind := k }

/-- header names a remedy was explicitly told to set (`hname=`): reported when the gateway sets them -/
def watchOf (ws : List String) : List String := ((kv ws "hname").map pctDec).toList

def fmtDispatch (watch : List String) (outs : List (String × String)) : DAns → String
  | .pass =>
    let items := ((outs.filter fun o => watch.contains o.1).map fun o => pctEnc o.1 ++ "&" ++ pctEnc o.2).mergeSort
      (fun a b => !(b < a))
    if items.isEmpty then "pass" else "pass out=" ++ ";".intercalate items
  | .early s b => s!"early {s} body={pctEnc b}"
  | .err => "err:dispatch"

def parseOuts (s : String) : Option (List (String × String)) :=
  (s.splitOn ";").mapM fun item => (splitAmp item).map fun (n, v) => (pctDec n, pctDec v)

structure Tbl where
  remedies : List (Nat × Remedy) := []

def Tbl.get (t : Tbl) (id : Nat) : Option Remedy := (t.remedies.find? (·.1 == id)).map (·.2)
def Tbl.put (t : Tbl) (id : Nat) (r : Remedy) : Tbl := ⟨(id, r) :: t.remedies.filter (·.1 != id)⟩

def fmtAnswer : Answer → String
  | .noop => "noop"
  | .early s => s!"early {s}"
  | .err c => s!"err:{c}"
  | .panic => "panic"

def fmtKey (k : Key) : String :=
  match k.group with
  | none => pctEnc k.remedy ++ "|U"
  | some (h, v) => pctEnc k.remedy ++ "|G|" ++ pctEnc h ++ "|" ++ pctEnc v

def fmtCounters (cs : List (Key × Nat)) : String :=
  let items := (cs.map fun (k, c) => s!"{fmtKey k}={c}").mergeSort (fun a b => !(b < a))
  " ".intercalate (s!"n={cs.length}" :: items)

structure RunSt where
  tbl : Tbl := {}
  st : State Key := []
  identity : Bool := true    -- plugin wiring: identity obfuscator (production) unless `wiring hasher=md5`
  started : Bool := false    -- an op of this case was already seen (`wiring` must be the first)
  dpols : List DPol := []    -- dispatcher family: configured policies (in order)
  dloaded : Bool := false    -- … a configuration was accepted and is in force
  dst : DState := {}         -- … its own rate-limit state / round-robin counter (services.Initialize per `dload`)
  dwatch : List String := [] -- … header names whose outgoing value is reported

def parseWiring (ws : List String) : Option Bool :=
  match kv ws "hasher" with
  | some "identity" => some true
  | some "md5" => some false
  | _ => none

def runStep1 (s : RunSt) (line : String) : RunSt × String :=
  match words line with
  | ["case", id] => ({}, s!"case {id}")
  | "wiring" :: ws =>
    match parseWiring ws, s.started with
    | some b, false => ({ s with identity := b }, "ok")
    | _, _ => (s, "bad-op")
  | "dpol" :: ws =>
    match parseDPol ws with
    | some p => ({ s with dpols := s.dpols ++ [p], dwatch := s.dwatch ++ watchOf ws }, "ok")
    | none => (s, "bad-op")
  | ["dload"] =>
    if accepted s.dpols then ({ s with dloaded := true, dst := {} }, "ok")
    else ({ s with dloaded := false, dst := {} }, "refused:duplicate-name")
  | "dburst" :: ws =>
    match kv ws "url", kv ws "method", kvNat ws "t", kvNat ws "n", kvNat ws "par", parseHdrs (kvAll ws "h") with
    | some u, some m, some t, some n, some par, some hs =>
      if n < 1 || n > 1024 || par < 1 || par > 128 then (s, "bad-op") else
      if !s.dloaded then (s, "no-config") else
      -- n concurrent requests at one instant: every interleaving gives the same counts
      let rec goD : Nat → DState → Nat → Nat → Nat → Option Int → DState × Nat × Nat × Nat × Option Int
        | 0, st, np, nb, ne, stt => (st, np, nb, ne, stt)
        | k + 1, st, np, nb, ne, stt =>
          let (st', a, _) := dispatchStep capUnits st s.dpols (pctDec u) m hs t
          match a with
          | .pass => goD k st' (np + 1) nb ne stt
          | .early c _ => goD k st' np (nb + 1) ne (stt <|> some c)
          | .err => goD k st' np nb (ne + 1) stt
      let (st', np, nb, ne, stt) := goD n s.dst 0 0 0 none
      let stat := match stt with | some c => toString c | none => "-"
      ({ s with dst := st' }, s!"passed={np} blocked={nb} err={ne} status={stat}")
    | _, _, _, _, _, _ => (s, "bad-op")
  | "dreq" :: ws =>
    match kv ws "url", kv ws "method", kvNat ws "t", parseHdrs (kvAll ws "h") with
    | some u, some m, some t, some hs =>
      if !s.dloaded then (s, "no-config") else
      let (st', a, outs) := dispatchStep capUnits s.dst s.dpols (pctDec u) m hs t
      ({ s with dst := st' }, fmtDispatch s.dwatch outs a)
    | _, _, _, _ => (s, "bad-op")
  | "remedy" :: ws =>
    match parseRemedy ws with
    | some (id, r) => ({ s with tbl := s.tbl.put id r }, "ok")
    | none => (s, "bad-op")
  | "req" :: ws =>
    match kvNat ws "id", kvNat ws "t", parseHdrs (kvAll ws "h") with
    | some id, some t, some hs =>
      if (kv ws "tick").isSome && (kvNat ws "tick").isNone then (s, "bad-op") else
      match s.tbl.get id with
      | some r0 =>
        let r := { r0 with identityHash := s.identity }
        let (st', a) := pluginStep capUnits s.st r hs t
        -- `tick=`: the clock advances on every reading; the model says how many readings the call makes:
        -- `readsTryToIncrement` when the request reaches the limiter (also when a zero window then panics)
        let reads := match resolve r hs with
          | .limited _ _ => readsTryToIncrement
          | .direct _ => 0
        let tail := if (kv ws "tick").isSome then s!" reads={reads}" else ""
        ({ s with st := st' }, fmtAnswer a ++ tail)
      | none => (s, "bad-op")
    | _, _, _ => (s, "bad-op")
  | "burst" :: ws =>
    match kvNat ws "id", kvNat ws "t", kvNat ws "n", kvNat ws "par", parseHdrs (kvAll ws "h"),
          parseHdrs (kvAll ws "alt") with
    | some id, some t, some n, some par, some hs, some alts =>
      if n > 4096 || par < 1 || par > 256 then (s, "bad-op") else
      match s.tbl.get id with
      | some r0 =>
        let r := { r0 with identityHash := s.identity }
        -- n requests at one instant (request j carries alternative j % len): every interleaving gives the
        -- same counts per key; the model takes them in index order
        let na := alts.length
        let hdrsOf (j : Nat) : List (String × String) :=
          if na == 0 then hs else hs ++ (alts.drop (j % na)).take 1
        let bump (l : List Nat) (a : Nat) : List Nat := l.set a (l.getD a 0 + 1)
        let rec go : Nat → Nat → State Key → Nat → Nat → Nat → List Nat → List Nat →
            State Key × Nat × Nat × Nat × List Nat × List Nat
          | 0, _, st, np, nb, no, pa, ba => (st, np, nb, no, pa, ba)
          | k + 1, j, st, np, nb, no, pa, ba =>
            let (st', a) := pluginStep capUnits st r (hdrsOf j) t
            let ai := if na == 0 then 0 else j % na
            match a with
            | .noop => go k (j + 1) st' (np + 1) nb no (bump pa ai) ba
            | .early _ => go k (j + 1) st' np (nb + 1) no pa (bump ba ai)
            | _ => go k (j + 1) st' np nb (no + 1) pa ba
        let (st', np, nb, no, pa, ba) := go n 0 s.st 0 0 0 (List.replicate na 0) (List.replicate na 0)
        let stat := if nb == 0 then "-" else toString (effStatus r)
        let commas (l : List Nat) : String := ",".intercalate (l.map toString)
        let tail := if na == 0 then "" else s!" pa={commas pa} ba={commas ba}"
        ({ s with st := st' }, s!"passed={np} blocked={nb} other={no} status={stat}{tail}")
      | none => (s, "bad-op")
    | _, _, _, _, _, _ => (s, "bad-op")
  | "counters" :: ws =>
    match kvNat ws "t" with
    | some t =>
      (s, fmtCounters (countersL t s.st) ++ s!" reads={s.st.length * readsCounter}")
    | none => (s, "bad-op")
  | _ => (s, "bad-op")

def runStep (s : RunSt) (line : String) : RunSt × String :=
  let (s', out) := runStep1 s line
  match words line with
  | ["case", _] => (s', out)
  | _ => ({ s' with started := true }, out)

structure JudgeSt where
  tbl : Tbl := {}
  hist : List (Event PKey) := []   -- most recent first; both identities of every limiter event
  bad : Option String := none
  identity : Bool := true
  started : Bool := false
  dpols : List DPol := []
  dloaded : Bool := false
  dhist : List (Event PKey) := []   -- dispatcher family, most recent first
  dskip : Bool := false             -- a request ran two throttling remedies: verdicts not attributable
  dAcctIdx : Nat := 0               -- round-robin position of the account-orchestration plugin (configuration only)

def parseAnswer (out : String) : Option Answer :=
  match (words out).filter (fun w => !w.startsWith "reads=") with
  | ["noop"] => some .noop
  | ["early", s] => s.toInt?.map .early
  | ["panic"] => some .panic
  | [w] => if w.startsWith "err:" then some (.err (w.drop 4).toString) else none
  | _ => none

def judgeStep1 (s : JudgeSt) (op out : String) : JudgeSt :=
  match words op with
  | "wiring" :: ws =>
    match parseWiring ws, s.started with
    | some b, false => { s with identity := b }
    | _, _ => s
  | "dpol" :: ws =>
    match parseDPol ws with
    | some p => { s with dpols := s.dpols ++ [p] }
    | none => s
  | ["dload"] =>
    -- the IMPLEMENTATION's verdict on the configuration decides whether requests are judged: if it accepts two
    -- policies with one name, every policy must still keep its own count
    { s with dloaded := out == "ok", dhist := [], dAcctIdx := 0 }
  | "dburst" :: ws =>
    match kv ws "url", kv ws "method", kvNat ws "t", parseHdrs (kvAll ws "h") with
    | some u, some m, some t, some hs =>
      if !s.dloaded then s else
      let url := pctDec u
      let ch := chain s.dpols url m
      let ows := words out
      match kvNat ows "passed", kvNat ows "blocked", kvNat ows "err", kv ows "status" with
      | some np, some nb, some ne, some stat =>
        if ne != 0 then
          -- a request that leaves the engine with a dispatch error is neither counted nor answered
          { s with bad := s.bad <|> some s!"dispatch-error-on-concurrent-requests t={t} got={pctEnc out}" }
        else
        match throttlesOf s.dpols url m with
        | [(i, r)] =>
          -- only plain chains are generated for bursts (no setter / fixed response): per key the only sequential
          -- explanation of the counts is "passes, then rejections"
          if !(ch.all fun p => isTransparent p || (remedyOf p).isSome) then { s with dskip := true } else
          let p : PReq := ⟨r, hs, t⟩
          let rej : Answer := match stat.toInt? with | some c => .early c | none => .err "no-status"
          if !((np == 0 || answerOk p .noop) && (nb == 0 || answerOk p rej)) then
            { s with bad := s.bad <|> some s!"burst-answers-not-as-configured t={t} got={pctEnc out} want-status={effStatus r}" }
          else
            let mk (a : Answer) : List (Event PKey) := ((observe1P p a).map fun e =>
              ({ e with key := ⟨e.key.code, ⟨s!"{i}#{e.key.spec.remedy}", e.key.spec.group⟩⟩ } : Event PKey)).toList
            { s with dhist := (List.replicate nb (mk rej)).flatten ++ (List.replicate np (mk .noop)).flatten ++ s.dhist }
        | [] => if nb == 0 then s else { s with bad := s.bad <|> some s!"burst-without-throttling-remedy-rejected t={t}" }
        | _ => { s with dskip := true }
      | _, _, _, _ => { s with bad := s.bad <|> some ("unparsable-answer:" ++ pctEnc out) }
    | _, _, _, _ => s
  | "dreq" :: ws =>
    match kv ws "url", kv ws "method", kvNat ws "t", parseHdrs (kvAll ws "h") with
    | some u, some m, some t, some hs =>
      if !s.dloaded then s else
      let url := pctDec u
      let ths := throttlesOf s.dpols url m
      let ch := chain s.dpols url m
      -- remedies of the chain that may answer in the throttling remedy's place
      let fixedFires := ch.any (fun p => match p.kind with
        | .fixed _ => lookupHdr hs "early-response" == "true" | _ => false)
      -- what leaves the gateway: the headers it reports to have set on the forwarded request
      let outs : List (String × String) := match words out with
        | ["pass", o] => if o.startsWith "out=" then (parseOuts (o.drop 4).toString).getD [] else []
        | _ => []
      -- the throttling remedy groups by the request as the EARLIER remedies of the chain left it: for the headers
      -- they set, the value that actually leaves the gateway
      -- (a rejection does not show them: there the configuration's own value is taken — the judge keeps the
      --  account-orchestration round-robin position, which depends on the configuration and the request count only)
      let isThrottle (p : DPol) : Bool := (remedyOf p).isSome
      let computedBefore :=
        outsOf capUnits url m t (ch.takeWhile (fun p => !isThrottle p)) ⟨[], s.dAcctIdx⟩ hs []
      let (jst, _) := runChain capUnits url m t ch ⟨[], s.dAcctIdx⟩ hs .pass
      let s := { s with dAcctIdx := jst.acctIdx }
      let before := settersBefore ch
      let hs := hs ++ (computedBefore.filter (fun o => before.contains o.1)).map fun o =>
        match outs.find? (fun r => r.1 == o.1) with
        | some r => r
        | none => o
      let ans : Option DAns := match words out with
        | ["pass"] => some .pass
        | ["pass", o] => if o.startsWith "out=" && (parseOuts (o.drop 4).toString).isSome then some .pass else none
        | ["early", st, b] =>
          if b.startsWith "body=" then st.toInt?.map (fun c => DAns.early c (pctDec (b.drop 5).toString)) else none
        | _ => none
      match ths, ans with
      | _, none => { s with bad := s.bad <|> some s!"unparsable-answer:{pctEnc out}" }
      | [], some .pass => s
      | [], some _ =>
        if fixedFires then s
        else { s with bad := s.bad <|> some s!"request-without-throttling-remedy-not-passed t={t} got={pctEnc out}" }
      | [(i, r)], some a =>
        let p : PReq := ⟨r, hs, t⟩
        -- the throttling remedy's own verdict as far as it shows: a pass, or ITS rejection (status + body)
        let own : Option Answer := match a with
          | .pass => some .noop
          | .early st b => if b == tooMany && st == effStatus r then some (.early st) else none
          | .err => none
        match own with
        | some a' =>
          if !answerOk p a' then
            { s with bad := s.bad <|> some s!"rejection-not-as-configured t={t} got={pctEnc out} want-status={effStatus r}" }
          else match observe1P p a' with
            | some e =>
              -- per remedy AND endpoint as configured: the policy's position is part of the group identity
              let e' : Event PKey := { e with key := ⟨e.key.code, ⟨s!"{i}#{e.key.spec.remedy}", e.key.spec.group⟩⟩ }
              { s with dhist := e' :: s.dhist }
            | none => s
        | none =>
          -- another remedy of the chain answered (a fixed response): the throttling verdict of this request does
          -- not show; the case is then compared with the model only
          if fixedFires then { s with dskip := true }
          else { s with bad := s.bad <|> some s!"rejection-not-as-configured t={t} got={pctEnc out} want-status={effStatus r}" }
      | _, _ => { s with dskip := true }
    | _, _, _, _ => s
  | "remedy" :: ws =>
    match parseRemedy ws with
    | some (id, r) => { s with tbl := s.tbl.put id r }
    | none => s
  | "req" :: ws =>
    match kvNat ws "id", kvNat ws "t", parseHdrs (kvAll ws "h") with
    | some id, some t, some hs =>
      match s.tbl.get id with
      | none => s
      | some r0 =>
        let r := { r0 with identityHash := s.identity }
        match parseAnswer out with
        | none => { s with bad := s.bad <|> some ("unparsable-answer:" ++ pctEnc out) }
        | some a =>
          -- the very functions the theorems are about: `answerOk` (theorem `answers_as_configured`)
          -- and `observe1` (theorems `plugin_is_limiter_run`, `plugin_spec_holds_partial`)
          let p : PReq := ⟨r, hs, t⟩
          if !answerOk p a then
            { s with bad := s.bad <|> some s!"answer-not-as-configured t={t} got={pctEnc out} rejection-status={effStatus r}" }
          else match observe1P p a with
            | some e => { s with hist := e :: s.hist }
            | none => s   -- default behaviour / nil GroupBy / missing limiter id / zero window: no limiter event
    | _, _, _ => s
  | "burst" :: ws =>
    match kvNat ws "id", kvNat ws "t", parseHdrs (kvAll ws "h"), parseHdrs (kvAll ws "alt") with
    | some id, some t, some hs, some alts =>
      match s.tbl.get id with
      | none => s
      | some r0 =>
        let r := { r0 with identityHash := s.identity }
        let ows := words out
        let nums (k : String) : Option (List Nat) :=
          (kv ows k).bind fun v => (v.splitOn ",").mapM String.toNat?
        match kvNat ows "passed", kvNat ows "blocked", kvNat ows "other", kv ows "status" with
        | some np, some nb, some no, some stat =>
          -- concurrent requests at one instant: per key the only sequential explanation of the counts is
          -- "passes, then rejections" (a key's grid window never frees up within an instant)
          let rej : Answer := match stat.toInt? with | some c => .early c | none => .err "no-status"
          let groups : Option (List (PReq × Nat × Nat)) :=
            if alts.isEmpty then some [(⟨r, hs, t⟩, np, nb)]
            else match nums "pa", nums "ba" with
              | some pa, some ba =>
                if pa.length == alts.length && ba.length == alts.length then
                  some ((alts.zip (pa.zip ba)).map fun (a, p, b) => (⟨r, hs ++ [a], t⟩, p, b))
                else none
              | _, _ => none
          match groups with
          | none => { s with bad := s.bad <|> some ("unparsable-answer:" ++ pctEnc out) }
          | some gs =>
            let okAll := gs.all fun (p, gp, gb) =>
              (gp == 0 || answerOk p .noop) && (gb == 0 || answerOk p rej) &&
              (no == 0 || (observe1 p .noop).isNone)
            if !okAll then
              { s with bad := s.bad <|> some s!"burst-answers-not-as-configured t={t} got={pctEnc out} rejection-status={effStatus r}" }
            else
              let passes := gs.flatMap fun (p, gp, _) => (List.replicate gp (observe1P p .noop)).filterMap (fun x => x)
              let blocks := gs.flatMap fun (p, _, gb) => (List.replicate gb (observe1P p rej)).filterMap (fun x => x)
              { s with hist := blocks ++ passes ++ s.hist }   -- most recent first: rejections are the latest
        | _, _, _, _ => { s with bad := s.bad <|> some ("unparsable-answer:" ++ pctEnc out) }
    | _, _, _, _ => s
  | _ => s

/-- first (oldest) offending event of a single-key history (most recent first) -/
def firstBad (cap : CapFn) : List (Event Key) → Option (Event Key × List (Event Key))
  | [] => none
  | e :: older =>
    match firstBad cap older with
    | some x => some x
    | none => if eventOk cap e older then none else some (e, older)

def dedupKeys : List Key → List Key → List Key
  | [], acc => acc.reverse
  | k :: ks, acc => if acc.contains k then dedupKeys ks acc else dedupKeys ks (k :: acc)

def judgeStep (s : JudgeSt) (op out : String) : JudgeSt :=
  { judgeStep1 s op out with started := true }

def judgeFinish (s : JudgeSt) : String :=
  match s.bad with
  | some b => s!"fail - {b}"
  | none =>
    let hP := s.hist.reverse ++ (if s.dskip then [] else s.dhist.reverse)
    -- groups as the allocation table distinguishes them (theorem `plugin_spec_holds_groups`)
    let h := hP.map (rekey (·.spec))
    if holds capExact h then "ok"
    else
      let keys := dedupKeys (h.map (·.key)) []
      let failing := keys.filter fun k => !holdsKeyRev capExact (keyHist k h)
      -- no finding of C09 is open: every failure is unexplained
      let pick := failing.head?
      let fid := "-"
      match pick with
      | none => s!"fail {fid} spec-violated"
      | some k =>
        match firstBad capExact (keyHist k h) with
        | none => s!"fail {fid} spec-violated group={fmtKey k}"
        | some (e, older) =>
          let n := passesInWin e.wd.W (e.t / e.wd.W) (regime e older)
          let c := capExact (e.wd.allowed + refSpill (e :: older)) e.wd.ratio
          let cf := capUnits (e.wd.allowed + refSpill (e :: older)) e.wd.ratio
          let v := if e.pass then "pass" else "block"
          s!"fail {fid} group={fmtKey k} t={e.t} window={e.t / e.wd.W} W={e.wd.W} passed-before={n} cap={c} impl-cap={cf} verdict={v}"

def main (args : List String) : IO Unit :=
  match args with
  | ["run"] => runLoop runStep {}
  | ["judge"] => judgeLoop ({} : JudgeSt) judgeStep judgeFinish
  | _ => IO.eprintln "usage: lvdriver_c09 run|judge"
