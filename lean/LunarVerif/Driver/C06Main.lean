import LunarVerif.Base.Proto
import LunarVerif.Spec.C06
/-! Driver for C06: `lvdriver_c06 run` (model answers) / `lvdriver_c06 judge` (Spec on impl answers).

Ops (see `harness/go/cmd/c06`):
  cfg size=<n> ttl=<s> max=<m> win=<s> t0=<ms> mode=mock|real|engine [anc=<max:win_s,...>]
      (anc: the ancestors of the attached quota in the quota tree, parent first, root last;
       mode=engine: the processor is reached through the real streams.Stream built from YAML - ops
       `arrive` → queued | blocked | pending (call in flight, not in the queue), `tick` → to=<ids|-> adm=<ids|->,
       `nudge ms=<n>` → ok (the clock moves by n < 100 ms, no timer fires; the next tick completes the 100 ms);
       further cfg keys read by the harness only: pre=1 (a request-rewriting processor before the Queue),
       qf=1 (the quota's own filter matches the traffic: its system flows exist), quota=fixed|concurrent)
  arrive id=<k> prio=<p|none>          → queued | blocked
  arrive-begin id=<k> prio=<p|none>    → at-gate | blocked     (slot reserved; held at `queue.after-slot-check`)
  arrive-end id=<k>                    → queued                (k = oldest at the gate)
  tick                                 → to=<ids|-> log=<events|->
  lock s=<struct> f=<field> fn=<fn>    → <mutexes held at every access>  (source-level fact)
  hold-remove                          → ok                    (gate `queue.before-remove` closed)
  flush-remove                         → ok n=<k>
  drain                                → drained to=<ids|-> | panic negative-waitgroup
  idle ms=<n>                          → to=<ids|->            (real time passes, mock time does not)
  tick-hold                            → to=<ids|-> log=<events|-> held=<id|->   (gate `queue.before-repush`)
  tick-release                         → to=<ids|-> log=<events|-> prompt=<1|->
                                         (only while held; loop first, then the watcher; prompt=1: the held request was
                                          past its TTL, the watcher had scanned meanwhile (idle ms >= TTL+100), and its
                                          verdict came within 500 ms of wall clock after the release - a TEST)
  arrive-tick id=<k> prio=<p|none>     → queued|blocked to=<ids|-> log=<events|->
                                         (a tick whose loop pass runs while the arriving request is inside queue.Enqueue)
  advance ms=<n>                       → ok                    (only while held: mock clock moves, no loop timer pending)
 level L1 (the shared queue alone; a case starting with `qnew`):
  qnew → ok | q-enq id=<k> prio=<p> → ok | q-deq → <id>|- | q-rm id=<k> → ok | q-size → <n>
  await bound=<ms>    (mode=real only) → blocked=<ids|-> within=1
 two Queue processors A and B on ONE shared state and ONE quota (a case starting with `cfg2`):
  cfg2 sizea=<n> ttla=<s> sizeb=<n> ttlb=<s> max=<m> win=<s> t0=<ms>   → ok
  arrive id=<k> prio=<p|none> proc=a|b → queued | blocked       (ids are global: 0,1,2,... in order of arrival)
  tick order=ab|ba                     → to=<ids|-> a=<events|-> b=<events|->
                                         (clock +100 ms; both watchers; then one pass of each loop in that order)
-/
open LunarVerif LunarVerif.Proto LunarVerif.C06

def joinOr (xs : List String) : String := if xs.isEmpty then "-" else ",".intercalate xs

def parsePrio (ws : List String) : Option Nat :=
  match kv ws "prio" with
  | some "none" => some 999      -- defaultPriorityWhenGroupFound
  | some p => p.toNat?.bind fun n => if n ≤ 20 || [100, 101, 150, 300, 500, 998].contains n then some n else none
  | none => none

def parseCfg (ws : List String) : Option (Cfg × Nat × Bool) := do
  let size ← kvInt ws "size"
  let ttl ← kvNat ws "ttl"
  let qmax ← kvInt ws "max"
  let win ← kvNat ws "win"
  let t0 ← kvNat ws "t0"
  let mode ← kv ws "mode"
  if mode != "mock" && mode != "real" && mode != "engine" then none
  if ttl == 0 || win == 0 then none
  let anc ← match kv ws "anc" with
    | none => some []
    | some a => (a.splitOn ",").mapM fun e =>
        match e.splitOn ":" with
        | [m, w] => do
          let m ← m.toInt?
          let w ← w.toNat?
          if w == 0 then none
          pure (m, w * 1000)
        | _ => none
  let conc ← match kv ws "quota" with
    | none => some false
    | some "fixed" => some false
    | some "concurrent" => some true
    | _ => none
  if conc && !anc.isEmpty then none
  pure (⟨size, ttl * 1000, qmax, win * 1000, anc, conc⟩, t0, mode == "real")

/-- The critical sections the model's atomic steps stand for: (struct, field, method) ↦ the mutexes
that must be held at every access (`x` exclusive, `r` shared, `-` none: `Request.Wait` reads the
result without the lock — that is how the code is, and what the model's `wake` step mirrors). -/
def lockTable : List (String × String × String × String) := [
  ("Request", "state", "StartProcessing", "inProcessMutex:x"),
  ("Request", "state", "StopProcessing", "inProcessMutex:x"),
  ("Request", "state", "SetProcessedSuccess", "inProcessMutex:x"),
  ("Request", "state", "SetProcessedTimeout", "inProcessMutex:x"),
  ("Request", "result", "SetProcessedSuccess", "inProcessMutex:x"),
  ("Request", "result", "SetProcessedTimeout", "inProcessMutex:x"),
  ("Request", "result", "Wait", "-"),
  ("RequestWatcher", "requests", "AddRequest", "requestsMapMutex:x"),
  ("RequestWatcher", "requests", "RemoveFromWatchList", "requestsMapMutex:x"),
  ("RequestWatcher", "requests", "GetRequest", "requestsMapMutex:r"),
  ("RequestWatcher", "requests", "StopAll", "requestsMapMutex:r"),
  ("RequestWatcher", "requestsExpireAt", "AddRequest", "expireMapMutex:x"),
  ("RequestWatcher", "requestsExpireAt", "RemoveFromWatchList", "expireMapMutex:x"),
  ("RequestWatcher", "requestsExpireAt", "notifyExpiredRequests", "expireMapMutex:r"),
  ("RequestWatcher", "requestsExpireAt", "recalculateNextExpireAt", "expireMapMutex:r"),
  ("memoryQueue", "queue", "Enqueue", "mutex:x"),
  ("memoryQueue", "queue", "DequeueIfValueRelevant", "mutex:x"),
  ("memoryQueue", "queue", "Remove", "mutex:x"),
  ("memoryQueue", "queue", "Size", "mutex:r")]

def lockAnswer (ws : List String) : String :=
  match kv ws "s", kv ws "f", kv ws "fn" with
  | some s, some f, some fn =>
    match lockTable.find? (fun t => t.1 == s && t.2.1 == f && t.2.2.1 == fn) with
    | some t => t.2.2.2
    | none => "bad-op"
  | _, _, _ => "bad-op"

structure RunSt where
  cfg : Cfg := ⟨0, 1000, 0, 1000, [], false⟩
  x : Sim := { s := St.init 0 }
  ready : Bool := false
  real : Bool := false
  drained : Bool := false
  dead : Bool := false
  held : Bool := false       -- the loop stands at the gate before a re-push
  scanned : Bool := false    -- while held: the watcher had real time for a scan since the clock last moved
  engine : Bool := false     -- mode=engine: only `arrive`, `nudge` and `tick`, answers without probe logs
  nudged : Nat := 0          -- mode=engine: ms the clock has moved since the last tick
  q : Option QSt := none     -- level L1: the shared queue alone
  duo : Option Duo := none   -- two processors on one quota
  cfgB : Cfg := ⟨0, 1000, 0, 1000, [], false⟩
  own : List (Bool × Nat) := []   -- global id ↦ (belongs to B, local id)

def RunSt.s (st : RunSt) : St := st.x.s
def RunSt.op (st : RunSt) (op : Op) : RunSt := { st with x := applyOp st.cfg st.x op }

/-- Events emitted since the trace had length `n0`, oldest first. -/
def newEvents (s : St) (n0 : Nat) : List Ev := (s.trace.take (s.trace.length - n0)).reverse

def fmtLogWith (g : Nat → Nat) (evs : List Ev) : String :=
  joinOr (evs.filterMap fun
    | .pop i => some s!"d:{g i}"
    | .qtry i true => some s!"i:{g i},a:{g i}:1"
    | .qtry i false => some s!"i:{g i},a:{g i}:0,x:{g i}"
    | .repush i _ => some s!"e:{g i}"
    | .done i true _ => some s!"v:{g i}"
    | _ => none)

def fmtLog (evs : List Ev) : String := fmtLogWith id evs

def timeouts (evs : List Ev) : List Nat :=
  evs.filterMap fun | .done i false _ => some i | _ => none

def fmtIds (ids : List Nat) : String := joinOr (ids.map toString)

def hasPanic (evs : List Ev) : Bool := evs.any fun | .panic => true | _ => false

/-- global id of the `k`-th request of a processor. -/
def globalOf (own : List (Bool × Nat)) (isB : Bool) (k : Nat) : Nat :=
  (own.findIdx? fun e => e.1 == isB && e.2 == k).getD 0

def parseCfg2 (ws : List String) : Option (Cfg × Cfg × Nat) := do
  let sa ← kvInt ws "sizea"
  let ta ← kvNat ws "ttla"
  let sb ← kvInt ws "sizeb"
  let tb ← kvNat ws "ttlb"
  let qmax ← kvInt ws "max"
  let win ← kvNat ws "win"
  let t0 ← kvNat ws "t0"
  if ta == 0 || tb == 0 || win == 0 then none
  pure (⟨sa, ta * 1000, qmax, win * 1000, [], false⟩, ⟨sb, tb * 1000, qmax, win * 1000, [], false⟩, t0)

def duoStep (cfgA cfgB : Cfg) (own : List (Bool × Nat)) (d : Duo) (op : String) (ws : List String) :
    Option (Duo × List (Bool × Nat) × String) :=
  match op with
  | "arrive" =>
    match kvNat ws "id", parsePrio ws, kv ws "proc" with
    | some id, some p, some pr =>
      if id != own.length || (pr != "a" && pr != "b") then none else
      if pr == "a" then
        let k := d.a.s.n
        let a' := applyOp cfgA d.a (.arrive p)
        some ({ d with a := a' }, own ++ [(false, k)], if (a'.s.reqs k).pc == .parked then "queued" else "blocked")
      else
        let k := d.b.s.n
        let b' := applyOp cfgB d.b (.arrive p)
        some ({ d with b := b' }, own ++ [(true, k)], if (b'.s.reqs k).pc == .parked then "queued" else "blocked")
    | _, _, _ => none
  | "tick" =>
    match kv ws "order" with
    | some ord =>
      if ord != "ab" && ord != "ba" then none else
      let na := d.a.s.trace.length
      let nb := d.b.s.trace.length
      let d1 := d.watch cfgA cfgB
      let toA := (timeouts (newEvents d1.a.s na)).map (globalOf own false)
      let toB := (timeouts (newEvents d1.b.s nb)).map (globalOf own true)
      let na1 := d1.a.s.trace.length
      let nb1 := d1.b.s.trace.length
      let d2 := if ord == "ab" then (d1.passA cfgA).passB cfgB else (d1.passB cfgB).passA cfgA
      let la := fmtLogWith (globalOf own false) (newEvents d2.a.s na1)
      let lb := fmtLogWith (globalOf own true) (newEvents d2.b.s nb1)
      let to := (toA ++ toB).toArray.qsort (· < ·) |>.toList
      some (d2, own, s!"to={fmtIds to} a={la} b={lb}")
    | none => none
  | _ => none


def runStep (st : RunSt) (line : String) : RunSt × String :=
  match words line with
  | ["case", id] => ({}, s!"case {id}")
  | "lock" :: ws => (st, lockAnswer ws)
  | "cfg2" :: ws =>
    if st.ready || st.q.isSome || st.duo.isSome then (st, "bad-op") else
    match parseCfg2 ws with
    | some (ca, cb, t0) =>
      ({ st with cfg := ca, cfgB := cb, duo := some { a := { s := St.init t0 }, b := { s := St.init t0 } } }, "ok")
    | none => (st, "bad-op")
  | ["qnew"] => if st.ready || st.q.isSome || st.duo.isSome then (st, "bad-op") else ({ st with q := some {} }, "ok")
  | "q-enq" :: ws =>
    match st.q, kvNat ws "id", kvNat ws "prio" with
    | some q, some id, some p => ({ st with q := some (q.enq id p) }, "ok")
    | _, _, _ => (st, "bad-op")
  | ["q-deq"] =>
    match st.q with
    | some q => let (q', r) := q.deq; ({ st with q := some q' }, match r with | some id => toString id | none => "-")
    | none => (st, "bad-op")
  | "q-rm" :: ws =>
    match st.q, kvNat ws "id" with
    | some q, some id => ({ st with q := some (q.rm id) }, "ok")
    | _, _ => (st, "bad-op")
  | ["q-size"] =>
    match st.q with
    | some q => (st, toString q.heap.length)
    | none => (st, "bad-op")
  | "cfg" :: ws =>
    if st.ready then (st, "bad-op") else
    match parseCfg ws with
    | some (cfg, t0, real) =>
      if st.q.isSome || st.duo.isSome then (st, "bad-op") else
    if real && cfg.qmax != 0 then (st, "bad-op")
      else ({ cfg := cfg, x := { s := St.init t0 }, ready := true, real := real,
              engine := kv ws "mode" == some "engine" }, "ok")
    | none => (st, "bad-op")
  | op :: ws =>
    if let some d := st.duo then
      match duoStep st.cfg st.cfgB st.own d op ws with
      | some (d', own', ans) => ({ st with duo := some d', own := own' }, ans)
      | none => (st, "bad-op")
    else
    if !st.ready then (st, "bad-op")
    else if st.dead then (st, "dead")
    else if st.drained then (st, "bad-op")
    else if st.engine && op != "arrive" && op != "tick" && op != "nudge" then (st, "bad-op")
    else if st.held && op != "arrive" && op != "tick-release" && op != "idle" && op != "advance" then (st, "bad-op")
    else
    let n0 := st.s.trace.length
    match op with
    | "arrive" =>
      match kvNat ws "id", parsePrio ws with
      | some id, some p =>
        if id != st.s.n then (st, "bad-op") else
        let st' := st.op (.arrive p)
        (st', if (st'.s.reqs id).pc == .parked then "queued" else "blocked")
      | _, _ => (st, "bad-op")
    | "arrive-tick" =>
      match kvNat ws "id", parsePrio ws with
      | some id, some p =>
        if id != st.s.n || st.real then (st, "bad-op") else
        let st' := st.op (.arriveTick p)
        let evs := newEvents st'.s n0
        let a := if evs.any (fun | .queued i _ _ => i == id | _ => false) then "queued" else "blocked"
        (st', s!"{a} to={fmtIds (timeouts evs)} log={fmtLog evs}")
      | _, _ => (st, "bad-op")
    | "arrive-begin" =>
      match kvNat ws "id", parsePrio ws with
      | some id, some p =>
        if id != st.s.n || st.real then (st, "bad-op") else
        let st' := st.op (.arriveBegin p)
        (st', if (st'.s.reqs id).pc == .checked then "at-gate" else "blocked")
      | _, _ => (st, "bad-op")
    | "arrive-end" =>
      match kvNat ws "id", st.x.gate with
      | some id, g :: _ =>
        if id != g then (st, "bad-op") else (st.op (.arriveEnd id), "queued")
      | _, _ => (st, "bad-op")
    | "tick" =>
      if st.real || !ws.isEmpty then (st, "bad-op") else
      let st' := if st.engine && st.nudged > 0 then { st.op (.tickAfter (100 - st.nudged)) with nudged := 0 }
                 else st.op .tick
      let evs := newEvents st'.s n0
      if st.engine then
        (st', s!"to={fmtIds (timeouts evs)} adm={fmtIds (evs.filterMap fun | .done i true _ => some i | _ => none)}")
      else
      (st', s!"to={fmtIds (timeouts evs)} log={fmtLog evs}")
    | "idle" =>
      match kvNat ws "ms" with
      | some _ =>
        if st.real then (st, "bad-op") else
        let st' := st.op .idle
        let ms := (kvNat ws "ms").getD 0
        ({ st' with scanned := st.scanned || (st.held && ms ≥ st.cfg.ttl + 100) },
         s!"to={fmtIds (timeouts (newEvents st'.s n0))}")
      | none => (st, "bad-op")
    | "tick-hold" =>
      if st.real || !ws.isEmpty then (st, "bad-op") else
      let st' := st.op .tickHold
      let evs := newEvents st'.s n0
      let (h, hs) := match st'.s.loop with | .refused i => (true, toString i) | _ => (false, "-")
      ({ st' with held := h, scanned := false }, s!"to={fmtIds (timeouts evs)} log={fmtLog evs} held={hs}")
    | "tick-release" =>
      if !st.held || !ws.isEmpty then (st, "bad-op") else
      let st' := st.op .tickRelease
      let evs := newEvents st'.s n0
      let late := match st.s.loop with
        | .refused i => decide ((st.s.reqs i).arrival + st.cfg.ttl < st.s.now)
        | _ => false
      let pr := if st.scanned && late then "1" else "-"
      ({ st' with held := false, scanned := false }, s!"to={fmtIds (timeouts evs)} log={fmtLog evs} prompt={pr}")
    | "advance" =>
      match kvNat ws "ms" with
      | some ms =>
        -- only the request the loop holds may run out of TTL by the jump
        let others := idsWhere st.s fun r =>
          r.pc == .parked && r.st == .enqueued && decide (r.arrival + st.cfg.ttl < st.s.now + ms)
        if !st.held || ms > 10000 || !others.isEmpty then (st, "bad-op")
        else ({ st.op (.advance ms) with scanned := false }, "ok")
      | none => (st, "bad-op")
    | "nudge" =>
      match kvNat ws "ms" with
      | some ms =>
        if !st.engine || ms == 0 || st.nudged + ms ≥ 100 then (st, "bad-op")
        else ({ st.op (.nudge ms) with nudged := st.nudged + ms }, "ok")
      | none => (st, "bad-op")
    | "hold-remove" =>
      if st.real then (st, "bad-op") else (st.op .holdRemove, "ok")
    | "flush-remove" =>
      if st.real then (st, "bad-op") else
      let k := (idsWhere st.s fun r => match r.pc with | .returned _ => true | _ => false).length
      (st.op .flushRemove, s!"ok n={k}")
    | "drain" =>
      if st.real then (st, "bad-op") else
      let st' := st.op .drain
      let evs := newEvents st'.s n0
      if hasPanic evs then ({ st' with dead := true }, "panic negative-waitgroup")
      else ({ st' with drained := true }, s!"drained to={fmtIds (timeouts evs)}")
    | "await" =>
      match kvNat ws "bound" with
      | some _ =>
        if !st.real then (st, "bad-op") else
        let st' := (List.replicate (st.cfg.ttl / 100 + 1) Op.tick).foldl RunSt.op st
        let evs := newEvents st'.s n0
        (st', s!"blocked={fmtIds (timeouts evs)} within=1")
      | none => (st, "bad-op")
    | _ => (st, "bad-op")
  | _ => (st, "bad-op")

/-! ### judge: rebuild the observable history from the implementation's answers -/

structure JudgeSt where
  cfg : Cfg := ⟨0, 1000, 0, 1000, [], false⟩
  now : Nat := 0
  real : Bool := false
  hold : Bool := false
  held : List Nat := []                 -- verdict delivered, removal held back
  pend : List (Nat × Nat × Nat) := []   -- at the gate: (id, prio, arrival)
  hist : List Ev := []                  -- most recent first
  late : Bool := false                  -- mode=real: a time-out missed its wall-clock bound
  stuck : Bool := false                 -- the harness gave up waiting for something (answer contains `stuck`)
  qh : List QEv := []                   -- level L1 history, most recent first
  isQ : Bool := false
  settled : Bool := true                -- the TTL watcher had its chance since the clock last moved
  isDuo : Bool := false                 -- two processors: `hist` is A's history, `histB` B's
  cfgB : Cfg := ⟨0, 1000, 0, 1000, [], false⟩
  histB : List Ev := []
  ownB : List Nat := []                 -- global ids of B's requests
  side : Bool := false                  -- events are currently recorded on B's side
  engine : Bool := false
  nudged : Nat := 0
  bad : Option String := none

def JudgeSt.push (s : JudgeSt) (es : List Ev) : JudgeSt :=
  if s.side then { s with histB := es.reverse ++ s.histB } else { s with hist := es.reverse ++ s.hist }

def parseIds (w : String) : Option (List Nat) :=
  if w == "-" then some [] else ((w.splitOn ",").filter fun t => !t.startsWith "stuck").mapM String.toNat?

/-- A verdict observed for `i`: the `done` event and — unless removals are held — the slot release. -/
def JudgeSt.verdict (s : JudgeSt) (i : Nat) (ok : Bool) : JudgeSt :=
  if s.isDuo then
    let side0 := s.side
    { ({ s with side := s.ownB.contains i }).push [.done i ok s.now, .unwatched i] with side := side0 }
  else
  if s.hold then { s.push [.done i ok s.now] with held := s.held ++ [i] }
  else s.push [.done i ok s.now, .unwatched i]

def parseLogItem (s : JudgeSt) (w : String) : Option JudgeSt :=
  match w.splitOn ":" with
  | ["d", i] => i.toNat?.map fun i => s.push [.pop i]
  | ["i", _] => some s
  | ["x", _] => some s
  | ["a", i, "1"] => i.toNat?.map fun i => s.push [.qtry i true]
  | ["a", i, "0"] => i.toNat?.map fun i => s.push [.qtry i false]
  | ["e", i] => i.toNat?.map fun i => s.push [.repush i s.now]
  | ["stuck"] => some { s with stuck := true }
  | ["stuck-removal"] => some { s with stuck := true }
  | ["v", i] => i.toNat?.map fun i => s.verdict i true
  | _ => none

def judgeStep (s : JudgeSt) (op out : String) : JudgeSt :=
  if s.bad.isSome then s else
  let fail (m : String) : JudgeSt := { s with bad := some (m ++ ":" ++ pctEnc op ++ ":" ++ pctEnc out) }
  let s := if (out.splitOn "stuck").length > 1 then { s with stuck := true } else s
  let ows := words out
  if ows.head? == some "panic" && (words op).head? != some "drain" then s.push [.panic] else
  match words op with
  | "cfg" :: ws =>
    match parseCfg ws with
    | some (cfg, t0, real) => { s with cfg := cfg, now := t0, real := real, engine := kv ws "mode" == some "engine" }
    | none => s
  | "nudge" :: ws =>
    match kvNat ws "ms" with
    | some ms => if out == "ok" then { s with now := s.now + ms, nudged := s.nudged + ms } else s
    | none => s
  | "cfg2" :: ws =>
    match parseCfg2 ws with
    | some (ca, cb, t0) => { s with cfg := ca, cfgB := cb, now := t0, isDuo := true }
    | none => s
  | "arrive" :: ws =>
    if s.isDuo then
      match kvNat ws "id", parsePrio ws, kv ws "proc", out with
      | some i, some p, some pr, "queued" =>
        { ({ s with side := pr == "b", ownB := if pr == "b" then i :: s.ownB else s.ownB }).push
            [.checked i, .queued i p s.now] with side := false }
      | some i, some _, some pr, "blocked" =>
        { ({ s with side := pr == "b" }).push [.rejected i s.now] with side := false }
      | _, _, _, "bad-op" => s
      | _, _, _, _ => fail "unparsable"
    else
    match kvNat ws "id", parsePrio ws, out with
    | some i, some p, "queued" => s.push [.checked i, .queued i p s.now]
    | some i, some p, "pending" =>
      -- the call is in flight but has not reached the queue: for the property it waits since now
      s.push [.checked i, .queued i p s.now]
    | some i, some _, "blocked" => s.push [.rejected i s.now]
    | _, _, "bad-op" => s
    | _, _, _ => fail "unparsable"
  | "arrive-tick" :: ws =>
    match kvNat ws "id", parsePrio ws, kv ows "to" >>= parseIds, kv ows "log" with
    | some i, some p, some ids, some lg =>
      let s1 := { s with now := s.now + 100 }
      let s2 := ids.foldl (fun s i => s.verdict i false) s1
      let s3 := if ows.head? == some "queued" then s2.push [.checked i, .queued i p s2.now]
                else if ows.head? == some "blocked" then s2.push [.rejected i s2.now] else s2
      if lg == "-" then s3 else
      match (lg.splitOn ",").foldlM parseLogItem s3 with
      | some s4 => s4
      | none => fail "unparsable"
    | _, _, _, _ => if out == "bad-op" || out == "dead" then s else fail "unparsable"
  | "arrive-begin" :: ws =>
    match kvNat ws "id", parsePrio ws, out with
    | some i, some p, "at-gate" => { s.push [.checked i] with pend := s.pend ++ [(i, p, s.now)] }
    | some i, some _, "blocked" => s.push [.rejected i s.now]
    | _, _, "bad-op" => s
    | _, _, _ => fail "unparsable"
  | "arrive-end" :: ws =>
    match kvNat ws "id", out with
    | some i, "queued" =>
      match s.pend.find? (·.1 == i) with
      | some (_, p, a) => { s.push [.queued i p a] with pend := s.pend.filter (·.1 != i) }
      | none => fail "not-at-gate"
    | _, "bad-op" => s
    | _, _ => fail "unparsable"
  | "advance" :: ws =>
    match kvNat ws "ms" with
    | some ms => if out == "ok" then { s with now := s.now + ms, settled := false } else s
    | none => s
  | ["qnew"] => { s with isQ := true }
  | "q-enq" :: ws =>
    match kvNat ws "id", kvNat ws "prio" with
    | some id, some p => if out == "ok" then { s with qh := .enq id p :: s.qh } else s
    | _, _ => s
  | "q-rm" :: ws =>
    match kvNat ws "id" with
    | some id => if out == "ok" then { s with qh := .rm id :: s.qh } else s
    | none => s
  | ["q-deq"] =>
    if out == "-" then { s with qh := .deq none :: s.qh }
    else match out.toNat? with
      | some id => { s with qh := .deq (some id) :: s.qh }
      | none => if out == "bad-op" then s else fail "unparsable"
  | ["q-size"] =>
    match out.toNat? with
    | some n => { s with qh := .size n :: s.qh }
    | none => if out == "bad-op" then s else fail "unparsable"
  | ["tick-release"] =>
    match kv ows "to" >>= parseIds, kv ows "log" with
    | some ids, some lg =>
      let s := { s with settled := true, late := s.late || kv ows "prompt" == some "0" }
      let s2 := if lg == "-" then some s else (lg.splitOn ",").foldlM parseLogItem s
      match s2 with
      | some s3 => ids.foldl (fun s i => s.verdict i false) s3
      | none => fail "unparsable"
    | _, _ => if out == "bad-op" || out == "dead" then s else fail "unparsable"
  | ["tick", ord] =>
    match kv ows "to" >>= parseIds, kv ows "a", kv ows "b" with
    | some ids, some la, some lb =>
      let s1 := { s with now := s.now + 100 }
      let s2 := ids.foldl (fun s i => s.verdict i false) s1
      let runLog (s : JudgeSt) (side : Bool) (lg : String) : Option JudgeSt :=
        if lg == "-" then some s else
        ((lg.splitOn ",").foldlM parseLogItem { s with side := side }).map fun s => { s with side := false }
      let passes := if ord == "order=ba" then [(true, lb), (false, la)] else [(false, la), (true, lb)]
      match passes.foldlM (fun s p => runLog s p.1 p.2) s2 with
      | some s3 => s3
      | none => fail "unparsable"
    | _, _, _ => if out == "bad-op" || out == "dead" then s else fail "unparsable"
  | [tk] =>
    if tk != "tick" && tk != "tick-hold" then
      (if tk == "hold-remove" then (if out == "ok" then { s with hold := true } else s)
       else if tk == "flush-remove" then
         (if out.startsWith "ok" then { s.push (s.held.map .unwatched) with hold := false, held := [] } else s)
       else if tk == "drain" then
         (match ows with
          | ["panic", _] => s.push [.drain, .panic]
          | ["drained", w] =>
            match kv [w] "to" >>= parseIds with
            | some ids => ids.foldl (fun s i => s.verdict i false) (s.push [.drain])
            | none => fail "unparsable"
          | _ => if out == "bad-op" || out == "dead" then s else fail "unparsable")
       else s)
    else
    match kv ows "to", (kv ows "log").orElse (fun _ => (kv ows "adm").map fun a =>
        if a == "-" then "-" else ",".intercalate ((a.splitOn ",").map fun i => s!"a:{i}:1,v:{i}")) with
    | some to, some lg =>
      let s1 := { s with now := s.now + 100 - s.nudged, nudged := 0 }
      match parseIds to with
      | none => fail "unparsable"
      | some ids =>
        let s2 := ids.foldl (fun s i => s.verdict i false) s1
        -- mode=engine, plain configuration: what the pass admits must be what the attached quota (as the
        -- admissions so far determine it) and the priorities demand
        let s2 :=
          if s.engine && s.cfg.anc.isEmpty then
            let want := expectedAdmissions s.cfg ((waiting s2.hist).length + 1) s2.hist s2.now
            let got := ((kv ows "adm").bind parseIds).getD []
            if want != got then
              { s2 with bad := some s!"admissions-at-tick-{s2.now}-are-{fmtIds got}-but-quota-and-priorities-demand-{fmtIds want}" }
            else s2
          else s2
        if s2.bad.isSome then s2 else
        if lg == "-" then s2 else
        match (lg.splitOn ",").foldlM parseLogItem s2 with
        | some s3 => s3
        | none => fail "unparsable"
    | _, _ => if out == "bad-op" || out == "dead" then s else fail "unparsable"
  | "idle" :: _ =>
    match kv ows "to" >>= parseIds with
    | some ids => ids.foldl (fun s i => s.verdict i false) s
    | none => if out == "bad-op" || out == "dead" then s else fail "unparsable"
  | "await" :: _ =>
    match kv ows "blocked" >>= parseIds, kv ows "within" with
    | some ids, some w =>
      -- wall-clock run: instants are not part of the answer; place the verdicts at TTL + slack
      let s1 := { s with now := s.now + s.cfg.ttl + slack, late := s.late || w != "1" }
      ids.foldl (fun s i => s.verdict i false) s1
    | _, _ => if out == "bad-op" then s else fail "unparsable"
  | _ => s

def firstBad (cfg : Cfg) (h : List Ev) : String :=
  let checks : List (String × (List Ev → Ev → Bool)) :=
    [("one-verdict", verdictOk), ("quota", quotaOk), ("priority", prioOk cfg), ("ttl-early", ttlLowerOk cfg),
     ("ttl-late", ttlUpperOk cfg), ("fifo", fifoOk cfg), ("bound", boundOk cfg), ("no-panic", noPanic),
     ("quota-rate", rateOk cfg)]
  let rec go (older : List Ev) : List Ev → Option String
    | [] => none
    | e :: rest =>
      match checks.find? (fun c => !c.2 older e) with
      | some c => some s!"{c.1}-violated-at-event-{older.length}"
      | none => go (e :: older) rest
  match go [] h with
  | some m => m
  | none => if !drainReleases h.reverse then "drain-left-waiters" else "spec-violated"

def judgeFinish (s : JudgeSt) : String :=
  match s.bad with
  | some b => s!"fail - {b}"
  | none =>
    let h := s.hist.reverse
    if s.isQ then (if qHolds s.qh.reverse then "ok" else "fail - shared-queue-dequeue-not-a-minimum")
    else if s.isDuo then
      let hb := s.histB.reverse
      if !holds s.cfg h then s!"fail - processor-A:{firstBad s.cfg h}"
      else if !holds s.cfgB hb then s!"fail - processor-B:{firstBad s.cfgB hb}"
      else if !endOk s.cfg s.hist s.now then "fail - processor-A:waiter-without-verdict-beyond-ttl-at-end"
      else if !endOk s.cfgB s.histB s.now then "fail - processor-B:waiter-without-verdict-beyond-ttl-at-end"
      else if s.stuck then "fail - harness-gave-up-waiting(stuck)"
      else "ok"
    else if s.late then "fail - ttl-wall-clock-bound-missed(verdict-not-within-the-wall-clock-bound)"
    else if !holds s.cfg h then s!"fail - {firstBad s.cfg h}"
    else if s.settled && !endOk s.cfg s.hist s.now then "fail - waiter-without-verdict-beyond-ttl-at-end"
    else if s.stuck then "fail - harness-gave-up-waiting(stuck)"
    else "ok"

def main (args : List String) : IO Unit :=
  match args with
  | ["run"] => runLoop runStep {}
  | ["judge"] => judgeLoop ({} : JudgeSt) judgeStep judgeFinish
  | _ => IO.eprintln "usage: lvdriver_c06 run|judge"
