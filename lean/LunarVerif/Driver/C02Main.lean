import LunarVerif.Base.Proto
import LunarVerif.Spec.C02
import LunarVerif.Model.C02Mixed
/-! Driver for C02: `lvdriver_c02 run` (model outputs) / `lvdriver_c02 judge` (Spec on impl outputs). -/
open LunarVerif LunarVerif.Proto LunarVerif.C02

/-- `<sec>` configured, `-` left out (the default applies) -/
def parseSec (w : String) : Option (Option Nat) :=
  if w == "-" then some none else
  match w.toNat? with
  | some 0 => none
  | some n => some (some n)
  | none => none

def parseParent (n : Nat) (par : String) : Option (Option Nat) :=
  if par == "-" then some none else
  match par.toNat? with
  | some pi => if pi < n then some (some pi) else none
  | none => none

def parseQuota (n : Nat) (w : String) : Option QCfg :=
  match w.splitOn "," with
  | ["f"] => some ⟨.fixed, 0, 0, none, .any⟩
  | ["g"] => some ⟨.fixed, 0, 0, none, .any⟩     -- fixed window with `group_by_header` (see `groupedOf`)
  | ["g", par] => do
    let p ← parseParent n par
    if p.isNone then none
    pure ⟨.fixed, 0, 0, p, .any⟩
  | ["f", par] => do
    let p ← parseParent n par
    if p.isNone then none
    pure ⟨.fixed, 0, 0, p, .any⟩
  | ["c", mx, ex, par] => do
    let mx ← mx.toNat?
    let ex ← parseSec ex
    let p ← parseParent n par
    pure (QCfg.ofConfig mx ex p)
  | _ => none

def parseFlt (w : Option String) : Option Flt :=
  match w with
  | none => some .any
  | some "mG" => some .mGet
  | some "mP" => some .mPost
  | some "py" => some .pathY
  | some "h" => some .hdr
  | some _ => none

partial def parseQuotas (ws : List String) (acc : Array QCfg) : Option (List QCfg) :=
  match kv ws s!"q{acc.size}" with
  | none => some acc.toList
  | some w => match parseQuota acc.size w, parseFlt (kv ws s!"f{acc.size}") with
    | some q, some f => parseQuotas ws (acc.push { q with flt := f })
    | _, _ => none

def parseOrder (w : String) (n : Nat) : Option (List Nat) :=
  let parts := w.splitOn ","
  let ids := parts.filterMap String.toNat?
  if ids.length == parts.length && ids.all (· < n) && decide ids.Nodup then some ids else none

/-- `q<i>=g[,<parent>]`: the fixed-window quota is grouped by the request header `x-c02` -/
def groupedOf (ws : List String) (q : Nat) : Bool :=
  match kv ws s!"q{q}" with
  | some w => w.startsWith "g"
  | none => false

def parseCfg (ws : List String) : Option Cfg := do
  let t0 ← kvNat ws "t0"
  let gc ← (kv ws "gc").bind parseSec
  let early ← kvNat ws "early"
  let qs ← parseQuotas ws #[]
  let order ← (kv ws "order").bind (parseOrder · qs.length)
  if qs.isEmpty then none
  -- `mod=<k>`: a processor that only rewrites the request (TransformAPICall → ModifyRequestAction) after the first `k`
  -- limiters of the admitted path.  It is not an answer: the transaction goes on to the provider, no quota is touched —
  -- the model has nothing to do for it, whatever its position.
  match kv ws "mod" with
  | some m => match m.toNat? with
    | some k => if k > order.length then none
    | none => none
  | none => pure ()
  let cfg : Cfg := ⟨qs, order, early != 0, t0, gcInterval (gc.getD 0)⟩
  -- `wf` configurations are the theorems' scope; mixed trees run on the extension model only
  if cfg.wf || Mixed.okCfg cfg then pure cfg else none

def fmtMembers (cfg : Cfg) (mem : Nat → List Member) : String :=
  let per := (List.range cfg.quotas.length).map fun q =>
    if cfg.isConc q then
      match mem q with
      | [] => "_"
      | ms => ",".intercalate (ms.map fun m => s!"{m.expiry}:{m.req}")
    else "-"
  let cnt := (List.range cfg.quotas.length).map fun q =>
    if cfg.isConc q then toString (mem q).length else "-"
  s!"c={",".intercalate cnt} m={";".intercalate per}"

def fmtVerdict : Verdict → String
  | .admitted => "v=a" | .refused => "v=r" | .early => "v=e" | .none => "ok"

/-- optional `p=<x|y>` (default x) and `h=<0|1>` (default 0) -/
def parseTx (rest : List String) (m : String) : Option Tx := do
  let post ← if m == "G" then some false else if m == "P" then some true else none
  let py ← match kv rest "p" with | none => some false | some "x" => some false | some "y" => some true | some _ => none
  let h ← match kv rest "h" with | none => some false | some "0" => some false | some "1" => some true | some _ => none
  pure ⟨post, py, h⟩

/-- optional `s=<n|e>`: the transaction's sequence id (the first attempt's id for a retried attempt, `e` = none sent).
    Quotas, `reqIDToQuota`, `OnRequestDrop`, `OnResponseFinish` and `OnError` all work with the transaction id: the
    sequence id has no part in the model. -/
def seqOk (rest : List String) : Option Unit :=
  match kv rest "s" with
  | none => some ()
  | some "e" => some ()
  | some n => n.toNat?.map fun _ => ()

def parseEvent (ws : List String) : Option Event :=
  match ws with
  | "req" :: rest => do
    let r ← kvNat rest "r"
    seqOk rest
    let m ← kv rest "m"
    let tx ← parseTx rest m
    pure (.req r tx)
  | "resp" :: rest => do
    let r ← kvNat rest "r"
    seqOk rest
    let tx ← parseTx rest ((kv rest "m").getD "G")
    pure (.resp r tx)
  | "err" :: rest => (kvNat rest "r").map .err
  | "adv" :: rest => (kvNat rest "d").map .adv
  | _ => none

structure RunSt where
  cfg : Option Cfg := none
  s : S := S.init ⟨[], [], false, 0, 1⟩            -- proved model (used when `cfg.wf`)
  x : Mixed.MS := Mixed.MS.init ⟨[], [], false, 0, 1⟩  -- extension model (always run)

def runStep (st : RunSt) (line : String) : RunSt × String :=
  match words line with
  | ["case", id] => ({}, s!"case {id}")
  | "stress-incdec" :: ws =>
    -- search-only stress cases: the model statements behind them are the all-schedules theorems (never panics;
    -- never more than `max` in flight; every serial order of arrivals at max-1 admits exactly one; all ended ⇒ empty)
    match kvNat ws "decs", kvNat ws "ms" with
    | some d, some ms => if 1 ≤ d && d ≤ 16 && 1 ≤ ms && ms ≤ 5000 then (st, "ok") else (st, "bad-op")
    | _, _ => (st, "bad-op")
  | "stress-arrive" :: ws =>
    match kvNat ws "max", kvNat ws "workers", kvNat ws "rounds" with
    | some m, some w, some r =>
      if 1 ≤ m && m ≤ 16 && 2 ≤ w && w ≤ 64 && 1 ≤ r && r ≤ 100000 then (st, "ok") else (st, "bad-op")
    | _, _, _ => (st, "bad-op")
  | "stress-firstuse" :: ws =>
    -- simultaneous arrivals at a fresh quota (its set does not exist yet): `members_le_max_all_schedules` — the set add
    -- (including the lazy creation of the set) is ONE critical section
    match kvNat ws "max", kvNat ws "workers", kvNat ws "rounds", kvNat ws "slow" with
    | some m, some w, some r, some sl =>
      if 1 ≤ m && m ≤ 16 && 2 ≤ w && w ≤ 64 && 1 ≤ r && r ≤ 100000 && sl ≤ 1 then (st, "ok") else (st, "bad-op")
    | _, _, _, _ => (st, "bad-op")
  | "stress-errorreport" :: ws =>
    -- the proxy's failure report through the real admin route, also while a configuration update is being handled:
    -- `released_on_proxy_error`
    match kvNat ws "max" with
    | some m => if 1 ≤ m && m ≤ 16 then (st, "ok") else (st, "bad-op")
    | none => (st, "bad-op")
  | "stress-queue" :: ws =>
    -- a Queue processor in front of the quota (no model of the queue here): with nothing in flight every set is empty
    -- (`admitted_holds_slot` / `quiescent_sets_empty`: only transactions in flight hold slots) and newcomers get through
    match kvNat ws "max", kvNat ws "waiters", kvNat ws "ttl" with
    | some m, some w, some t =>
      if 1 ≤ m && m ≤ 8 && 1 ≤ w && w ≤ 16 && 1 ≤ t && t ≤ 10 then (st, "ok") else (st, "bad-op")
    | _, _, _ => (st, "bad-op")
  | "stress-realclock" :: ws =>
    -- a full engine on the production clock; the statements behind it: `gc_removes_only_expired` (a collector pass leaves
    -- every member whose expiry has not passed) and `released_by_gc_after_expiry`
    match kvNat ws "max", kvNat ws "exp", kvNat ws "gc" with
    | some m, some e, some g =>
      if 1 ≤ m && m ≤ 16 && 1 ≤ e && e ≤ 10 && 1 ≤ g && g ≤ 10 then (st, "ok") else (st, "bad-op")
    | _, _, _ => (st, "bad-op")
  | "stress-churn" :: ws =>
    match kvNat ws "max", kvNat ws "workers", kvNat ws "txns" with
    | some m, some w, some r =>
      if 1 ≤ m && m ≤ 16 && 2 ≤ w && w ≤ 64 && 1 ≤ r && r ≤ 100000 then (st, "ok") else (st, "bad-op")
    | _, _, _ => (st, "bad-op")
  | "cfg" :: ws =>
    match st.cfg, parseCfg ws with
    | none, some cfg => ({ cfg := some cfg, s := S.init cfg, x := Mixed.MS.init cfg (groupedOf ws) }, "ok")
    | _, _ => (st, "bad-op")
  | "reload" :: ws =>
    -- the whole configuration again (the same or a changed one): a new engine, started at the current instant
    match st.cfg, (if (kv ws "t0").isSome then none else parseCfg (s!"t0={st.x.s.now}" :: ws)) with
    | some _, some cfg => ({ cfg := some cfg, s := S.init cfg, x := Mixed.MS.init cfg (groupedOf ws) }, "ok")
    | _, _ => (st, "bad-op")
  | ws =>
    match st.cfg, parseEvent ws with
    | some cfg, some e =>
      let px := Mixed.event cfg st.x e
      let ansX := s!"{fmtVerdict px.2} {fmtMembers cfg px.1.s.members}"
      if cfg.wf then
        let p := event cfg st.s e
        let ans := s!"{fmtVerdict p.2} {fmtMembers cfg p.1.members}"
        -- the proved model answers; the extension model must agree with it on `wf` configurations
        ({ st with s := p.1, x := px.1 }, if ans == ansX then ans else s!"internal-mismatch proved:{pctEnc ans} mixed:{pctEnc ansX}")
      else ({ st with x := px.1 }, ansX)
    | _, _ => (st, "bad-op")

/-! ### judge -/

def parseMemberList (w : String) : Option (List Member) :=
  if w == "_" || w == "-" then some [] else
  (w.splitOn ",").mapM fun x =>
    match x.splitOn ":" with
    | [e, r] => do pure ⟨← e.toNat?, ← r.toNat?⟩
    | _ => none

def parseSnap (cfg : Cfg) (ows : List String) : Option (Nat → List Member) := do
  let m ← kv ows "m"
  let c ← kv ows "c"
  let lists ← (m.splitOn ";").mapM parseMemberList
  let cnts := c.splitOn ","
  if lists.length != cfg.quotas.length || cnts.length != cfg.quotas.length then none
  -- the count reported by GetQuotaGroupsCounters must be the size of the set
  let okc := (List.range cfg.quotas.length).all fun q =>
    if cfg.isConc q then cnts[q]? == some (toString (lists.getD q []).length) else cnts[q]? == some "-"
  if !okc then none
  pure fun q => lists.getD q []

def parseVerdict (ows : List String) : Option Verdict :=
  match ows.head? with
  | some "v=a" => some .admitted
  | some "v=r" => some .refused
  | some "v=e" => some .early
  | some "ok" => some .none
  | _ => none

structure JudgeSt where
  cfg : Option Cfg := none
  tr : Tracker := ⟨0, 0, fun _ => []⟩
  verdict : Option String := none   -- set at the first failing event

/-- Lines the implementation rejected as malformed (`bad-op`) are not part of the observable history. -/
def judgeStep (s : JudgeSt) (op out : String) : JudgeSt :=
  if s.verdict.isSome || out == "bad-op" then s else
  match words op with
  | "stress-incdec" :: _ =>
    if out == "ok" then s else { s with verdict := some ("fail - concurrent-Inc-Dec-of-one-request-id:" ++ pctEnc out) }
  | "stress-arrive" :: _ =>
    if out == "ok" then s else { s with verdict := some ("fail - simultaneous-arrivals-exceed-max:" ++ pctEnc out) }
  | "stress-firstuse" :: _ =>
    if out == "ok" then s else { s with verdict := some ("fail - simultaneous-first-arrivals-at-a-fresh-quota-exceed-max:" ++ pctEnc out) }
  | "stress-errorreport" :: _ =>
    if out == "ok" then s else { s with verdict := some ("fail - proxy-error-report-through-the-admin-route-did-not-release-the-slot:" ++ pctEnc out) }
  | "stress-queue" :: _ =>
    if out == "ok" then s else { s with verdict := some ("fail - queue-in-front-of-the-quota-slot-held-with-nothing-in-flight-or-starved:" ++ pctEnc out) }
  | "stress-realclock" :: _ =>
    if out == "ok" then s else { s with verdict := some ("fail - production-clock-collector-freed-a-live-slot-or-kept-an-expired-one:" ++ pctEnc out) }
  | "stress-churn" :: _ =>
    if out == "ok" then s else { s with verdict := some ("fail - churn-bound-or-release-broken:" ++ pctEnc out) }
  | "cfg" :: ws =>
    match s.cfg, parseCfg ws with
    | none, some cfg =>
      if out == "ok" then { s with cfg := some cfg, tr := Tracker.init cfg }
      else { s with verdict := some ("fail - engine-did-not-start:" ++ pctEnc out) }
    | _, _ => { s with verdict := some ("fail - implementation-accepted-a-malformed-cfg:" ++ pctEnc out) }
  | "reload" :: ws =>
    match s.cfg, (if (kv ws "t0").isSome then none else parseCfg (s!"t0={s.tr.now}" :: ws)) with
    | some _, some cfg =>
      -- the Spec is evaluated per load: from the reload on, on the new configuration started at the reload instant
      if out == "ok" then { s with cfg := some cfg, tr := Tracker.init cfg }
      else { s with verdict := some ("fail - engine-did-not-reload:" ++ pctEnc out) }
    | _, _ => { s with verdict := some ("fail - implementation-accepted-a-malformed-reload:" ++ pctEnc out) }
  | ws =>
    match s.cfg, parseEvent ws with
    | some cfg, some e =>
      let ows := words out
      match parseVerdict ows, parseSnap cfg ows with
      | some v, some snap =>
        let o : Obs := ⟨e, v, snap⟩
        if stepOk cfg s.tr o then { s with tr := s.tr.next cfg o }
        else
          { s with verdict := some s!"fail - {stepWhy cfg s.tr o} at {pctEnc op} => {pctEnc out}" }
      | _, _ => { s with verdict := some ("fail - unparsable-output:" ++ pctEnc out) }
    | _, _ => { s with verdict := some ("fail - implementation-accepted-a-malformed-op:" ++ pctEnc op) }

def judgeFinish (s : JudgeSt) : String := s.verdict.getD "ok"

def main (args : List String) : IO Unit :=
  match args with
  | ["run"] => runLoop runStep {}
  | ["judge"] => judgeLoop ({} : JudgeSt) judgeStep judgeFinish
  | _ => IO.eprintln "usage: lvdriver_c02 run|judge"
