import LunarVerif.Model.C09
/-
Dispatcher level of policy-mode throttling: the production path
  policies.yaml → config.ReadPoliciesConfig (decode + validation) → config.BuildPolicyData → services.Initialize
  → runner.DispatchOnRequest.
Core Lean only.  Mirrored:

  config/policies_reader.go  validateUniquePolicyNames: `lo.FindDuplicates(extractAllPolicyNames(cfg))` over the
      names of ALL policies (global and per endpoint, enabled or not) must be empty            ↦ `accepted`
  runner/plugin_dispatcher.go getRemedies: the enabled remedies of the endpoint whose (url, method) the request
      has, in configuration order, then the enabled global remedies                            ↦ `chain`
  runner/plugin_runner.go runOnRequest: EVERY remedy of the chain is run (no short-circuit), the actions are
      prioritised: the first non-NoOp (early response) wins                                    ↦ `dispatchStep`
  obtainModifiedEarlyResponse: an early response is run through the response side of the chain as a synthetic
      response marked `GatewayGenerated`; retry sees a COPY (the early response keeps its status and body) and the
      caching remedy does not store gateway-generated responses (fix F09g) — in this family (no provider responses)
      its store stays empty, so it never answers                                                ↦ caching is transparent
  request-side prioritisation (actions/request_action_prioritize.go): NoOp yields to anything, an early response
      beats everything that comes later, Modify/GenerateRequest yield to a later early response ↦ first early wins
  The rate-limit state is keyed by the remedy NAME (`LimiterID`), not by the endpoint.

Only literal URLs are used (URL-tree matching is C03/C13's subject), in spellings with leading / trailing dots and
slashes; one spelling per declared URL and case (declaring one URL in two spellings is not generated).
-/
namespace LunarVerif.C09

inductive DKind where
  | throttle (r : Remedy)     -- `r.name` is ignored: the policy's name is used
  | retry (attempts lo hi : Int)  -- response side only (its parameters do not matter for the verdict)
  | other                     -- basic authentication: changes the forwarded request (ModifyRequestAction: the
                              -- Authorization header), never the verdict
  | oauth                     -- o_auth authentication (GenerateRequestAction): rewrites the body and RE-SENDS every
                              -- header the request carries at that point; never the verdict
  | acct (hname : String) (vals : List String)   -- account_orchestration: round robin over accounts whose token
                              -- is the header `hname` with these values (ModifyRequestAction)
  | apikey (hname hval : String)                 -- api_key authentication: sets that header
  | fixed (status : Int)      -- fixed_response: answers when the request carries `early-response: true`
  | cache (maxrec : Nat)      -- caching (endpoint only): stores PROVIDER responses only (fix F09g); none exist here
deriving Repr

/-- One configured policy (remedy): where it is attached, its name, whether it is enabled, what it is. -/
structure DPol where
  ep      : Option (String × String)    -- `none` = global, `some (url, method)` = that endpoint
  name    : String
  enabled : Bool
  kind    : DKind
deriving Repr

/-- what leaves the dispatcher, as far as C09 is concerned -/
inductive DAns where
  | pass
  | early (status : Int) (body : String)
  | err
deriving DecidableEq, Repr

def tooMany : String := "Too many requests"
def goLunar : String := "{\"message\": \"GO Lunar\"}"

def toDAns : Answer → DAns
  | .noop => .pass
  | .early s => .early s tooMany
  | _ => .err

/-- the state the verdicts depend on: the rate-limit state (the caching plugin's store holds provider responses
    only, and this family has none) -/
structure DState where
  lim     : State Key := []
  acctIdx : Nat := 0      -- `AccountOrchestrationPlugin.accountID`: ONE round-robin counter for all its remedies
deriving Repr

/-- `lo.FindDuplicates` of the policy names is non-empty. -/
def hasDuplicateNames (ps : List DPol) : Bool :=
  let ns := ps.map (·.name)
  ns.any fun n => decide (1 < ns.count n)

/-- the configuration passes `validateUniquePolicyNames` -/
def accepted (ps : List DPol) : Bool := !hasDuplicateNames ps

/-- the throttling remedy of a policy, under its configured name, with the production wiring -/
def remedyOf (p : DPol) : Option Remedy :=
  match p.kind with
  | .throttle r => some { r with name := p.name, identityHash := true }
  | _ => none

def isCache (p : DPol) : Bool := match p.kind with | .cache _ => true | _ => false

/-- kinds that can never answer a request themselves -/
def isTransparent (p : DPol) : Bool :=
  match p.kind with
  | .retry _ _ _ | .other | .oauth | .cache _ => true
  | _ => false

/-- `strings.Trim(url, "./")`: how both `BuildEndpointPolicyTree` (the key under which the methods of one URL
    are collected) and the URL tree (`splitURL`) normalise a declared or requested URL. -/
def trimURL (s : String) : String :=
  let dotSlash (c : Char) : Bool := c == '.' || c == '/'
  String.ofList ((s.toList.dropWhile dotSlash).reverse.dropWhile dotSlash).reverse

/-- An endpoint policy applies to the requests of its method whose URL is the declared one up to leading /
    trailing dots and slashes; every method declared for a URL keeps its own policies. -/
def applies (p : DPol) (url method : String) : Bool :=
  p.enabled && (match p.ep with
    | none => true
    | some (u, m) => trimURL u == trimURL url && m == method)

/-- `getRemedies`: endpoint remedies first, then global ones, each in configuration order. -/
def chain (ps : List DPol) (url method : String) : List DPol :=
  (ps.filter fun p => p.ep.isSome && applies p url method) ++
  (ps.filter fun p => p.ep.isNone && applies p url method)

/-- a header is on the request (Go map lookup `v, found := Headers[name]`) -/
def hasHdr (hs : List (String × String)) (name : String) : Bool := hs.any (fun p => p.1 == name)

/-- the request's headers as a Go map: one value per name, the last binding -/
def hdrMap (hs : List (String × String)) : List (String × String) :=
  (hs.map (·.1)).eraseDups.map fun n => (n, lookupHdr hs n)

/-- One remedy's `OnRequest` on the request as the chain sees it at this point (`hs`): new state, its answer, the
    header it puts on the request for the remedies after it, if any (`ModifyRequestAction.HeadersToSet` applied by
    `EnsureRequestIsUpdated`), and the headers its action reports as set on the forwarded request. -/
def stepPol (cap : CapFn) (url method : String) (hs : List (String × String)) (t : Nat)
    (p : DPol) (s : DState) : DState × DAns × Option (String × String) × List (String × String) :=
  match p.kind with
  | .throttle r =>
    let (lim', a) := pluginStep cap s.lim { r with name := p.name, identityHash := true } hs t
    ({ s with lim := lim' }, toDAns a, none, [])
  | .fixed status => (s, (if lookupHdr hs "early-response" == "true" then .early status goLunar else .pass), none, [])
  | .acct hname vals =>
    -- currentAccountID := accountID % n ; accountID = (accountID + 1) % n ; the token is set unless the request
    -- already carries exactly it
    let n := vals.length
    if n == 0 then (s, .err, none, []) else
    let v := vals.getD (s.acctIdx % n) ""
    let s' := { s with acctIdx := (s.acctIdx + 1) % n }
    if hasHdr hs hname && lookupHdr hs hname == v then (s', .pass, none, []) else (s', .pass, some (hname, v), [(hname, v)])
  | .apikey hname hval => (s, .pass, some (hname, hval), [(hname, hval)])
  | .oauth => (s, .pass, none, hdrMap hs)
  | .retry _ _ _ | .other | .cache _ => (s, .pass, none, [])

/-- `runOnRequest` over a chain, verdict side: EVERY remedy takes its step on the request as the earlier remedies left
    it (`action.EnsureRequestIsUpdated(&args)`: a header an earlier remedy set REPLACES the client's); the first answer
    that is not a pass wins. -/
def runChain (cap : CapFn) (url method : String) (t : Nat) :
    List DPol → DState → List (String × String) → DAns → DState × DAns
  | [], s, _, ans => (s, ans)
  | p :: ps, s, hs, ans =>
    let (s', a, set, _) := stepPol cap url method hs t p s
    let ans' := if ans == .pass then a else ans
    match set with
    | none => runChain cap url method t ps s' hs ans'
    | some nv => runChain cap url method t ps s' (hs ++ [nv]) ans'

/-- … header side: what the prioritised action reports as set on the forwarded request (`MergeHeaders`: for one name
    the later remedy's value). -/
def outsOf (cap : CapFn) (url method : String) (t : Nat) :
    List DPol → DState → List (String × String) → List (String × String) → List (String × String)
  | [], _, _, outs => outs
  | p :: ps, s, hs, outs =>
    let (s', _, set, rep) := stepPol cap url method hs t p s
    let outs' := outs.filter (fun q => !rep.any (fun r => r.1 == q.1)) ++ rep
    match set with
    | none => outsOf cap url method t ps s' hs outs'
    | some nv => outsOf cap url method t ps s' (hs ++ [nv]) outs'

/-- `runner.DispatchOnRequest` as far as the verdict, the rejection status and body, and the headers the gateway
    sets on a forwarded request are concerned. -/
def dispatchStep (cap : CapFn) (s : DState) (ps : List DPol) (url method : String)
    (hs : List (String × String)) (t : Nat) : DState × DAns × List (String × String) :=
  let ch := chain ps url method
  ((runChain cap url method t ch s hs .pass).1, (runChain cap url method t ch s hs .pass).2,
   outsOf cap url method t ch s hs [])

/-- header names set by the account-orchestration / api-key remedies listed BEFORE the first throttling remedy of a
    chain: the throttling remedy groups by the value THEY put on the request -/
def settersBefore : List DPol → List String
  | [] => []
  | p :: ps =>
    match p.kind with
    | .throttle _ => []
    | .acct hname _ => hname :: settersBefore ps
    | .apikey hname _ => hname :: settersBefore ps
    | _ => settersBefore ps

/-- the throttling policies of a request's chain, with their position in the configuration -/
def throttlesOf (ps : List DPol) (url method : String) : List (Nat × Remedy) :=
  let idx := (List.range ps.length).zip ps
  let pick (global : Bool) := idx.filterMap fun (i, p) =>
    if (p.ep.isNone == global) && applies p url method then (remedyOf p).map (fun r => (i, r)) else none
  pick false ++ pick true

end LunarVerif.C09
