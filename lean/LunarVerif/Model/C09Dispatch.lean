import LunarVerif.Model.C09
/-
Dispatcher level of policy-mode throttling: the production path
  policies.yaml → config.ReadPoliciesConfig (decode + validation) → config.BuildPolicyData → services.Initialize
  → runner.DispatchOnRequest.
Core Lean only.  Mirrored:

  config/policies_reader.go  validateUniquePolicyNames: `lo.FindDuplicates(extractAllPolicyNames(cfg))` over the
      names of ALL policies (global and per endpoint, enabled or not) must be empty            ↦ `accepted`
  runner/plugin_dispatcher.go getRemedies: the enabled remedies of the endpoint whose (url, method) the request
      has, in configuration order, then the enabled global remedies                            ↦ `chain`
  runner/plugin_runner.go runOnRequest: EVERY remedy of the chain is run (no short-circuit), the actions are
      prioritised: the first non-NoOp (early response) wins                                    ↦ `dispatchStep`
  obtainModifiedEarlyResponse: the response-phase remedies (retry) see a COPY of the synthetic response; the early
      response leaves with the status and body the throttling remedy gave it                   ↦ retry is transparent
  The rate-limit state is keyed by the remedy NAME (`LimiterID`), not by the endpoint.

Only literal URLs are used (URL-tree matching is C03/C13's subject).
-/
namespace LunarVerif.C09

inductive DKind where
  | throttle (r : Remedy)     -- `r.name` is ignored: the policy's name is used
  | retry
deriving Repr

/-- One configured policy (remedy): where it is attached, its name, whether it is enabled, what it is. -/
structure DPol where
  ep      : Option (String × String)    -- `none` = global, `some (url, method)` = that endpoint
  name    : String
  enabled : Bool
  kind    : DKind
deriving Repr

/-- `lo.FindDuplicates` of the policy names is non-empty. -/
def hasDuplicateNames (ps : List DPol) : Bool :=
  let ns := ps.map (·.name)
  ns.any fun n => decide (1 < ns.count n)

/-- the configuration passes `validateUniquePolicyNames` -/
def accepted (ps : List DPol) : Bool := !hasDuplicateNames ps

/-- the throttling remedy of a policy, under its configured name, with the production wiring -/
def remedyOf (p : DPol) : Option Remedy :=
  match p.kind with
  | .throttle r => some { r with name := p.name, identityHash := true }
  | .retry => none

def applies (p : DPol) (url method : String) : Bool :=
  p.enabled && (match p.ep with
    | none => true
    | some (u, m) => u == url && m == method)

/-- `getRemedies`: endpoint remedies first, then global ones, each in configuration order. -/
def chain (ps : List DPol) (url method : String) : List DPol :=
  (ps.filter fun p => p.ep.isSome && applies p url method) ++
  (ps.filter fun p => p.ep.isNone && applies p url method)

/-- `runOnRequest` over a chain: every throttling remedy takes its step; the first non-NoOp answer wins. -/
def runChain (cap : CapFn) (hs : List (String × String)) (t : Nat) :
    List DPol → State Key → Answer → State Key × Answer
  | [], st, ans => (st, ans)
  | p :: ps, st, ans =>
    match remedyOf p with
    | none => runChain cap hs t ps st ans
    | some r =>
      let (st', a) := pluginStep cap st r hs t
      runChain cap hs t ps st' (if ans == .noop then a else ans)

/-- `runner.DispatchOnRequest` as far as the verdict, the rejection status and body are concerned. -/
def dispatchStep (cap : CapFn) (st : State Key) (ps : List DPol) (url method : String)
    (hs : List (String × String)) (t : Nat) : State Key × Answer :=
  runChain cap hs t (chain ps url method) st .noop

/-- the throttling policies of a request's chain, with their position in the configuration -/
def throttlesOf (ps : List DPol) (url method : String) : List (Nat × Remedy) :=
  let idx := (List.range ps.length).zip ps
  let pick (global : Bool) := idx.filterMap fun (i, p) =>
    if (p.ep.isNone == global) && applies p url method then (remedyOf p).map (fun r => (i, r)) else none
  pick false ++ pick true

end LunarVerif.C09
