import LunarVerif.Model.C09
/-
Dispatcher level of policy-mode throttling: the production path
  policies.yaml → config.ReadPoliciesConfig (decode + validation) → config.BuildPolicyData → services.Initialize
  → runner.DispatchOnRequest.
Core Lean only.  Mirrored:

  config/policies_reader.go  validateUniquePolicyNames: `lo.FindDuplicates(extractAllPolicyNames(cfg))` over the
      names of ALL policies (global and per endpoint, enabled or not) must be empty            ↦ `accepted`
  runner/plugin_dispatcher.go getRemedies: the enabled remedies of the endpoint whose (url, method) the request
      has, in configuration order, then the enabled global remedies                            ↦ `chain`
  runner/plugin_runner.go runOnRequest: EVERY remedy of the chain is run (no short-circuit), the actions are
      prioritised: the first non-NoOp (early response) wins                                    ↦ `dispatchStep`
  obtainModifiedEarlyResponse: an early response is run through the response side of the chain as a synthetic
      response; retry sees a COPY (the early response keeps its status and body) — but a caching remedy STORES it
      and replays it to later requests of the (method, url) (finding F09g)                      ↦ `storeEarly`
  request-side prioritisation (actions/request_action_prioritize.go): NoOp yields to anything, an early response
      beats everything that comes later, Modify/GenerateRequest yield to a later early response ↦ first early wins
  The rate-limit state is keyed by the remedy NAME (`LimiterID`), not by the endpoint.

Only literal URLs are used (URL-tree matching is C03/C13's subject), in spellings with leading / trailing dots and
slashes; one spelling per declared URL and case (declaring one URL in two spellings is not generated).
-/
namespace LunarVerif.C09

inductive DKind where
  | throttle (r : Remedy)     -- `r.name` is ignored: the policy's name is used
  | retry (attempts lo hi : Int)  -- response side only: header-only ModifyResponseAction when lo ≤ status ≤ hi
  | other                     -- authentication (o_auth / api_key / basic), account orchestration: they change the
                              -- forwarded request (Modify/GenerateRequestAction), never the verdict
  | fixed (status : Int)      -- fixed_response: answers when the request carries `early-response: true`
  | cache (maxrec : Nat)      -- caching (endpoint only): serves / stores a response per (method, url)
deriving Repr

/-- One configured policy (remedy): where it is attached, its name, whether it is enabled, what it is. -/
structure DPol where
  ep      : Option (String × String)    -- `none` = global, `some (url, method)` = that endpoint
  name    : String
  enabled : Bool
  kind    : DKind
deriving Repr

/-- what leaves the dispatcher, as far as C09 is concerned -/
inductive DAns where
  | pass
  | early (status : Int) (body : String)
  | err
deriving DecidableEq, Repr

def tooMany : String := "Too many requests"
def goLunar : String := "{\"message\": \"GO Lunar\"}"

def toDAns : Answer → DAns
  | .noop => .pass
  | .early s => .early s tooMany
  | _ => .err

/-- rate-limit state and the caching plugin's store ((method, url) ↦ status, body; entries never expire here:
    the harness configures a TTL longer than any case) -/
structure DState where
  lim   : State Key := []
  cache : List ((String × String) × (Int × String)) := []
deriving Repr

def cacheGet (c : List ((String × String) × (Int × String))) (k : String × String) : Option (Int × String) :=
  (c.find? (fun e => e.1 == k)).map (·.2)

/-- `lo.FindDuplicates` of the policy names is non-empty. -/
def hasDuplicateNames (ps : List DPol) : Bool :=
  let ns := ps.map (·.name)
  ns.any fun n => decide (1 < ns.count n)

/-- the configuration passes `validateUniquePolicyNames` -/
def accepted (ps : List DPol) : Bool := !hasDuplicateNames ps

/-- the throttling remedy of a policy, under its configured name, with the production wiring -/
def remedyOf (p : DPol) : Option Remedy :=
  match p.kind with
  | .throttle r => some { r with name := p.name, identityHash := true }
  | _ => none

def isCache (p : DPol) : Bool := match p.kind with | .cache _ => true | _ => false

/-- kinds that can never answer a request themselves -/
def isTransparent (p : DPol) : Bool :=
  match p.kind with
  | .retry _ _ _ | .other => true
  | _ => false

/-- `strings.Trim(url, "./")`: how both `BuildEndpointPolicyTree` (the key under which the methods of one URL
    are collected) and the URL tree (`splitURL`) normalise a declared or requested URL. -/
def trimURL (s : String) : String :=
  let dotSlash (c : Char) : Bool := c == '.' || c == '/'
  String.ofList ((s.toList.dropWhile dotSlash).reverse.dropWhile dotSlash).reverse

/-- An endpoint policy applies to the requests of its method whose URL is the declared one up to leading /
    trailing dots and slashes; every method declared for a URL keeps its own policies. -/
def applies (p : DPol) (url method : String) : Bool :=
  p.enabled && (match p.ep with
    | none => true
    | some (u, m) => trimURL u == trimURL url && m == method)

/-- `getRemedies`: endpoint remedies first, then global ones, each in configuration order. -/
def chain (ps : List DPol) (url method : String) : List DPol :=
  (ps.filter fun p => p.ep.isSome && applies p url method) ++
  (ps.filter fun p => p.ep.isNone && applies p url method)

/-- One remedy's `OnRequest`. -/
def stepPol (cap : CapFn) (url method : String) (hs : List (String × String)) (t : Nat)
    (p : DPol) (s : DState) : DState × DAns :=
  match p.kind with
  | .throttle r =>
    let (lim', a) := pluginStep cap s.lim { r with name := p.name, identityHash := true } hs t
    ({ s with lim := lim' }, toDAns a)
  | .fixed status => (s, if lookupHdr hs "early-response" == "true" then .early status goLunar else .pass)
  | .cache _ =>
    (s, match cacheGet s.cache (method, url) with
        | some (st, b) => .early st b
        | none => .pass)
  | .retry _ _ _ | .other => (s, .pass)

/-- `runOnRequest` over a chain: EVERY remedy takes its step; the first answer that is not a pass wins. -/
def runChain (cap : CapFn) (url method : String) (hs : List (String × String)) (t : Nat) :
    List DPol → DState → DAns → DState × DAns
  | [], s, ans => (s, ans)
  | p :: ps, s, ans =>
    let (s', a) := stepPol cap url method hs t p s
    runChain cap url method hs t ps s' (if ans == .pass then a else ans)

/-- Response side of a chain on the synthetic response of an early response (`runOnResponse`): what the first
    caching remedy that stores would store.  `seen` is the (status, body) the running response carries: a retry
    remedy whose range covers the status (new sequence, attempts ≥ 1) answers with a header-only
    `ModifyResponseAction`, and `EnsureResponseIsUpdated` then overwrites status and body of the running response
    with that action's zero values — a caching remedy listed AFTER it stores status 0 and an empty body. -/
def storeWalk : List DPol → (Int × String) → Option (Int × String)
  | [], _ => none
  | p :: ps, seen =>
    match p.kind with
    | .retry attempts lo hi =>
      if decide (lo ≤ seen.1) && decide (seen.1 ≤ hi) && decide (1 ≤ attempts) then storeWalk ps (0, "")
      else storeWalk ps seen
    | .cache maxrec => if seen.2.utf8ByteSize ≤ maxrec then some seen else storeWalk ps seen
    | _ => storeWalk ps seen

/-- `obtainModifiedEarlyResponse`: the early response is run through the response side of the chain as a
    synthetic response — a caching remedy STORES it unless the (method, url) is already stored. -/
def storeEarly (c : List ((String × String) × (Int × String))) (ch : List DPol) (url method : String) :
    DAns → List ((String × String) × (Int × String))
  | .early st b =>
    if (cacheGet c (method, url)).isNone then
      match storeWalk ch (st, b) with
      | some rec => c ++ [((method, url), rec)]
      | none => c
    else c
  | _ => c

/-- `runner.DispatchOnRequest` as far as the verdict, the rejection status and body are concerned. -/
def dispatchStep (cap : CapFn) (s : DState) (ps : List DPol) (url method : String)
    (hs : List (String × String)) (t : Nat) : DState × DAns :=
  let ch := chain ps url method
  let (s', a) := runChain cap url method hs t ch s .pass
  ({ s' with cache := storeEarly s'.cache ch url method a }, a)

/-- the throttling policies of a request's chain, with their position in the configuration -/
def throttlesOf (ps : List DPol) (url method : String) : List (Nat × Remedy) :=
  let idx := (List.range ps.length).zip ps
  let pick (global : Bool) := idx.filterMap fun (i, p) =>
    if (p.ep.isNone == global) && applies p url method then (remedyOf p).map (fun r => (i, r)) else none
  pick false ++ pick true

/-- Classifier used by the judge for a failing dispatcher-level group: a caching remedy is configured (finding
    F09g: it stores and replays throttling rejections); else unexplained. -/
def findingD (ps : List DPol) : Option String :=
  if ps.any (fun p => p.enabled && isCache p) then some "F09g" else none

end LunarVerif.C09
