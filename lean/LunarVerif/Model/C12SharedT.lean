import LunarVerif.Model.C12Plugins
/-
ONE `ResponseBasedThrottlingPlugin` (one `MemoryCache`, key = (method, URL)) serves every response-based-throttling
remedy of the policies — endpoint and global remedies, and the configurations before/after a policies reload —
each with its own `retry_after_header`, `retry_after_type`, `relevant_statuses`.  An entry stored under
configuration A is found by a request handled under configuration B:
  OnResponse(A): status ∈ A.statuses; !Has(key); A's header readable as a number; TTL by A's type; Set(resp, now).
  OnRequest(B):  Get(key); B.type ≠ relative → replay the stored headers unchanged;
                 B.type = relative → read B's header FROM THE STORED RESPONSE: unreadable → error → NoOp;
                 lapsed ≥ value → NoOp; else replay with B's header := value − lapsed (other headers unchanged).
Responses carry a header list (unique names, looked up exactly); `num` reads a header value as seconds → ns
(`strconv.ParseFloat` on plain decimals, supplied by the driver).
-/
namespace LunarVerif.C12

structure TRemedy (σ : Type) where
  cfg : TCfg
  hdr : σ
deriving Repr

structure HResp (σ : Type) where
  id     : σ
  status : Nat
  body   : σ
  hdrs   : List (σ × σ)
deriving DecidableEq, Repr

structure HStored (σ : Type) where
  resp    : HResp σ
  created : Int
deriving DecidableEq, Repr

/-- a replayed header value: as stored, or recomputed (ns) -/
inductive HVal (σ : Type) where
  | raw (v : σ)
  | ns (n : Int)
deriving DecidableEq, Repr

inductive TSOp (σ : Type) where
  | resp (rm : TRemedy σ) (m u : σ) (r : HResp σ)
  | req (rm : TRemedy σ) (m u : σ)
  | fire (i : Nat)
  | skip (d : Nat)
  | adv (d : Nat)
  | probe
deriving Repr

inductive TSOut (σ : Type) where
  | noop
  | early (status : Nat) (body : σ) (hdrs : List (σ × HVal σ))
  | fired (r : FireRes)
  | advd (n : Nat)
  | unit
  | probed (tracked : Int) (held n pending : Nat)
deriving Repr

structure TSRec (σ : Type) where
  t   : Int
  op  : TSOp σ
  out : TSOut σ

section
variable {σ : Type} [DecidableEq σ]

/-- `headers[name]` -/
def hget (name : σ) : List (σ × σ) → Option σ
  | [] => none
  | p :: rest => if p.1 = name then some p.2 else hget name rest

def rawAll (hdrs : List (σ × σ)) : List (σ × HVal σ) := hdrs.map fun p => (p.1, .raw p.2)

/-- the copy loop of `getUpdatedHeaders` -/
def rewriteHdr (name : σ) (n : Int) (hdrs : List (σ × σ)) : List (σ × HVal σ) :=
  hdrs.map fun p => if p.1 = name then (p.1, .ns n) else (p.1, .raw p.2)

abbrev TSCache (σ : Type) := Cache (σ × σ) (HStored σ)

/-- the configured header of `rm` in `r`, as ns -/
def readRa (num : σ → Option Int) (rm : TRemedy σ) (r : HResp σ) : Option Int := (hget rm.hdr r.hdrs).bind num

def tsstep (absTtl : AbsTtl) (num : σ → Option Int) (c : TSCache σ) : TSOp σ → TSCache σ × TSOut σ
  | .resp rm m u r =>
    if !rm.cfg.statuses.contains r.status then (c, .noop)
    else if has c (m, u) then (c, .noop)
    else
      match (readRa num rm r).bind (ttlOf absTtl rm.cfg c.now) with
      | none => (c, .noop)
      | some ttl => ((set c (m, u) ⟨r, c.now⟩ ttl 0).1, .noop)
  | .req rm m u =>
    match get c (m, u) with
    | none => (c, .noop)
    | some s =>
      match rm.cfg.type with
      | .rel =>
        match readRa num rm s.resp with
        | none => (c, .noop)
        | some ra =>
          if c.now - s.created ≥ ra then (c, .noop)
          else (c, .early s.resp.status s.resp.body (rewriteHdr rm.hdr (ra - (c.now - s.created)) s.resp.hdrs))
      | _ => (c, .early s.resp.status s.resp.body (rawAll s.resp.hdrs))
  | .fire i => ((fire c i).1, .fired (fire c i).2)
  | .skip d => (skip c d, .unit)
  | .adv d => ((adv c d).1, .advd (adv c d).2)
  | .probe => (c, .probed c.tracked (heldSize c.entries) c.entries.length c.pending.length)

def tsrun (absTtl : AbsTtl) (num : σ → Option Int) (c : TSCache σ) : List (TSOp σ) → List (TSRec σ)
  | [] => []
  | op :: ops =>
    { t := c.now, op := op, out := (tsstep absTtl num c op).2 } :: tsrun absTtl num (tsstep absTtl num c op).1 ops

end

end LunarVerif.C12
