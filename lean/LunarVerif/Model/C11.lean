/-
Model of `config/policies_accessor.go` (`TxnPoliciesAccessor`) and `toolkit-core/vacuum/map_vacuum.go`
(`MapVacuum`).  Core Lean only.

Go state ↦ model state
  currentVersion                      ↦ `cur`
  policiesVersions  (map ver → data)  ↦ `versions`   (association list, newest binding first)
  txnVersions       (map txn → ver)   ↦ `pins`
  txnVersionsVacuum.entries           ↦ `pinQ`       (FIFO of (vacuumAt, key); ttl = `pinTTL`)
  policiesVersionsVacuum.entries      ↦ `verQ`       (ttl = `verTTL`)
  clock.Now()                         ↦ `now`        (ns)

A `*PoliciesData` is identified by a label (a `Nat`; transactions and versions are `Nat`s too); the empty `&PoliciesData{}` that
`GetCurrentPoliciesData` returns when the current version is missing is `none`.

Primitive steps (`Op`): `lookup` = `GetTxnPoliciesData`, `update d ok` = `UpdatePoliciesData`
(`ok = false`: `ManageHAProxyEndpoints` failed, nothing is changed), `vacPins` / `vacVers` = one run of
`MapVacuum.vacuum()` of either vacuum (they run on background goroutines, i.e. at arbitrary
instants: here they are ordinary steps that may occur anywhere in a history), `advance` = time passes.
`vacuum()` deletes the keys of the maximal queue prefix with `vacuumAt.Before(now)` (strict) and
stops at the first entry that is not expired (`break`).
-/
namespace LunarVerif.C11


/-! ### Go maps as association lists -/

def mfind {α : Type} (k : Nat) : List (Nat × α) → Option α
  | [] => none
  | (k', v) :: m => if k' = k then some v else mfind k m

/-- `delete(m, k)` for every `k ∈ ks`. -/
def eraseAll {α : Type} (ks : List Nat) (m : List (Nat × α)) : List (Nat × α) :=
  m.filter (fun p => !ks.contains p.1)

/-- `m[k] = v`. -/
def minsert {α : Type} (k : Nat) (v : α) (m : List (Nat × α)) : List (Nat × α) :=
  (k, v) :: eraseAll [k] m

/-! ### The vacuum queue -/

/-- Keys of the maximal prefix with `vacuumAt < now` (the loop `break`s at the first other entry). -/
def expiredKeys (now : Nat) : List (Nat × Nat) → List Nat
  | [] => []
  | (t, k) :: rest => if t < now then k :: expiredKeys now rest else []

/-- `entries[deleteUntil:]`. -/
def dropExpired (now : Nat) : List (Nat × Nat) → List (Nat × Nat)
  | [] => []
  | (t, k) :: rest => if t < now then dropExpired now rest else (t, k) :: rest

/-! ### The accessor -/

structure Cfg where
  pinTTL : Nat    -- ttl of txnVersionsVacuum      (staleVersionTTL)
  verTTL : Nat    -- ttl of policiesVersionsVacuum (staleVersionTTL)
  d0     : Nat   -- the initial policies (version 1)
deriving Repr

structure St where
  now      : Nat
  cur      : Nat
  versions : List (Nat × Nat)
  pins     : List (Nat × Nat)
  pinQ     : List (Nat × Nat)
  verQ     : List (Nat × Nat)
deriving Repr

/-- `NewTxnPoliciesAccessor(policiesData)` at instant `t0`. -/
def init (cfg : Cfg) (t0 : Nat) : St :=
  { now := t0, cur := 1, versions := [(1, cfg.d0)], pins := [], pinQ := [], verQ := [] }

inductive Op where
  | lookup (x : Nat)
  | update (d : Nat) (ok : Bool)
  | vacPins
  | vacVers
  | advance (d : Nat)
deriving Repr, DecidableEq

/-- What an outside observer sees: answers of lookups and applied updates, with the clock. -/
inductive Ev where
  | lookup (t : Nat) (x : Nat) (r : Option Nat)
  | update (t : Nat) (d : Nat)
deriving Repr, DecidableEq

/-- Second half of `GetTxnPoliciesData`: `policiesVersions[v]`, else "will return current version
    instead" (`GetCurrentPoliciesData`, which yields the empty data = `none` if even that is missing). -/
def getData (s : St) (v : Nat) : Option Nat :=
  match mfind v s.versions with
  | some d => some d
  | none => mfind s.cur s.versions

def step (cfg : Cfg) (s : St) : Op → St × Option Ev
  | .lookup x =>
    match mfind x s.pins with
    | some v => (s, some (.lookup s.now x (getData s v)))
    | none =>
      -- setTxnVersion: pin to the current version, then VacuumKey(txn)
      let s' := { s with pins := minsert x s.cur s.pins, pinQ := s.pinQ ++ [(s.now + cfg.pinTTL, x)] }
      (s', some (.lookup s.now x (getData s' s.cur)))
  | .update d true =>
    -- setNextVersion: cur++, store, then VacuumKey(previous)
    ({ s with cur := s.cur + 1, versions := minsert (s.cur + 1) d s.versions,
              verQ := s.verQ ++ [(s.now + cfg.verTTL, s.cur)] },
     some (.update s.now d))
  | .update _ false => (s, none)
  | .vacPins =>
    ({ s with pins := eraseAll (expiredKeys s.now s.pinQ) s.pins, pinQ := dropExpired s.now s.pinQ }, none)
  | .vacVers =>
    ({ s with versions := eraseAll (expiredKeys s.now s.verQ) s.versions,
              verQ := dropExpired s.now s.verQ }, none)
  | .advance d => ({ s with now := s.now + d }, none)

/-- Final state after a list of primitive steps. -/
def runSt (cfg : Cfg) : St → List Op → St
  | s, [] => s
  | s, o :: os => runSt cfg (step cfg s o).1 os

/-- Observable history (oldest first) of a list of primitive steps. -/
def run (cfg : Cfg) : St → List Op → List Ev
  | _, [] => []
  | s, o :: os =>
    match (step cfg s o).2 with
    | some e => e :: run cfg (step cfg s o).1 os
    | none => run cfg (step cfg s o).1 os

/-! ### The deterministic schedule used by the correspondence harness

The harness drives the real background goroutines on the repo's mock clock: a vacuum goroutine is
started by the first `VacuumKey` of its vacuum, runs `vacuum()` at once and then after every `tick`;
the harness advances the clock from timer deadline to timer deadline and waits for the woken
goroutine to park again.  `Sched` expands a harness op into primitive steps accordingly; the theorems
quantify over ALL lists of primitive steps, so they cover these expansions. -/

structure Sched where
  tick    : Nat
  pinWake : Option Nat := none   -- next deadline of the pins vacuum goroutine (none = not started)
  verWake : Option Nat := none
deriving Repr

def dueAt (w : Option Nat) (t : Nat) : Bool := w == some t

def nextWake : Option Nat → Option Nat → Option Nat
  | none, b => b
  | a, none => a
  | some a, some b => some (min a b)

/-- Steps performed while the clock goes from `now` to `target` (fuel bounds the number of ticks). -/
def advanceOps (tick : Nat) : Nat → Nat → Nat → Option Nat → Option Nat → List Op × Option Nat × Option Nat
  | 0, now, target, pw, vw => ([.advance (target - now)], pw, vw)
  | fuel + 1, now, target, pw, vw =>
    match nextWake pw vw with
    | none => ([.advance (target - now)], pw, vw)
    | some w =>
      if w ≤ target then
        let ops := [Op.advance (w - now)] ++ (if dueAt pw w then [Op.vacPins] else [])
                    ++ (if dueAt vw w then [Op.vacVers] else [])
        let pw' := if dueAt pw w then some (w + tick) else pw
        let vw' := if dueAt vw w then some (w + tick) else vw
        let (rest, pw'', vw'') := advanceOps tick fuel w target pw' vw'
        (ops ++ rest, pw'', vw'')
      else ([.advance (target - now)], pw, vw)

end LunarVerif.C11
