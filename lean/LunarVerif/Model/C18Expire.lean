/-!
# C18 — the stored-request clean-up goroutine (`ExpireWatcher`, shared_state.utils.go)

A transaction stores its request under its sequence id (`APIStream.StoreRequest`: `shareState.Set` then
`ExpireWatcher.AddKey(key, expiration)`), the response side discards it (`DiscardRequest`: `Pop`, the
watcher is NOT told), and a background goroutine periodically removes every key whose deadline has
passed (`removeExpiredKeys`: `removeFunction(key)`, `delete(keysToRemove, key)`).  A retry of the same
sequence stores under the same key again; `AddKey` overwrites the deadline.

State: the shared store (set of keys holding a value), the watcher's deadline table, the clock, and a
ghost table `want` of the keys that were stored and not discarded since, with the deadline of their
LATEST store — what the owning transaction relies on.
-/
namespace LunarVerif.C18.Expire

abbrev Tbl := List (String × Nat)

def Tbl.set (t : Tbl) (k : String) (v : Nat) : Tbl := (k, v) :: t.filter (·.1 != k)
def Tbl.del (t : Tbl) (k : String) : Tbl := t.filter (·.1 != k)

structure St where
  now : Nat := 0
  store : List String := []
  dls : Tbl := []          -- ExpireWatcher.keysToRemove
  want : Tbl := []         -- ghost: live stored requests and the deadline of their latest store
  deriving Repr

inductive Op
  | add (k : String) (d : Nat)     -- StoreRequest: Set + AddKey(key, d)
  | discard (k : String)           -- DiscardRequest: Pop
  | sleep (n : Nat)
  | sweep                          -- one pass of removeExpiredKeys
  deriving Repr

def expired (now : Nat) (e : String × Nat) : Bool := decide (e.2 ≤ now)   -- !time.Now().Before(deadline)

def step (s : St) : Op → St
  | .add k d =>
    { s with store := k :: s.store.filter (· != k), dls := s.dls.set k (s.now + d), want := s.want.set k (s.now + d) }
  | .discard k => { s with store := s.store.filter (· != k), want := s.want.del k }
  | .sleep n => { s with now := s.now + n }
  | .sweep =>
    let gone := (s.dls.filter (expired s.now)).map (·.1)
    { s with store := s.store.filter (fun k => !gone.contains k), dls := s.dls.filter (fun e => !expired s.now e) }

def run (ops : List Op) (s : St) : St := ops.foldl step s

/-- what a sweep op reports: the keys of `ks` that still hold a value -/
def present (s : St) (ks : List String) : List String := ks.filter (s.store.contains ·)

end LunarVerif.C18.Expire
