/-
Model of the configuration-update protocol of the lunar engine (core Lean only):

* `config/gateway_file_system.go`   — `FileSystemOperation` (Backup / Restore / CleanAll / Save*,
  `storeFileOnDisk`, `GetDiff`), transcribed literally, including the accidents:
  `Restore` computes `currentSnapshot.GetDiff(backup.md5)` (receiver and argument swapped), so it
  iterates the CURRENT snapshot and writes the CURRENT contents back; `storeFileOnDisk` removes the
  file before anything that can fail; `SaveMetricsConfig` writes `GetMetricsConfigFilePath()` (the
  built-in default file when the user file does not exist) while the backup covers
  `GetUserMetricsConfigFilePath()`.
* `routing/handling_data_manager.go` — `handleConfiguration`, `handleApplyFlows`, `reloadFlows`,
  `initializeStreams` (`rd.stream = stream` BEFORE `stream.Initialize()`), the method check that
  answers 405 but does not `return`.
* `streams/config/flows_payload.utils.go` — `ParsePayload` (base64), `SavePayloadContentToDisk`
  (flows, quotas, path params, gateway config, metrics — in that order), `CleanUpGatewayDirectories`.

The file system is a finite map path → bytes (association list, first binding wins; well-formed
disks have no duplicate keys).  MD5 is modelled as the identity (an injective function).  YAML
decoding / flow validation / metrics loading are predicates of the environment (`Env`), as are the
injected faults (`plan`: which primitive step fails) and the order in which Go iterates its maps
(the order of the item list, `cleanOrder`).
-/
namespace LunarVerif.C08

/-- The paths `FileSystemOperation` knows about, plus the built-in metrics file. -/
inductive Path
  | flow (name : String)      -- <LUNAR_PROXY_FLOW_DIRECTORY>/name
  | quota (name : String)     -- <LUNAR_PROXY_QUOTAS_DIRECTORY>/name
  | pparam (name : String)    -- <LUNAR_FLOWS_PATH_PARAM_DIR>/name
  | gateway                   -- LUNAR_PROXY_CONFIG
  | userMetrics               -- LUNAR_PROXY_METRICS_CONFIG
  | defaultMetrics            -- LUNAR_PROXY_METRICS_CONFIG_DEFAULT (not in the scope of the backup)
deriving DecidableEq, Repr

abbrev Bytes := String
abbrev Disk := List (Path × Bytes)

namespace Disk
def get : Disk → Path → Option Bytes
  | [], _ => none
  | (q, c) :: rest, p => if q = p then some c else get rest p

/-- `os.Remove` (a missing file is not an error). -/
def remove (d : Disk) (p : Path) : Disk := d.filter (fun e => decide (e.1 ≠ p))

/-- create + write. -/
def write (d : Disk) (p : Path) (c : Bytes) : Disk := (p, c) :: remove d p

def keys (d : Disk) : List Path := d.map (·.1)

/-- No path is bound twice. -/
def WF (d : Disk) : Prop := (keys d).Nodup
end Disk

/-- Inside one of the three directories (`fs.directories`). -/
def Path.inDirs : Path → Bool
  | .flow _ | .quota _ | .pparam _ => true
  | _ => false

/-- In the scope of `FileSystemOperation` (three directories + gateway config + USER metrics file). -/
def Path.covered : Path → Bool
  | .defaultMetrics => false
  | _ => true

/-- The stream engine pointer `rd.stream`: an engine initialised from a disk snapshot, or a
    published engine whose `Initialize()` has not (successfully) run: empty filter tree. -/
inductive Engine
  | ready (snap : Disk)
  | uninit
deriving Repr

/-- What a transaction is served with: the flow file content the engine loaded for `p`
    (`none` = no flow applies). -/
def Engine.probe : Engine → Path → Option Bytes
  | .ready s, p => s.get p
  | .uninit, _ => none

/-- Primitive steps that can be made to fail. `r` = reload round (1 = after the save, 2 = after the restore). -/
inductive Step
  | backupRead                 -- any read of `Backup()`
  | cleanRemove (p : Path)     -- `cleanUpFile` of `CleanAll` (apply_flows)
  | save (item : Path)         -- `storeFileOnDisk` for the payload item `item`
  | validate (r : Nat)         -- dry run
  | initialize (r : Nat)       -- `stream.Initialize()`
  | haproxy (r : Nat)          -- `ManageHAProxyEndpoints`
  | metrics (r : Nat)          -- `ReloadMetricsConfig`
  | restoreRead                -- any read of the snapshot taken by `Restore()`
  | restoreStore (p : Path)    -- `storeFileOnDisk` inside `Restore()`
deriving DecidableEq, Repr

structure Env where
  plan : Step → Bool                 -- injected faults
  validates : Disk → Bool            -- verdict of the dry run on a disk
  metricsOk : Disk → Bool            -- the effective metrics file loads
  hasEndpoints : Disk → Bool         -- the engine asks HAProxy to manage at least one endpoint
  cleanOrder : List Path             -- order in which `CleanAll` ranges over `fs.files`

structure Item where
  path : Path                  -- `userMetrics` designates the `metrics` field of the payload
  content : Option Bytes       -- `none` = not valid base64
deriving Repr, DecidableEq

inductive Body
  | badJson
  | null
  | payload (items : List Item)
deriving Repr

inductive Endpoint | configuration | applyFlows
deriving DecidableEq, Repr

structure Req where
  ep : Endpoint
  methodPut : Bool
  body : Body
  gate : Bool      -- a transaction arrives between `rd.stream = stream` and `Initialize()`
deriving Repr

inductive Phase | decode | nodata | backup | parse | cleanup | save | reload | ok
deriving DecidableEq, Repr

structure State where
  disk : Disk
  engine : Engine
deriving Repr

structure Result where
  status : Nat
  phase : Phase
  disk : Disk
  engine : Engine
  mid : List Engine     -- engine seen by the transactions arriving at the publish points
deriving Repr

/-- `ParsePayload`: every item must be valid base64. -/
def parse : List Item → Option (List (Path × Bytes))
  | [] => some []
  | i :: rest =>
    match i.content, parse rest with
    | some c, some ps => some ((i.path, c) :: ps)
    | _, _ => none

/-- Where a payload item is written. `SaveMetricsConfig` → `GetMetricsConfigFilePath()`. -/
def saveTarget (d : Disk) (p : Path) : Path :=
  if p = .userMetrics then
    (if (d.get .userMetrics).isSome then .userMetrics else .defaultMetrics)
  else p

/-- `storeFileOnDisk`: the file is removed first; a failure leaves it removed. -/
def store (fault : Bool) (d : Disk) (p : Path) (c : Bytes) : Disk × Bool :=
  if fault then (d.remove p, false) else (d.write p c, true)

/-- `SavePayloadContentToDisk`: stops at the first failure. -/
def saveAll (env : Env) : Disk → List (Path × Bytes) → Disk × Bool
  | d, [] => (d, true)
  | d, (p, c) :: rest =>
    let r := store (env.plan (.save p)) d (saveTarget d p) c
    if r.2 then saveAll env r.1 rest else (r.1, false)

/-- `createFileSystemBackUp` (content; the md5 table is the same data). -/
def snapshot (d : Disk) : Disk := d.filter (fun e => e.1.covered)

/-- `self.GetDiff(other.dataMD5)`: entries of SELF whose checksum differs in `other`, with SELF's content. -/
def getDiff (self other : Disk) : Disk :=
  self.filter (fun e => decide (other.get e.1 ≠ some e.2))

/-- The loop of `Restore()`. -/
def storeAll (env : Env) : Disk → List (Path × Bytes) → Disk × Bool
  | d, [] => (d, true)
  | d, (p, c) :: rest =>
    let r := store (env.plan (.restoreStore p)) d p c
    if r.2 then storeAll env r.1 rest else (r.1, false)

/-- `Restore()` as written: `fileSystemSnapshot.GetDiff(fs.backUp.dataMD5)`. -/
def restore (env : Env) (backup d : Disk) : Disk × Bool :=
  if env.plan .restoreRead then (d, false)
  else storeAll env d (getDiff (snapshot d) backup)

structure Reload where
  engine : Engine
  mid : List Engine
  ok : Bool

/-- `reloadFlows` = dry run; `initializeStreams` (publish, Initialize, HAProxy); metrics reload. -/
def reload (env : Env) (r : Nat) (gate : Bool) (d : Disk) (e : Engine) (mid : List Engine) : Reload :=
  if env.plan (.validate r) || !env.validates d then ⟨e, mid, false⟩
  else
    -- rd.stream = stream   (published, not initialised)
    let mid := if gate then mid ++ [Engine.uninit] else mid
    if env.plan (.initialize r) then ⟨.uninit, mid, false⟩
    else if env.plan (.haproxy r) && env.hasEndpoints d then ⟨.ready d, mid, false⟩
    else if env.plan (.metrics r) || !env.metricsOk d then ⟨.ready d, mid, false⟩
    else ⟨.ready d, mid, true⟩

/-- First `WriteHeader` wins: a non-PUT request is answered 405 and processed all the same. -/
def statusOf (req : Req) (s : Nat) : Nat := if req.methodPut then s else 405

def handleConfiguration (env : Env) (st : State) (req : Req) : Result :=
  match req.body with
  | .badJson => ⟨statusOf req 400, .decode, st.disk, st.engine, []⟩
  | .null => ⟨statusOf req 400, .nodata, st.disk, st.engine, []⟩
  | .payload items =>
    if env.plan .backupRead then ⟨statusOf req 500, .backup, st.disk, st.engine, []⟩
    else
      let backup := snapshot st.disk
      match parse items with
      | none => ⟨statusOf req 400, .parse, st.disk, st.engine, []⟩
      | some parsed =>
        let s := saveAll env st.disk parsed
        if !s.2 then
          ⟨statusOf req 500, .save, (restore env backup s.1).1, st.engine, []⟩
        else
          let r1 := reload env 1 req.gate s.1 st.engine []
          if r1.ok then ⟨statusOf req 200, .ok, s.1, r1.engine, r1.mid⟩
          else
            let d2 := (restore env backup s.1).1
            let r2 := reload env 2 req.gate d2 r1.engine r1.mid
            ⟨statusOf req 422, .reload, d2, r2.engine, r2.mid⟩

/-- `CleanAll`, second half: `cleanUpFile` over `fs.files`. -/
def cleanFiles (env : Env) : Disk → List Path → Disk × Bool
  | d, [] => (d, true)
  | d, p :: rest =>
    if env.plan (.cleanRemove p) then (d, false) else cleanFiles env (d.remove p) rest

/-- `CleanAll`: the three directories, then the two files. -/
def cleanAll (env : Env) (d : Disk) : Disk × Bool :=
  cleanFiles env (d.filter (fun e => !e.1.inDirs)) env.cleanOrder

def handleApplyFlows (env : Env) (st : State) (req : Req) : Result :=
  match req.body with
  | .badJson => ⟨statusOf req 400, .decode, st.disk, st.engine, []⟩
  | .null => ⟨statusOf req 400, .nodata, st.disk, st.engine, []⟩
  | .payload items =>
    match parse items with
    | none => ⟨statusOf req 400, .parse, st.disk, st.engine, []⟩
    | some parsed =>
      let c := cleanAll env st.disk
      if !c.2 then ⟨statusOf req 500, .cleanup, c.1, st.engine, []⟩
      else
        let s := saveAll env c.1 parsed
        if !s.2 then ⟨statusOf req 500, .save, s.1, st.engine, []⟩
        else
          let r1 := reload env 1 req.gate s.1 st.engine []
          if r1.ok then ⟨statusOf req 200, .ok, s.1, r1.engine, r1.mid⟩
          else ⟨statusOf req 422, .reload, s.1, r1.engine, r1.mid⟩

def handle (env : Env) (st : State) (req : Req) : Result :=
  match req.ep with
  | .configuration => handleConfiguration env st req
  | .applyFlows => handleApplyFlows env st req

def Result.state (r : Result) : State := ⟨r.disk, r.engine⟩

/-! ### The proposed fix (NOT the current code): `Restore` iterates the BACKUP, writes the backed-up
    contents and removes the covered paths that are absent from the backup; `SaveMetricsConfig`
    writes the user metrics path (the one the backup covers). -/

/-- Corrected loop: for every backed-up path whose current content differs, store the backed-up content. -/
def storeBackAll (env : Env) (backup : Disk) : Disk → List Path → Disk × Bool
  | d, [] => (d, true)
  | d, p :: rest =>
    match backup.get p with
    | none => storeBackAll env backup d rest
    | some c =>
      if d.get p = some c then storeBackAll env backup d rest
      else
        let r := store (env.plan (.restoreStore p)) d p c
        if r.2 then storeBackAll env backup r.1 rest else (r.1, false)

/-- Corrected `Restore()`. -/
def restoreFixed (env : Env) (backup d : Disk) : Disk × Bool :=
  if env.plan .restoreRead then (d, false)
  else
    let r := storeBackAll env backup d backup.keys
    if r.2 then
      (r.1.filter (fun e => !e.1.covered || (backup.get e.1).isSome), true)
    else r

/-- `SavePayloadContentToDisk` with `SaveMetricsConfig` writing `fs.files[metricsConfigFileKey]`. -/
def saveAllFixed (env : Env) : Disk → List (Path × Bytes) → Disk × Bool
  | d, [] => (d, true)
  | d, (p, c) :: rest =>
    let r := store (env.plan (.save p)) d p c
    if r.2 then saveAllFixed env r.1 rest else (r.1, false)

def handleConfigurationFixed (env : Env) (st : State) (req : Req) : Result :=
  match req.body with
  | .badJson => ⟨statusOf req 400, .decode, st.disk, st.engine, []⟩
  | .null => ⟨statusOf req 400, .nodata, st.disk, st.engine, []⟩
  | .payload items =>
    if env.plan .backupRead then ⟨statusOf req 500, .backup, st.disk, st.engine, []⟩
    else
      let backup := snapshot st.disk
      match parse items with
      | none => ⟨statusOf req 400, .parse, st.disk, st.engine, []⟩
      | some parsed =>
        let s := saveAllFixed env st.disk parsed
        if !s.2 then
          ⟨statusOf req 500, .save, (restoreFixed env backup s.1).1, st.engine, []⟩
        else
          let r1 := reload env 1 req.gate s.1 st.engine []
          if r1.ok then ⟨statusOf req 200, .ok, s.1, r1.engine, r1.mid⟩
          else
            let d2 := (restoreFixed env backup s.1).1
            let r2 := reload env 2 req.gate d2 r1.engine r1.mid
            ⟨statusOf req 422, .reload, d2, r2.engine, r2.mid⟩

/-- `/apply_flows` on a tree carrying the proposed `SaveMetricsConfig` change only (still no backup:
    F08b is not addressed by the proposed diff). Used by `lvdriver_c08 run-fixed`. -/
def handleApplyFlowsFixed (env : Env) (st : State) (req : Req) : Result :=
  match req.body with
  | .badJson => ⟨statusOf req 400, .decode, st.disk, st.engine, []⟩
  | .null => ⟨statusOf req 400, .nodata, st.disk, st.engine, []⟩
  | .payload items =>
    match parse items with
    | none => ⟨statusOf req 400, .parse, st.disk, st.engine, []⟩
    | some parsed =>
      let c := cleanAll env st.disk
      if !c.2 then ⟨statusOf req 500, .cleanup, c.1, st.engine, []⟩
      else
        let s := saveAllFixed env c.1 parsed
        if !s.2 then ⟨statusOf req 500, .save, s.1, st.engine, []⟩
        else
          let r1 := reload env 1 req.gate s.1 st.engine []
          if r1.ok then ⟨statusOf req 200, .ok, s.1, r1.engine, r1.mid⟩
          else ⟨statusOf req 422, .reload, s.1, r1.engine, r1.mid⟩

end LunarVerif.C08
